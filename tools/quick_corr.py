#!/usr/bin/env python3
"""Debug aid: generate the scripts of one property, run implementation and model binaries (no Coq build, no evidence), report
disagreements and oracle failures.  python3 tools/quick_corr.py C08 [filter-substring-in-first-op]"""
import importlib, os, random, sys
ROOT = os.path.dirname(os.path.dirname(os.path.abspath(__file__)))
sys.path.insert(0, ROOT)
import verif
pid = sys.argv[1]
flt = sys.argv[2] if len(sys.argv) > 2 else None
mod = importlib.import_module("props_py." + pid)
scripts = (mod.corpus() if hasattr(mod, "corpus") else []) + mod.generate(random.Random(1), "quick", 1)
if flt:
    scripts = [s for s in scripts if s["ops"][0].startswith(flt)]
impl = os.path.join(ROOT, "harness", "target", "debug", "implrun")
model = os.path.join(ROOT, "modelrun", "modelrun")
io, _ = verif.run_sharded(impl, scripts, 240, "impl")
mo, _ = verif.run_sharded(model, scripts, 240, "model")
dis = 0
fails = 0
project = getattr(mod, "project", verif.default_project)
project_all = getattr(mod, "project_all", None)
for s, a, b in zip(scripts, io, mo):
    differs = None
    if a is None or b is None:
        differs = ("<missing>", "", "")
    else:
        a2, b2 = verif.truncate_at_panic(a), verif.truncate_at_panic(b)
        if project_all is not None:
            a2, b2 = project_all(s, a2), project_all(s, b2)
        for i in range(max(len(a2), len(b2))):
            la = project(s, i, a2[i]) if i < len(a2) else "<missing>"
            lb = project(s, i, b2[i]) if i < len(b2) else "<missing>"
            if la is None or lb is None:
                continue
            if la != lb:
                differs = (s["ops"][i] if i < len(s["ops"]) else "?", la, lb)
                break
    if differs:
        dis += 1
        if dis <= 3:
            print("DISAGREE", s["ops"][:2])
            print("   ", differs[0][:60], "| impl:", differs[1][:60], "| model:", differs[2][:60])
    f = [x for x in mod.oracle(s, a or []) if not isinstance(x, tuple)]
    if f:
        fails += 1
        if fails <= 5:
            print("ORACLE", f[:1], s["ops"][:2])
print(pid, "scripts", len(scripts), "disagreements", dis, "oracle failures", fails)
