"""rsparse: tokenizer and recursive-descent parser for the imperative subset of Rust that tools/rs2coq2.py translates.

AST (tuples):
  expressions
    ('num', int) ('bool', b) ('bytes', [int]) ('str', text) ('path', [seg, ...])
    ('unary', op, e)            op in '!', '-', '*', '&', '&mut'
    ('bin', op, a, b)           arithmetic, comparison, && ||
    ('cast', e, ty)
    ('call', fn_expr, [args])   ('mcall', recv, name, [args])   ('field', e, name)
    ('index', e, idx)           idx an expression or ('range', lo|None, hi|None, inclusive)
    ('if', cond, block, else_block|None)      block = ('block', [stmts], tail|None)
    ('match', scrut, [(pat, body)])
    ('closure', [param names], body)
    ('try', e)                  the postfix `?`
    ('struct', name, [(field, e)])   ('tuple', [es])
    ('macro', name, [arg exprs], raw token list)
    ('return', e|None) ('break',)
    ('while', cond, block) ('loop', block)
  statements
    ('let', pat, e) ('const', name, e) ('assign', place, op, e) ('expr', e)
  patterns
    ('pwild',) ('pbind', name) ('ppath', [segs], [subpats]|None) ('plit', e) ('ptuple', [pats]) ('por', [pats])
"""
import re


class Unsupported(Exception):
    pass


TOKEN = re.compile(r"""
    (?P<ws>\s+|//[^\n]*|/\*.*?\*/)
  | (?P<bchar>b'(?:\\.|[^\\'])')
  | (?P<char>'(?:\\.|[^\\'])')
  | (?P<bstr>b"(?:\\.|[^"\\])*")
  | (?P<str>"(?:\\.|[^"\\])*")
  | (?P<life>'[A-Za-z_][A-Za-z0-9_]*(?!'))
  | (?P<num>\d[\d_]*(?:usize|u64|u32|u16|u8|i32|i64)?)
  | (?P<id>[A-Za-z_][A-Za-z0-9_]*)
  | (?P<op>\.\.=|\.\.|::|->|=>|==|!=|<=|>=|&&|\|\||\+=|-=|\*=|/=|[-+*/%<>!=(){}\[\];,.&:|?\#@])
""", re.X | re.S)

ESC = {"n": 10, "r": 13, "t": 9, "\\": 92, "'": 39, '"': 34, "0": 0}


def unescape(s):
    out = []
    i = 0
    while i < len(s):
        if s[i] == "\\":
            c = s[i + 1]
            if c == "x":
                out.append(int(s[i + 2:i + 4], 16))
                i += 4
                continue
            if c not in ESC:
                raise Unsupported("escape \\%s" % c)
            out.append(ESC[c])
            i += 2
        else:
            out.append(ord(s[i]))
            i += 1
    return out


def tokenize(src):
    out = []
    pos = 0
    while pos < len(src):
        m = TOKEN.match(src, pos)
        if not m:
            raise Unsupported("cannot tokenize at: %r" % src[pos:pos + 30])
        pos = m.end()
        k = m.lastgroup
        t = m.group(k)
        if k in ("ws", "life"):
            continue
        if k == "bchar":
            out.append(("num", unescape(t[2:-1])[0]))
        elif k == "char":
            out.append(("num", unescape(t[1:-1])[0]))
        elif k == "bstr":
            out.append(("bytes", unescape(t[2:-1])))
        elif k == "str":
            out.append(("str", t[1:-1]))
        elif k == "num":
            out.append(("num", int(re.sub(r"(usize|u64|u32|u16|u8|i32|i64)$", "", t).replace("_", ""))))
        elif k == "id":
            out.append(("id", t))
        else:
            out.append(("op", t))
    return out


PREC = {"||": 1, "&&": 2, "==": 3, "!=": 3, "<": 3, "<=": 3, ">": 3, ">=": 3, "|": 4, "&": 4, "+": 5, "-": 5, "*": 6, "/": 6, "%": 6}


class P(object):
    def __init__(self, toks):
        self.t = toks
        self.i = 0

    def peek(self, k=0):
        return self.t[self.i + k] if self.i + k < len(self.t) else ("eof", "")

    def next(self):
        tok = self.peek()
        self.i += 1
        return tok

    def at(self, v, k=0):
        tok = self.peek(k)
        return tok[0] in ("op", "id") and tok[1] == v

    def eat(self, v):
        if self.at(v):
            self.i += 1
            return True
        return False

    def expect(self, v):
        tok = self.next()
        if not (tok[0] in ("op", "id") and tok[1] == v):
            raise Unsupported("expected %r, got %r" % (v, tok[1]))

    # ------------------------------------------------------------ types (skipped, returned as text)
    def type_(self):
        depth = 0
        parts = []
        while True:
            tok = self.peek()
            if tok[0] == "eof":
                break
            if tok[0] == "op" and tok[1] in ("<", "(", "["):
                depth += 1
            elif tok[0] == "op" and tok[1] in (">", ")", "]"):
                if depth == 0:
                    break
                depth -= 1
            elif tok[0] == "op" and tok[1] in (",", "=", ";", "{", "=>") and depth == 0:
                break
            elif tok[0] == "op" and tok[1] == "->" and depth == 0:
                break
            parts.append(str(tok[1]))
            self.next()
        return " ".join(parts)

    # ------------------------------------------------------------ patterns
    def pattern(self):
        alts = [self.pattern1()]
        while self.at("|"):
            self.next()
            alts.append(self.pattern1())
        return alts[0] if len(alts) == 1 else ("por", alts)

    def pattern1(self):
        while self.at("&") or self.at("mut") or self.at("ref"):
            self.next()
        tok = self.peek()
        if tok == ("id", "_"):
            self.next()
            return ("pwild",)
        if tok[0] == "num":
            self.next()
            return ("plit", ("num", tok[1]))
        if tok[0] == "bytes":
            self.next()
            return ("plit", ("bytes", tok[1]))
        if tok == ("op", "("):
            self.next()
            ps = []
            while not self.at(")"):
                ps.append(self.pattern())
                self.eat(",")
            self.expect(")")
            return ("ptuple", ps)
        if tok[0] == "id":
            segs = [self.next()[1]]
            while self.at("::"):
                self.next()
                segs.append(self.next()[1])
            if self.at("("):
                self.next()
                subs = []
                while not self.at(")"):
                    subs.append(self.pattern())
                    self.eat(",")
                self.expect(")")
                return ("ppath", segs, subs)
            if len(segs) == 1 and (segs[0][0].islower() or segs[0][0] == "_") and segs[0] not in ("true", "false"):
                if self.at("@"):
                    raise Unsupported("binding @ pattern")
                return ("pbind", segs[0])
            if segs == ["true"] or segs == ["false"]:
                return ("plit", ("bool", segs[0] == "true"))
            return ("ppath", segs, None)
        raise Unsupported("pattern at %r" % (tok,))

    # ------------------------------------------------------------ expressions
    def expr(self, minp=0, nostruct=False):
        lhs = self.unary(nostruct)
        while True:
            tok = self.peek()
            if tok == ("id", "as"):
                self.next()
                # the type of a cast is a path (u64, usize, std::primitive::u8): not the general type grammar, which would
                # swallow a following comparison operator
                ty = [self.next()[1]]
                while self.at("::"):
                    self.next()
                    ty.append(self.next()[1])
                lhs = ("cast", lhs, str(ty[-1]))
                continue
            if tok[0] == "op" and tok[1] in ("..", "..="):
                if minp > 0:
                    break
                self.next()
                hi = None
                if not (self.at("]") or self.at(")") or self.at("{")):
                    hi = self.expr(1, nostruct)
                lhs = ("range", lhs, hi, tok[1] == "..=")
                continue
            if tok[0] != "op" or tok[1] not in PREC or PREC[tok[1]] < minp:
                break
            op = tok[1]
            self.next()
            rhs = self.expr(PREC[op] + 1, nostruct)
            lhs = ("bin", op, lhs, rhs)
        return lhs

    def unary(self, nostruct):
        tok = self.peek()
        if tok == ("op", "!"):
            self.next()
            return ("unary", "!", self.unary(nostruct))
        if tok == ("op", "-"):
            self.next()
            return ("unary", "-", self.unary(nostruct))
        if tok == ("op", "*"):
            self.next()
            return ("unary", "*", self.unary(nostruct))
        if tok == ("op", "&") or tok == ("op", "&&"):
            self.next()
            if self.eat("mut"):
                return ("unary", "&mut", self.unary(nostruct))
            return ("unary", "&", self.unary(nostruct))
        if tok[0] == "op" and tok[1] == "..":
            self.next()
            hi = None
            if not (self.at("]") or self.at(")")):
                hi = self.expr(1, nostruct)
            return ("range", None, hi, False)
        if tok[0] == "op" and tok[1] == "..=":
            self.next()
            return ("range", None, self.expr(1, nostruct), True)
        return self.postfix(self.atom(nostruct), nostruct)

    def args(self):
        self.expect("(")
        out = []
        while not self.at(")"):
            out.append(self.expr())
            self.eat(",")
        self.expect(")")
        return out

    def postfix(self, e, nostruct):
        while True:
            if self.at("?"):
                self.next()
                e = ("try", e)
            elif self.at("."):
                self.next()
                name = self.next()
                if name[0] == "num":
                    e = ("field", e, str(name[1]))
                    continue
                name = name[1]
                if self.at("::"):            # turbofish: kept in the method name (parse::<u64> -> "parse::u64")
                    self.next()
                    self.expect("<")
                    name = name + "::" + self.type_().replace(" ", "")
                    self.expect(">")
                if self.at("("):
                    e = ("mcall", e, name, self.args())
                else:
                    e = ("field", e, name)
            elif self.at("("):
                e = ("call", e, self.args())
            elif self.at("["):
                self.next()
                idx = self.expr()
                self.expect("]")
                e = ("index", e, idx)
            else:
                return e

    def block(self):
        self.expect("{")
        stmts = []
        tail = None
        while not self.at("}"):
            s = self.stmt()
            if s is None:
                continue
            if s[0] == "tail":
                tail = s[1]
                break
            stmts.append(s)
        self.expect("}")
        return ("block", stmts, tail)

    def atom(self, nostruct):
        tok = self.next()
        if tok[0] == "num":
            return ("num", tok[1])
        if tok[0] == "bytes":
            return ("bytes", tok[1])
        if tok[0] == "str":
            return ("str", tok[1])
        if tok == ("op", "("):
            if self.at(")"):
                self.next()
                return ("tuple", [])
            e = self.expr()
            if self.at(","):
                es = [e]
                while self.eat(","):
                    if self.at(")"):
                        break
                    es.append(self.expr())
                self.expect(")")
                return ("tuple", es)
            self.expect(")")
            return e
        if tok == ("op", "{"):
            self.i -= 1
            return self.block()
        if tok == ("op", "|") or tok == ("op", "||"):
            params = []
            if tok[1] == "|":
                while not self.at("|"):
                    p = self.pattern1()
                    params.append(p[1] if p[0] == "pbind" else ("_" if p[0] == "pwild" else p))     # a name, `_`, or a (tuple) pattern
                    if self.eat(":"):
                        self.type_()
                    self.eat(",")
                self.expect("|")
            return ("closure", params, self.expr())
        if tok[0] != "id":
            raise Unsupported("unexpected token %r" % (tok,))
        name = tok[1]
        if name == "move" and (self.at("|") or self.at("||")):
            return self.atom(nostruct)
        if name == "if":
            if self.at("let"):
                self.next()
                pat = self.pattern()
                self.expect("=")
                scrut = self.expr(0, True)
                a = self.block()
                b = ("block", [], None)
                if self.eat("else"):
                    b = self.block()
                return ("match", scrut, [(pat, a), (("pwild",), b)])
            c = self.expr(0, True)
            a = self.block()
            b = None
            if self.eat("else"):
                if self.at("if"):
                    b = ("block", [], self.atom(nostruct))
                else:
                    b = self.block()
            return ("if", c, a, b)
        if name == "match":
            scrut = self.expr(0, True)
            self.expect("{")
            arms = []
            while not self.at("}"):
                pat = self.pattern()
                if self.at("if"):
                    raise Unsupported("match guard")
                self.expect("=>")
                body = self.expr()
                self.eat(",")
                arms.append((pat, body))
            self.expect("}")
            return ("match", scrut, arms)
        if name == "while":
            c = self.expr(0, True)
            return ("while", c, self.block())
        if name == "loop":
            return ("loop", self.block())
        if name == "for":
            pat = self.pattern()
            self.expect("in")
            it = self.expr(0, True)
            return ("for", pat, it, self.block())
        if name == "return":
            if self.at(";") or self.at("}") or self.at(","):
                return ("return", None)
            return ("return", self.expr())
        if name == "break":
            return ("break",)
        if name == "continue":
            return ("continue",)
        if name in ("true", "false"):
            return ("bool", name == "true")
        segs = [name]
        while self.at("::"):
            self.next()
            if self.at("<"):
                self.next()
                self.type_()
                self.expect(">")
                continue
            segs.append(self.next()[1])
        if self.at("!") and not self.at("=", 1):
            self.next()
            open_ = self.next()[1]
            close = {"(": ")", "[": "]", "{": "}"}[open_]
            depth = 1
            start = self.i
            while depth:
                t = self.next()
                if t[0] == "eof":
                    raise Unsupported("unterminated macro")
                if t[0] == "op" and t[1] == open_:
                    depth += 1
                elif t[0] == "op" and t[1] == close:
                    depth -= 1
            raw = self.t[start:self.i - 1]
            return ("macro", segs[-1], raw)
        if self.at("{") and not nostruct and segs[-1][0].isupper():
            self.next()
            fields = []
            while not self.at("}"):
                if self.at(".."):
                    raise Unsupported("struct update syntax")
                f = self.next()[1]
                if self.eat(":"):
                    fields.append((f, self.expr()))
                else:
                    fields.append((f, ("path", [f])))      # shorthand `field,`
                self.eat(",")
            self.expect("}")
            return ("struct", segs[-1], fields)
        return ("path", segs)

    # ------------------------------------------------------------ statements
    def stmt(self):
        if self.eat(";"):
            return None
        if self.at("#"):                      # attribute
            self.next()
            self.expect("[")
            d = 1
            while d:
                t = self.next()
                if t == ("op", "["):
                    d += 1
                elif t == ("op", "]"):
                    d -= 1
            return None
        if self.at("let"):
            self.next()
            pat = self.pattern()
            if self.eat(":"):
                self.type_()
            self.expect("=")
            e = self.expr()
            self.expect(";")
            return ("let", pat, e)
        if self.at("const"):
            self.next()
            name = self.next()[1]
            self.expect(":")
            self.type_()
            self.expect("=")
            e = self.expr()
            self.expect(";")
            return ("const", name, e)
        e = self.expr()
        for op in ("=", "+=", "-=", "*=", "/="):
            if self.at(op):
                self.next()
                rhs = self.expr()
                self.expect(";")
                return ("assign", e, op, rhs)
        if self.eat(";"):
            return ("expr", e)
        if e[0] in ("while", "loop", "for"):
            return ("expr", e)              # loops have no value: a statement also when they come last
        if self.at("}"):
            return ("tail", e)
        if e[0] in ("if", "match", "while", "loop", "block", "for"):
            return ("expr", e)
        raise Unsupported("statement not terminated at %r" % (self.peek(),))


def split_macro_args(raw):
    """top-level comma separated expressions of a macro's token list"""
    out = []
    cur = []
    depth = 0
    for t in raw:
        if t[0] == "op" and t[1] in ("(", "[", "{"):
            depth += 1
        elif t[0] == "op" and t[1] in (")", "]", "}"):
            depth -= 1
        if t == ("op", ",") and depth == 0:
            out.append(cur)
            cur = []
        else:
            cur.append(t)
    if cur:
        out.append(cur)
    return out


def find_fn(text, name, nth=1):
    """(signature text, body text) of the nth definition of fn <name> in text."""
    seen = 0
    # comments are blanked (same length) so that braces inside them do not count
    text = re.sub(r"//[^\n]*", lambda m: " " * len(m.group(0)), text)
    for cand in re.finditer(r"fn %s\s*(?:<[^>]*>)?\s*\(" % re.escape(name), text):
        semi = text.find(";", cand.end())
        brace = text.find("{", cand.end())
        if brace != -1 and (semi == -1 or brace < semi):
            seen += 1
            if seen == nth:
                i = brace
                depth = 0
                j = i
                while True:
                    if text[j] == "{":
                        depth += 1
                    elif text[j] == "}":
                        depth -= 1
                        if depth == 0:
                            break
                    j += 1
                return text[cand.start():i], text[i:j + 1]
    raise Unsupported("function %s not found" % name)


def parse_signature(sig):
    """[(name, type text)], return type text"""
    m = re.search(r"\((.*)\)\s*(?:->\s*(.*))?$", sig.strip(), flags=re.S)
    if not m:
        raise Unsupported("signature")
    params = []
    depth = 0
    cur = ""
    for ch in m.group(1):
        if ch in "<([":
            depth += 1
        elif ch in ">)]":
            depth -= 1
        if ch == "," and depth == 0:
            params.append(cur)
            cur = ""
        else:
            cur += ch
    if cur.strip():
        params.append(cur)
    out = []
    for p in params:
        p = re.sub(r"'[a-z_]+\s*", "", p.strip())
        if p in ("&self", "self", "&mut self"):
            out.append(("self", p))
        else:
            n, t = p.split(":", 1)
            out.append((n.strip().replace("mut ", ""), re.sub(r"\s+", " ", t.strip())))
    return out, re.sub(r"\s+", " ", (m.group(2) or "()").strip())


def parse_fn(text, name, nth=1):
    sig, body = find_fn(text, name, nth)
    params, ret = parse_signature(sig)
    p = P(tokenize(body))
    blk = p.block()
    if p.peek()[0] != "eof":
        raise Unsupported("trailing tokens after fn %s" % name)
    return params, ret, blk
