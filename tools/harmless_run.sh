#!/bin/bash
# usage (inside a `vp run --with-repo` snapshot): tools/harmless_run.sh name ... ; results are printed and left in harmless/<name>/result.json of the snapshot
cd "$(dirname "$0")/.."
python3 verif.py setup || exit 2
python3 tools/harmless_eval.py "$VP_RUN_REPO" "$@"
