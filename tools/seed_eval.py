#!/usr/bin/env python3
"""Validates a seeded change delivered by a sub-agent and runs the checks against it.

  python3 tools/seed_eval.py <src dir with patch.diff demo.rs meta.json> <name under /verif/seeded> [--checks C02,C16] [--tier quick]

1. In a scratch worktree of /repo (removed afterwards): the demonstration passes without the change, the change applies,
   the 70 existing tests still pass with it, the demonstration fails with it.
2. The change is applied to /repo itself, the listed checks run (default: the property named in meta.json), the change is
   undone (git -C /repo checkout -- .).
3. patch.diff, demo.rs and an extended meta.json are stored under /verif/seeded/<name>/.
"""
import json
import os
import re
import shutil
import subprocess
import sys

ROOT = os.path.dirname(os.path.dirname(os.path.abspath(__file__)))
REPO = os.environ.get("VERIF_REPO") or os.environ.get("VP_RUN_REPO") or "/repo"      # a snapshot of the repository when run through `vp run --with-repo`
os.environ["VERIF_REPO"] = REPO      # the checks started from here look at the same tree
WT = "/tmp/sv-worktree" + os.environ.get("SV_TAG", "")
TARGET = "/tmp/sv-target" + os.environ.get("SV_TAG", "")


def sh(cmd, cwd=None, timeout=1800, env=None):
    e = dict(os.environ)
    e["CARGO_NET_OFFLINE"] = "true"
    if env:
        e.update(env)
    p = subprocess.run(cmd, shell=True, cwd=cwd, stdout=subprocess.PIPE, stderr=subprocess.STDOUT, text=True, timeout=timeout, env=e)
    return p.returncode, p.stdout


def main():
    src = sys.argv[1]
    name = sys.argv[2]
    tier = "quick"
    checks = None
    if "--checks" in sys.argv:
        checks = sys.argv[sys.argv.index("--checks") + 1].split(",")
    if "--tier" in sys.argv:
        tier = sys.argv[sys.argv.index("--tier") + 1]
    meta = json.load(open(os.path.join(src, "meta.json")))
    pid = meta["property"]
    checks = checks or [pid]
    patch = os.path.abspath(os.path.join(src, "patch.diff"))
    demo = os.path.abspath(os.path.join(src, "demo.rs"))
    ran = []
    result = {"confirmed": False}

    rc, out = sh("git -C %s status --porcelain" % REPO)
    if out.strip():
        print("refusing: /repo has uncommitted changes:\n" + out)
        return 2
    recheck = "--recheck" in sys.argv and meta.get("confirmation", {}).get("confirmed")
    if recheck:
        # a stored change that was confirmed before: only run the checks against it again
        return run_checks(meta, pid, checks, tier, patch, demo, src, name, dict(meta["confirmation"]),
                          [l for l in meta.get("what_was_run", []) if not l.startswith("(change applied") and not l.startswith("git -C /repo checkout") and not l.startswith("(re-check")] + ["(re-check of a stored, confirmed change)"])
    sh("git -C /repo worktree remove --force %s; rm -rf %s" % (WT, WT))
    rc, out = sh("git -C /repo worktree add --detach %s HEAD" % WT)
    if rc != 0:
        print(out)
        return 2
    try:
        env = {"CARGO_TARGET_DIR": TARGET}
        os.makedirs(os.path.join(WT, "tests"), exist_ok=True)
        shutil.copy(demo, os.path.join(WT, "tests", "seed_demo.rs"))
        c = "cargo test --offline --test seed_demo"
        rc0, out0 = sh(c, cwd=WT, env=env)
        ran.append("(clean tree) " + c + " -> exit %d" % rc0)
        result["demo_passes_without_change"] = rc0 == 0
        rc, out = sh("git apply %s" % patch, cwd=WT)
        ran.append("git apply patch.diff -> exit %d" % rc)
        if rc != 0:
            print("patch does not apply:\n" + out)
            result["applies"] = False
        else:
            result["applies"] = True
            rc1, out1 = sh(c, cwd=WT, env=env)
            ran.append("(with change) " + c + " -> exit %d" % rc1)
            result["demo_fails_with_change"] = rc1 != 0
            os.remove(os.path.join(WT, "tests", "seed_demo.rs"))
            c2 = "cargo test --workspace --no-fail-fast --offline"
            rc2, out2 = sh(c2, cwd=WT, env=env)
            m = re.findall(r"test result: (\w+)\. (\d+) passed; (\d+) failed", out2)
            passed = sum(int(x[1]) for x in m)
            failed = sum(int(x[2]) for x in m)
            ran.append("(with change) " + c2 + " -> exit %d, %d passed, %d failed" % (rc2, passed, failed))
            result["tests_pass_with_change"] = rc2 == 0 and failed == 0 and passed >= 70
            result["confirmed"] = bool(result["demo_passes_without_change"] and result["demo_fails_with_change"] and result["tests_pass_with_change"])
            if not result["confirmed"]:
                print("NOT CONFIRMED", result)
                print(out0[-1500:] if rc0 != 0 else "")
                print(out2[-1500:] if not result["tests_pass_with_change"] else "")
    finally:
        sh("git -C /repo worktree remove --force %s; rm -rf %s" % (WT, WT))

    return run_checks(meta, pid, checks, tier, patch, demo, src, name, result, ran)


def run_checks(meta, pid, checks, tier, patch, demo, src, name, result, ran):
    detections = {}
    if result["confirmed"]:
        rc, out = sh("git -C %s apply %s" % (REPO, patch))
        try:
            if rc != 0:
                print("cannot apply to /repo: " + out)
                if "--recheck" in sys.argv:
                    print(name, "STALE: the stored patch no longer applies to the current tree (a later fix: commit touched the same lines); earlier result kept")
                    return 0
            else:
                for chk in checks:
                    c = "python3 verif.py check %s --tier %s" % (chk, tier)
                    rcc, outc = sh(c, cwd=ROOT, timeout=3600)
                    viol = [l for l in outc.split("\n") if l.startswith("VIOLATION")]
                    summary = [l for l in outc.split("\n") if "tier=" in l and "scripts=" in l]
                    why = None
                    if viol:
                        mm = re.search(r"replay=(\S+)", viol[0])
                        if mm and os.path.exists(mm.group(1)):
                            rp = json.load(open(mm.group(1)))
                            why = rp.get("why") or rp.get("what")
                    detections[chk] = {"cmd": c, "exit": rcc, "violation_line": viol[0] if viol else None, "why": why,
                                       "summary": summary[-1] if summary else None}
                    ran.append("(change applied to /repo) " + c + " -> exit %d %s" % (rcc, viol[0] if viol else ""))
                    print(chk, "exit", rcc, viol[0] if viol else "", "|", why)
        finally:
            sh("git -C %s checkout -- . && git -C %s clean -fdq tests" % (REPO, REPO))
            # Gen.v / Gen2.v / Constants.v are tracked and were regenerated from the changed sources by the checks: bring them back
            sh("VERIF_REPO=%s python3 -c 'import verif; verif.source_facts()'" % REPO, cwd=ROOT)
        ran.append("git -C /repo checkout -- .")
    dst = os.path.join(os.environ.get("SEED_OUT", os.path.join(ROOT, "seeded")), name)
    os.makedirs(dst, exist_ok=True)
    if os.path.abspath(src) != os.path.abspath(dst):
        shutil.copy(patch, os.path.join(dst, "patch.diff"))
        shutil.copy(demo, os.path.join(dst, "demo.rs"))
    meta2 = dict(meta)
    if "detections" in meta and os.path.abspath(src) == os.path.abspath(dst):
        # re-evaluation of a stored change: keep what earlier runs found under "earlier_detections"
        meta2.setdefault("earlier_detections", []).append(meta["detections"])
    meta2["breaks_property"] = pid
    meta2["needs_to_manifest"] = meta.get("needs")
    meta2["confirmation"] = result
    meta2["what_was_run"] = ran
    meta2["detections"] = detections
    meta2["detected"] = any(d["exit"] == 1 and d["violation_line"] for d in detections.values())
    meta2["detected_with_failing_input"] = any(d["exit"] == 1 and d["violation_line"] and "no-failing-input-found" not in d["violation_line"] for d in detections.values())
    with open(os.path.join(dst, "meta.json"), "w") as f:
        json.dump(meta2, f, indent=1)
    print(name, "confirmed=%s detected=%s with_input=%s" % (result["confirmed"], meta2["detected"], meta2["detected_with_failing_input"]))
    return 0


if __name__ == "__main__":
    sys.exit(main())
