"""Writes MANIFEST.json from the table below (kept in one place so the manifest is always valid)."""
import json
import os

ROOT = os.path.dirname(os.path.dirname(os.path.abspath(__file__)))

CLAIMED = {
    "C04": {
        "text": "Machine-checked proof (Coq 8.16) over a hand-written executable model: for a call in its body phase with a Content-Length writer, every write/direct-write is characterised exactly (min of three, verbatim, refusals leave the state untouched) and the invariant accounted+remaining=N, emitted=consumed, finished=>remaining=0 holds after every history of operations of any length (induction over the op list). The model is tied to /repo on every run by a differential correspondence check (real crate vs extracted model on generated scripts through the public Flow API) and an independent oracle on the implementation's observations.",
        "design_ref": "DESIGN.md section 7, C04",
        "note": "Trusted: Coq kernel; extraction + OCaml driver + Rust harness + Python differ (correspondence); the model being a faithful reading of src/body.rs, src/client/call.rs (validated, not proved, by the correspondence on ~1.5k/12k generated scripts per run); 64-bit usize. Theorems are closed under the global context (no axioms).",
        "technique": "Coq proof (invariant by induction over operation histories) + model/implementation correspondence check",
    },
}

COMMON_NOTE = "Trusted: Coq 8.16.1 kernel (incl. vm_compute); extraction (ExtrOcamlBasic only) + OCaml driver + Rust harness + Python differ/oracle (correspondence); the hand-written model being a faithful reading of the Rust sources and of the modelled externals (httparse, http, url, std), validated -- not proved -- by the correspondence check on generated scripts each run; tools/source_facts.py; 64-bit usize. All property theorems are closed under the global context (no axioms)."
TECH = "Coq proof over an executable model + model/implementation correspondence check"

CLAIMED["C08"] = {
    "text": "Machine-checked proof: one read on a Content-Length body moves min(input, output space, remaining) bytes verbatim; for every arrival/output-size schedule of any length over any stream (body followed by arbitrary bytes) consumed+remaining=N (never a byte beyond N) and the delivered bytes are exactly the consumed prefix; complete iff remaining=0; close-delimited bodies pass every offered byte through, may always proceed, and entering their body state records the close reason (must-close). Correspondence + oracle on generated streams with trailing bytes of a next response.",
    "design_ref": "DESIGN.md section 7, C08", "note": COMMON_NOTE, "technique": TECH}
CLAIMED["C06"] = {
    "text": "Machine-checked proof that the model's body-mode decision equals the rule list of the statement (transcribed as rfc_body_mode) for every method class, every status, both versions and every Content-Length/Transfer-Encoding value, that the flow applies it to the head it returns, and that the successor state is body / redirect / cleanup as stated. The decision grid (9 methods x boundary statuses (thorough: every status 101..999) x versions x 10 Content-Length x 8 Transfer-Encoding classes) is enumerated completely against the real crate, the model and a Python transcription of the statement.",
    "design_ref": "DESIGN.md section 7, C06", "note": COMMON_NOTE, "technique": TECH + " (exhaustive decision grid)"}
CLAIMED["C15"] = {
    "text": "Machine-checked proof that as_new_flow selects the method by the table of the statement (transcribed as redirect_method) for every status and all nine methods, returns no flow and changes nothing when the redirect is not followed, that the redirect state is entered exactly for 3xx other than 304 on both paths (with and without body) and reports the received status. The whole domain (9 methods x 300..399 x 2 policies x with/without body) is enumerated against the real crate in both tiers.",
    "design_ref": "DESIGN.md section 7, C15", "note": COMMON_NOTE, "technique": TECH + " (exhaustive domain)"}

NOT_YET = {}
ALL = ["C%02d" % i for i in range(1, 21)]


def main():
    checks = []
    for pid in ALL:
        if pid not in CLAIMED:
            continue
        c = CLAIMED[pid]
        checks.append({
            "property_id": pid,
            "quick_cmd": "python3 verif.py check %s --tier quick" % pid,
            "thorough_cmd": "python3 verif.py check %s --tier thorough" % pid,
            "evidence_file": "/verif/evidence/%s.json" % pid,
            "replay_cmd_template": "python3 verif.py replay {path}",
            "engine": "coq-model-correspondence",
            "level_claimed": {"category": "proof", "text": c["text"], "design_ref": c["design_ref"]},
            "level_note": c["note"],
            "technique": c["technique"],
        })
    na = []
    for pid in ALL:
        if pid not in CLAIMED:
            na.append({"property_id": pid,
                       "reason": NOT_YET.get(pid, "not claimed yet: model covers the code, theorems/generator/oracle for this property are still being built (work in progress, the technique applies)")})
    m = {
        "version": 1,
        "setup_cmd": "python3 verif.py setup",
        "hooks": {
            "guard": "ureq_proto_verif",
            "enable": "RUSTFLAGS=\"--cfg ureq_proto_verif\" (set by verif.py when it builds the harness; no hook is currently needed: every observation goes through the public API)",
            "baseline_off_cmd": "cd /repo && cargo test --workspace --no-fail-fast --offline",
            "source_commits": [],
            "add_only": True,
        },
        "engines": [{
            "name": "coq-model-correspondence",
            "path": "/verif/verif.py",
            "serves_properties": sorted(CLAIMED.keys()),
            "kind_free_text": "Coq 8.16 theorems about a hand-written executable Gallina model of ureq-proto (coq/theories), tied to /repo on every run by differential execution of generated scripts on the real crate (harness/) and on the extracted model (modelrun/), plus per-property oracles on the implementation's observations",
        }],
        "checks": checks,
        "not_applicable": na,
        "notes": "Genuine defects of the pinned tree were repaired by 14 unguarded 'fix:' commits in /repo (git log --grep '^fix:'); they and the known findings are listed in /verif/known_findings.txt and DESIGN.md section 6. Exit code 2 = infrastructure failure (never a verdict).",
    }
    with open(os.path.join(ROOT, "MANIFEST.json"), "w") as f:
        json.dump(m, f, indent=1)
    print("claimed:", sorted(CLAIMED.keys()))


if __name__ == "__main__":
    main()
