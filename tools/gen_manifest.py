"""Writes MANIFEST.json from the table below (kept in one place so the manifest is always valid)."""
import json
import os

ROOT = os.path.dirname(os.path.dirname(os.path.abspath(__file__)))

CLAIMED = {
    "C04": {
        "text": "Machine-checked proof (Coq 8.16) over a hand-written executable model: for a call in its body phase with a Content-Length writer, every write/direct-write is characterised exactly (min of three, verbatim, refusals leave the state untouched) and the invariant accounted+remaining=N, emitted=consumed, finished=>remaining=0 holds after every history of operations of any length (induction over the op list). The model is tied to /repo on every run by a differential correspondence check (real crate vs extracted model on generated scripts through the public Flow API) and an independent oracle on the implementation's observations.",
        "design_ref": "DESIGN.md section 7, C04",
        "note": "Trusted: Coq kernel; extraction + OCaml driver + Rust harness + Python differ (correspondence); the model being a faithful reading of src/body.rs, src/client/call.rs (validated, not proved, by the correspondence on ~1.5k/12k generated scripts per run); 64-bit usize. Theorems are closed under the global context (no axioms).",
        "technique": "Coq proof (invariant by induction over operation histories) + model/implementation correspondence check",
    },
}

COMMON_NOTE = "Trusted: Coq 8.16.1 kernel (incl. vm_compute); extraction (ExtrOcamlBasic only) + OCaml driver + Rust harness + Python differ/oracle (correspondence); the hand-written model being a faithful reading of the Rust sources and of the modelled externals (httparse, http, url, std), validated -- not proved -- by the correspondence check on generated scripts each run; tools/source_facts.py; 64-bit usize. All property theorems are closed under the global context (no axioms)."
TECH = "Coq proof over an executable model + model/implementation correspondence check"

CLAIMED["C08"] = {
    "text": "Machine-checked proof: one read on a Content-Length body moves min(input, output space, remaining) bytes verbatim; for every arrival/output-size schedule of any length over any stream (body followed by arbitrary bytes) consumed+remaining=N (never a byte beyond N) and the delivered bytes are exactly the consumed prefix; complete iff remaining=0; close-delimited bodies pass every offered byte through, may always proceed, and entering their body state records the close reason (must-close). Correspondence + oracle on generated streams with trailing bytes of a next response.",
    "design_ref": "DESIGN.md section 7, C08", "note": COMMON_NOTE, "technique": TECH}
CLAIMED["C06"] = {
    "text": "Machine-checked proof that the model's body-mode decision equals the rule list of the statement (transcribed as rfc_body_mode) for every method class, every status, both versions and every Content-Length/Transfer-Encoding value -- with the digit test, the decimal value and 'declares chunked' also specified independently of the model and proved equivalent (c06_content_length_spec, c06_declares_chunked_spec, c06_mode_spec) --, that the flow applies it to the head it returns, and that the successor state is body / redirect / cleanup as stated. The decision grid (9 methods x boundary statuses (thorough: every status 101..999) x versions x 10 Content-Length x 8 Transfer-Encoding classes) is enumerated completely against the real crate, the model and a Python transcription of the statement.",
    "design_ref": "DESIGN.md section 7, C06", "note": COMMON_NOTE, "technique": TECH + " (exhaustive decision grid)"}
CLAIMED["C15"] = {
    "text": "Machine-checked proof that as_new_flow selects the method by the table of the statement (transcribed as redirect_method) for every status and all nine methods, returns no flow and changes nothing when the redirect is not followed, that the redirect state is entered exactly for 3xx other than 304 on both paths (with and without body) and reports the received status. The whole domain (9 methods x 300..399 x 2 policies x with/without body) is enumerated against the real crate in both tiers.",
    "design_ref": "DESIGN.md section 7, C15", "note": COMMON_NOTE, "technique": TECH + " (exhaustive domain)"}

CLAIMED["C02"] = {
    "text": "Machine-checked proof over the model of request analysis and the resumable head writer: the rendered head is request line (method SP path-and-query or '/' SP version) + one line per effective header (caller-added first, then analysis-added Host/framing, then inherited) + one empty line; for every list of output capacities the concatenated output is a whole-line prefix emitted greedily (c02_prefix, induction over the capacity list), a call overflows iff not even the next line fits and then changes nothing (c02_overflow_iff), can_proceed iff all lines are out and later calls emit nothing (c02_complete), exactly one Host, framing header iff a body follows and equal to the writer mode chosen (c02_host_once, c02_framing, c02_body_iff_announced). Correspondence + independent Python head parser on generated header sets x capacity sequences incl. calls after completion and redirect depth 0..3.",
    "design_ref": "DESIGN.md section 7, C02", "note": COMMON_NOTE + " HeaderMap iteration order of the original headers is read back from the http crate by the harness (an http-crate fact, not part of the property). Parse-back through the request-parser model (c02_parse_back of the design) is covered by the Python oracle only, not by a theorem.", "technique": TECH}
CLAIMED["C03"] = {
    "text": "Machine-checked proof: for every history of body writes on a chunked writer (any inputs, any capacities, finishing writes anywhere) the emitted bytes are concat(map enc_chunk cs) ++ (TERM if ended) with every chunk non-empty and concat cs = consumed input (c03_shape, induction over the op list), each call emits whole chunks only, the terminator is emitted only by an empty-input call in the not-ended state and ended iff it was emitted (c03_term_once, c03_finished_iff), afterwards non-empty writes are refused and all writes emit nothing (c03_after); hex size lines are inverse to the decoder's size parser and the model decoder of C07 run over the emitted bytes under any schedule returns exactly the consumed input (c03_roundtrip). Correspondence + independent Python chunked parser on generated schedules incl. capacities 0..12 and exact-leftover capacities.",
    "design_ref": "DESIGN.md section 7, C03", "note": COMMON_NOTE, "technique": TECH}
CLAIMED["C05"] = {
    "text": "Machine-checked proof over the httparse model: a verdict other than 'partial' is stable under appending bytes (c05_hp_stable, for arbitrary bytes), a well-formed head followed by anything parses to exactly its version/status/fields consuming exactly |H| (c05_roundtrip), hence every strict prefix is 'partial' (c05_prefix_partial) and Flow/Call::try_response returns 'need more data, 0 consumed, state unchanged' on every strict prefix outside the known class F10 (c05_prefix) and the exact head on H++rest (c05_complete); more than 128 fields is an error as soon as the 129th line is complete (c05_limit). The known finding (3xx head cut after a complete Location line) is characterised exactly (c05_known_class) and witnessed (c05_known_refuted). Correspondence + oracle on every prefix of generated heads.",
    "design_ref": "DESIGN.md section 7, C05/C20", "note": COMMON_NOTE + " httparse 1.9.5 itself is modelled (scalar semantics), not verified. Known finding F10 listed in known_findings.txt.", "technique": TECH}
CLAIMED["C07"] = {
    "text": "Machine-checked simulation proof between the Dechunker/read_chunked model and the chunked grammar (valid codings as data: size lines with hex digits, leading zeros, OWS, extensions; trailers): from any related state, for every window take k (R ++ rest), capacity and stop flag, one read returns Ok, consumes a prefix of the coding only, emits a prefix of the remaining payload within capacity and lands in a related state (c07_step); lifted over every schedule by induction (c07_run): outputs concatenate to a payload prefix, consumption never exceeds the coding, ended iff the whole coding was consumed, then output = payload; with boundary stop one read stays inside one chunk (c07_boundary); progress whenever a byte and space are available (c07_progress, c07_reaches_end). Premise len(size line) <= 20 is known finding F17 (c07_known_refuted). Correspondence + oracle on the small-scope grammar x cut sets x capacities, always followed by next-message bytes.",
    "design_ref": "DESIGN.md section 7, C07", "note": COMMON_NOTE + " Known finding F17 listed in known_findings.txt.", "technique": TECH + " (simulation invariant, induction over schedules)"}
CLAIMED["C17"] = {
    "text": "Machine-checked proof: request analysis fails iff the request is in one of the rejection classes of the statement (c17_iff against the independently written predicate invalid: version, method-for-version, >1 effective Host/Content-Length, Content-Length not 1*DIGIT<2^64, non-text Host, body on a no-body method without 'despite', body method without body), never panics, and the first write of Flow<SendRequest>, Call<WithoutBody>, Call<WithBody> errs iff invalid, for every capacity, emitting nothing and leaving the state unchanged so that the refusal repeats and can_proceed stays false (c17_flow_iff, c17_rejected, c17_repeatable); every other request is accepted (c17_accept). Exhaustive correspondence over the quantifier's product (~22k requests) on both APIs in both tiers.",
    "design_ref": "DESIGN.md section 7, C17", "note": COMMON_NOTE, "technique": TECH + " (exhaustive product of the quantifier)"}
CLAIMED["C18"] = {
    "text": "Machine-checked arithmetic proof over the chunk writer with constants regenerated from the source: the consumed count depends only on (input length, capacity) (c18_consumed_len_only); an input of calculate_max_input(n) bytes is consumed completely by one write into n bytes (c18_fits, strong induction over the chunk loop, for every n), calculate_max_input n <= n and is monotone (c18_le, c18_mono); for a sized body the advertised value is n and min(n,left) is consumed (c18_sized, c18_advertised). Correspondence + oracle sweep of n over 0..3*10248+64 (thorough: every n) on the real crate.",
    "design_ref": "DESIGN.md section 7, C18/C19", "note": COMMON_NOTE, "technique": TECH + " (exhaustive sweep of n in thorough)"}
CLAIMED["C19"] = {
    "text": "Machine-checked proof: a chunked write with non-empty input and capacity >= 6 consumes >= 1 byte (c19_progress), consumption is monotone in the offered input (c19_mono_input) and not below what the advertised maximum would have consumed (c19_not_below_max); a sized write with input, room and remaining length >= 1 consumes >= 1 (c19_progress_sized); the caller loop 'write until input empty' with fixed capacity terminates within len(input) iterations with all input sent (c19_loop, c19_loop_sized; out-of-fuel proved unreachable). Correspondence + oracle on the (input, capacity) grid incl. chunk-size and hex-digit boundaries.",
    "design_ref": "DESIGN.md section 7, C18/C19", "note": COMMON_NOTE, "technique": TECH}
CLAIMED["C20"] = {
    "text": "Machine-checked proof over the httparse model and the three public wrappers with the field limit as a parameter: well-formed response/request head ++ anything parses to exactly its status|method, version, all fields and |H| consumed when fields <= limit (c20_response_complete, c20_request_complete); every strict prefix is 'incomplete' (c20_*_prefix); more fields than the limit is the too-many-headers error, raised as soon as line limit+1 is complete (c20_*_limit, c20_*_limit_early); the partial response parser reports only completely present fields, as a prefix of the head's field list (c20_partial_sound, c20_partial_view) and returns Ok on every prefix within the limit (c20_partial_total). Correspondence + oracle on every prefix of generated heads for limits 0, 1, 4, 128.",
    "design_ref": "DESIGN.md section 7, C05/C20", "note": COMMON_NOTE + " httparse 1.9.5 itself is modelled (scalar semantics), not verified.", "technique": TECH}

CLAIMED["C10"] = {
    "text": "Machine-checked proof over Script.step / run_ops (the very step function the correspondence check executes): ghost facts h10, ccl, n100, scl, cdl are computed from what each operation was given and returned (never from the reason list); for EVERY history of operations (induction, no length bound) and whatever flow is held, In x (reasons) <-> fact x holds, the list is duplicate-free (hence within its capacity: no push can panic), so must_close = h10 || ccl || scl || n100 || cdl in every state, in particular Redirect and Cleanup (c10_invariant, c10_verdict, c10_verdict_observed); a reason is given iff must-close and names a condition that holds (c10_reason_iff, c10_reason_true); reasons are never removed within an exchange; the flow made by as_new_flow restarts from h10/ccl of the original request (c10_new_flow_fresh); once a close-delimited body state was entered the verdict stays must-close (c10_close_delimited_never_reused). Correspondence + oracle on the exhaustive product of the five conditions x paths (4608 flows) in both tiers.",
    "design_ref": "DESIGN.md section 7, C10", "note": COMMON_NOTE, "technique": TECH + " (invariant by induction over operation histories; exhaustive product)"}
CLAIMED["C11"] = {
    "text": "Machine-checked proof over the zero-slot httparse model and the flow model, for every well-formed head h, every cut position n and every rest: with decision_point h = |status line| + |next line| (first field line, or the final CRLF of a head without fields), n < decision_point -> try_read_100 returns Ok 0 and leaves the flow unchanged (c11_undecided); n >= decision_point -> decided, same verdict for every longer window (c11_decided, c11_verdict_final for arbitrary bytes): a bare 100 is consumed exactly and proceed leads to SendBody (c11_continue*), anything else consumes nothing, clears should_send_body, records Not100Continue (must-close), proceed leads to RecvResponse with the converted call, try_response returns that very head, and no later operation ever requests the body (c11_refusal_*, c11_never_body); giving up leads to SendBody (c11_giveup); a late bare 100 is skipped exactly once (c11_late*); under the re-presentation discipline the should_send_body assertion is unreachable (c11_never_assert) and it is the only panic site (c11_assert_only); each branch re-establishes the flow invariant of C09 (c11_usable_*). Correspondence + oracle on every cut of 15 first heads x look-once/look-always x both later paths x HTTP/1.0 and 1.1.",
    "design_ref": "DESIGN.md section 7, C11", "note": COMMON_NOTE + " A 100 that carries header fields is outside the property (modelled: refused). Offering a bare 100 to try_read_100 after a refusal of a different window (breaking the re-presentation discipline the property assumes) reaches assert!(should_send_body): c11_assert_reachable_outside_discipline; excluded misuse, DESIGN.md C12.", "technique": TECH}
CLAIMED["C12"] = {
    "text": "Machine-checked proof for EVERY byte string, capacity and stop flag, from every between-calls state (not only reachable ones): the chunked, length, close and no-body readers never return Panic -- the fuelled decoder loops report exhausted fuel as Panic, so this includes termination (measure 2|src| + [state <> Trailer]) -- and on Ok consumed <= offered, produced <= capacity, produced is a subsequence of the consumed prefix (equal to it for length/close), and the new state is again a between-calls state (c12_read*, lifted to any schedule: c12_schedule); the three head parsers never panic for any slot count, used <= offered, builder refusal (name > 65535 bytes) is an error (c12_parsers, c12_builder_*); try_read_100, try_response, read at Call and Flow level never panic given the state's holder and duplicate-free reasons, which they preserve (so the reason list stays within capacity: c12_reasons), try_read_100 under the re-presentation discipline never meets its assertion (c12_discipline); after any such call, Ok or Err, the following proceed does not panic (c12_then_proceed_*); whole server-facing sessions are panic-free (c12_session). Correspondence + oracle: every string over a 20-symbol protocol alphabet up to length 3 (thorough: 4) at 18 parse positions in 6 state classes, grammar-aware mutations of valid exchanges, oversize names/numbers, 129+ fields, five close conditions at once, undisciplined windows; no panic, no hang, counts bounded, subsequence.",
    "design_ref": "DESIGN.md section 7, C12", "note": COMMON_NOTE + " After a failed read the Rust decoder keeps the state reached inside the failed call; the model carries exactly that state (reader_after_err; c12_after_error_state: it is Size or CrLf), the script continues from it, and calls made after an error are compared line by line like everything else (c12_schedule_through_errors).", "technique": TECH + " (safety for arbitrary inputs from every invariant state; exhaustive small alphabet strings)"}

CLAIMED["C09"] = {
    "text": "Machine-checked proof: a flow invariant Inv (holder variant and call phase match the typestate tag, reader set and never in the transient Trailer state in RecvBody, status set in Redirect, writer mode consistent with analysis, duplicate-free close reasons, bounded added-header list, absolute effective URI, request not taken) holds for flow_new and is preserved by every operation of Flow.v, none of which returns Panic under it (c09_new, one lemma per operation); lifted to Script.step -- the step function the correspondence check executes -- and by induction to histories of ANY length over all 42 operations incl. premature proceed and the single-call API: no observation is `panic` and the invariant holds after every prefix (c09_step, c09_history*), so a flow that advanced is fully usable (c09_usable); in each state with a readiness query can_proceed = true <-> proceed yields a new state, = false <-> proceed returns None, never Err/Panic (c09_ready_iff, c09_await_100_proceed); the successor of every edge is the one the documented graph prescribes, the one after the response head being C06's (c09_successor, c09_successor_c06, c09_body_due). Excluded, explicitly: the known finding F18 (second as_new_flow on one Redirect flow: c09_known_refuted) and three misuses outside every quantifier (request URI without scheme/authority, more than 62 added headers, a bare 100 offered to try_read_100 after a refusal of a different window). Correspondence + oracle: guided walks plus model-pruned BFS over op sequences on a menu of request configurations x server behaviours with premature proceed in every state.",
    "design_ref": "DESIGN.md section 7, C09", "note": COMMON_NOTE + " Known finding F18 listed in known_findings.txt.", "technique": TECH + " (invariant by induction over operation histories)"}

CLAIMED["C14"] = {
    "text": "Machine-checked proof: as_new_flow resolves the selected Location against the EFFECTIVE (current) URI of the redirected flow (c14_as_new_flow_uri); every flow operation and every Script.step other than new / follow / as_new_flow preserves that URI (c14_step_preserves_uri, c14_script_preserves_uri), so for chains of ANY length the URI after hop n is fold_left resolve over the Locations (c14_chain; c14_not_original exhibits a chain where resolving against the original differs); the last Location field is the one used (c14_last_location); the next head's request line carries the target's path-and-query and, when the original request has no Host field, exactly one Host equal to the target's host (c14_wire; the excluded class is known finding F14: c14_known_refuted); missing / non-text / unresolvable Location is an error, never a panic, and yields no flow, for every byte string (c14_errors, c14_no_panic). The model's resolve equals an independent transcription of RFC 3986 5.2 (appendix-B parse, 5.2.2 transform, 5.2.3 merge, 5.2.4 buffer algorithm, 5.3 recomposition, fragment dropped) followed by scheme/host lower-casing, default-port elision and empty-path normalisation, for EVERY Location and every base whose path is dot-segment free, a condition closed under resolve (c14_resolve_matches_rfc, c14_resolve_closed, c14_chain_rfc); remove_dot_segments is idempotent and leaves no dot segment. Correspondence + oracle on chains of 1..4 hops over the quantifier's Location grammar; malformed and non-UTF-8 Locations oracle-only.",
    "design_ref": "DESIGN.md section 7, C14", "note": COMMON_NOTE + " The url crate's join is modelled as RFC 3986 resolution plus three normalisations on the property's grammar only; WHATWG leniencies (back-slashes, tab stripping, percent-encoding, %2e) are outside the model and such Locations are compared by the oracle only. Known finding F14 listed in known_findings.txt.", "technique": TECH + " (refinement of the model's resolver to an RFC 3986 transcription; induction over redirect chains)"}

CLAIMED["C13"] = {
    "text": "Machine-checked proof: the flow returned by as_new_flow is rebuilt from the underlying (original) request with only the method new, no added headers, the resolved target as URI override and the suppression list [authorization unless keep_auth; cookie; content-length] (c13_rebuilt_from_original, never panics on the list: c13_unset_no_panic); every flow operation preserves the underlying request, override and suppression list and only appends to the added list (c13_op_preserves); by induction over chains of ANY length and over Script.run_ops histories (c13_chain_invariant, c13_script) at every hop >= 1 no inherited cookie or content-length header is effective (c13_cookie_cl, case-insensitive: c13_cookie_cl_ci), an inherited authorization header is effective iff the policy is same-host and the target's host equals the ORIGINAL request's host and the target's scheme equals the original's or is https -- intermediate hops do not occur in the statement (c13_auth_iff, c13_never), every other original header is inherited (c13_other_headers), and the head on the wire is exactly request line + headers added at this hop + Host/framing + the non-suppressed original fields (c13_wire, built on C02). Correspondence + oracle on chains of 1..4 hops mixing hosts, ports, schemes in both directions x both policies x redirect statuses and methods.",
    "design_ref": "DESIGN.md section 7, C16/C13", "note": COMMON_NOTE, "technique": TECH + " (induction over redirect chains)"}
CLAIMED["C16"] = {
    "text": "Machine-checked proof: Flow<Prepare>::header with a valid name/value and room appends (lower-cased name, value) to the added list and changes nothing else (c16_header_cases, c16_header_ok); for an ARBITRARY flow state -- any redirect depth, any suppression list -- and any list of valid additions that fit, the effective headers are old-added ++ additions (in order) ++ inherited, the suppression list never applying to added headers whatever their names (c16_order, converse c16_order_inv); after analysis the effective headers are added ++ (at most two analysis-added: Host, framing) ++ inherited and the rendered head lists them in that order, emitted as whole lines for every capacity schedule (c16_wire, c16_wire_bytes on top of C02); the flow returned by as_new_flow starts with no added headers and accepts additions like a fresh one (c16_redirect_depth; c16_cookie_at_depth_1 replays the pinned-tree defect F13 as now passing). Correspondence + oracle: additions of sensitive and ordinary names at redirect depth 0..3 under both policies, wire parsed back by an independent Python parser.",
    "design_ref": "DESIGN.md section 7, C16/C13", "note": COMMON_NOTE + " More than 62 additions (capacity 64 minus Host and framing) is outside the quantifier (0..60) and panics in ArrayVec::push.", "technique": TECH}
CLAIMED["C01"] = {
    "text": "Machine-checked composition proof over Script.step (the step function the correspondence check executes): an exchange x fixes the request, the despite flag, the payload and the stream pre ++ [bare 100] ++ H ++ body-wire ++ rest; a schedule is ANY list of caller actions (proceed, write_head cap, write_from take cap, arrive k, try100, try_response, read cap, stop, all 14 read-only queries) subject to causality, the re-presentation discipline and the F10 exclusion; an invariant Sim ties every reachable state field-for-field to a canonical flow at an abstract position and the ghost accumulators (head bytes out = whole-line prefix of the rendered head; payload consumed = prefix of the payload; response = none/that head; body out = prefix of the decoded body; consumed = stream offset) and is preserved by every allowed operation, queries changing nothing (c01_step, c01_run, c01_queries_pure; per phase on C02, C03/C04, C11, C05, C06, C07/C08, C09, C10); hence for every complete schedule of any length the outcome -- head bytes, payload (verbatim for Content-Length; for chunked a valid chunk sequence that decodes to the payload: c01_request_body_decodes), response head, response body, terminal state, must-close verdict and reason, bytes consumed = |100|+|H|+|body-wire| -- equals spec_outcome x, a function of x alone (c01), any two complete schedules agree incl. both orders of the Expect handshake (c01_independent), no byte of rest is ever consumed and the invariant holds again for the next exchange on the same stream (c01_never_overreads, c01_next_exchange*). Correspondence + metamorphic oracle: every generated exchange sequence (1..3 exchanges) under a canonical and 5 (thorough 12) random schedules incl. 1-byte arrivals, buffers below one line / one chunk, interleaved queries.",
    "design_ref": "DESIGN.md section 7, C01", "note": COMMON_NOTE + " Explicit side conditions of the theorem (props/C01.v header): try_response is not called again once the head was returned (the types allow it; it would parse body bytes as a head); a close-delimited exchange is complete only when the whole stream was consumed (only EOF ends such a body); before RecvResponse only the interim 100 may arrive; a server refusing while the client awaits 100 is C11's; F10 windows excluded (C05).", "technique": TECH + " (simulation invariant over operation histories composing the per-phase theorems; metamorphic schedule comparison)"}

FRAG = (" The arithmetic / guard expressions of the Rust functions involved are translated from the source on every run (tools/rs2coq.py FRAGMENTS -> Gen.v) "
        "and proved equal, for all arguments, to the statement's formulas and to what the model computes (proofs/Gen_equiv_frag.v: %s); a fragment "
        "the translator no longer finds is reported in the evidence and is then tied by the correspondence check only.")
CLAIMED["C04"]["text"] += FRAG % "c04_code_write_size, c04_code_write_is_model, c04_code_overshoot_guard, c04_code_after_finish_guard, c04_code_direct_guard, c04_code_guards_are_model, c04_code_direct_is_model"
CLAIMED["C08"]["text"] += FRAG % "c08_code_read_limit, c08_code_read_unlimit, c08_code_length_is_model, c08_code_close_is_model"
CLAIMED["C07"]["text"] += FRAG % "c07_code_read_data, c07_code_read_data_is_model, c07_code_len_end, c07_code_read_size_is_model"
CLAIMED["C03"]["text"] += FRAG % "c03_code_chunk_size, c03_code_write_chunk_is_model; c03_code_max_chunk_fit is proved by complete unrolling of both loops and linear arithmetic, so that any equivalent rewrite of max_chunk_fit is accepted"
CLAIMED["C02"]["text"] += (" Flow<SendRequest>::headers_map (operation headers_map of the script semantics) is modelled and compared too: it changes nothing, reports the effective "
                           "headers collapsed as by HeaderMap::insert -- for every name the value of its last occurrence (c02_headers_map_last_value) -- and analysis is idempotent "
                           "(c02_headers_map_pure, c02_headers_map_reports, c02_analysis_idempotent).")
CLAIMED["C17"]["text"] += (" The second entry point that runs the analysis, Flow<SendRequest>::headers_map, refuses exactly what a head write refuses, with the same error, emitting and "
                           "changing nothing (c17_headers_map_refuses, c17_headers_map_agrees_with_write); the exhaustive product runs with and without headers_map calls interleaved.")

CLAIMED["C15"]["text"] += (" The method-selection expression inside as_new_flow and the status test of Inner::is_redirect are translated from src/client/flow.rs on every run and proved "
                           "equal to the table / the rule for every status and method (c15_code_redirect_method, c15_code_is_redirect_status, c15_code_is_redirect_is_model).")

CLAIMED["C07"]["text"] += (" Framing needs no output room: outside chunk data a read with an EMPTY output buffer consumes at least one byte when the rest of the coding is visible "
                           "(c07_progress_no_room), and once all chunk data is delivered two such reads (one unless the decoder stands at the CRLF after the last chunk) reach the end "
                           "having consumed exactly the coding (c07_drain_no_room, c07_drain_no_room_two_reads, c07_drain_no_room_run).")

CLAIMED["C09"]["text"] += (" The single-call API is part of the same step function (Call::without_body / with_body, write, is_finished, into_receive, try_response, into_body, read, "
                           "stop_on_chunk_boundary, is_on_chunk_boundary, is_ended): the invariant of c09_step / c09_history covers call objects in all four of their states, so no history of "
                           "single-call operations panics either; the model keeps the analysed call after a write that fails past the analysis, as the code does (found by the correspondence "
                           "runs on into_receive after an overflowing write).")

CODE2 = (" The code itself is part of the development: tools/rs2coq2.py regenerates theories/Gen2.v on every run from the current sources (%s), in state-passing style, and "
         "proofs/Gen2_equiv_*.v prove that translation equivalent to the model these theorems are about, for all arguments (%s); a change of the translated code that is not an "
         "equivalent rewrite breaks that proof obligation of this property. A function rewritten into syntax outside the translated subset, or with a changed interface, is replaced by its "
         "translation at the pinned commit and reported (facts.translator2_fallbacks); it is then tied by the correspondence check only.")
CLAIMED["C07"]["text"] += CODE2 % ("util.rs find_crlf, every method of chunk.rs incl. the parse_input loop, body.rs read_chunked / read",
                                   "c07_code_parse_input, c07_code_parse_input_frame, c07_code_read_equiv; c07_code_step is c07_step stated about the translated BodyReader::read: any window, any output buffer, "
                                   "the output written at the front of the buffer and nothing else touched")
CLAIMED["C12"]["text"] += CODE2 % ("chunk.rs, body.rs BodyReader::read with all four framings",
                                   "c12_code_decoder_no_panic, c12_code_read_no_panic: the translated decoder and reader never panic from a between-calls state on any bytes and any buffer, and fail exactly when the model fails")
CLAIMED["C08"]["text"] += CODE2 % ("body.rs BodyReader::read, read_limit, read_unlimit, is_ended, body_mode",
                                   "c08_code_read_equiv, c08_code_len_step, c08_code_close_step: exactly min(input, room, remaining) resp. min(input, room) bytes copied to the front of the buffer, remaining length counted down by that")
CLAIMED["C06"]["text"] += CODE2 % ("body.rs for_response and header_defined complete, util.rs compare_lowercase_ascii with its loop; the header lookup is a function parameter",
                                   "c06_code_for_response_whole, c06_code_header_defined, c06_code_compare_lowercase: plain equalities with the model's functions, which c06_mode_spec proves equal to the statement's rule")
CLAIMED["C04"]["text"] += CODE2 % ("body.rs BodyWriter::write, consume_direct_write, left_to_send",
                                   "c04_code_write_equiv, c04_code_sized_write (min of three, verbatim, appended, counted down, ended exactly at zero, the assert! cannot fire), c04_code_direct_equiv")
CLAIMED["C03"]["text"] += CODE2 % ("body.rs BodyWriter::write with its while loop, write_chunk, finish",
                                   "c03_code_write_equiv, c03_code_write_ok, c03_code_write_chunk, c03_code_finish")
CLAIMED["C09"]["text"] += (" The successor decisions of the code itself are part of the development: tools/rs2coq2.py regenerates, on every run, decision skeletons of the five proceed functions of "
                           "src/client/flow.rs that branch (gen_next_*: the Rust conditions over can_proceed / should_send_body / await_100_continue / need_response_body / is_close_delimited / is_redirect, "
                           "the XxxResult variant of each path, the close reasons added on the way), and proofs/Gen2_equiv_flow.v proves that whenever the model's proceed succeeds its successor and added close "
                           "reasons are the ones the translated decision yields from the model's flags (c09_code_send_request .. c09_code_recv_body, tables c09_code_*_table proved by evaluating the generated "
                           "functions on all flag combinations); a skeleton outside the translated subset falls back to the pinned one and is reported.")
_FLAGS = (" Part of the flow's code is itself inside the development: tools/rs2coq2.py regenerates on every run, from src/client/flow.rs, %s with the fields of self.inner they touch as "
          "parameters and what they take from the http crate / the parsers as values, and proofs/Gen2_equiv_flow.v proves them equal to the model (%s); a change of these functions that is not an equivalent "
          "rewrite breaks that proof obligation of this property; a function outside the translated subset falls back to its pinned translation and is reported (facts.translator2_fallbacks).")
CLAIMED["C10"]["text"] += _FLAGS % ("Flow::new (initial close reasons, should_send_body, await_100_continue) and Flow<RecvResponse>::try_response (server Connection: close, status, last Location, skip of a delayed 100)",
                                    "c10_code_new, c10_code_new_table, c10_code_try_response")
CLAIMED["C11"]["text"] += _FLAGS % ("Flow<Await100>::try_read_100 (whole), Flow<RecvResponse>::try_response (the skip of a late 100) and the flags computed by Flow::new",
                                    "c11_code_try_read_100, c11_code_late_100, c11_code_new_flags")
CLAIMED["C17"]["text"] += CODE2 % ("client/amended.rs AmendedRequest::analyze complete -- every rejection rule and the choice of the body's framing; version and method are values, the struct's two header accessors are function parameters",
                                   "c17_code_analyze: plain equality with the model's analyze for every request: same error variant in the same precedence, same framing, same flags")
_CALLTR = (" Call<RecvResponse>::try_response itself (complete head or the partial-redirect work-around with its synthetic Connection: close, the 100 special case, the Content-Length text test, "
           "for_response recorded in the reader) is translated from src/client/call.rs on every run and proved EQUAL to the model's call_try_response (%s, proofs/Gen2_equiv_call.v); the parsers (httparse) stay modelled.")
CLAIMED["C05"]["text"] += _CALLTR % "c05_code_call_try_response"
CLAIMED["C06"]["text"] += _CALLTR % "c06_code_call_try_response"
CLAIMED["C05"]["technique"] += " + the code's own functions translated to Gallina on every run and proved equivalent to the model"
CLAIMED["C02"]["text"] += CODE2 % ("client/call.rs try_write_prelude (loop), try_write_prelude_part (phase machine), do_write_send_line, do_write_headers (loop, blank line glued to the last header line); the request is represented by the rendered pieces of its request line and its effective headers",
                                   "c02_code_write_prelude, c02_code_write_headers: for every request with at least one effective header, every phase and capacity: same new phase, same bytes, same refusal; the translated loop's fuel suffices")
CLAIMED["C04"]["text"] += (" One level up, Call<WithBody>::write in its body phase (the two refusing guards, then the writer) and Call<WithBody>::consume_direct_write are translated from src/client/call.rs as well "
                           "and related to the model's call_write_body / call_direct_write (c04_code_call_write, c04_code_call_direct, proofs/Gen2_equiv_call2.v).")
CLAIMED["C08"]["text"] += (" One level up, Call<RecvBody>::read (reader out of its option, ended short-circuit, BodyReader::read) is translated from src/client/call.rs as well and related to the model's call_read "
                           "(c08_code_call_read, proofs/Gen2_equiv_call2.v).")
_AR = (" Call::analyze_request itself (runs once; Host from the URI when the caller gave none; the body's framing header when the caller gave none; the writer the analysis chose; its flag set only on success) "
       "is translated from src/client/call.rs on every run and proved EQUAL to the model's analyze_request (%s, proofs/Gen2_equiv_call3.v).")
CLAIMED["C02"]["text"] += _AR % "c02_code_analyze_request"
CLAIMED["C14"]["text"] += _AR % "c14_code_analyze_request"
CLAIMED["C14"]["technique"] += " + the code's own functions translated to Gallina on every run and proved equivalent to the model"
CLAIMED["C17"]["text"] += (" What a FAILED analysis leaves behind is translated as well (Call::analyze_request in error-state mode: the values of its mutable fields where it returns an error): nothing changed, "
                           "the 'analysed' flag still unset, so a retry analyses and fails again (c17_code_failed_analysis_changes_nothing).")
CLAIMED["C11"]["text"] += (" What an error of try_read_100 leaves behind is translated as well (error-state mode) and is the model's: the await flag cleared, nothing else (c11_code_try_read_100_after_error).")
_ANF = (" Flow<Redirect>::as_new_flow itself (Location present and text, status, resolution of the target, the method table, taking the previous request, building the next flow, the suppression list in order) is translated "
        "from src/client/flow.rs on every run with the url resolution, the may-keep-credentials test and the two constructions as parameters, and proved to agree with the model's as_new_flow on every flow and policy "
        "(%s, proofs/Gen2_equiv_redirect.v).")
CLAIMED["C13"]["text"] += _ANF % "c13_code_as_new_flow; c13_code_suppression_list: whatever the parameters, the code suppresses authorization (unless SameHost and the target may keep it), cookie, content-length, in that order, nothing else"
CLAIMED["C15"]["text"] += _ANF % "c15_code_as_new_flow"
CLAIMED["C15"]["technique"] += " + the code's own functions translated to Gallina on every run and proved equivalent to the model"
_AMH = CODE2 % ("client/amended.rs AmendedRequest::headers and the accessors built on it (headers_get_all, headers_get, headers_len); the added ArrayVec, the unset list and the original HeaderMap are lists in iteration order",
               "%s: plain equalities with the model's am_headers / get_all: added headers first in the order added, then the original ones that are not unset; the unset list filters inherited headers only")
CLAIMED["C16"]["text"] += _AMH % "c16_code_headers, c16_code_headers_len"
CLAIMED["C13"]["text"] += _AMH % "c13_code_headers, c13_code_headers_get_all"
_PARS = (" src/parser.rs itself (the bridge from httparse to the http types: error mapping with too-many-headers kept apart, Complete / Partial, the version / status / method conversions, which stored "
         "fields are copied into the builder and -- in the partial parser -- where the copy stops, what is returned) is translated on every run with httparse's outcome and the fields it filled in as values and "
         "proved EQUAL to the model's bridge functions on whatever the parser model returns (%s, proofs/Gen2_equiv_parser.v); httparse and the http builder stay modelled.")
CLAIMED["C05"]["text"] += _PARS % "c05_code_try_parse_response, c05_code_try_parse_partial_response"
CLAIMED["C20"]["text"] += _PARS % "c20_code_try_parse_response, c20_code_try_parse_partial_response, c20_code_try_parse_request"
CLAIMED["C20"]["technique"] += " + the code's own functions translated to Gallina on every run and proved equivalent to the model"
CLAIMED["C10"]["text"] += (" The close-reason list itself is translated too: add_close_reason (each reason once, in order), CloseReason::explain, close_reason / must_close_connection of the Redirect and Cleanup states, "
                           "proved equal to the model's add_reason / explain / close_reason / must_close (c10_code_add_close_reason, c10_code_explain, c10_code_close_reason, c10_code_must_close, c10_code_must_close_iff; proofs/Gen2_equiv_small_reasons.v).")
CLAIMED["C09"]["text"] += (" The functions computing the flags are translated as well -- Inner::is_redirect (3xx except 304), BodyState::need_response_body, Call<RecvBody>::is_ended / is_close_delimited / is_on_chunk_boundary, "
                           "Flow<RecvBody>::can_proceed -- and proved equal to the model's (c09_code_is_redirect, c09_code_need_response_body, c09_code_recv_body_can_proceed, c09_code_call_reader_questions; proofs/Gen2_equiv_small_flags.v).")
CLAIMED["C06"]["text"] += (" Call::body_mode (the mode reported to the caller) is translated and proved equal to the model's call_body_mode (c06_code_call_body_mode, proofs/Gen2_equiv_small_mode.v).")
CLAIMED["C02"]["text"] += (" The all-or-nothing reading the translator gives every w.try_write(..) is itself a theorem about the translation of src/util.rs Writer::try_write (the cursor position is put back when the closure fails; with std's "
                           "Cursor::write_all as the stated closure: all bytes or none -- c02_code_try_write_restores, c02_code_try_write_all_or_nothing, c02_code_try_write_two; proofs/Gen2_equiv_trywrite.v).")
CLAIMED["C13"]["text"] += (" can_redirect_auth_header itself (same host, and same scheme or an upgrade to https) is translated from src/client/flow.rs with what it reads off the two URIs as values, and is the model's test on the model's "
                           "URIs (c13_code_can_redirect_auth_header, c13_code_can_redirect_auth_header_spec; proofs/Gen2_equiv_auth.v).")
CLAIMED["C10"]["text"] += (" The vector behind the list, src/util.rs ArrayVec::push / truncate / deref, is translated too; on the visible part its push appends and it panics exactly when full: the model's push_reason "
                           "(c10_code_arrayvec_push, c10_code_arrayvec_push_any; proofs/Gen2_equiv_arrayvec.v).")
CLAIMED["C09"]["text"] += (" So are the tests behind the other can_proceed functions: Phase::is_prelude / is_body, the is_finished functions of the three calls, the guard of do_into_receive, Call::into_body, "
                           "Flow<SendRequest>::can_proceed (c09_code_phase_tests, c09_code_is_finished, c09_code_do_into_receive, c09_code_into_body, c09_code_send_request_can_proceed; proofs/Gen2_equiv_small_proceed.v).")
CLAIMED["C17"]["text"] += (" Call<WithoutBody>::into_send_body (send_body_despite_method: the skip flag and the chunked default, refused once analysed) is translated and proved to be the model's (c17_code_into_send_body, proofs/Gen2_equiv_small_despite.v).")
CLAIMED["C18"]["text"] += (" Flow<SendBody>::calculate_max_input (the function the caller asks) is translated whole by tools/rs2coq2.py and is the model's send_body_max_input (c18_code_flow_calculate_max_input, proofs/Gen2_equiv_small_maxinput.v).")
CLAIMED["C11"]["text"] += (" Chained with the translated parser of src/parser.rs (zero header slots): from httparse's outcome to the flow's fields the translated code is the model's try_read_100 (c11_code_try_read_100_chain).")
CLAIMED["C05"]["text"] += (" Chained: httparse's outcome -> the two translated parsers -> the translated Call::try_response equals the model's call_try_response (c05_code_call_try_response_chain).")
CLAIMED["C05"]["text"] += (" What a FAILED Call::try_response leaves behind is translated too (error-state mode): the reader as it was (c05_code_failed_try_response_changes_nothing).")
CLAIMED["C10"]["text"] += (" What a FAILED Flow::try_response leaves behind is translated too (error-state mode): reasons, await flag, status and location as they were (c10_code_failed_try_response_changes_nothing).")
CLAIMED["C13"]["text"] += (" The capacity-checked append read into unset_header is the translated src/util.rs ArrayVec::push on a vector of capacity 3 (c13_code_arrayvec_unset).")
CLAIMED["C16"]["text"] += (" The vector behind the added headers: the translated src/util.rs ArrayVec::push appends on the visible part and panics exactly when full, for any capacity (c16_code_arrayvec_push_capped).")
CLAIMED["C14"]["text"] += (" AmendedRequest::set_header itself is translated (conversions validated, name lower-cased, ArrayVec::push) and equals the reading used above; that push is the translated src/util.rs ArrayVec::push (c14_code_set_header, c14_code_capped_push).")
CLAIMED["C13"]["text"] += (" AmendedRequest::unset_header itself is translated and equals the reading used above for the three names the redirect passes (c13_code_unset_header, c13_code_unset_header_invalid).")
CLAIMED["C19"]["text"] += (" BodyWriter::write itself (with its chunk loop) is translated from src/body.rs on every run and proved to produce the model's result for every mode, flag, input and capacity (c19_code_write_equiv, proofs/Gen2_equiv_writer.v), so the progress theorems are about the code.")
CLAIMED["C19"]["technique"] += " + the code's own functions translated to Gallina on every run and proved equivalent to the model"
CLAIMED["C11"]["text"] += (" HeaderIterExt::has_expect_100 (the Expect test behind the await flag) is translated from src/ext.rs and is the model's test (c11_code_has_expect_100).")
for _p in ("C02", "C03", "C04", "C06", "C07", "C08", "C09", "C10", "C11", "C12", "C13", "C16", "C17", "C18"):
    CLAIMED[_p]["technique"] += " + the code's own functions translated to Gallina on every run and proved equivalent to the model"

NOT_YET = {}
ALL = ["C%02d" % i for i in range(1, 21)]


def main():
    checks = []
    for pid in ALL:
        if pid not in CLAIMED:
            continue
        c = CLAIMED[pid]
        checks.append({
            "property_id": pid,
            "quick_cmd": "python3 verif.py check %s --tier quick" % pid,
            "thorough_cmd": "python3 verif.py check %s --tier thorough" % pid,
            "evidence_file": "/verif/evidence/%s.json" % pid,
            "replay_cmd_template": "python3 verif.py replay {path}",
            "engine": "coq-model-correspondence",
            "level_claimed": {"category": "proof", "text": c["text"], "design_ref": c["design_ref"]},
            "level_note": c["note"],
            "technique": c["technique"],
        })
    na = []
    for pid in ALL:
        if pid not in CLAIMED:
            na.append({"property_id": pid,
                       "reason": NOT_YET.get(pid, "not claimed yet: model covers the code, theorems/generator/oracle for this property are still being built (work in progress, the technique applies)")})
    m = {
        "version": 1,
        "setup_cmd": "python3 verif.py setup",
        "hooks": {
            "guard": "ureq_proto_verif",
            "enable": "RUSTFLAGS=\"--cfg ureq_proto_verif\" (set by verif.py when it builds the harness; no hook is currently needed: every observation goes through the public API)",
            "baseline_off_cmd": "cd /repo && cargo test --workspace --no-fail-fast --offline",
            "source_commits": [],
            "add_only": True,
        },
        "engines": [{
            "name": "coq-model-correspondence",
            "path": "/verif/verif.py",
            "serves_properties": sorted(CLAIMED.keys()),
            "kind_free_text": "Coq 8.16 theorems about a hand-written executable Gallina model of ureq-proto (coq/theories), tied to /repo on every run in two ways: (1) translators (tools/rs2coq.py, tools/rs2coq2.py) regenerate Gen.v / Gen2.v from the current Rust sources -- the decision tables and arithmetic of ext.rs / body.rs, and whole functions of util.rs, chunk.rs, body.rs, client/call.rs, client/flow.rs, client/amended.rs in state-passing style -- and proofs/Gen*_equiv_*.v prove those translations equivalent to the model for all arguments (re-checked against what the code says now); (2) differential execution of generated scripts on the real crate (harness/) and on the extracted model (modelrun/), plus per-property oracles on the implementation's observations",
        }],
        "checks": checks,
        "not_applicable": na,
        "notes": "Genuine defects of the pinned tree were repaired by 16 unguarded 'fix:' commits in /repo (git log --grep '^fix:'); they and the known findings are listed in /verif/known_findings.txt and DESIGN.md section 6. Exit code 2 = infrastructure failure (never a verdict).",
    }
    with open(os.path.join(ROOT, "MANIFEST.json"), "w") as f:
        json.dump(m, f, indent=1)
    print("claimed:", sorted(CLAIMED.keys()))


if __name__ == "__main__":
    main()
