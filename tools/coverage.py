#!/usr/bin/env python3
"""Line coverage of /repo/src under the scripts of the correspondence check (all properties, one tier, one seed).

Not a registered check and not a verdict: it measures how much of the implementation the model has actually been compared
with. A line of non-test code that no script executes is a place where the hand-written model is tied to the code by reading
only. Needs the nightly toolchain's llvm-tools (present in this sandbox). Output: coverage/summary.json, coverage/uncovered.txt.

  python3 tools/coverage.py [--tier quick|thorough] [--seed N]
"""
import glob
import importlib
import json
import os
import random
import shutil
import subprocess
import sys

ROOT = os.path.dirname(os.path.dirname(os.path.abspath(__file__)))
sys.path.insert(0, ROOT)
import verif  # noqa: E402

COV = os.path.join(ROOT, ".work", "cov")
OUT = os.path.join(ROOT, "coverage")


def tool(name):
    c = glob.glob(os.path.expanduser("~/.rustup/toolchains/nightly-x86_64-unknown-linux-gnu/lib/rustlib/*/bin/" + name))
    if not c:
        raise SystemExit("llvm tool %s not found" % name)
    return c[0]


def main():
    tier = "quick"
    seed = 1
    if "--tier" in sys.argv:
        tier = sys.argv[sys.argv.index("--tier") + 1]
    if "--seed" in sys.argv:
        seed = int(sys.argv[sys.argv.index("--seed") + 1])
    shutil.rmtree(COV, ignore_errors=True)
    os.makedirs(COV)
    os.makedirs(OUT, exist_ok=True)
    env = dict(os.environ)
    env.update({"CARGO_NET_OFFLINE": "true", "RUSTFLAGS": "-C instrument-coverage --cfg ureq_proto_verif",
                "CARGO_TARGET_DIR": os.path.join(COV, "target"),
                "LLVM_PROFILE_FILE": os.path.join(COV, "build-%p.profraw")})   # instrumented build scripts must not litter /repo
    p = subprocess.run(["cargo", "+nightly", "build", "--offline", "--bin", "implrun"], cwd=verif.HARNESS, env=env,
                       stdout=subprocess.PIPE, stderr=subprocess.STDOUT, text=True)
    if p.returncode != 0:
        print(p.stdout[-3000:])
        return 2
    exe = os.path.join(COV, "target", "debug", "implrun")
    per_prop = {}
    for pid in ["C%02d" % i for i in range(1, 21)]:
        mod = importlib.import_module("props_py." + pid)
        scripts = (mod.corpus() if hasattr(mod, "corpus") else []) + mod.generate(random.Random(seed), tier, 1)
        os.environ["LLVM_PROFILE_FILE"] = os.path.join(COV, "prof", pid + "-%p.profraw")
        verif.run_sharded(exe, scripts, 900, "cov")
        per_prop[pid] = len(scripts)
        print(pid, len(scripts), "scripts", flush=True)
    profraw = glob.glob(os.path.join(COV, "prof", "*.profraw"))
    profdata = os.path.join(COV, "all.profdata")
    subprocess.run([tool("llvm-profdata"), "merge", "-sparse", "-o", profdata] + profraw, check=True)
    exp = subprocess.run([tool("llvm-cov"), "export", "-format=text", "-instr-profile=" + profdata, exe],
                         stdout=subprocess.PIPE, text=True, check=True).stdout
    data = json.loads(exp)
    summary = {}
    uncovered_txt = []
    for f in data["data"][0]["files"]:
        name = f["filename"]
        if not name.startswith(verif.REPO + "/src/"):
            continue
        rel = name[len(verif.REPO) + 1:]
        src = open(name).read().split("\n")
        # lines of the test module do not count
        test_start = None
        for i, l in enumerate(src):
            if l.strip().startswith("#[cfg(test)]") and i + 1 < len(src) and src[i + 1].strip().startswith(("mod ", "pub mod ")):
                test_start = i + 1
                break
        covered, total, unc = 0, 0, []
        seen = {}
        for seg in f["segments"]:
            pass
        # line-oriented view from the segments: use llvm-cov's per-line logic via "show" would be simpler, but export gives
        # segments (line, col, count, has_count, is_region_entry, is_gap); approximate: a line is executable if a region starts
        # on it; covered if any region entry on it has count > 0
        lines = {}
        for seg in f["segments"]:
            line, col, count, has_count, is_entry = seg[0], seg[1], seg[2], seg[3], seg[4]
            if not has_count or not is_entry:
                continue
            if test_start is not None and line > test_start:
                continue
            lines.setdefault(line, 0)
            lines[line] = max(lines[line], count)
        for line, count in sorted(lines.items()):
            total += 1
            if count > 0:
                covered += 1
            else:
                unc.append(line)
        summary[rel] = {"region_start_lines": total, "covered": covered, "uncovered_lines": unc}
        for line in unc:
            uncovered_txt.append("%s:%d: %s" % (rel, line, src[line - 1].strip()[:110]))
    tot = sum(v["region_start_lines"] for v in summary.values())
    cov = sum(v["covered"] for v in summary.values())
    res = {"tier": tier, "seed": seed, "scripts_per_property": per_prop, "files": summary,
           "total_region_start_lines": tot, "covered": cov, "percent": round(100.0 * cov / max(tot, 1), 2),
           "note": "lines of non-test code of /repo/src on which a coverage region starts; covered = executed by at least one script of the "
                   "correspondence check (implementation side)"}
    json.dump(res, open(os.path.join(OUT, "summary.json"), "w"), indent=1, sort_keys=True)
    open(os.path.join(OUT, "uncovered.txt"), "w").write("\n".join(uncovered_txt) + "\n")
    print("covered %d of %d region-start lines (%.1f%%); uncovered listed in coverage/uncovered.txt" % (cov, tot, res["percent"]))
    shutil.rmtree(COV, ignore_errors=True)
    return 0


if __name__ == "__main__":
    sys.exit(main())
