#!/usr/bin/env python3
"""Runs one script (ops on stdin, one per line; lines of python `hx(b'...')` are NOT evaluated -- give final tokens) on the
implementation harness and on the extracted model and prints the observations side by side.  Debug aid, not a check.

  python3 tools/run_script.py < ops.txt        (or: --py 'expr' evaluated with props_py.lib in scope, yielding a list of ops)
"""
import os
import subprocess
import sys

ROOT = os.path.dirname(os.path.dirname(os.path.abspath(__file__)))
sys.path.insert(0, ROOT)
from props_py.lib import *  # noqa


def main():
    if len(sys.argv) > 2 and sys.argv[1] == "--py":
        ops = eval(sys.argv[2])
    else:
        ops = [l.strip() for l in sys.stdin if l.strip()]
    text = "S 0\n" + "\n".join(ops) + "\nE\n"
    impl = os.path.join(ROOT, "harness", "target", "debug", "implrun")
    model = os.path.join(ROOT, "modelrun", "modelrun")
    outs = []
    for exe in (impl, model):
        p = subprocess.run([exe], input=text, capture_output=True, text=True, timeout=120)
        outs.append([l for l in p.stdout.split("\n") if l and not l.startswith("S ") and l != "E"])
    for i, op in enumerate(ops):
        a = outs[0][i] if i < len(outs[0]) else "-"
        b = outs[1][i] if i < len(outs[1]) else "-"
        print("%s %-60s | impl: %-50s | model: %s" % ("  " if a == b else "!!", op[:60], a[:50], b[:50]))


if __name__ == "__main__":
    main()
