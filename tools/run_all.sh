#!/bin/bash
# Runs every registered check of one tier (default quick) on the current /repo; prints one summary line per property.
tier=${1:-quick}
cd "$(dirname "$0")/.."
rc=0
for i in 01 02 03 04 05 06 07 08 09 10 11 12 13 14 15 16 17 18 19 20; do
  out=$(python3 verif.py check C$i --tier $tier 2>&1); r=$?
  echo "$out" | grep -E "^(VIOLATION|KNOWN-FINDING)|tier=" 
  [ $r -ne 0 ] && { echo "C$i exit $r"; rc=1; }
done
exit $rc
