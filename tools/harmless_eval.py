#!/usr/bin/env python3
"""Runs every registered quick check against behaviour-preserving rewrites of the repository (false-alarm test).

  python3 tools/harmless_eval.py <repo checkout to patch> [name ...]

For each /verif/harmless/<name>/patch.diff: apply it to the given checkout (a scratch copy, never /repo itself), run all
quick checks with VERIF_REPO pointing at it, undo it. Results go to harmless/<name>/result.json:
exit code and VIOLATION line per check (expected: exit 0 everywhere, or `no-failing-input-found` where a proof obligation
or the correspondence is broken by the rewrite without the property failing -- which the brief accepts).
"""
import glob
import json
import os
import re
import subprocess
import sys

ROOT = os.path.dirname(os.path.dirname(os.path.abspath(__file__)))


def sh(cmd, cwd=None, env=None, timeout=7200):
    e = dict(os.environ)
    e["CARGO_NET_OFFLINE"] = "true"
    if env:
        e.update(env)
    p = subprocess.run(cmd, shell=True, cwd=cwd, env=e, stdout=subprocess.PIPE, stderr=subprocess.STDOUT, text=True, timeout=timeout)
    return p.returncode, p.stdout


def main():
    repo = os.path.abspath(sys.argv[1])
    if repo == "/repo":
        print("refusing to patch /repo itself")
        return 2
    names = sys.argv[2:] or sorted(os.path.basename(d) for d in glob.glob(os.path.join(ROOT, "harmless", "*")) if os.path.isdir(d))
    src_root = os.environ.get("HARMLESS_SRC", os.path.join(ROOT, "harmless"))
    manifest = json.load(open(os.path.join(ROOT, "MANIFEST.json")))
    ids = [c["property_id"] for c in manifest["checks"]]
    for name in names:
        only = None
        if "=" in name:          # name=C05,C20: only these checks
            name, only = name.split("=", 1)
            only = only.split(",")
        d = os.path.join(src_root, name)
        patch = os.path.join(d, "patch.diff")
        rc, out = sh("git checkout -- . && git apply %s" % patch, cwd=repo)
        if rc != 0:
            print(name, "patch does not apply", out[-300:])
            continue
        res = {}
        try:
            for pid in (only or ids):
                rc, out = sh("python3 verif.py check %s --tier quick" % pid, cwd=ROOT, env={"VERIF_REPO": repo})
                viol = [l for l in out.split("\n") if l.startswith("VIOLATION")]
                why = None
                if viol:
                    m = re.search(r"replay=(\S+)", viol[0])
                    if m and os.path.exists(m.group(1)):
                        rp = json.load(open(m.group(1)))
                        why = rp.get("why") or rp.get("what")
                res[pid] = {"exit": rc, "violation": viol[0] if viol else None, "why": why}
                print(name, pid, rc, viol[0] if viol else "", "|", why, flush=True)
        finally:
            sh("git checkout -- .", cwd=repo)
        out_dir = os.path.join(ROOT, "harmless", name)
        os.makedirs(out_dir, exist_ok=True)
        json.dump(res, open(os.path.join(out_dir, "result.json"), "w"), indent=1, sort_keys=True)
        alarms = [p for p, r in res.items() if r["exit"] != 0]
        print("== %s: %d checks, alarms: %s" % (name, len(res), alarms or "none"), flush=True)
    return 0


if __name__ == "__main__":
    sys.exit(main())
