"""rs2coq2: translator for WHOLE imperative functions of the crate (state machines over byte slices) into Gallina.

It regenerates coq/theories/Gen2.v from the current sources on every run.  Where tools/rs2coq.py handles pure integer
functions and single expressions, this one handles functions that mutate through `&mut self`, `&mut Pos`, `&mut [u8]`,
`&mut Writer`, contain `loop`/`while`, early `return`, `?`, `match` on enums with payload bindings that alias the
matched place (`let left = match self { Self::Chunk(v) => v, .. }; *left -= n;`), `unreachable!()` and `assert!`.

Translation scheme (state passing):
  * a function with mutable parameters (or one that can panic) becomes
        gen_f : params -> res (S1 * ... * Sk * V)
    where S1..Sk are the final values of the mutable parameters, in parameter order, and V the returned value;
    `Err(Error::X)` becomes `Err X` (the state is dropped: what an object is left as after an error is NOT translated, the
    hand-written model's *_err_state functions describe that and are tied by the correspondence check only),
    `unreachable!()` / a failed `assert!` become `Panic`;
  * mutation is shadowing: `x += e` is `let x := x + e in`; a pattern variable bound by matching a mutable place is an
    alias: assigning through it also rebuilds the place (`let left := left - n in let self := DChunk left in`);
  * `&mut [u8]` is a byte list (the whole buffer); `&mut dst[a..]` is a view (buffer, offset a): `dst.len()` is
    `len buf - a`, `dst[..n].copy_from_slice(s)` is `splice buf a n s`; passing a view to a callee passes `drop a buf` and
    writes the returned buffer back behind the first `a` bytes;
  * `&mut Writer` is (available bytes, bytes written so far); `w.try_write(|w| { write!/write_all ... })` is
    all-or-nothing on the concatenation of the pieces (std::io::Cursor semantics: trusted, see DESIGN.md section 5);
  * `loop` / `while` become a structurally recursive function over explicit fuel; the fuel expression and what running out
    of fuel yields are configured per loop so that they coincide with the hand-written model's (whose *_fuel lemmas
    prove the fuel sufficient);
  * slices `x[a..]`, `x[..b]` are `drop` / `take` (an out-of-range slice, which panics in Rust, is not translated: the
    panic-site census of tools/source_facts.py lists those sites; the model's invariants show the indices in range);
  * std functions are replaced by the model's definitions of them (Bytes.v): `str::from_utf8` on a size line by "all bytes
    below 0x80", `str::trim`, `usize::from_str_radix(_, 16)`, `Iterator::position`, `slice::get`.
Integer types become N; `-` is truncated subtraction and `+` does not overflow (the hand-written model carries the
underflow sites that matter as explicit Panic branches; see DESIGN.md section 4).

A function that cannot be translated (syntax outside the subset) is NOT a verdict: Gen2.v then defines the generated name
by the model's own function (FALLBACK2), the function is listed under `translator2_fallbacks` in the evidence and is tied
to the model by the correspondence check only in that run.
"""
import os
import re

from tools.rsparse import Unsupported, parse_fn, split_macro_args, P
from tools import rs2coq

RESERVED = {"left": "left_", "right": "right_", "end": "end_", "in": "in_", "at": "at_", "fix": "fix_", "fun": "fun_", "type": "type_",
            "match": "match_", "with": "with_", "as": "as_", "return": "return_", "then": "then_", "using": "using_", "len": "len_",
            "take": "take_", "drop": "drop_", "self": "self"}


def cn(name):
    return RESERVED.get(name, name)


# enum constructors: (rust type, variant) -> (coq constructor, payload rust type or None)
CTORS = {
    ("Dechunker", "Size"): ("DSize", None), ("Dechunker", "Chunk"): ("DChunk", "usize"), ("Dechunker", "CrLf"): ("DCrLf", None),
    ("Dechunker", "Ending"): ("DEnding", None), ("Dechunker", "Trailer"): ("DTrailer", None), ("Dechunker", "Ended"): ("DEnded", None),
    ("SenderMode", "None"): ("SNone", None), ("SenderMode", "Sized"): ("SSized", "u64"), ("SenderMode", "Chunked"): ("SChunked", None),
    ("BodyReader", "NoBody"): ("RNoBody", None), ("BodyReader", "LengthDelimited"): ("RLength", "u64"),
    ("BodyReader", "Chunked"): ("RChunked", "Dechunker"), ("BodyReader", "CloseDelimited"): ("RClose", None),
    ("BodyMode", "NoBody"): ("BMNoBody", None), ("BodyMode", "LengthDelimited"): ("BMLength", "u64"),
    ("BodyMode", "Chunked"): ("BMChunked", None), ("BodyMode", "CloseDelimited"): ("BMClose", None),
}
for _m in ["GET", "HEAD", "POST", "PUT", "DELETE", "CONNECT", "OPTIONS", "TRACE", "PATCH"]:
    CTORS[("Method", _m)] = (_m, None)
CTORS.update({("Phase", "SendLine"): ("PLine", None), ("Phase", "SendHeaders"): ("PHeaders", "usize"), ("Phase", "SendBody"): ("PBody", None),
              ("Phase", "RecvResponse"): ("PRecvResponse", None), ("Phase", "RecvBody"): ("PRecvBody", None)})
CTORS.update(dict((("CloseReason", r), (r, None)) for r in ("Http10", "ClientConnectionClose", "ServerConnectionClose", "Not100Continue", "CloseDelimitedBody")))
STATUS_CLASS = {"is_informational": 100, "is_success": 200, "is_redirection": 300, "is_client_error": 400, "is_server_error": 500}
CTORS.update({("CallHolder", "WithoutBody"): ("HvWithoutBody", "Phase"), ("CallHolder", "WithBody"): ("HvWithBody", "Phase")})
CTORS.update({("Status", "Complete"): ("HpComplete", "usize"), ("Status", "Partial"): ("HpPartial", None)})
CTORS.update({("RedirectAuthHeaders", "Never"): ("Never", None), ("RedirectAuthHeaders", "SameHost"): ("SameHost", None)})
ENUM_EQB = {"Dechunker": "dechunker_eqb", "Method": "method_eqb", "CloseReason": "reason_eqb"}
STRUCTS = {"Pos": ["index_in", "index_out"]}
# records flattened into their fields when they are the `self` of a method: impl type -> [(field, rust type)]
SELF_RECORDS = {"BodyWriter": [("mode", "SenderMode"), ("ended", "bool")]}
COQ_TYPE = {"Phase": "phase", "Method": "method", "Dechunker": "dechunker", "BodyReader": "reader", "SenderMode": "smode", "bool": "bool", "usize": "N", "u64": "N"}


def parse_all(toks, what="expr"):
    """parse a token list completely (anything left over is an error, never silently dropped)"""
    p = P(toks)
    r = p.expr() if what == "expr" else p.pattern()
    if p.peek()[0] != "eof":
        raise Unsupported("tokens left over after a macro argument: %r" % (p.peek(),))
    return r


class Impure(Exception):
    """the expression needs the continuation-passing translation (it has an effect or can leave the function)"""


class B(object):
    """a binding of the environment"""

    def __init__(self, kind, coq=None, ty=None, **kw):
        self.kind = kind        # val | alias | struct | buf | view | writer | selfrec
        self.coq = coq
        self.ty = ty
        self.mutable = kw.get("mutable", False)
        self.place = kw.get("place")      # alias: coq name of the place it aliases
        self.ctor = kw.get("ctor")        # alias: constructor rebuilding the place
        self.fields = kw.get("fields")    # struct / selfrec: field -> coq name ; writer: {'avail':.., 'out':..}
        self.off = kw.get("off")          # view: offset text
        self.place_b = kw.get("place_b")  # alias: binding name (rust) of the aliased place, for chained write-back


class FnInfo(object):
    def __init__(self, coq, params, kind, has_value=True, rust_ret=""):
        self.coq = coq
        self.params = params          # [(rust name, pkind, rust type tag)]  pkind: val | self | selfrec | struct:<Name> | buf | writer | mutval
        self.kind = kind              # res | option | plain
        self.rust_ret = rust_ret

    def state_params(self):
        return [p for p in self.params if p[1] in ("selfmut", "selfrecmut", "buf", "writer", "mutval") or p[1].startswith("struct:") or p[1].startswith("recmut:")]


class Tr(object):
    def __init__(self, cfg, consts, known):
        self.cfg = cfg
        self.consts = consts
        self.known = known            # {(impl type or None, rust name): FnInfo}
        self.impl = cfg.get("impl")
        self.aux = []
        self.tmp = 0
        self.loop_no = 0
        self.break_k = None
        self.info = None

    # ------------------------------------------------------------------ helpers
    def fresh(self, base="t"):
        self.tmp += 1
        return "%s%d" % (base, self.tmp)

    def ctor(self, segs):
        ty, var = segs[-2], segs[-1]
        if ty == "Self":
            ty = self.impl
        if (ty, var) in CTORS:
            return CTORS[(ty, var)] + (ty,)
        return None

    def state_names(self, env):
        """coq names of everything mutable that is in scope, in a canonical order (function state first)"""
        out = []
        for name in env["__order__"]:
            b = env[name]
            if b.kind in ("struct", "selfrec") and b.mutable:
                out.extend(b.fields[f] for f in b.fields)
            elif b.kind == "writer":
                out.extend([b.fields["avail"], b.fields["out"]])
            elif b.kind == "buf":
                out.append(b.coq)
            elif b.kind in ("val", "alias") and b.mutable:
                out.append(b.coq)
        seen = []
        for n in out:
            if n not in seen:
                seen.append(n)
        return seen

    def fn_state_tuple(self, env):
        """the values returned for the mutable parameters, in parameter order, read from the CURRENT bindings"""
        out = []
        for (pn, pk, pt) in self.info.params:
            if pk == "selfmut":
                out.append("self")
            elif pk == "selfrecmut":
                out.extend("self_" + f for f, _ in SELF_RECORDS[self.impl])
            elif pk.startswith("struct:"):
                out.extend("%s_%s" % (cn(pn), f) for f in STRUCTS[pk[7:]])
            elif pk == "buf":
                out.append(cn(pn) + "_buf")
            elif pk == "writer":
                out.extend([cn(pn) + "_avail", cn(pn) + "_out"])
            elif pk == "mutval":
                out.append(cn(pn))
            elif pk.startswith("recmut:"):
                out.extend("%s_%s" % (cn(pn), f) for f, _ in SELF_RECORDS[pk[7:]])
        return out

    def bind(self, env, name, b):
        env = dict(env)
        if name not in env:
            env["__order__"] = env["__order__"] + [name]
        env[name] = b
        return env

    def tup(self, items):
        return "(" + ", ".join(items) + ")" if len(items) != 1 else items[0]

    # ------------------------------------------------------------------ pure expressions
    def const_num(self, name):
        return str(rs2coq.const_value(name, self.consts))

    def is_enum_expr(self, e, env):
        if e[0] == "path" and len(e[1]) >= 2:
            c = self.ctor(e[1])
            if c:
                return c[2]
        if e[0] == "unary" and e[1] in ("*", "&"):
            return self.is_enum_expr(e[2], env)
        if e[0] == "path" and len(e[1]) == 1 and e[1][0] in env and env[e[1][0]].ty in ENUM_EQB:
            return env[e[1][0]].ty
        return None

    def ty_of(self, e, env):
        """rust type tag of an expression, when known (used to pick methods)"""
        if e[0] == "path" and len(e[1]) == 1 and e[1][0] in env:
            return env[e[1][0]].ty
        if e[0] == "unary" and e[1] in ("*", "&", "&mut"):
            return self.ty_of(e[2], env)
        if e[0] == "field" and e[1] == ("path", ["self"]) and self.impl in SELF_RECORDS:
            return dict(SELF_RECORDS[self.impl]).get(e[2])
        return None

    def closure1(self, c, env):
        if c[0] != "closure" or len(c[1]) != 1:
            raise Unsupported("expected a one-parameter closure")
        if isinstance(c[1][0], tuple):
            pt, env2 = self.pat(c[1][0], env, None)
            return "(fun '%s => %s)" % (pt, self.pure(c[2], env2))
        x = cn(c[1][0])
        env2 = self.bind(env, c[1][0], B("val", x))
        return "(fun %s => %s)" % (x, self.pure(c[2], env2))

    def slice_(self, base, idx, env):
        lo = self.pure(idx[1], env) if idx[1] is not None else None
        hi = self.pure(idx[2], env) if idx[2] is not None else None
        if idx[3] and hi is not None:
            hi = "(N.add %s 1)" % hi
        if lo is None and hi is None:
            return base
        if lo is None:
            return "(take %s %s)" % (hi, base)
        if hi is None:
            return "(drop %s %s)" % (lo, base)
        return "(take (N.sub %s %s) (drop %s %s))" % (hi, lo, lo, base)

    def pure(self, e, env):
        k = e[0]
        if k == "num":
            return str(e[1])
        if k == "bool":
            return "true" if e[1] else "false"
        if k == "bytes":
            return "[" + "; ".join(str(x) for x in e[1]) + "]"
        if k == "str":
            return '(s2b "%s")' % e[1]
        if k == "path":
            segs = e[1]
            if len(segs) == 1:
                n = segs[0]
                if n in env:
                    b = env[n]
                    if b.kind in ("val", "alias"):
                        return b.coq
                    if b.kind == "buf":
                        return b.coq
                    if b.kind == "view":
                        return "(drop %s %s)" % (b.off, b.coq)
                    raise Unsupported("use of %s as a value" % n)
                if n == "NOREASONS":
                    return "(@nil reason)"
                if re.fullmatch(r"[A-Z][A-Z0-9_]*", n):
                    return self.const_num(n)
                if n == "None":
                    return "None"
                raise Unsupported("unknown identifier %s" % n)
            if "::".join(segs) in self.cfg.get("paths", {}):
                return self.cfg["paths"]["::".join(segs)]
            if segs[-2] in ("usize", "u64") and segs[-1] == "MAX":
                return "18446744073709551615"
            if segs[0] == "Error" and len(segs) == 2:
                return segs[1]
            if segs[0] == "StatusCode" and segs[1] in rs2coq.STATUS:
                return str(rs2coq.STATUS[segs[1]])
            if segs[0] == "CloseReason" and segs[1] in REASONS:
                return segs[1]
            c = self.ctor(segs)
            if c:
                if c[1] is not None:
                    raise Unsupported("constructor %s without its argument" % segs[-1])
                return c[0]
            raise Unsupported("path %s" % "::".join(segs))
        if k == "unary":
            if e[1] == "!":
                return "(negb %s)" % self.pure(e[2], env)
            if e[1] in ("*", "&", "&mut"):
                return self.pure(e[2], env)
            raise Unsupported("unary %s" % e[1])
        if k == "cast":
            ty = e[2].strip()
            inner = self.pure(e[1], env)
            if ty in ("u64", "usize", "u128"):
                return inner
            mod = {"u32": 4294967296, "u16": 65536, "u8": 256}.get(ty)
            if mod is None:
                raise Unsupported("cast to %s" % ty)
            return "(N.modulo %s %d)" % (inner, mod)
        if k == "bin":
            op = e[1]
            if op in ("&&", "||"):
                return "(%s %s %s)" % (self.pure(e[2], env), op, self.pure(e[3], env))
            a, b = self.pure(e[2], env), self.pure(e[3], env)
            if op in ("==", "!="):
                et = self.is_enum_expr(e[2], env) or self.is_enum_expr(e[3], env)
                def is_bytes(x):
                    while x[0] == "unary":
                        x = x[2]
                    return (x[0] == "path" and len(x[1]) == 1 and x[1][0] in self.cfg.get("bytes_vars", [])) or \
                        (x[0] == "field" and x[2] in ("0", "1") and self.cfg.get("bytes_vars") is not None)
                def some_arg(x):
                    return x[2][0] if x[0] == "call" and x[1] == ("path", ["Some"]) and len(x[2]) == 1 else None
                if (some_arg(e[2]) is not None) != (some_arg(e[3]) is not None) and not self.cfg.get("opt_bytes_vars"):
                    # opt == Some(n) on numbers
                    o, n = (e[3], some_arg(e[2])) if some_arg(e[2]) is not None else (e[2], some_arg(e[3]))
                    t = "(match %s with Some opt_v => N.eqb opt_v %s | None => false end)" % (self.pure(o, env), self.pure(n, env))
                    return t if op == "==" else "(negb %s)" % t
                def is_opt_bytes(x):
                    while x[0] == "unary":
                        x = x[2]
                    return x[0] == "path" and len(x[1]) == 1 and x[1][0] in self.cfg.get("opt_bytes_vars", [])
                if is_opt_bytes(e[2]) or is_opt_bytes(e[3]):
                    t = "(opt_bytes_eqb %s %s)" % (a, b)
                    return t if op == "==" else "(negb %s)" % t
                if is_bytes(e[2]) or is_bytes(e[3]):
                    t = "(beq_bytes %s %s)" % (a, b)
                    return t if op == "==" else "(negb %s)" % t
                if any(x[0] == "path" and x[1][0] == "Error" for x in (e[2], e[3])):
                    t = "(err_eqb %s %s)" % (a, b)
                    return t if op == "==" else "(negb %s)" % t
                if et:
                    if et not in ENUM_EQB:
                        raise Unsupported("equality on %s" % et)
                    t = "(%s %s %s)" % (ENUM_EQB[et], a, b)
                elif e[2][0] == "bool" or e[3][0] == "bool":
                    t = "(Bool.eqb %s %s)" % (a, b)
                else:
                    t = "(N.eqb %s %s)" % (a, b)
                return t if op == "==" else "(negb %s)" % t
            if op in ("<", "<=", ">", ">="):
                f = "N.ltb" if op in ("<", ">") else "N.leb"
                x, y = (a, b) if op in ("<", "<=") else (b, a)
                return "(%s %s %s)" % (f, x, y)
            f = {"+": "N.add", "-": "N.sub", "*": "N.mul", "/": "N.div", "%": "N.modulo"}.get(op)
            if f is None:
                raise Unsupported("operator %s" % op)
            return "(%s %s %s)" % (f, a, b)
        if k == "struct" and e[1] in self.cfg.get("result_structs", {}):
            fields = dict(e[2])
            order = self.cfg["result_structs"][e[1]]
            if sorted(fields) != sorted(order):
                raise Unsupported("fields of struct %s" % e[1])
            return "(" + ", ".join(self.pure(fields[f], env) for f in order) + ")"
        if k == "tuple":
            if not e[1]:
                return "tt"
            return "(" + ", ".join(self.pure(x, env) for x in e[1]) + ")"
        if k == "index":
            if e[2][0] != "range":
                raise Unsupported("indexing by a single index")
            return self.slice_(self.pure(e[1], env), e[2], env)
        if k == "field":
            base = e[1]
            if base[0] == "path" and len(base[1]) == 1 and base[1][0] in env:
                b = env[base[1][0]]
                if b.kind in ("struct", "selfrec") and e[2] in b.fields:
                    return b.fields[e[2]]
                if b.kind == "val" and e[2] in ("0", "1"):
                    return "(%s %s)" % ("fst" if e[2] == "0" else "snd", b.coq)
                if b.kind == "val" and e[2] in self.cfg.get("val_fields", {}):
                    return "(%s %s)" % (self.cfg["val_fields"][e[2]], b.coq)
            raise Unsupported("field access .%s" % e[2])
        if k == "if":
            if e[3] is None:
                raise Impure()
            return "(if %s then %s else %s)" % (self.pure(e[1], env), self.pure_block(e[2], env), self.pure_block(e[3], env))
        if k == "block":
            return self.pure_block(e, env)
        if k == "match":
            return self.pure_match(e, env)
        if k == "macro":
            if e[1] == "matches":
                parts = split_macro_args(e[2])
                if len(parts) != 2:
                    raise Unsupported("matches! with %d arguments" % len(parts))
                scrut = parse_all(parts[0])
                pp = P(parts[1])
                pat = pp.pattern()
                guard = None
                if pp.at("if"):
                    pp.next()
                    guard = pp.expr()
                if pp.peek()[0] != "eof":
                    raise Unsupported("tokens left over in matches!")
                pt, env2 = self.pat(pat, env, None)
                return "(match %s with %s => %s | _ => false end)" % (self.pure(scrut, env), pt, self.pure(guard, env2) if guard is not None else "true")
            raise Impure()
        if k == "call":
            return self.pure_call(e, env)
        if k == "mcall":
            return self.pure_mcall(e, env)
        if k in ("try", "return", "break", "continue", "while", "loop", "for"):
            raise Impure()
        raise Unsupported("expression %s" % k)

    def pure_block(self, blk, env):
        if blk[0] != "block":
            return self.pure(blk, env)
        out = []
        for s in blk[1]:
            if s[0] == "let" and s[1][0] == "pbind":
                out.append("let %s := %s in" % (cn(s[1][1]), self.pure(s[2], env)))
                env = self.bind(env, s[1][1], B("val", cn(s[1][1])))
            elif s[0] == "const":
                out.append("let %s := %s in" % (s[1], self.pure(s[2], env)))
                env = self.bind(env, s[1], B("val", s[1]))
            else:
                raise Impure()
        if blk[2] is None:
            raise Impure()
        return "(" + " ".join(out + [self.pure(blk[2], env)]) + ")" if out else self.pure(blk[2], env)

    def pure_match(self, e, env):
        scrut = self.pure(e[1], env)
        arms = []
        for pat, body in e[2]:
            self._sum_pat = self.cfg.get("sum_types", {}).get(self.ty_of(e[1], env))
            try:
                pt, env2 = self.pat(pat, env, None)
            finally:
                self._sum_pat = None
            arms.append("| %s => %s" % (pt, self.pure(body, env2)))
        return "(match %s with %s end)" % (scrut, " ".join(arms))

    def pat(self, p, env, place):
        """(coq pattern, env with the pattern's variables). place: (coq name of the matched mutable place, rust binding name) or None"""
        k = p[0]
        if k == "pwild":
            return "_", env
        if k == "pbind":
            return cn(p[1]), self.bind(env, p[1], B("val", cn(p[1])))
        if k == "plit":
            return self.pure(p[1], env), env
        if k == "por":
            pts = []
            for a in p[1]:
                t, env = self.pat(a, env, place)
                pts.append(t)
            return " | ".join(pts), env
        if k == "ptuple":
            pts = []
            for a in p[1]:
                t, env = self.pat(a, env, None)
                pts.append(t)
            return "(" + ", ".join(pts) + ")", env
        if k == "ppath":
            segs = p[1]
            if getattr(self, "_sum_pat", None) and segs in (["Ok"], ["Err"]):
                names = self._sum_pat
                self._sum_pat = None
                t, env = self.pat(p[2][0], env, None)
                return "%s %s" % (names[0] if segs == ["Ok"] else names[1], t), env
            if getattr(self, "_res_pat", False) and segs in (["Ok"], ["Err"]):
                self._res_pat = False
                t, env = self.pat(p[2][0], env, None)
                return "%s %s" % (segs[0], t), env
            if segs == ["Some"] or segs == ["Ok"]:
                t, env = self.pat(p[2][0], env, None)
                return "Some %s" % (("(%s)" % t) if " " in t and not t.startswith("(") else t), env
            if segs == ["None"]:
                return "None", env
            if segs == ["Err"] and p[2] and p[2][0][0] == "pwild":
                return "None", env          # Err(_) of a std Result that the model reads as an option
            if len(segs) >= 2:
                c = self.ctor(segs)
                if c:
                    if p[2] is None:
                        if c[1] is not None:
                            raise Unsupported("constructor pattern %s without its argument" % segs[-1])
                        return c[0], env
                    sub = p[2][0]
                    if sub[0] == "pwild":
                        return "%s _" % c[0], env
                    if sub[0] == "plit":
                        return "%s %s" % (c[0], self.pure(sub[1], env)), env
                    if sub[0] != "pbind":
                        raise Unsupported("nested constructor pattern")
                    v = cn(sub[1])
                    if place is not None:
                        b = B("alias", v, ty=c[1], mutable=True, place=place[0], ctor=c[0], place_b=place[1])
                    else:
                        b = B("val", v, ty=c[1])
                    return "%s %s" % (c[0], v), self.bind(env, sub[1], b)
            raise Unsupported("pattern %s" % "::".join(segs))
        raise Unsupported("pattern kind %s" % k)

    def known_fn(self, recv_ty, name):
        if (recv_ty, name) in self.known:
            return self.known[(recv_ty, name)]
        if (None, name) in self.known and name in [r for r, _c, _a in self.cfg.get("known_res", [])]:
            return self.known[(None, name)]
        if recv_ty is None:
            c = [v for (t, n), v in self.known.items() if n == name]
            if len(c) == 1:
                return c[0]
        return None

    def pure_call(self, e, env):
        f, args = e[1], e[2]
        if f[0] != "path":
            raise Unsupported("call of a computed function")
        segs = f[1]
        name = segs[-1]
        if "::".join(segs) in self.cfg.get("functions", {}):
            f = self.cfg["functions"]["::".join(segs)]
            return "(%s %s)" % (f, " ".join(self.pure(a, env) for a in args)) if args else f
        if segs == ["Some"]:
            return "(Some %s)" % self.pure(args[0], env)
        if segs == ["log_data"]:
            return "tt"
        if segs == ["Flow", "wrap"] and self.cfg.get("wrap_fields") and args[0][0] == "path" and args[0][1][0] in env and env[args[0][1][0]].kind == "struct":
            b = env[args[0][1][0]]
            return "(" + ", ".join(b.fields[f] for f in self.cfg["wrap_fields"]) + ")"
        if segs == ["add_close_reason"] or segs[-2:] == ["mem", "replace"]:
            raise Impure()
        if segs[-2:] == ["str", "from_utf8"]:
            return "(std_from_utf8 %s)" % self.pure(args[0], env)
        if segs[-1] == "from_str_radix" and len(args) == 2 and args[1] == ("num", 16):
            return "(parse_hex_usize %s)" % self.pure(args[0], env)
        if segs[-1] == "from_str_radix" and len(args) == 2 and args[1][0] == "num" and 2 <= args[1][1] <= 36:
            return "(parse_radix_usize %d %s)" % (args[1][1], self.pure(args[0], env))
        c = self.ctor(segs) if len(segs) >= 2 else None
        if c:
            return "(%s %s)" % (c[0], self.pure(args[0], env))
        if len(segs) == 1 and name in env and env[name].kind == "val":
            return "(%s %s)" % (env[name].coq, " ".join(self.pure(a, env) for a in args))      # a closure parameter
        if len(segs) >= 2:
            fi = self.known_fn(self.impl if segs[-2] == "Self" else segs[-2], name)
        else:
            fi = self.known_fn(None, name)
        if fi is not None:
            if fi.kind == "res" or fi.state_params():
                raise Impure()
            return "(%s %s)" % (fi.coq, " ".join(self.pure(a, env) for a in args)) if args else fi.coq
        raise Unsupported("call of %s" % "::".join(segs))

    def pure_mcall(self, e, env):
        recv, name, args = e[1], e[2], e[3]
        if name in ("copy_from_slice", "try_write", "write_all", "push"):
            raise Impure()
        # iterator chains on byte slices
        if name == "position" and len(args) == 1:
            base = self.iter_base(recv, env)
            return "(position %s %s)" % (self.closure1(args[0], env), base)
        if name in ("all", "any") and len(args) == 1:
            base = self.iter_base(recv, env)
            return "(%s %s %s)" % ("forallb" if name == "all" else "existsb", self.closure1(args[0], env), base)
        if name == "len" and not args:
            if recv[0] == "path" and len(recv[1]) == 1 and recv[1][0] in env and env[recv[1][0]].kind == "writer":
                return "(len %s)" % env[recv[1][0]].fields["out"]
            if recv[0] == "path" and len(recv[1]) == 1 and recv[1][0] in env and env[recv[1][0]].kind == "view":
                b = env[recv[1][0]]
                return "(N.sub (len %s) %s)" % (b.coq, b.off)
            return "(len %s)" % self.pure(recv, env)
        if name == "is_empty" and not args:
            return "(N.eqb (len %s) 0)" % self.pure(recv, env)
        if name in ("min", "max") and len(args) == 1:
            return "(N.%s %s %s)" % (name, self.pure(recv, env), self.pure(args[0], env))
        if name == "saturating_sub" and len(args) == 1:
            return "(N.sub %s %s)" % (self.pure(recv, env), self.pure(args[0], env))
        if name == "next" and not args:
            return "(first_of_list %s)" % self.iter_base(recv, env)
        if name in ("filter", "map", "chain") and len(args) == 1 and self.cfg.get("list_result"):
            return self.iter_base(e, env)
        if name == "skip" and len(args) == 1:
            return "(drop %s %s)" % (self.pure(args[0], env), self.pure(recv, env))
        if name == "get" and len(args) == 1:
            return "(get_at %s %s)" % (self.pure(recv, env), self.pure(args[0], env))
        if name == "unwrap_or" and len(args) == 1:
            return "(unwrap_or %s %s)" % (self.pure(recv, env), self.pure(args[0], env))
        if name == "trim" and not args:
            return "(trim %s)" % self.pure(recv, env)
        if name in ("is_some", "is_none") and not args:
            return "(match %s with Some _ => %s | None => %s end)" % (self.pure(recv, env), "true" if name == "is_some" else "false",
                                                                      "false" if name == "is_some" else "true")
        if name in ("clone", "copied", "cloned", "as_bytes", "bytes", "iter") and not args:
            return self.pure(recv, env)
        if name == "available" and not args and recv[0] == "path" and recv[1][0] in env and env[recv[1][0]].kind == "writer":
            return env[recv[1][0]].fields["avail"]
        if name == "len" and not args and recv[0] == "path" and recv[1][0] in env and env[recv[1][0]].kind == "writer":
            return "(len %s)" % env[recv[1][0]].fields["out"]
        if name in self.cfg.get("methods", {}):
            return "(%s %s)" % (self.cfg["methods"][name], " ".join([self.pure(recv, env)] + [self.pure(a, env) for a in args]))
        if name in STATUS_CLASS and not args:
            # http::StatusCode class tests on a status held as a number
            lo = STATUS_CLASS[name]
            x = self.pure(recv, env)
            return "((N.leb %d %s) && (N.ltb %s %d))" % (lo, x, x, lo + 100)
        if name in ("is_err", "is_none") and not args and recv[0] == "mcall" and recv[2] == "to_str":
            return "(match %s with Some _ => false | None => true end)" % self.pure(recv, env)
        if name == "count" and not args:
            return "(len %s)" % self.iter_base(recv, env)
        if name == "to_str" and not args:
            return "(hv_to_str %s)" % self.pure(recv, env)
        if name == "ok" and not args:
            return self.pure(recv, env)                    # Result<T, _> -> Option<T>: the modelled std results are options already
        if name == "filter" and len(args) == 1 and recv[0] == "mcall" and recv[2] in ("ok", "to_str"):
            return "(opt_filter %s %s)" % (self.closure1(args[0], env), self.pure(recv, env))
        if name == "and_then" and len(args) == 1:
            return "(opt_bind %s %s)" % (self.pure(recv, env), self.closure1(args[0], env))
        if name == "is_ascii_digit":
            return "(is_digit %s)" % self.pure(recv, env)
        if name in ("is_ascii_lowercase", "is_ascii_uppercase", "is_ascii_alphabetic") and not args:
            return "(%s %s)" % ({"is_ascii_lowercase": "is_lower", "is_ascii_uppercase": "is_upper", "is_ascii_alphabetic": "is_alpha"}[name], self.pure(recv, env))
        if name == "is_ascii" and not args:
            return "(N.ltb %s 128)" % self.pure(recv, env)
        if name == "to_ascii_lowercase" and not args:
            return "(to_lower %s)" % self.pure(recv, env)
        if name == "parse::u64" and not args:
            return "(parse_dec_u64 %s)" % self.pure(recv, env)
        if name == "contains" and len(args) == 1 and self.ty_of(recv, env) == "reasons":
            return "(existsb (reason_eqb %s) %s)" % (self.pure(args[0], env), self.pure(recv, env))
        if name == "first" and not args:
            return "(hd_error %s)" % self.pure(recv, env)
        if name == "map" and len(args) == 1 and (self.ty_of(recv, env) == "option" or (recv[0] == "mcall" and recv[2] == "first")):
            return "(option_map %s %s)" % (self.closure1(args[0], env), self.pure(recv, env))
        if name == "contains" and len(args) == 1 and recv[0] == "range" and recv[1] is not None and recv[2] is not None:
            x = self.pure(args[0], env)
            hi = self.pure(recv[2], env)
            return "((N.leb %s %s) && (%s %s %s))" % (self.pure(recv[1], env), x, "N.leb" if recv[3] else "N.ltb", x, hi)
        # methods of the crate that were translated before
        rty = self.ty_of(recv, env)
        if recv == ("path", ["self"]):
            rty = self.impl
        fi = self.known_fn(rty, name)
        if fi is not None:
            if fi.kind == "res" or fi.state_params():
                raise Impure()
            return "(%s %s)" % (fi.coq, " ".join([self.recv_value(recv, env, fi)] + [self.pure(a, env) for a in args]))
        raise Unsupported("method call .%s(..)" % name)

    def recv_value(self, recv, env, fi):
        if recv[0] == "path" and len(recv[1]) == 1 and recv[1][0] in env and env[recv[1][0]].kind == "selfrec":
            b = env[recv[1][0]]
            return " ".join(b.fields[f] for f in b.fields)
        return self.pure(recv, env)

    def iter_or_pure(self, e, env):
        try:
            return self.iter_base(e, env)
        except Unsupported:
            return self.pure(e, env)

    def iter_base(self, recv, env):
        """x.iter() / x.iter().take(n) / x.bytes() as a list"""
        if recv[0] == "mcall" and recv[2] == "take" and len(recv[3]) == 1:
            return "(take %s %s)" % (self.pure(recv[3][0], env), self.iter_base(recv[1], env))
        if recv[0] == "mcall" and recv[2] in ("iter", "bytes", "chars") and not recv[3]:
            return self.pure(recv[1], env)
        if recv[0] == "mcall" and recv[2] == "split" and len(recv[3]) == 1 and recv[3][0][0] == "num":
            return "(split_on %d %s [])" % (recv[3][0][1], self.pure(recv[1], env))
        if recv[0] == "mcall" and recv[2] == "map" and len(recv[3]) == 1:
            return "(map %s %s)" % (self.closure1(recv[3][0], env), self.iter_base(recv[1], env))
        if recv[0] == "mcall" and recv[2] == "zip" and len(recv[3]) == 1:
            return "(combine %s %s)" % (self.iter_base(recv[1], env), self.iter_base(recv[3][0], env))
        if recv[0] == "mcall" and recv[2] == "filter" and len(recv[3]) == 1:
            return "(filter %s %s)" % (self.closure1(recv[3][0], env), self.iter_base(recv[1], env))
        if recv[0] == "mcall" and recv[2] == "chain" and len(recv[3]) == 1:
            return "(%s ++ %s)" % (self.iter_base(recv[1], env), self.iter_or_pure(recv[3][0], env))
        if recv[0] == "call" and recv[1][0] == "path" and "::".join(recv[1][1]) in self.cfg.get("list_functions", []):
            return self.pure(recv, env)
        if recv[0] == "path" and len(recv[1]) == 1 and recv[1][0] in env and env[recv[1][0]].ty == "list":
            return self.pure(recv, env)
        if recv[0] == "mcall" and recv[2] == "filter_map" and len(recv[3]) == 1:
            return "(opt_filter_map %s %s)" % (self.closure1(recv[3][0], env), self.iter_base(recv[1], env))
        if recv[0] == "call" and recv[1][0] == "path" and len(recv[1][1]) == 1 and recv[1][1][0] in env and env[recv[1][1][0]].ty == "listfn":
            return self.pure(recv, env)                    # a closure parameter that returns a list
        raise Unsupported("iterator chain")

    # ------------------------------------------------------------------ returning
    # err_mode: instead of the function itself, the state its mutable parameters are LEFT IN when it returns an error (Some state), and
    # None when it does not return an error: used for the functions listed with errst=True, whose callees leave no state behind on error
    err_mode = False

    def ret_ok(self, vtext, env):
        st = self.fn_state_tuple(env)
        if self.err_mode:
            return "None"
        if self.info.kind == "res":
            return "Ok %s" % self.tup(st + [vtext])
        return vtext

    def leaf_err(self, etext, env):
        if self.err_mode:
            return "Some %s" % self.tup(self.fn_state_tuple(env))
        return "Err %s" % etext

    def leaf_panic(self, msg):
        return "None" if self.err_mode else 'Panic "%s"' % msg

    def bind_text(self, call, pat, body, env):
        if self.err_mode:
            return "match %s with Ok %s => %s | Err _ => Some %s | Panic _ => None end" % (
                call, pat.lstrip("'"), body, self.tup(self.fn_state_tuple(env)))
        return "bind (%s) (fun %s => %s)" % (call, pat, body)

    def tail(self, e, env):
        """the value the function returns (tail expression or argument of `return`)"""
        if e is None:
            return self.ret_ok("tt", env)
        k = e[0]
        if k == "block":
            return self.stmts(e[1], e[2], env, lambda v, env2: self.tail_value(v, env2), tail_mode=True)
        if k == "if" and e[3] is not None:
            return self.cps(e[1], env, lambda c, env2: "(if %s then %s else %s)" % (c, self.tail(e[2], env2), self.tail(e[3], env2)))
        if k == "match":
            return self.cps_match(e, env, None, tail_mode=True)
        if k == "call" and e[1] == ("path", ["Ok"]) and self.info.kind == "res" and self.info.rust_ret.startswith("Result"):
            return self.cps(e[2][0], env, lambda v, env2: self.ret_ok(v, env2))
        if k == "call" and e[1] == ("path", ["Err"]):
            return self.err_of(e[2][0], env)
        if k == "macro" and e[1] == "unreachable":
            return self.leaf_panic("%s: unreachable!() in %s" % (self.cfg["file"], self.cfg["rust"]))
        if k == "return":
            return self.tail(e[1], env)
        if self.info.kind == "res" and self.info.rust_ret.startswith("Result"):
            # a Result-valued expression that is not literally Ok/Err: only a call of a translated function is accepted
            return self.cps(e, env, lambda v, env2: self.ret_ok(v, env2))
        return self.cps(e, env, lambda v, env2: self.ret_ok(v, env2))

    def tail_value(self, v, env):
        return self.ret_ok(v, env)

    def err_of(self, e, env):
        if e[0] == "path" and len(e[1]) == 1 and e[1][0] in env and env[e[1][0]].kind == "val":
            return self.leaf_err(env[e[1][0]].coq, env)
        if e[0] == "path" and e[1][0] == "Error":
            return self.leaf_err(e[1][-1], env)
        if e[0] == "call" and e[1][0] == "path" and e[1][1][0] == "Error":
            return self.leaf_err(e[1][1][-1], env)
        if e[0] == "call" and e[1][0] == "path" and len(e[1][1]) == 1 and e[1][1][0] in self.cfg.get("err_functions", []):
            return self.leaf_err(self.pure(e, env), env)
        if e[0] == "if" and e[3] is not None and not e[2][1] and not e[3][1] and e[2][2] is not None and e[3][2] is not None:
            # Err(if c { E1 } else { E2 })
            return "(if %s then %s else %s)" % (self.pure(e[1], env), self.err_of(e[2][2], env), self.err_of(e[3][2], env))
        raise Unsupported("error value")

    # ------------------------------------------------------------------ continuation-passing translation
    def cps(self, e, env, k):
        """Coq term that evaluates e (possibly with effects on the state bound in env) and continues with k(value text, env)"""
        try:
            return k(self.pure(e, env), env)
        except Impure:
            pass
        kd = e[0]
        if kd == "return":
            return self.tail(e[1], env)
        if kd == "break":
            if self.break_k is None:
                raise Unsupported("break outside of a loop (or in a loop that is the function's last statement)")
            return self.break_k(env)
        if kd == "continue":
            if getattr(self, "continue_k", None) is None:
                raise Unsupported("continue outside of a loop")
            return self.continue_k(env)
        if kd == "macro":
            if e[1] == "unreachable":
                return self.leaf_panic("%s: unreachable!() in %s" % (self.cfg["file"], self.cfg["rust"]))
            if e[1] in ("debug", "trace", "info", "warn"):
                return k("tt", env)            # logging
            raise Unsupported("macro %s!" % e[1])
        if kd == "try":
            inner = e[1]
            # X.map_err(|_| Error::E)? on an option-valued (modelled std) expression
            if inner[0] == "mcall" and inner[2] == "ok_or" and len(inner[3]) == 1:
                t = self.fresh()
                return self.cps(inner[1], env, lambda v, env2: "match %s with Some %s => %s | None => %s end" % (
                    v, t, k(t, env2), self.err_of(inner[3][0], env2)))
            if inner[0] == "mcall" and inner[2] == "map_err":
                errv = inner[3][0]
                if errv[0] != "closure":
                    raise Unsupported("map_err without a closure")
                t = self.fresh()
                return self.cps(inner[1], env, lambda v, env2: "match %s with Some %s => %s | None => %s end" % (
                    v, t, k(t, env2), self.err_of(errv[2], env2)))
            if inner[0] == "call" and inner[1][0] == "path" and len(inner[1][1]) == 1 and inner[1][1][0] in env and env[inner[1][1][0]].ty == "resfn":
                t = self.fresh("r")
                return self.bind_text(self.pure(inner, env), t, k(t, env), env)
            if self.ty_of(inner, env) == "res":
                t = self.fresh("r")
                return self.bind_text(self.pure(inner, env), t, k(t, env), env)
            if self.info.kind == "option":
                t = self.fresh()
                return self.cps(inner, env, lambda v, env2: "match %s with Some %s => %s | None => None end" % (v, t, k(t, env2)))
            return self.cps(inner, env, k)       # the callee's Err / Panic propagate through the bind of the call
        if kd in ("unary", "cast"):
            sub = e[2] if kd == "unary" else e[1]
            return self.cps(sub, env, lambda v, env2: k(self.pure(self.subst(e, sub, v), env2), env2))
        if kd == "bin" and e[1] in ("&&", "||"):
            def after_a(a, env2):
                t = self.fresh("c")
                short = "false" if e[1] == "&&" else "true"
                kt = k(t, env2)
                # b is evaluated only when a does not decide
                inner = self.cps(e[3], env2, lambda b, env3: "let %s := %s in %s" % (t, b, k(t, env3)))
                other = "let %s := %s in %s" % (t, short, kt)
                return "(if %s then %s else %s)" % ((a, inner, other) if e[1] == "&&" else (a, other, inner))
            return self.cps(e[2], env, after_a)
        if kd == "bin":
            return self.cps(e[2], env, lambda a, env2: self.cps(e[3], env2, lambda b, env3: k(self.pure(("bin", e[1], ("raw", a), ("raw", b)), env3), env3)))
        if kd == "tuple":
            return self.cps_list(e[1], env, lambda vs, env2: k("(" + ", ".join(vs) + ")", env2))
        if kd == "if":
            if e[3] is None:
                # statement-like if: the continuation runs after either branch
                return self.cps(e[1], env, lambda c, env2: "(if %s then %s else %s)" % (
                    c, self.stmts(e[2][1], e[2][2], env2, lambda v, env3: k("tt", self.merge_env(env2, env3))), k("tt", env2)))
            return self.cps(e[1], env, lambda c, env2: "(if %s then %s else %s)" % (
                c, self.stmts(e[2][1], e[2][2], env2, lambda v, env3: k(v, self.merge_env(env2, env3))),
                self.stmts(e[3][1], e[3][2], env2, lambda v, env3: k(v, self.merge_env(env2, env3)))))
        if kd == "block":
            return self.stmts(e[1], e[2], env, lambda v, env2: k(v, self.merge_env(env, env2)))
        if kd == "match":
            return self.cps_match(e, env, k)
        if kd == "call" or kd == "mcall":
            return self.cps_call(e, env, k)
        if kd in ("loop", "while"):
            return self.loop(e, env, lambda env2: k("tt", env2))
        raise Unsupported("expression %s in effectful position" % kd)

    def subst(self, e, sub, v):
        return tuple(("raw", v) if x is sub else x for x in e)

    def merge_env(self, outer, inner):
        """after a nested block: bindings introduced inside go out of scope; mutation was by shadowing coq names, which stay valid"""
        return outer

    def cps_list(self, es, env, k, acc=None):
        acc = acc or []
        if not es:
            return k(acc, env)
        return self.cps(es[0], env, lambda v, env2: self.cps_list(es[1:], env2, k, acc + [v]))

    def place_of(self, e, env):
        """(coq name, rust binding name) when e denotes a mutable place that can be matched by reference"""
        while e[0] == "unary" and e[1] in ("&mut", "&", "*"):
            e = e[2]
        if e[0] == "path" and len(e[1]) == 1 and e[1][0] in env:
            b = env[e[1][0]]
            if b.kind in ("val", "alias") and b.mutable:
                return (b.coq, e[1][0])
        if e[0] == "field" and e[1] == ("path", ["self"]) and "self" in env and env["self"].kind == "selfrec" and env["self"].mutable:
            return (env["self"].fields[e[2]], "self." + e[2])
        return None

    def cps_match(self, e, env, k, tail_mode=False, _shared=False):
        place = self.place_of(e[1], env)

        is_res = self.ty_of(e[1], env) == "res"     # a value of the result monad (a substituted call of a modelled function)

        if not tail_mode and not _shared and self.cfg.get("share_continuation") and (place is None or all(pt[0] in ("plit", "pwild") for pt, _b in e[2])):
            # the rest of the function is bound once and called from every arm that falls through (instead of being copied into each)
            kname, kv = self.fresh("kont"), self.fresh("kv")
            rest = k(kv, env)
            k = lambda v, env4: "%s %s" % (kname, v)
            inner = self.cps_match(e, env, k, tail_mode=False, _shared=True)
            return "let %s := (fun %s => %s) in %s" % (kname, kv, rest, inner)

        def go(scrut, env2):
            arms = []
            for pat, body in e[2]:
                self._res_pat = is_res
                self._sum_pat = self.cfg.get("sum_types", {}).get(self.ty_of(e[1], env))
                try:
                    pt, env3 = self.pat(pat, env2, place)
                finally:
                    self._res_pat = False
                    self._sum_pat = None
                if tail_mode:
                    bt = self.tail(body, env3)
                else:
                    bt = self.cps(body, env3, lambda v, env4: k(v, self.keep_alias(env2, env4, v)))
                arms.append("| %s => %s" % (pt, bt))
            if is_res:
                arms.append("| Panic panic_site => %s" % ("None" if self.err_mode else "Panic panic_site"))
            return "match %s with %s end" % (scrut, " ".join(arms))
        return self.cps(e[1], env, go)

    def keep_alias(self, outer, inner, v):
        """when a match arm's value is a pattern variable that aliases the matched place, the alias survives the match under that name"""
        for name in inner["__order__"]:
            b = inner[name]
            if b.kind == "alias" and b.coq == v and name not in outer:
                return self.bind(outer, "__alias__" + v, b)
        return outer

    # ------------------------------------------------------------------ calls with effects
    def cps_call(self, e, env, k):
        if e[0] == "mcall":
            recv, name, args = e[1], e[2], e[3]
            # side-effect statements on buffers / writers
            if name == "push" and len(args) == 1 and recv[0] == "path" and recv[1][0] in env and env[recv[1][0]].mutable and env[recv[1][0]].ty == "reasons":
                v = env[recv[1][0]].coq
                return self.bind_text("push_reason %s %s" % (v, self.pure(args[0], env)), v, k("tt", env), env)
            if name == "push" and len(args) == 1 and recv[0] == "path" and recv[1][0] in env and env[recv[1][0]].mutable and (env[recv[1][0]].ty or "").startswith("capvec:"):
                # ArrayVec::push on a vector held as the list of its visible part: capacity test, then append (proofs/Gen2_equiv_arrayvec.v)
                v = env[recv[1][0]].coq
                _t, cap, site = env[recv[1][0]].ty.split(":", 2)
                return self.bind_text('capped_push %s "%s" %s %s' % (cap, site, v, self.pure(args[0], env)), v, k("tt", env), env)
            if name == "copy_from_slice":
                return self.copy_from_slice(recv, args[0], env, k)
            if name == "try_write":
                return self.try_write(recv, args[0], env, k)
            rty = self.impl if recv == ("path", ["self"]) else self.ty_of(recv, env)
            fi = self.known_fn(rty, name)
            if fi is None:
                # a pure method whose receiver or arguments are effectful
                return self.cps(recv, env, lambda r, env2: self.cps_list(args, env2, lambda vs, env3: k(
                    self.pure(("mcall", ("raw", r), name, [("raw", v) for v in vs]), env3), env3)))
            actuals = [recv] + list(args)
        else:
            f, args = e[1], e[2]
            if f[0] != "path":
                raise Unsupported("call of a computed function")
            if f[1] == ["log_data"]:
                return k("tt", env)
            if f[1][-2:] == ["mem", "replace"] and len(args) == 2:
                # mem::replace(&mut place, v): the old value, the place set to v
                a0 = args[0]
                while a0[0] == "unary":
                    a0 = a0[2]
                if a0[0] != "path" or a0[1][0] not in env or env[a0[1][0]].kind not in ("val", "alias") or not env[a0[1][0]].mutable:
                    raise Unsupported("mem::replace target")
                b = env[a0[1][0]]
                old = self.fresh("old")
                return "let %s := %s in let %s := %s in %s%s" % (old, b.coq, b.coq, self.pure(args[1], env), " ".join(self.write_back(b, env)) + " " if b.kind == "alias" else "", k(old, env))
            if f[1] == ["add_close_reason"] and len(args) == 2:
                a0 = args[0]
                while a0[0] == "unary":
                    a0 = a0[2]
                if a0[0] != "path" or a0[1][0] not in env or not env[a0[1][0]].mutable:
                    raise Unsupported("add_close_reason target")
                v = env[a0[1][0]].coq
                return self.bind_text("add_reason %s %s" % (v, self.pure(args[1], env)), v, k("tt", env), env)
            fi = self.known_fn((self.impl if f[1][-2] == "Self" else f[1][-2]) if len(f[1]) >= 2 else None, f[1][-1])
            if fi is None:
                return self.cps_list(args, env, lambda vs, env2: k(self.pure(("call", f, [("raw", v) for v in vs]), env2), env2))
            actuals = list(args)
        if len(actuals) != len(fi.params):
            raise Unsupported("arity of %s" % fi.coq)
        supplied = []
        binders = []
        after = []        # functions env -> (text prefix, env) run after the call to write results back

        def strip(a):
            while a[0] == "unary" and a[1] in ("&mut", "&", "*"):
                a = a[2]
            return a
        for (pn, pk, pt), a in zip(fi.params, actuals):
            a0 = strip(a)
            if pk in ("val", "self"):
                supplied.append(self.pure(a, env))
            elif pk == "selfrec":
                supplied.append(self.recv_value(a0, env, fi))
            elif pk == "selfmut":
                if a0[0] != "path" or a0[1][0] not in env:
                    raise Unsupported("receiver of a &mut self call")
                b = env[a0[1][0]]
                supplied.append(b.coq)
                binders.append(b.coq)
                after.append(("alias", a0[1][0]))
            elif pk == "selfrecmut":
                b = env[a0[1][0]] if a0[0] == "path" and a0[1][0] in env and env[a0[1][0]].kind == "selfrec" else env["self"]
                names = [b.fields[f] for f in b.fields]
                supplied.extend(names)
                binders.extend(names)
            elif pk.startswith("struct:"):
                b = env[a0[1][0]]
                names = [b.fields[f] for f in STRUCTS[pk[7:]]]
                supplied.extend(names)
                binders.extend(names)
            elif pk == "mutval":
                b = env[a0[1][0]]
                supplied.append(b.coq)
                binders.append(b.coq)
                after.append(("alias", a0[1][0]))
            elif pk == "writer":
                b = env[a0[1][0]]
                supplied.extend([b.fields["avail"], b.fields["out"]])
                binders.extend([b.fields["avail"], b.fields["out"]])
            elif pk == "buf":
                if a0[0] == "index" and a0[2][0] == "range" and a0[2][2] is None and a0[1][0] == "path":
                    b = env[a0[1][1][0]]
                    off = self.pure(a0[2][1], env) if a0[2][1] is not None else "0"
                    base_off = b.off if b.kind == "view" else "0"
                    tot = off if base_off == "0" else "(N.add %s %s)" % (base_off, off)
                elif a0[0] == "path":
                    b = env[a0[1][0]]
                    tot = b.off if b.kind == "view" else "0"
                else:
                    raise Unsupported("buffer argument")
                if b.kind not in ("buf", "view"):
                    raise Unsupported("buffer argument is not a buffer")
                t = self.fresh("buf")
                supplied.append("(drop %s %s)" % (tot, b.coq) if tot != "0" else b.coq)
                binders.append(t)
                after.append(("buf", b.coq, tot, t))
            else:
                raise Unsupported("parameter kind %s" % pk)
        call = "%s %s" % (fi.coq, " ".join(supplied)) if supplied else fi.coq
        if fi.kind != "res":
            raise Unsupported("effectful call of a function that is not in the result monad")
        v = self.fresh("v")
        pre = []
        env2 = env
        for item in after:
            if item[0] == "buf":
                _, bc, tot, t = item
                pre.append("let %s := %s in" % (bc, t if tot == "0" else "(take %s %s ++ %s)" % (tot, bc, t)))
            elif item[0] == "alias":
                b = env[item[1]]
                pre.extend(self.write_back(b, env))
        body = " ".join(pre + [k(v, env2)])
        return self.bind_text(call, "'" + self.tup(binders + [v]), body, env)

    def write_back(self, b, env):
        """after a change of an alias variable: rebuild the place it aliases (and, transitively, the place that one aliases)"""
        out = []
        while b is not None and b.kind == "alias":
            out.append("let %s := %s %s in" % (b.place, b.ctor, b.coq))
            nxt = None
            if b.place_b and b.place_b in env and env[b.place_b].kind == "alias":
                nxt = env[b.place_b]
            b = nxt
        return out

    def copy_from_slice(self, recv, src, env, k):
        # <buffer view>[..n].copy_from_slice(src)
        if recv[0] != "index" or recv[2][0] != "range" or recv[2][1] is not None or recv[2][2] is None:
            raise Unsupported("copy_from_slice target")
        base = recv[1]
        if base[0] != "path" or base[1][0] not in env or env[base[1][0]].kind not in ("buf", "view"):
            raise Unsupported("copy_from_slice target is not a mutable buffer")
        b = env[base[1][0]]
        off = b.off if b.kind == "view" else "0"
        n = self.pure(recv[2][2], env)
        return "let %s := splice %s %s %s %s in %s" % (b.coq, b.coq, off, n, self.pure(src, env), k("tt", env))

    def write_pieces(self, blk, wname, env):
        """the byte strings a try_write closure writes, in order, as one Gallina list expression"""
        items = list(blk[1]) + ([("expr", blk[2])] if blk[2] is not None else [])
        pieces = []
        for s in items:
            if s[0] != "expr":
                raise Unsupported("statement inside a try_write closure")
            x = s[1]
            while x[0] == "try":
                x = x[1]
            if x[0] == "call" and x[1] == ("path", ["Ok"]) and x[2] == [("tuple", [])]:
                continue
            if x[0] == "if" and x[3] is None:
                pieces.append("(if %s then %s else [])" % (self.pure(x[1], env), self.write_pieces(x[2], wname, env)))
                continue
            if x[0] == "mcall" and x[2] == "write_all" and x[1] == ("path", [wname]):
                pieces.append(self.pure(x[3][0], env))
            elif x[0] == "macro" and x[1] == "write":
                parts = split_macro_args(x[2])
                if parts[0] != [("id", wname)] or parts[1][0][0] != "str":
                    raise Unsupported("write! target / format")
                fmt = parts[1][0][1]
                args = [parse_all(p) for p in parts[2:]]
                pieces.extend(self.format(fmt, args, env))
            else:
                raise Unsupported("statement inside a try_write closure")
        return " ++ ".join(pieces) if pieces else "[]"

    def format(self, fmt, args, env):
        out = []
        i = 0
        lit = []
        args = list(args)

        def flush():
            if lit:
                out.append("[" + "; ".join(str(c) for c in lit) + "]")
                del lit[:]
        while i < len(fmt):
            if fmt[i] == "{":
                j = fmt.index("}", i)
                spec = fmt[i + 1:j]
                flush()
                a = self.pure(args.pop(0), env)
                if self.cfg.get("format_bytes") and spec in ("", ":?"):
                    out.append(a)          # the argument is a byte string already rendered by the caller (Display / Debug of http types)
                elif spec in (":x", ":0x?", ":x?"):
                    out.append("(hex_of %s)" % a)
                elif spec == "":
                    out.append("(dec_of %s)" % a)
                else:
                    raise Unsupported("format spec {%s}" % spec)
                i = j + 1
            elif fmt[i] == "\\":
                lit.append({"r": 13, "n": 10, "t": 9, "\\": 92}[fmt[i + 1]])
                i += 2
            else:
                lit.append(ord(fmt[i]))
                i += 1
        flush()
        return out

    def try_write(self, recv, clos, env, k):
        if recv[0] != "path" or recv[1][0] not in env or env[recv[1][0]].kind != "writer":
            raise Unsupported("try_write receiver")
        b = env[recv[1][0]]
        if clos[0] != "closure" or len(clos[1]) != 1:
            raise Unsupported("try_write argument")
        body = clos[2] if clos[2][0] == "block" else ("block", [], clos[2])
        bs = self.write_pieces(body, clos[1][0], env)
        t = self.fresh("ok")
        p = self.fresh("bs")
        av, ou = b.fields["avail"], b.fields["out"]
        return ("let %s := %s in let %s := N.leb (len %s) %s in let %s := (if %s then %s ++ %s else %s) in let %s := (if %s then N.sub %s (len %s) else %s) in %s"
                % (p, bs, t, p, av, ou, t, ou, p, ou, av, t, av, p, av, k(t, env)))

    # ------------------------------------------------------------------ statements
    def stmts(self, ss, tail, env, k, tail_mode=False):
        """ss then the block's value (tail, or tt) handed to k"""
        if not ss:
            if tail is None:
                if tail_mode:
                    return self.tail(None, env)
                return k("tt", env)
            if tail_mode:
                return self.tail(tail, env)
            return self.cps(tail, env, k)
        s, rest = ss[0], ss[1:]
        nxt = lambda env2: self.stmts(rest, tail, env2, k, tail_mode)
        kd = s[0]
        if kd == "const":
            return "let %s := %s in %s" % (s[1], self.pure(s[2], env), nxt(self.bind(env, s[1], B("val", s[1]))))
        if kd == "let":
            return self.let(s[1], s[2], env, nxt)
        if kd == "assign":
            return self.assign(s[1], s[2], s[3], env, nxt)
        if kd == "expr":
            e = s[1]
            if e[0] == "macro" and e[1] == "assert":
                c = parse_all(split_macro_args(e[2])[0])
                return '(if %s then %s else %s)' % (self.pure(c, env), nxt(env), self.leaf_panic("%s: assert! in %s" % (self.cfg["file"], self.cfg["rust"])))
            if e[0] == "loop" and not rest and tail is None and tail_mode:
                return self.loop(e, env, None)
            if e[0] in ("loop", "while"):
                return self.loop(e, env, nxt)
            if e[0] == "for":
                if self.info.kind == "res" and self.state_names(env):
                    return self.for_loop_state(e, env, nxt)
                return self.for_loop(e, env, nxt)
            if e[0] == "if" and e[3] is None and self.simple_assign_block(e[2]):
                # `if c { x = ..; y += ..; }`: the assigned variables are merged instead of duplicating the continuation
                names = []
                inner = self.stmts(e[2][1], None, env, lambda v, env2: "@@TUPLE@@")
                for st in e[2][1]:
                    for n in self.assigned_coq(st, env):
                        if n not in names:
                            names.append(n)
                tupv = self.tup(names)
                return "let '%s := (if %s then %s else %s) in %s" % (tupv, self.pure(e[1], env), inner.replace("@@TUPLE@@", tupv), tupv, nxt(env)) \
                    if len(names) > 1 else "let %s := (if %s then %s else %s) in %s" % (tupv, self.pure(e[1], env), inner.replace("@@TUPLE@@", tupv), tupv, nxt(env))
            return self.cps(e, env, lambda v, env2: nxt(env2))
        raise Unsupported("statement %s" % kd)

    def simple_assign_block(self, blk):
        if blk[2] is not None or not blk[1]:
            return False
        for st in blk[1]:
            if st[0] != "assign":
                return False
            try:
                self.check_pure_ast(st[3])
            except Impure:
                return False
        return True

    def check_pure_ast(self, e):
        if not isinstance(e, tuple):
            return
        if e and e[0] in ("try", "return", "break", "loop", "while", "call", "mcall", "macro"):
            if e[0] in ("call", "mcall"):
                # conservatively: calls inside a merged block are not analysed
                raise Impure()
            raise Impure()
        for x in e[1:]:
            if isinstance(x, tuple):
                self.check_pure_ast(x)
            elif isinstance(x, list):
                for y in x:
                    if isinstance(y, tuple):
                        self.check_pure_ast(y)

    def assigned_coq(self, st, env):
        place = st[1]
        names = []
        p = place
        while p[0] == "unary" and p[1] == "*":
            p = p[2]
        if p[0] == "path" and p[1][0] in env:
            b = env[p[1][0]]
            names.append(b.coq)
            while b is not None and b.kind == "alias":
                names.append(b.place)
                b = env.get(b.place_b) if b.place_b else None
        elif p[0] == "field" and p[1][0] == "path" and p[1][1][0] in env:
            names.append(env[p[1][1][0]].fields[p[2]])
        return names

    def let(self, pat, e, env, nxt):
        if pat[0] == "ptuple":
            names = []
            env_after = env
            for sp in pat[1]:
                if sp[0] == "pbind":
                    names.append(cn(sp[1]))
                    env_after = self.bind(env_after, sp[1], B("val", cn(sp[1])))
                elif sp[0] == "pwild":
                    names.append("_")
                else:
                    raise Unsupported("nested tuple pattern in let")
            return self.cps(e, env, lambda v, env2: "let '(%s) := %s in %s" % (", ".join(names), v, nxt(self.rebind_from(env2, env_after))))
        if pat[0] != "pbind":
            raise Unsupported("let pattern")
        name = pat[1]
        mutable = True          # `let mut` is not kept by the parser; treating every local as assignable is harmless (shadowing)
        # a view of a mutable buffer: let dst = &mut dst[a..];
        x = e
        if x[0] == "unary" and x[1] == "&mut" and x[2][0] == "index" and x[2][2][0] == "range" and x[2][2][2] is None and x[2][1][0] == "path" \
                and x[2][1][1][0] in env and env[x[2][1][1][0]].kind in ("buf", "view"):
            b = env[x[2][1][1][0]]
            off = self.pure(x[2][2][1], env)
            if b.kind == "view":
                off = "(N.add %s %s)" % (b.off, off)
            return nxt(self.bind(env, name, B("view", b.coq, off=off)))
        structs = dict(STRUCTS)
        structs.update(self.cfg.get("structs", {}))
        if x[0] == "mcall" and x[2] == "unwrap" and not x[3] and x[1][0] == "path" and len(x[1][1]) == 1 and x[1][1][0] in env \
                and (env[x[1][1][0]].ty or "").startswith("Option<"):
            c = cn(name)
            return "match %s with Some %s => %s | None => %s end" % (
                env[x[1][1][0]].coq, c, nxt(self.bind(env, name, B("val", c, ty=env[x[1][1][0]].ty[7:-1]))), self.leaf_panic("%s: unwrap() of None in %s" % (self.cfg["file"], self.cfg["rust"])))
        if x[0] == "mcall" and x[2] == "unwrap" and not x[3] and x[1][0] == "mcall" and x[1][2] in ("as_mut", "as_ref") and not x[1][3]:
            pl = self.place_of(x[1][1], env)
            inner = x[1][1]
            if pl is not None and inner[0] == "path":
                ob = env[inner[1][0]]
                pty = (ob.ty or "")[len("Option<"):-1] if (ob.ty or "").startswith("Option<") else None
                c = cn(name)
                nb = B("alias", c, ty=pty, mutable=True, place=pl[0], ctor="Some", place_b=pl[1])
                return "match %s with Some %s => %s | None => %s end" % (
                    pl[0], c, nxt(self.bind(env, name, nb)), self.leaf_panic("%s: unwrap() of None in %s" % (self.cfg["file"], self.cfg["rust"])))
        if x[0] == "struct" and x[1] in structs:
            fields = dict(x[2])
            if sorted(fields) != sorted(structs[x[1]]):
                raise Unsupported("fields of struct %s" % x[1])
            out = []
            fm = {}
            for f in structs[x[1]]:
                if x[1] in self.cfg.get("structs", {}) and f not in self.cfg.get("wrap_fields", []):
                    continue          # a field the translated result does not report
                c = "%s_%s" % (cn(name), f)
                out.append("let %s := %s in" % (c, self.pure(fields[f], env)))
                fm[f] = c
            return " ".join(out) + " " + nxt(self.bind(env, name, B("struct", fields=fm, mutable=True)))

        def after(v, env2):
            c = cn(name)
            al = env2.get("__alias__" + v)
            if al is not None and al.kind == "alias":
                nb = B("alias", c, ty=al.ty, mutable=True, place=al.place, ctor=al.ctor, place_b=al.place_b)
                env3 = dict(env2)
                del env3["__alias__" + v]
                env3["__order__"] = [n for n in env3["__order__"] if n != "__alias__" + v]
                return "let %s := %s in %s" % (c, v, nxt(self.bind(env3, name, nb)))
            return "let %s := %s in %s" % (c, v, nxt(self.bind(env2, name, B("val", c, mutable=mutable, ty=self.cfg.get("local_types", {}).get(name) or self.ty_of(e, env2)))))
        return self.cps(e, env, after)

    def rebind_from(self, env, env_after):
        out = env
        for n in env_after["__order__"]:
            if n not in env or env[n] is not env_after[n]:
                out = self.bind(out, n, env_after[n])
        return out

    def assign(self, place, op, e, env, nxt):
        p = place
        while p[0] == "unary" and p[1] == "*":
            p = p[2]
        if p[0] == "path" and len(p[1]) == 1 and p[1][0] in env:
            b = env[p[1][0]]
            if b.kind not in ("val", "alias"):
                raise Unsupported("assignment to %s" % p[1][0])
            target = b.coq
        elif p[0] == "field" and p[1][0] == "path" and p[1][1][0] in env and env[p[1][1][0]].kind in ("struct", "selfrec"):
            b = None
            target = env[p[1][1][0]].fields[p[2]]
        else:
            raise Unsupported("assignment target")

        def after(v, env2):
            rhs = v if op == "=" else "(%s %s %s)" % ({"+=": "N.add", "-=": "N.sub", "*=": "N.mul", "/=": "N.div"}[op], target, v)
            out = ["let %s := %s in" % (target, rhs)]
            if b is not None:
                out.extend(self.write_back(b, env2))
            return " ".join(out) + " " + nxt(env2)
        return self.cps(e, env, after)

    # ------------------------------------------------------------------ loops
    def loop(self, e, env, nxt):
        if self.info.kind != "res":
            raise Unsupported("loop in a function outside the result monad")
        self.loop_no += 1
        key = "%s#%d" % (self.cfg["rust"], self.loop_no)
        lc = self.cfg.get("loops", {}).get(self.loop_no)
        if lc is None:
            raise Unsupported("no fuel configured for loop %s" % key)
        lname = "%s_loop%d" % (self.cfg["coq"], self.loop_no)
        state = self.state_names(env)
        body = e[1] if e[0] == "loop" else e[2]
        used = set()
        self.idents(body, used)
        if e[0] == "while":
            self.idents(e[1], used)
        captured = []
        for n in env["__order__"]:
            b = env[n]
            if n in used and b.kind == "val" and not b.mutable and b.coq not in state and b.coq not in captured:
                captured.append(b.coq)
        for c in lc.get("capture", []):
            if c not in captured and c not in state:
                captured.append(c)
        st_tuple = self.tup(state)
        rec = "%s fuel' %s" % (lname, " ".join(captured + state))
        saved = self.break_k
        saved_c = getattr(self, "continue_k", None)
        self.break_k = (lambda env2: "Ok %s" % st_tuple) if nxt is not None else None
        self.continue_k = lambda env2: rec
        if e[0] == "loop":
            inner = self.stmts(body[1], body[2], env, lambda v, env2: rec)
        else:
            inner = self.cps(e[1], env, lambda c, env2: "(if %s then %s else Ok %s)" % (
                c, self.stmts(body[1], body[2], env2, lambda v, env3: rec), st_tuple))
        self.break_k = saved
        self.continue_k = saved_c
        oof = 'Panic "%s"' % lc["panic"] if "panic" in lc else "Ok %s" % st_tuple
        def typed(n):
            t = self.types.get(n)
            if t is None:
                for bn in env["__order__"]:
                    if env[bn].kind == "alias" and env[bn].coq == n and env[bn].ty in COQ_TYPE:
                        t = COQ_TYPE[env[bn].ty]
            return "(%s : %s)" % (n, t) if t else n
        self.aux.append("Fixpoint %s (fuel : nat) %s {struct fuel} :=\n  match fuel with\n  | O => %s\n  | S fuel' =>\n  %s\n  end." % (
            lname, " ".join(typed(n) for n in captured + state), oof, inner))
        if nxt is None:
            # the loop is the function's last statement: every exit is a `return`, the loop function yields the function's result
            return "%s (%s)%%nat %s" % (lname, lc["fuel"], " ".join(captured + state))
        return "bind (%s (%s)%%nat %s) (fun '%s => %s)" % (lname, lc["fuel"], " ".join(captured + state), st_tuple, nxt(env))

    def for_loop(self, e, env, nxt):
        """`for PAT in ITER { .. }` in a function without mutable state whose body only binds locals and returns early:
        a structurally recursive function over the iterated list; what follows the loop is evaluated at the end of the list."""
        if self.state_names(env) and any(env[n].mutable for n in env["__order__"] if env[n].kind in ("val", "alias")):
            # locals declared before the loop could be assigned inside it: not supported here
            for n in env["__order__"]:
                if env[n].kind in ("val", "alias") and env[n].mutable and self.assigned_in(e[3], n):
                    raise Unsupported("for loop that assigns %s" % n)
        self.loop_no += 1
        lname = "%s_for%d" % (self.cfg["coq"], self.loop_no)
        lst = self.iter_base(e[2], env)
        after = nxt(env)
        pt, env2 = self.pat(e[1], env, None)
        body = self.stmts(e[3][1], e[3][2], env2, lambda v, env3: "@@CONTINUE@@")
        used = set(re.findall(r"[A-Za-z_][A-Za-z0-9_']*", after + " " + body))
        captured = []
        for n in env["__order__"]:
            b = env[n]
            shadowed = n in env2 and env2[n] is not b      # the loop pattern binds the same name
            if b.kind in ("val", "alias") and b.coq in used and b.coq not in captured and not shadowed:
                captured.append(b.coq)
        if any(n in env2 and env2[n] is not env[n] and env[n].coq in re.findall(r"[A-Za-z_][A-Za-z0-9_']*", after) for n in env["__order__"] if n in env2):
            raise Unsupported("a variable shadowed by the for pattern is used after the loop")

        def typed(n):
            t = self.types.get(n)
            return "(%s : %s)" % (n, t) if t else n
        rec = "%s for_rest %s" % (lname, " ".join(captured))
        self.aux.append("Fixpoint %s for_list %s {struct for_list} :=\n  match for_list with\n  | nil => %s\n  | cons %s for_rest =>\n  %s\n  end." % (
            lname, " ".join(typed(n) for n in captured), after, pt, body.replace("@@CONTINUE@@", rec)))
        return "%s %s %s" % (lname, lst, " ".join(captured))

    def for_loop_state(self, e, env, nxt):
        """`for PAT in LIST { .. }` with mutable state, `break` and `continue`, in a function of the result monad: a structurally
        recursive function over the list that threads the state (no fuel needed)."""
        self.loop_no += 1
        lname = "%s_for%d" % (self.cfg["coq"], self.loop_no)
        lst = self.iter_base(e[2], env) if e[2][0] == "mcall" else self.pure(e[2], env)
        state = self.state_names(env)
        if self.cfg.get("loop_state_assigned_only"):
            # only what the body assigns is threaded (every local counts as assignable: see let)
            state = [c for c in state if any(env[n].kind in ("val", "alias") and env[n].coq == c and self.assigned_in(e[3], n) for n in env["__order__"])]
        st_tuple = self.tup(state)
        pt, env2 = self.pat(e[1], env, None)
        used = set()
        self.idents(e[3], used)
        captured = []
        for n in env["__order__"]:
            b = env[n]
            shadowed = n in env2 and env2[n] is not b
            if n in used and b.kind == "val" and not b.mutable and b.coq not in state and b.coq not in captured and not shadowed:
                captured.append(b.coq)

        def typed(n):
            t = self.types.get(n)
            return "(%s : %s)" % (n, t) if t else n
        rec = "%s for_rest %s" % (lname, " ".join(captured + state))
        saved, saved_c = self.break_k, getattr(self, "continue_k", None)
        self.break_k = lambda env3: "Ok %s" % st_tuple
        self.continue_k = lambda env3: rec
        body = self.stmts(e[3][1], e[3][2], env2, lambda v, env3: rec)
        self.break_k, self.continue_k = saved, saved_c
        self.aux.append("Fixpoint %s for_list %s {struct for_list} :=\n  match for_list with\n  | nil => Ok %s\n  | cons %s for_rest =>\n  %s\n  end." % (
            lname, " ".join(typed(n) for n in captured + state), st_tuple, pt, body))
        return "bind (%s %s %s) (fun '%s => %s)" % (lname, lst, " ".join(captured + state), st_tuple, nxt(env))

    def assigned_in(self, e, name):
        if isinstance(e, tuple):
            if e and e[0] == "assign":
                p = e[1]
                while p[0] == "unary":
                    p = p[2]
                if p == ("path", [name]):
                    return True
            return any(self.assigned_in(x, name) for x in e[1:])
        if isinstance(e, list):
            return any(self.assigned_in(x, name) for x in e)
        return False

    def idents(self, e, acc):
        if isinstance(e, tuple):
            if e and e[0] == "path" and len(e[1]) == 1:
                acc.add(e[1][0])
            if e and e[0] == "macro":
                for t in e[2]:
                    if t[0] == "id":
                        acc.add(t[1])
            for x in e[1:]:
                self.idents(x, acc)
        elif isinstance(e, list):
            for x in e:
                self.idents(x, acc)


# `("raw", text)` nodes: already translated sub-expressions re-inserted into an AST
_orig_pure = Tr.pure


def _pure(self, e, env):
    if e[0] == "raw":
        return e[1]
    return _orig_pure(self, e, env)


Tr.pure = _pure


def param_kind(pn, pt, impl):
    t = pt.replace(" ", "")
    if pn == "self":
        if impl in SELF_RECORDS:
            return "selfrecmut" if "mut" in pt else "selfrec"
        return "selfmut" if "mut" in pt else "self"
    if t in ("&[u8]", "usize", "u64", "bool", "&str", "u16", "&Method") or t.startswith("&dynFn(&str)->Option<&"):
        return "val"
    if t == "&mut[u8]":
        return "buf"
    if t == "&mutWriter":
        return "writer"
    if t in ("&mutusize", "&mutu64"):
        return "mutval"
    m = re.fullmatch(r"&mut(\w+)", t)
    if m and m.group(1) in STRUCTS:
        return "struct:" + m.group(1)
    raise Unsupported("parameter type %s" % pt)


def translate(text, cfg, consts, known):
    params, ret, blk = parse_fn(text, cfg["rust"], cfg.get("nth", 1))
    impl = cfg.get("impl")
    ps = [(pn, param_kind(pn, pt, impl), pt) for pn, pt in params]
    has_state = any(k in ("selfmut", "selfrecmut", "buf", "writer", "mutval") or k.startswith("struct:") for _, k, _ in ps)
    if ret.startswith("Result") or has_state or cfg.get("res"):
        kind = "res"
    elif ret.startswith("Option"):
        kind = "option"
    else:
        kind = "plain"
    info = FnInfo(cfg["coq"], ps, kind, rust_ret=ret)
    tr = Tr(cfg, consts, known)
    tr.info = info
    env = {"__order__": []}
    binders = []
    for pn, pk, pt in ps:
        c = cn(pn)
        if pk in ("val",):
            env = tr.bind(env, pn, B("val", c, ty="Method" if pt.replace(" ", "") == "&Method" else None))
            binders.append(c)
        elif pk in ("self", "selfmut"):
            env = tr.bind(env, "self", B("val", "self", ty=impl, mutable=(pk == "selfmut")))
            binders.append("(self : %s)" % COQ_TYPE[impl])
        elif pk in ("selfrec", "selfrecmut"):
            fm = {}
            for f, fty in SELF_RECORDS[impl]:
                fm[f] = "self_" + f
                binders.append("(self_%s : %s)" % (f, COQ_TYPE[fty]))
            env = tr.bind(env, "self", B("selfrec", fields=fm, mutable=(pk == "selfrecmut")))
        elif pk.startswith("struct:"):
            fm = {}
            for f in STRUCTS[pk[7:]]:
                fm[f] = "%s_%s" % (c, f)
                binders.append("(%s_%s : N)" % (c, f))
            env = tr.bind(env, pn, B("struct", fields=fm, mutable=True))
        elif pk == "buf":
            env = tr.bind(env, pn, B("buf", c + "_buf"))
            binders.append("(%s_buf : bytes)" % c)
        elif pk == "writer":
            env = tr.bind(env, pn, B("writer", fields={"avail": c + "_avail", "out": c + "_out"}))
            binders.append("(%s_avail : N) (%s_out : bytes)" % (c, c))
        elif pk == "mutval":
            env = tr.bind(env, pn, B("val", c, mutable=True))
            binders.append("(%s : N)" % c)
    tr.types = {}
    for b in binders:
        for m in re.finditer(r"\((\w+) : (\w+)\)", b):
            tr.types[m.group(1)] = m.group(2)
    for pn, pk, pt in ps:
        if pk == "val":
            tr.types[cn(pn)] = {"&[u8]": "bytes", "&str": "bytes", "bool": "bool", "&Method": "method"}.get(pt.replace(" ", ""), "N")
    body = tr.stmts(blk[1], blk[2], env, None, tail_mode=True)
    # binder types of plain value parameters from the Rust types
    typed = []
    for b in binders:
        if b.startswith("("):
            typed.append(b)
        else:
            pt = [t for n, k, t in ps if cn(n) == b][0].replace(" ", "")
            typed.append("(%s : %s)" % (b, "bytes -> option bytes" if pt.startswith("&dynFn") else
                                        {"&[u8]": "bytes", "&str": "bytes", "bool": "bool", "&Method": "method"}.get(pt, "N")))
    head = "Definition %s %s :=\n  %s." % (cfg["coq"], " ".join(typed), body)
    return "\n".join(tr.aux + [head]), info


# --------------------------------------------------------------------------------------------------------------------
# what is translated: (file, rust fn, nth definition in the file, impl type, coq name, loop configuration)
FUNCS2 = [
    dict(file="src/util.rs", rust="find_crlf", impl=None, coq="gen_find_crlf"),
    dict(file="src/util.rs", rust="compare_lowercase_ascii", impl=None, coq="gen_compare_lowercase_ascii"),
    dict(file="src/chunk.rs", rust="new", impl="Dechunker", coq="gen_dech_new"),
    dict(file="src/chunk.rs", rust="is_on_chunk_boundary", impl="Dechunker", coq="gen_dech_is_on_chunk_boundary"),
    dict(file="src/chunk.rs", rust="is_ended", impl="Dechunker", coq="gen_dech_is_ended"),
    dict(file="src/chunk.rs", rust="read_size", impl="Dechunker", coq="gen_dech_read_size"),
    dict(file="src/chunk.rs", rust="read_data", impl="Dechunker", coq="gen_dech_read_data"),
    dict(file="src/chunk.rs", rust="expect_crlf", impl="Dechunker", coq="gen_dech_expect_crlf"),
    dict(file="src/chunk.rs", rust="trailer_or_ended", impl="Dechunker", coq="gen_dech_trailer_or_ended"),
    dict(file="src/chunk.rs", rust="trailer", impl="Dechunker", coq="gen_dech_trailer"),
    dict(file="src/chunk.rs", rust="parse_input", impl="Dechunker", coq="gen_dech_parse_input",
         loops={1: dict(fuel="2 * length src + 3", panic="model: parse_input out of fuel")}),
    # src/body.rs: the response-body reader
    dict(file="src/body.rs", rust="read_limit", impl="BodyReader", coq="gen_br_read_limit"),
    dict(file="src/body.rs", rust="read_unlimit", impl="BodyReader", coq="gen_br_read_unlimit"),
    dict(file="src/body.rs", rust="read_chunked", impl="BodyReader", coq="gen_br_read_chunked",
         loops={1: dict(fuel="length src + 1", panic="model: read_chunked out of fuel")}),
    dict(file="src/body.rs", rust="is_ended", nth=2, impl="BodyReader", coq="gen_br_is_ended"),
    dict(file="src/body.rs", rust="is_on_chunk_boundary", impl="BodyReader", coq="gen_br_is_on_chunk_boundary"),
    dict(file="src/body.rs", rust="body_mode", impl="BodyReader", coq="gen_br_body_mode"),
    dict(file="src/body.rs", rust="read", impl="BodyReader", coq="gen_br_read"),
    dict(file="src/body.rs", rust="header_defined", impl="BodyReader", coq="gen_br_header_defined"),
    dict(file="src/body.rs", rust="for_response", impl="BodyReader", coq="gen_br_for_response"),
    # src/body.rs: the request-body writer (self flattened into its fields mode / ended)
    dict(file="src/body.rs", rust="has_body", impl="BodyWriter", coq="gen_bw_has_body"),
    dict(file="src/body.rs", rust="is_chunked", impl="BodyWriter", coq="gen_bw_is_chunked"),
    dict(file="src/body.rs", rust="is_ended", nth=1, impl="BodyWriter", coq="gen_bw_is_ended"),
    dict(file="src/body.rs", rust="left_to_send", impl="BodyWriter", coq="gen_bw_left_to_send"),
    dict(file="src/body.rs", rust="finish", impl="BodyWriter", coq="gen_bw_finish"),
    dict(file="src/body.rs", rust="write_chunk", impl=None, coq="gen_body_write_chunk"),
    dict(file="src/body.rs", rust="write", impl="BodyWriter", coq="gen_bw_write", loops={1: dict(fuel="S (length input)")}),
    dict(file="src/body.rs", rust="consume_direct_write", impl="BodyWriter", coq="gen_bw_consume_direct_write"),
]

PREAMBLE2 = """(* GENERATED by tools/rs2coq2.py from the repository sources on every run -- do not edit.
   Whole functions of the crate translated to Gallina in state-passing style (see the header of tools/rs2coq2.py for the
   scheme). proofs/Gen2_equiv_*.v prove each equal to the hand-written model's function. *)
From Coq Require Import NArith Bool List.
From Hoot Require Import Base Chunk Body Httparse Parser Url Request Call Flow GenLib Gen.
Open Scope N_scope.
Open Scope bool_scope.
(* the model's readings of the http crate's accessors on a parsed response (the same expressions Flow.recv_try_response uses) *)
Definition resp_status (r : response) : N := rs_status r.
Definition resp_last_location (r : response) : option bytes := last_opt (hm_get_all (rs_headers r) (s2b "location")).
Definition resp_has_close (r : response) : bool := headers_has (hm_iter (rs_headers r)) (s2b "connection") (s2b "close").
Definition resp_is_redirection (r : response) : bool := is_redirection (rs_status r).
Definition resp_has_location (r : response) : bool := hm_contains (rs_headers r) (s2b "location").
Definition resp_insert_close (r : response) : response :=
  {| rs_version := rs_version r; rs_status := rs_status r; rs_headers := hm_insert (rs_headers r) (s2b "connection") (s2b "close") |}.
Definition resp_is_http10 (r : response) : bool := rs_version r =? 0.
Definition resp_headers_nonempty (r : response) : bool := match rs_headers r with [] => false | _ => true end.
Definition resp_get_content_length (r : response) : option bytes := hm_get (rs_headers r) (s2b "content-length").
Definition resp_text_lookup (r : response) : bytes -> option bytes := lookup_text (rs_headers r).
(* AmendedRequest::set_header on the list of added headers: the model's am_set_header (validated name and value, lower-cased name,
   the ArrayVec's capacity) *)
(* AmendedRequest::unset_header on the suppression list: the model's am_unset_header (capacity of the ArrayVec) *)
Definition unset_header_list (unset : list bytes) (k : bytes) : res (list bytes * unit) :=
  if UNSET_CAP <=? len unset then Panic "util.rs: ArrayVec::push (unset)" else Ok (unset ++ [k], tt).
Definition set_header_list (added : list header) (k v : bytes) : res (list header * unit) :=
  if negb (valid_header_name k && valid_header_value v) then Err BadHeader
  else if MAX_EXTRA_HEADERS <=? len added then Panic "util.rs: ArrayVec::push (extra headers)"
  else Ok (added ++ [(lower k, v)], tt).
(* src/parser.rs works on what httparse returns: the outcome of parse() and the fields of the Response / Request it filled in.
   The http builder keeps version, status (or method) and the fields added so far; body(()) fails on a name it does not accept
   (Parser.builder_ok) and otherwise yields the model's response with the HeaderMap of those fields. *)
(* ArrayVec::push on the visible part: capacity test, then append (Gen2_equiv_arrayvec.v proves this of the translated push) *)
Definition capped_push {T : Type} (cap : N) (site : string) (l : list T) (v : T) : res (list T) :=
  if cap <=? len l then Panic site else Ok (l ++ [v]).
(* http's TryFrom conversions into HeaderName / HeaderValue: the model's validity tests; a name is stored lower-cased *)
Definition header_name_try_from (k : bytes) : option bytes := if valid_header_name k then Some (lower k) else None.
Definition header_value_try_from (v : bytes) : option bytes := if valid_header_value v then Some v else None.
(* what Flow<SendRequest>::can_proceed sees of the call holder: the variant and, for the two sending calls, the phase *)
Inductive holder_view := HvWithoutBody (p : phase) | HvWithBody (p : phase) | HvOther.
(* a store into a fixed-size array: index out of bounds panics *)
Fixpoint list_set {T : Type} (l : list T) (i : N) (v : T) : list T :=
  match l with
  | nil => nil
  | x :: t => if i =? 0 then v :: t else x :: list_set t (N.pred i) v
  end.
Definition array_set {T : Type} (arr : list T) (i : N) (v : T) : res (list T * unit) :=
  if i <? len arr then Ok (list_set arr i v, tt) else Panic "index out of bounds".
Definition opt_bytes_eqb (a b : option bytes) : bool :=
  match a, b with Some x, Some y => beq_bytes x y | None, None => true | _, _ => false end.
(* Writer::try_write runs a closure on the cursor: the closure is a function of the position *)
Definition run_block (position : N) (block : N -> N * bool) : res (N * bool) := Ok (block position).
Inductive hp_status := HpComplete (n : N) | HpPartial.
Inductive hp_result := HpOk (s : hp_status) | HpErr (e : hperr).
Definition hperr_is_too_many (e : hperr) : bool := match e with ETooManyHeaders => true | _ => false end.
Definition hperr_into (e : hperr) : err := HttpParseFail.
Definition status_from_u16 (v : N) : option N := if (100 <=? v) && (v <? 1000) then Some v else None.
Definition method_from_bytes (m : bytes) : option bytes :=
  if match m with [] => false | _ => forallb is_http_method_char m end then Some m else None.
Definition builder_new {A : Type} (version : N) (x : A) : N * A * list header := (version, x, []).
Definition builder_header {A : Type} (b : N * A * list header) (k v : bytes) : N * A * list header :=
  let '(ve, x, hs) := b in (ve, x, hs ++ [(k, v)]).
Definition resp_builder_body (b : N * N * list header) : option response :=
  let '(ve, st, hs) := b in
  if builder_ok hs then Some {| rs_version := ve; rs_status := st; rs_headers := hm_of_list hs |} else None.
Definition req_builder_body (b : N * bytes * list header) : option prequest :=
  let '(ve, m, hs) := b in
  if builder_ok hs then Some {| pq_method := m; pq_version := ve; pq_headers := hm_of_list hs |} else None.
"""


# --------------------------------------------------------------------------------------------------------------------
# State-graph skeletons: the `proceed` functions of src/client/flow.rs decide the successor state from a handful of flags. Everything
# else in them moves values between typestate wrappers (Flow::wrap, CallHolder variants), which has no counterpart in a model whose
# typestate is a tag.  A skeleton keeps exactly the decision: the conditions (after replacing the accessor calls listed in `subst` by
# flag parameters), which XxxResult variant each path returns, and which close reasons are added on the way.
#   gen_next_<state> : flags -> option tag * list reason
# Statements that neither branch, return nor add a close reason are skipped; an assignment to one of the flags is refused.
SKELETONS = [
    dict(coq="gen_next_send_request", impl=r"impl<B>\s+Flow<B,\s*SendRequest>", rust="proceed",
         subst=[(r"self\.can_proceed\(\)", "can_proceed"), (r"self\.inner\.should_send_body", "should_send_body"),
                (r"self\.inner\.await_100_continue", "await_100")],
         params=["can_proceed", "should_send_body", "await_100"]),
    dict(coq="gen_next_await_100", impl=r"impl<B>\s+Flow<B,\s*Await100>", rust="proceed",
         subst=[(r"self\.inner\.should_send_body", "should_send_body")], params=["should_send_body"]),
    dict(coq="gen_next_send_body", impl=r"impl<B>\s+Flow<B,\s*SendBody>", rust="proceed", default="TRecvResponse",
         subst=[(r"self\.can_proceed\(\)", "can_proceed")], params=["can_proceed"]),
    dict(coq="gen_next_recv_response", impl=r"impl<B>\s+Flow<B,\s*RecvResponse>", rust="proceed",
         subst=[(r"self\.can_proceed\(\)", "can_proceed"), (r"call_body\.need_response_body\(\)", "need_body"),
                (r"call_body\.is_close_delimited\(\)", "close_delimited"), (r"self\.inner\.is_redirect\(\)", "is_redirect")],
         params=["can_proceed", "need_body", "close_delimited", "is_redirect"]),
    dict(coq="gen_next_recv_body", impl=r"impl<B>\s+Flow<B,\s*RecvBody>", rust="proceed",
         subst=[(r"self\.can_proceed\(\)", "can_proceed"), (r"self\.inner\.is_redirect\(\)", "is_redirect")],
         params=["can_proceed", "is_redirect"]),
]
TAGS = {"Await100": "TAwait100", "SendBody": "TSendBody", "RecvResponse": "TRecvResponse", "RecvBody": "TRecvBody",
        "Redirect": "TRedirect", "Cleanup": "TCleanup", "SendRequest": "TSendRequest", "Prepare": "TPrepare"}
REASONS = ["Http10", "ClientConnectionClose", "ServerConnectionClose", "Not100Continue", "CloseDelimitedBody"]


def find_fn_in_impl(text, impl_rx, name):
    text = re.sub(r"//[^\n]*", lambda m: " " * len(m.group(0)), text)
    m = re.search(impl_rx + r"\s*\{", text)
    if not m:
        raise Unsupported("impl block not found")
    i = m.end() - 1
    depth = 0
    j = i
    while True:
        if text[j] == "{":
            depth += 1
        elif text[j] == "}":
            depth -= 1
            if depth == 0:
                break
        j += 1
    from tools.rsparse import find_fn
    return find_fn(text[i:j + 1], name)


class Skel(object):
    def __init__(self, cfg, tr):
        self.cfg = cfg
        self.tr = tr

    def leaf(self, e, env, reasons):
        k = e[0]
        if k == "call" and e[1][0] == "path" and e[1][1] in (["Ok"], ["Some"]) and len(e[2]) == 1:
            return self.leaf(e[2][0], env, reasons)
        if k == "path" and e[1] == ["None"]:
            return "(@None tag, %s)" % self.rs(reasons)
        if k == "if" and e[3] is not None:
            return "(if %s then %s else %s)" % (self.tr.pure(e[1], env), self.walk(e[2][1], e[2][2], env, reasons), self.walk(e[3][1], e[3][2], env, reasons))
        if k == "block":
            return self.walk(e[1], e[2], env, reasons)
        if k == "return":
            return self.leaf(e[1], env, reasons)
        if k == "call" and e[1][0] == "path" and len(e[1][1]) >= 2 and e[1][1][-2].endswith("Result") and e[1][1][-1] in TAGS:
            return "(Some %s, %s)" % (TAGS[e[1][1][-1]], self.rs(reasons))
        if k == "call" and e[1] == ("path", ["Flow", "wrap"]) and self.cfg.get("default"):
            return "(Some %s, %s)" % (self.cfg["default"], self.rs(reasons))
        raise Unsupported("skeleton: unclassified result expression")

    def rs(self, reasons):
        return "[" + "; ".join(reasons) + "]"

    def mentions_flag_assignment(self, st):
        if st[0] == "assign":
            p = st[1]
            while p[0] == "unary":
                p = p[2]
            if p[0] == "path" and p[1][0] in self.cfg["params"]:
                return True
        return False

    def walk(self, stmts, tail, env, reasons):
        if not stmts:
            if tail is None:
                raise Unsupported("skeleton: a path that returns nothing")
            return self.leaf(tail, env, reasons)
        st, rest = stmts[0], stmts[1:]
        if self.mentions_flag_assignment(st):
            raise Unsupported("skeleton: a flag is assigned")
        if st[0] == "let" and st[1][0] == "pbind":
            try:
                v = self.tr.pure(st[2], env)
            except (Unsupported, Impure):
                return self.walk(rest, tail, env, reasons)            # a value the decision does not depend on (or use of it fails below)
            c = cn(st[1][1])
            return "(let %s := %s in %s)" % (c, v, self.walk(rest, tail, self.tr.bind(env, st[1][1], B("val", c)), reasons))
        if st[0] == "expr":
            e = st[1]
            if e[0] == "return":
                return self.leaf(e[1], env, reasons)
            if e[0] == "if":
                c = self.tr.pure(e[1], env)
                a = self.walk_block_then(e[2], rest, tail, env, reasons)
                b = self.walk_block_then(e[3], rest, tail, env, reasons) if e[3] is not None else self.walk(rest, tail, env, reasons)
                return "(if %s then %s else %s)" % (c, a, b)
            if e[0] == "call" and e[1] == ("path", ["add_close_reason"]):
                r = e[2][1]
                if r[0] != "path" or r[1][-1] not in REASONS:
                    raise Unsupported("skeleton: close reason")
                return self.walk(rest, tail, env, reasons + [r[1][-1]])
            if e[0] in ("match", "loop", "while", "for"):
                raise Unsupported("skeleton: control flow other than if")
        return self.walk(rest, tail, env, reasons)

    def walk_block_then(self, blk, rest, tail, env, reasons):
        """the block's statements, then (if the block does not return) what follows the if"""
        if blk[2] is not None:
            # a block with a value in statement position is the function's result only when nothing follows
            if rest or tail is not None:
                raise Unsupported("skeleton: if with a value in the middle of a function")
            return self.walk(blk[1], blk[2], env, reasons)
        # thread the reasons added inside the block through to the continuation by walking block ++ rest
        return self.walk(list(blk[1]) + list(rest), tail, env, reasons)


def translate_skeleton(text, cfg, consts):
    sig, body = find_fn_in_impl(text, cfg["impl"], cfg["rust"])
    for rx, rep in cfg["subst"]:
        body, n = re.subn(rx, rep, body)
        if n == 0:
            raise Unsupported("expected source pattern not found: %s" % rx)
    from tools.rsparse import tokenize
    p = P(tokenize(body))
    blk = p.block()
    tr = Tr(dict(cfg, file="src/client/flow.rs"), consts, {})
    tr.info = FnInfo(cfg["coq"], [], "plain")
    env = {"__order__": []}
    for f in cfg["params"]:
        env = tr.bind(env, f, B("val", f))
    code = Skel(cfg, tr).walk(blk[1], blk[2], env, [])
    return "Definition %s %s : option tag * list reason :=\n  %s." % (cfg["coq"], " ".join("(%s : bool)" % f for f in cfg["params"]), code)


# --------------------------------------------------------------------------------------------------------------------
# Flag functions of src/client/flow.rs: functions whose effect is on a few fields of `self.inner` (flags, the close-reason list) and
# whose inputs can be named by a substitution (`self.inner.x` becomes the mutable parameter inner_x, the call of a parser that the
# model has its own definition of becomes a parameter of the result monad).  Translated by the same translator as FUNCS2.
_PARSER_SUBST = [(r"let mut headers = \[httparse::EMPTY_HEADER; N\];", ""), (r"let mut res = httparse::Response::new\(&mut headers\);", ""),
                 (r"res\.parse\(input\)", "parse_result"), (r"e == httparse::Error::TooManyHeaders", "hperr_is_too_many(e)"),
                 (r"e\.into\(\)", "hperr_into(e)"), (r"res\.version", "res_version"), (r"res\.code", "res_code"), (r"res\.headers", "res_headers"),
                 (r"builder\.header\(", "builder_header(builder, ")]
_PARSER_PARAMS = [("input", "val", "bytes", None), ("parse_result", "val", "hp_result", "hpres"), ("res_version", "val", "option N", None), ("res_code", "val", "option N", None),
                  ("res_headers", "val", "list header", "list")]
_PARSER_FUNCTIONS = {"hperr_is_too_many": "hperr_is_too_many", "hperr_into": "hperr_into", "StatusCode::from_u16": "status_from_u16",
                     "Method::from_bytes": "method_from_bytes", "builder_new": "builder_new", "builder_header": "builder_header",
                     "resp_builder_body": "resp_builder_body", "req_builder_body": "req_builder_body"}
_PARSER_PATHS = {"Version::HTTP_10": "0", "Version::HTTP_11": "1"}

FLOWFUNCS = [
    dict(coq="gen_try_read_100", file="src/client/flow.rs", impl=r"impl<B>\s+Flow<B,\s*Await100>", rust="try_read_100", errst=True,
         subst=[(r"try_parse_response::<0>\(input\)", "parsed"), (r"self\.inner\.", "inner_"), (r"response\.status\(\)", "response")],
         params=[("inner_close_reason", "mutval", "list reason", None), ("inner_should_send_body", "mutval", "bool", None),
                 ("inner_await_100_continue", "mutval", "bool", None), ("parsed", "val", "res (option (N * N))", "res")],
         rust_ret="Result<usize, Error>"),
    dict(coq="gen_flow_new", file="src/client/flow.rs", impl=r"impl<B>\s+Flow<B,\s*Prepare>", rust="new",
         subst=[(r"ArrayVec::from_fn\(\|_\| CloseReason::Http10\)", "NOREASONS"), (r"request\.version\(\) == Version::HTTP_10", "is_http10"),
                (r"request\s*\.headers\(\)\s*\.iter\(\)\s*\.has\(\"connection\", \"close\"\)", "has_connection_close"),
                (r"request\.method\(\)\.need_request_body\(\)", "need_body"),
                (r"request\s*\.headers\(\)\s*\.iter\(\)\s*\.has_expect_100\(\)", "has_expect"), (r"CallHolder::new\(request\)", "call_new_result")],
         params=[("is_http10", "val", "bool", None), ("has_connection_close", "val", "bool", None), ("need_body", "val", "bool", None),
                 ("has_expect", "val", "bool", None), ("call_new_result", "val", "res unit", "res")],
         structs={"Inner": ["call", "close_reason", "should_send_body", "await_100_continue", "status", "location"]},
         wrap_fields=["close_reason", "should_send_body", "await_100_continue"],
         local_types={"close_reason": "reasons"}, rust_ret="Result<Self, Error>"),
    # the response is a value of the model's type; what the function asks of it (status, last Location, Connection: close) are the
    # model's readings of the http crate's accessors (resp_* in GenLib / Flow.v)
    dict(coq="gen_try_response", file="src/client/flow.rs", impl=r"impl<B>\s+Flow<B,\s*RecvResponse>", rust="try_response", errst=True,
         subst=[(r"self\s*\.inner\s*\.call\s*\.as_recv_response_mut\(\)\s*\.try_response\(input\)", "call_result"),
                (r"self\.inner\.", "inner_"),
                (r"response\s*\.headers\(\)\s*\.get_all\(\"location\"\)\s*\.into_iter\(\)\s*\.last\(\)\s*\.cloned\(\)", "resp_last_location(response)"),
                (r"response\s*\.headers\(\)\s*\.iter\(\)\s*\.has\(\"connection\", \"close\"\)", "resp_has_close(response)"),
                (r"response\.status\(\)", "resp_status(response)")],
         params=[("inner_close_reason", "mutval", "list reason", None), ("inner_await_100_continue", "mutval", "bool", None),
                 ("inner_status", "mutval", "option N", None), ("inner_location", "mutval", "option bytes", None),
                 ("call_result", "val", "res (option (N * response))", "res")],
         known=["resp_status", "resp_last_location", "resp_has_close"],
         rust_ret="Result<(usize, Option<Response<()>>), Error>"),
    # src/client/call.rs: Call<RecvResponse>::try_response -- complete head or the partial-redirect work-around, the 100 special case, the
    # Content-Length text test, the framing decision (for_response, translated above) recorded in state.reader.  The two parsers' results
    # are values of the model's types; what is asked of a response are the model's readings of the http accessors (resp_* in Gen2.v);
    # the header_lookup closure must have EXACTLY the text below to be replaced by resp_text_lookup (otherwise: not translated).
    dict(coq="gen_call_try_response", file="src/client/call.rs", impl=r"impl<B>\s+Call<RecvResponse,\s*B>", rust="try_response", errst=True,
         subst=[(r"try_parse_response::<MAX_RESPONSE_HEADERS>\(input\)", "parsed"),
                (r"try_parse_partial_response::<MAX_RESPONSE_HEADERS>\(input\)", "partial"),
                (r"r\.status\(\)\.is_redirection\(\)", "resp_is_redirection(r)"),
                (r"r\.headers\(\)\.contains_key\(\"location\"\)", "resp_has_location(r)"),
                (r"r\.headers_mut\(\)\s*\.insert\(\"connection\", HeaderValue::from_static\(\"close\"\)\);", "r = resp_insert_close(r);"),
                (r"response\.version\(\) == Version::HTTP_10", "resp_is_http10(response)"),
                (r"response\.status\(\)\.as_u16\(\)", "resp_status(response)"),
                (r"!response\.headers\(\)\.is_empty\(\)", "resp_headers_nonempty(response)"),
                (r"response\.headers\(\)\.get\(\"content-length\"\)", "resp_get_content_length(response)"),
                (r"\|name: &str\| \{\s*if let Some\(header\) = response\.headers\(\)\.get\(name\) \{\s*return header\.to_str\(\)\.ok\(\);\s*\}\s*None\s*\}", "resp_text_lookup(response)"),
                (r"self\.request\.method\(\)", "method"), (r"self\.state\.", "state_")],
         params=[("state_reader", "mutval", "option reader", None), ("method", "val", "Request.method", "Method"),
                 ("input", "val", "bytes", None), ("parsed", "val", "res (option (N * response))", "res"),
                 ("partial", "val", "res (option response)", "res")],
         known=["resp_is_redirection", "resp_has_location", "resp_insert_close", "resp_is_http10", "resp_status", "resp_headers_nonempty",
                "resp_get_content_length", "resp_text_lookup"],
         known_res=[("for_response", "gen_br_for_response", 4)],
         rust_ret="Result<Option<(usize, Response<()>)>, Error>"),
    dict(coq="gen_call_read", file="src/client/call.rs", impl=r"impl<B>\s+Call<RecvBody,\s*B>", rust="read",
         subst=[(r"self\.state\.", "state_")],
         params=[("state_reader", "mutval", "option reader", "Option<BodyReader>"), ("state_stop_on_chunk_boundary", "val", "bool", None),
                 ("input", "val", "bytes", None), ("output", "buf", "bytes", None)],
         rust_ret="Result<(usize, usize), Error>"),
    dict(coq="gen_call_direct_write", file="src/client/call.rs", impl=r"impl<B>\s+Call<WithBody,\s*B>", rust="consume_direct_write",
         subst=[(r"self\.state\.writer", "writer")],
         params=[("writer", "recmut:BodyWriter", "", None), ("amount", "val", "N", None)],
         rust_ret="Result<(), Error>"),
    dict(coq="gen_call_write_body", file="src/client/call.rs", impl=r"impl<B>\s+Call<WithBody,\s*B>", rust="write",
         subst=[(r"self\.analyze_request\(\)\?;", ""), (r"let mut w = Writer::new\(output\);", ""), (r"self\.is_prelude\(\)", "is_prelude"),
                (r"self\.is_body\(\)", "is_body"), (r"try_write_prelude\(&self\.request, &mut self\.state, &mut w\)\?;", "prelude_result?;"),
                (r"self\.state\.writer", "writer")],
         params=[("writer", "recmut:BodyWriter", "", None), ("is_prelude", "val", "bool", None), ("is_body", "val", "bool", None),
                 ("prelude_result", "val", "res unit", "res"), ("input", "val", "bytes", None), ("w", "writer", "", None)],
         rust_ret="Result<(usize, usize), Error>"),
    # src/client/flow.rs: Flow<Redirect>::as_new_flow -- the Location must be there and be text; the target is resolved against the
    # previous request (a function parameter: the url crate stays modelled); the method table; the previous request is taken and the
    # next flow built (result parameters); which inherited headers the next request suppresses, in which order, depends on the policy
    # and on whether the target may keep the credentials (a function parameter of the target).  Result: the suppression list and the
    # new method and URI, or None when the redirect is not followed.
    dict(coq="gen_as_new_flow", file="src/client/flow.rs", impl=r"impl<B>\s+Flow<B,\s*Redirect>", rust="as_new_flow",
         subst=[(r"&self\.inner\.location", "inner_location"), (r"let previous = self\.inner\.call\.request_mut\(\);", ""),
                (r"self\.inner\.status\.unwrap\(\)", "inner_status.unwrap()"), (r"let method = previous\.method\(\);", ""),
                (r"previous\.new_uri_from_location\(location\)\?", "resolve_location(location)?"),
                (r"let mut request = previous\.take_request\(\);", "take_request_result?;"), (r"\*request\.method_mut\(\) = new_method;", ""),
                (r"let mut next = Flow::new\(request\)\?;", "flow_new_result?;"), (r"let request = next\.inner\.call\.request_mut\(\);", ""),
                (r"can_redirect_auth_header\(request\.uri\(\), &uri\)", "may_keep_auth(uri)"), (r"request\.set_uri\(uri\);", ""),
                (r"request\.unset_header\(", "unset_header(&mut unset, "), (r"Ok\(Some\(next\)\)", "Ok(Some((new_method, uri)))")],
         params=[("unset", "mutval", "list bytes", None), ("inner_location", "val", "option bytes", None), ("inner_status", "val", "option N", "Option<u16>"),
                 ("method", "val", "Request.method", "Method"), ("redirect_auth_headers", "val", "auth_policy", None),
                 ("resolve_location", "val", "bytes -> res uri", "resfn"), ("may_keep_auth", "val", "uri -> bool", None),
                 ("take_request_result", "val", "res unit", "res"), ("flow_new_result", "val", "res unit", "res")],
         methods={"is_redirect_retaining_status": "gen_is_retaining", "need_request_body": "gen_need_request_body"},
         known_state2=[("unset_header", "unset_header_list")],
         rust_ret="Result<Option<Flow<B, Prepare>>, Error>"),
    # src/client/call.rs: Call::analyze_request -- runs once; inserts Host from the URI and the body framing header when the caller gave
    # none; installs the body writer the analysis chose.  The analysis itself (gen_analyze) is a value here, AmendedRequest::set_header
    # is the model's reading of it on the list of added headers (name lower-cased and validated, capacity of the ArrayVec), the URI's
    # host is a value (a valid header value by construction of http::Uri).
    dict(coq="gen_call_analyze_request", file="src/client/call.rs", impl=r"impl<State, B>\s+Call<State,\s*B>", rust="analyze_request", errst=True,
         subst=[(r"self\s*\.request\s*\.analyze\(self\.state\.writer, self\.state\.skip_method_body_check\)", "analyze_result"),
                (r"let info = analyze_result\?;", "let (info_body_mode, info_req_host_header, info_req_body_header) = analyze_result?;"),
                (r"info\.", "info_"), (r"self\.request\.uri\(\)\.host\(\)", "uri_host"),
                (r"HeaderValue::from_str\(host\)\s*\.map_err\(\|e\| Error::BadHeader\(e\.to_string\(\)\)\)\?", "host"),
                (r"self\.request\.set_header\(", "set_header(&mut added, "), (r"self\.state\.writer", "cur_writer"), (r"self\.analyzed", "analyzed")],
         params=[("analyzed", "mutval", "bool", None), ("added", "mutval", "list header", None), ("cur_writer", "mutval", "writer", None),
                 ("analyze_result", "val", "res (writer * bool * bool)", "res"), ("uri_host", "val", "option bytes", None)],
         known_res=[("body_header", "body_header", 1)], known_state=[("set_header", "set_header_list")],
         methods={"has_body": "has_body"},
         rust_ret="Result<(), Error>"),
    # src/client/call.rs: the resumable request-head writer. The request is represented by what the writer asks of it: the three pieces
    # of the request line (Display of Method, the path, Debug of Version -- byte strings rendered by the caller) and the list of effective
    # headers (name, value).  state.phase is the one field of BodyState it touches.
    dict(coq="gen_write_send_line", file="src/client/call.rs", impl=None, rust="do_write_send_line", register=True, format_bytes=True,
         subst=[(r"line\.0", "line_method"), (r"line\.1", "line_path"), (r"line\.2", "line_version")],
         params=[("line_method", "val", "bytes", None), ("line_path", "val", "bytes", None), ("line_version", "val", "bytes", None), ("w", "writer", "", None)],
         rust_ret="bool"),
    dict(coq="gen_write_headers", file="src/client/call.rs", impl=None, rust="do_write_headers", register=True, format_bytes=True,
         subst=[(r"for h in headers", "for h in headers")],
         params=[("headers", "val", "list header", None), ("index", "mutval", "N", None), ("last_index", "val", "N", None), ("w", "writer", "", None)],
         rust_ret="()"),
    dict(coq="gen_write_prelude_part", file="src/client/call.rs", impl=None, rust="try_write_prelude_part", register=True,
         subst=[(r"do_write_send_line\(request\.prelude\(\), w\)", "do_write_send_line(line_method, line_path, line_version, w)"),
                (r"request\.headers_len\(\)", "headers.len()"), (r"request\.headers\(\)", "headers"), (r"state\.phase", "phase")],
         params=[("line_method", "val", "bytes", None), ("line_path", "val", "bytes", None), ("line_version", "val", "bytes", None),
                 ("headers", "val", "list header", None), ("phase", "mutval", "phase", "Phase"), ("w", "writer", "", None)],
         rust_ret="bool"),
    dict(coq="gen_write_prelude", file="src/client/call.rs", impl=None, rust="try_write_prelude", register=True,
         subst=[(r"try_write_prelude_part\(request, state, w\)", "try_write_prelude_part(line_method, line_path, line_version, headers, &mut phase, w)"),
                (r"state\.phase\.is_body\(\)", "phase.is_body()")],
         params=[("line_method", "val", "bytes", None), ("line_path", "val", "bytes", None), ("line_version", "val", "bytes", None),
                 ("headers", "val", "list header", None), ("phase", "mutval", "phase", "Phase"), ("w", "writer", "", None)],
         methods={"is_body": "is_body"}, loops={1: dict(fuel="3", panic="model: try_write_prelude out of fuel")},
         rust_ret="Result<(), Error>"),
    # src/parser.rs: the bridge from httparse to the http types.  httparse's outcome and the fields it filled in are parameter values
    # (the parser itself stays modelled: Httparse.v), the http builder is the model's reading of it (builder_* in Gen2.v's preamble);
    # translated are the error mapping, Complete / Partial, the version and status conversions, which fields are copied and when the
    # copy stops, and what is returned.
    dict(coq="gen_try_parse_response", file="src/parser.rs", impl=None, rust="try_parse_response",
         subst=_PARSER_SUBST + [(r"Response::builder\(\)\.version\(version\)\.status\(status\)", "builder_new(version, status)"),
                (r"builder\s*\.body\(\(\)\)", "resp_builder_body(builder)")],
         params=_PARSER_PARAMS, functions=_PARSER_FUNCTIONS, paths=_PARSER_PATHS, val_fields={"name": "fst", "value": "snd"},
         sum_types={"hpres": ("HpOk", "HpErr")}, err_functions=["hperr_into"], share_continuation=True, loop_state_assigned_only=True, coq_types={"builder": "(N * N * list header)%type"},
         rust_ret="Result<Option<(usize, Response<()>)>, Error>"),
    dict(coq="gen_try_parse_partial_response", file="src/parser.rs", impl=None, rust="try_parse_partial_response",
         subst=_PARSER_SUBST + [(r"Response::builder\(\)\.version\(version\)\.status\(status\)", "builder_new(version, status)"),
                (r"builder\s*\.body\(\(\)\)", "resp_builder_body(builder)")],
         params=_PARSER_PARAMS, functions=_PARSER_FUNCTIONS, paths=_PARSER_PATHS, val_fields={"name": "fst", "value": "snd"},
         sum_types={"hpres": ("HpOk", "HpErr")}, err_functions=["hperr_into"], share_continuation=True, loop_state_assigned_only=True, coq_types={"builder": "(N * N * list header)%type"},
         rust_ret="Result<Option<Response<()>>, Error>"),
    dict(coq="gen_try_parse_request", file="src/parser.rs", impl=None, rust="try_parse_request",
         subst=[(a.replace("res", "req").replace("Response", "Request"), b.replace("res_", "req_")) for a, b in _PARSER_SUBST if "code" not in a] + [
                (r"req\.method", "req_method"),
                (r"Request::builder\(\)\.version\(version\)\.method\(method\)", "builder_new(version, method)"),
                (r"builder\s*\.body\(\(\)\)", "req_builder_body(builder)")],
         params=[("input", "val", "bytes", None), ("parse_result", "val", "hp_result", "hpres"), ("req_version", "val", "option N", None), ("req_method", "val", "option bytes", None),
                 ("req_headers", "val", "list header", "list")],
         functions=_PARSER_FUNCTIONS, paths=_PARSER_PATHS, val_fields={"name": "fst", "value": "snd"},
         sum_types={"hpres": ("HpOk", "HpErr")}, err_functions=["hperr_into"], share_continuation=True, loop_state_assigned_only=True, coq_types={"builder": "(N * bytes * list header)%type"},
         rust_ret="Result<Option<(usize, Request<()>)>, Error>"),
    # small functions of src/client/flow.rs and src/client/call.rs that the translations above took as flags or as the model's reading:
    # the close-reason list (each reason once, the first one explained), the redirect test on the recorded status, whether a response
    # body is expected, the body mode reported to the caller, the three questions asked of the response body reader
    dict(coq="gen_add_close_reason", file="src/client/flow.rs", impl=None, rust="add_close_reason",
         subst=[(r"reasons\.push\(reason\);", "reasons.push(reason);")],
         params=[("reasons", "mutval", "list reason", "reasons"), ("reason", "val", "reason", "CloseReason")], rust_ret="()"),
    dict(coq="gen_explain", file="src/client/flow.rs", impl=r"impl CloseReason", rust="explain", kind="plain", format_bytes=True,
         subst=[(r"match self", "match reason")],
         params=[("reason", "val", "reason", None)], rust_ret="&'static str"),
    dict(coq="gen_inner_is_redirect", file="src/client/flow.rs", impl=r"impl<B>\s+Inner<B>", rust="is_redirect", kind="plain",
         subst=[(r"self\.status", "status"), (r"v != StatusCode::NOT_MODIFIED", "v != 304")],
         params=[("status", "val", "option N", None)], methods={"is_redirection": "is_redirection"}, rust_ret="bool"),
    dict(coq="gen_close_reason", file="src/client/flow.rs", impl=r"impl<B>\s+Flow<B,\s*Cleanup>", rust="close_reason", kind="plain",
         subst=[(r"self\.inner\.close_reason", "close_reason"), (r"s\.explain\(\)", "explain(s)")],
         params=[("close_reason", "val", "list reason", "reasons")], functions={"explain": "gen_explain"}, rust_ret="Option<&'static str>"),
    dict(coq="gen_redirect_close_reason", file="src/client/flow.rs", impl=r"impl<B>\s+Flow<B,\s*Redirect>", rust="close_reason", kind="plain",
         subst=[(r"self\.inner\.close_reason", "close_reason"), (r"s\.explain\(\)", "explain(s)")],
         params=[("close_reason", "val", "list reason", "reasons")], functions={"explain": "gen_explain"}, rust_ret="Option<&'static str>"),
    dict(coq="gen_must_close", file="src/client/flow.rs", impl=r"impl<B>\s+Flow<B,\s*Cleanup>", rust="must_close_connection", kind="plain",
         subst=[(r"self\.close_reason\(\)", "close_reason_of(close_reason)")],
         params=[("close_reason", "val", "list reason", "reasons")], functions={"close_reason_of": "gen_close_reason"}, rust_ret="bool"),
    dict(coq="gen_redirect_must_close", file="src/client/flow.rs", impl=r"impl<B>\s+Flow<B,\s*Redirect>", rust="must_close_connection", kind="plain",
         subst=[(r"self\.close_reason\(\)", "close_reason_of(close_reason)")],
         params=[("close_reason", "val", "list reason", "reasons")], functions={"close_reason_of": "gen_redirect_close_reason"}, rust_ret="bool"),
    dict(coq="gen_need_response_body", file="src/client/call.rs", impl=r"impl BodyState", rust="need_response_body", kind="plain",
         subst=[(r"self\.reader", "reader")],
         params=[("reader", "val", "option reader", None)], rust_ret="bool"),
    dict(coq="gen_call_body_mode", file="src/client/call.rs", impl=r"impl<State, B>\s+Call<State,\s*B>", rust="body_mode", kind="plain",
         subst=[(r"self\s*\.state\s*\.reader", "reader")],
         params=[("reader", "val", "option reader", "option")], methods={"body_mode": "gen_br_body_mode"}, paths={"BodyMode::Chunked": "BMChunked"},
         rust_ret="BodyMode"),
    dict(coq="gen_call_is_ended", file="src/client/call.rs", impl=r"impl<B>\s+Call<RecvBody,\s*B>", rust="is_ended",
         subst=[(r"self\.state\.reader\.as_ref\(\)", "state_reader")],
         params=[("state_reader", "val", "option reader", "Option<BodyReader>")], rust_ret="bool"),
    dict(coq="gen_call_is_on_chunk_boundary", file="src/client/call.rs", impl=r"impl<B>\s+Call<RecvBody,\s*B>", rust="is_on_chunk_boundary",
         subst=[(r"self\.state\.reader\.as_ref\(\)", "state_reader")],
         params=[("state_reader", "val", "option reader", "Option<BodyReader>")], rust_ret="bool"),
    dict(coq="gen_call_is_close_delimited", file="src/client/call.rs", impl=r"impl<B>\s+Call<RecvBody,\s*B>", rust="is_close_delimited",
         subst=[(r"self\.state\.reader\.as_ref\(\)", "state_reader")],
         params=[("state_reader", "val", "option reader", "Option<BodyReader>")], rust_ret="bool"),
    dict(coq="gen_recv_body_can_proceed", file="src/client/flow.rs", impl=r"impl<B>\s+Flow<B,\s*RecvBody>", rust="can_proceed",
         subst=[(r"let call = self\.inner\.call\.as_recv_body\(\);", ""), (r"call\.is_ended\(\)", "call_is_ended(state_reader)"),
                (r"call\.is_close_delimited\(\)", "call_is_close_delimited(state_reader)")],
         params=[("state_reader", "val", "option reader", None)],
         known_res=[("call_is_ended", "gen_call_is_ended", 1), ("call_is_close_delimited", "gen_call_is_close_delimited", 1)], rust_ret="bool"),
    # src/util.rs: Writer::try_write -- the all-or-nothing write every translated writer function relies on (the translator renders
    # `w.try_write(|w| write!(..))` as "appended completely, or nothing and false").  The cursor is its position, the closure a function
    # from the position to the new position and whether it succeeded (std: Cursor<&mut [u8]>::write_all).
    dict(coq="gen_writer_try_write", file="src/util.rs", impl=r"impl<'a>\s+Writer<'a>", rust="try_write",
         subst=[(r"self\.0\.position\(\)", "position"), (r"\(block\)\(self\)\.is_ok\(\)", "run_block(&mut position, block)?"),
                (r"self\.0\.set_position\(pos\);", "position = pos;"), (r"self\.available\(\)", "(capacity - position)"),
                (r"self\.len\(\)", "position")],
         params=[("position", "mutval", "N", None), ("capacity", "val", "N", None), ("block", "val", "N -> N * bool", None)],
         known_state2=[("run_block", "run_block")], rust_ret="bool"),
    # src/client/flow.rs: can_redirect_auth_header -- may the redirect target keep the credentials: same host, and same scheme or an
    # upgrade to https.  What the function reads off the two URIs (host of the authority, scheme) are values.
    dict(coq="gen_can_redirect_auth_header", file="src/client/flow.rs", impl=None, rust="can_redirect_auth_header", kind="plain",
         subst=[(r"prev\.authority\(\)\.map\(\|a\| a\.host\(\)\)", "host_of_prev"), (r"next\.authority\(\)\.map\(\|a\| a\.host\(\)\)", "host_of_next"),
                (r"prev\.scheme\(\)", "scheme_of_prev"), (r"next\.scheme\(\)", "scheme_of_next")],
         params=[("host_of_prev", "val", "option bytes", None), ("host_of_next", "val", "option bytes", None),
                 ("scheme_of_prev", "val", "option bytes", None), ("scheme_of_next", "val", "option bytes", None)],
         opt_bytes_vars=["host_prev", "host_next", "scheme_prev", "scheme_next"], paths={"Scheme::HTTPS": '(s2b "https")'}, rust_ret="bool"),
    # src/util.rs: the fixed-capacity vector behind the close reasons, the added headers and the suppression list.  len and arr are the
    # two fields; an element is stored by index (a store beyond the array panics: array_set), the visible part is arr[..len].
    dict(coq="gen_arrayvec_push", file="src/util.rs", impl=r"impl<T, const N: usize>\s+ArrayVec<T, N>", rust="push",
         subst=[(r"self\.arr\[(.*?)\] = value;", r"array_set(&mut arr, \1, value)?;"), (r"self\.len", "len")],
         params=[("T", "val", "Type", None), ("len", "mutval", "N", None), ("arr", "mutval", "list T", None), ("value", "val", "T", None)],
         known_state=[("array_set", "array_set")], rust_ret="()"),
    dict(coq="gen_arrayvec_truncate", file="src/util.rs", impl=r"impl<T, const N: usize>\s+ArrayVec<T, N>", rust="truncate",
         subst=[(r"self\.len", "cur_len")],
         params=[("cur_len", "mutval", "N", None), ("len", "val", "N", None)], rust_ret="()"),
    dict(coq="gen_arrayvec_deref", file="src/util.rs", impl=r"impl<T, const N: usize>\s+Deref for ArrayVec<T, N>", rust="deref", kind="plain",
         subst=[(r"self\.arr", "arr"), (r"self\.len", "len")],
         params=[("T", "val", "Type", None), ("len", "val", "N", None), ("arr", "val", "list T", None)], rust_ret="&[T]"),
    # src/client/call.rs / flow.rs: the tests behind the can_proceed functions of the sending and response states, and the guard of
    # the conversion to the receiving call
    dict(coq="gen_phase_is_prelude", file="src/client/call.rs", impl=r"impl Phase", rust="is_prelude", kind="plain",
         subst=[(r"matches!\(self,", "matches!(phase,")], params=[("phase", "val", "phase", "Phase")], rust_ret="bool"),
    dict(coq="gen_phase_is_body", file="src/client/call.rs", impl=r"impl Phase", rust="is_body", kind="plain",
         subst=[(r"matches!\(self,", "matches!(phase,")], params=[("phase", "val", "phase", "Phase")], rust_ret="bool"),
    dict(coq="gen_call_wob_is_finished", file="src/client/call.rs", impl=r"impl<B>\s+Call<WithoutBody,\s*B>", rust="is_finished", kind="plain",
         subst=[(r"self\.state\.phase", "phase")], params=[("phase", "val", "phase", "Phase")],
         methods={"is_prelude": "gen_phase_is_prelude"}, rust_ret="bool"),
    dict(coq="gen_call_wb_is_finished", file="src/client/call.rs", impl=r"impl<B>\s+Call<WithBody,\s*B>", rust="is_finished", kind="plain",
         subst=[(r"self\.state\.writer", "writer")], params=[("writer", "recmut:BodyWriter", "", None)], rust_ret="bool"),
    dict(coq="gen_call_rr_is_finished", file="src/client/call.rs", impl=r"impl<B>\s+Call<RecvResponse,\s*B>", rust="is_finished", kind="plain",
         subst=[(r"self\.state\.reader", "reader")], params=[("reader", "val", "option reader", None)], rust_ret="bool"),
    dict(coq="gen_do_into_receive", file="src/client/call.rs", impl=r"impl<State, B>\s+Call<State,\s*B>", rust="do_into_receive",
         subst=[(r"self\.state\.writer", "writer"), (r"(?s)Ok\(Call \{.*?_ph: PhantomData,\s*\}\)", "Ok(())")],
         params=[("writer", "recmut:BodyWriter", "", None)], rust_ret="Result<(), Error>"),
    dict(coq="gen_call_into_body", file="src/client/call.rs", impl=r"impl<B>\s+Call<RecvResponse,\s*B>", rust="into_body",
         subst=[(r"&self\.state\.reader", "reader"), (r"let next = self\.do_into_body\(\);", ""), (r"Ok\(Some\(next\)\)", "Ok(Some(()))")],
         params=[("reader", "val", "option reader", None)], rust_ret="Result<Option<()>, Error>"),
    dict(coq="gen_send_request_can_proceed", file="src/client/flow.rs", impl=r"impl<B>\s+Flow<B,\s*SendRequest>", rust="can_proceed",
         subst=[(r"&self\.inner\.call", "holder")], params=[("holder", "val", "holder_view", None)],
         methods={"is_finished": "gen_call_wob_is_finished", "is_body": "gen_phase_is_body"}, rust_ret="bool"),
    # src/client/call.rs: Call<WithoutBody>::into_send_body (send_body_despite_method): only before the analysis; the method check is
    # switched off and the body defaults to chunked
    dict(coq="gen_into_send_body", file="src/client/call.rs", impl=r"impl<B>\s+Call<WithoutBody,\s*B>", rust="into_send_body",
         subst=[(r"self\.analyzed", "analyzed"), (r"self\.state\.skip_method_body_check", "skip_method_body_check"), (r"self\.state\.writer", "cur_writer"),
                (r"(?s)Call \{.*?_ph: PhantomData,\s*\}", "()")],
         params=[("analyzed", "val", "bool", None), ("skip_method_body_check", "mutval", "bool", None), ("cur_writer", "mutval", "writer", None)],
         functions={"BodyWriter::new_chunked": "new_chunked"}, rust_ret="()"),
    # src/client/flow.rs: Flow<SendBody>::calculate_max_input -- the whole output for a sized body, body.rs calculate_max_input for a chunked one
    dict(coq="gen_flow_calculate_max_input", file="src/client/flow.rs", impl=r"impl<B>\s+Flow<B,\s*SendBody>", rust="calculate_max_input", kind="plain",
         subst=[(r"let call = self\.inner\.call\.as_with_body_mut\(\);", ""), (r"call\.is_chunked\(\)", "is_chunked")],
         params=[("is_chunked", "val", "bool", None), ("output_len", "val", "N", None)],
         functions={"calculate_max_input": "gen_calculate_max_input"}, rust_ret="usize"),
    # src/client/amended.rs: set_header / unset_header -- name (and value) converted and validated (http's TryFrom: the model's
    # valid_header_name / valid_header_value, names lower-cased), then pushed onto the ArrayVec (capped_push: ArrayVec::push, above)
    dict(coq="gen_am_set_header", file="src/client/amended.rs", impl=r"impl<Body>\s+AmendedRequest<Body>", rust="set_header",
         subst=[(r"<HeaderName as TryFrom<K>>::try_from\(name\)\s*\.map_err\(Into::into\)", "header_name_try_from(name)"),
                (r"<HeaderValue as TryFrom<V>>::try_from\(value\)\s*\.map_err\(Into::into\)", "header_value_try_from(value)"),
                (r"self\.headers", "added")],
         params=[("added", "mutval", "list header", 'capvec:MAX_EXTRA_HEADERS:util.rs: ArrayVec::push (extra headers)'), ("name", "val", "bytes", None), ("value", "val", "bytes", None)],
         functions={"header_name_try_from": "header_name_try_from", "header_value_try_from": "header_value_try_from"}, rust_ret="Result<(), Error>"),
    dict(coq="gen_am_unset_header", file="src/client/amended.rs", impl=r"impl<Body>\s+AmendedRequest<Body>", rust="unset_header",
         subst=[(r"<HeaderName as TryFrom<K>>::try_from\(name\)\s*\.map_err\(Into::into\)", "header_name_try_from(name)"),
                (r"self\.unset", "unset")],
         params=[("unset", "mutval", "list bytes", 'capvec:UNSET_CAP:util.rs: ArrayVec::push (unset)'), ("name", "val", "bytes", None)],
         functions={"header_name_try_from": "header_name_try_from"}, rust_ret="Result<(), Error>"),
    # src/ext.rs: HeaderIterExt::has (the test behind `Connection: close` and `Expect: 100-continue`): some field with that name has that value
    dict(coq="gen_headers_has", file="src/ext.rs", impl=None, rust="has", kind="plain", bytes_vars=["key", "value"],
         subst=[(r"self\s*\.filter", "headers.iter().filter")],
         params=[("headers", "val", "list header", "list"), ("key", "val", "bytes", None), ("value", "val", "bytes", None)],
         rust_ret="bool"),
    dict(coq="gen_has_expect_100", file="src/ext.rs", impl=None, rust="has_expect_100", kind="plain",
         subst=[(r"self\.has\(", "headers_has(headers, ")],
         params=[("headers", "val", "list header", "list")], functions={"headers_has": "gen_headers_has"}, rust_ret="bool"),
    # src/client/amended.rs: the effective header list (caller-added headers first, then the original ones that are not unset) and the
    # accessors built on it; the three containers are lists (ArrayVec / HeaderMap iteration order), names compare as byte strings
    dict(coq="gen_am_headers", file="src/client/amended.rs", impl=r"impl<Body>\s+AmendedRequest<Body>", rust="headers", kind="plain",
         register=True, register_as="am_headers", list_result=True, bytes_vars=["x", "k", "key"],
         subst=[(r"self\s*\.request\s*\.headers\(\)\s*\.iter\(\)", "original.iter()"), (r"self\.unset", "unset"), (r"self\.headers", "added")],
         params=[("added", "val", "list header", "list"), ("unset", "val", "list bytes", "list"), ("original", "val", "list header", "list")],
         rust_ret="impl Iterator"),
    dict(coq="gen_am_headers_get_all", file="src/client/amended.rs", impl=r"impl<Body>\s+AmendedRequest<Body>", rust="headers_get_all", kind="plain",
         register=True, register_as="am_headers_get_all", list_result=True, bytes_vars=["x", "k", "key"], list_functions=["am_headers"],
         subst=[(r"self\.headers\(\)", "am_headers(added, unset, original)")],
         params=[("added", "val", "list header", "list"), ("unset", "val", "list bytes", "list"), ("original", "val", "list header", "list"), ("key", "val", "bytes", None)],
         rust_ret="impl Iterator"),
    dict(coq="gen_am_headers_get", file="src/client/amended.rs", impl=r"impl<Body>\s+AmendedRequest<Body>", rust="headers_get", kind="plain",
         list_functions=["am_headers_get_all"],
         subst=[(r"self\.headers_get_all\(key\)", "am_headers_get_all(added, unset, original, key)")],
         params=[("added", "val", "list header", "list"), ("unset", "val", "list bytes", "list"), ("original", "val", "list header", "list"), ("key", "val", "bytes", None)],
         rust_ret="Option"),
    dict(coq="gen_am_headers_len", file="src/client/amended.rs", impl=r"impl<Body>\s+AmendedRequest<Body>", rust="headers_len", kind="plain",
         list_functions=["am_headers"],
         subst=[(r"self\.headers\(\)", "am_headers(added, unset, original)")],
         params=[("added", "val", "list header", "list"), ("unset", "val", "list bytes", "list"), ("original", "val", "list header", "list")],
         rust_ret="usize"),
    # src/client/amended.rs: the request analysis (what makes a request invalid, and the framing of its body); the two header accessors
    # are function parameters, version and method are values
    dict(coq="gen_analyze", file="src/client/amended.rs", impl=r"impl<Body>\s+AmendedRequest<Body>", rust="analyze",
         subst=[(r"self\.request\.version\(\)", "version"), (r"self\.method\(\)\.clone\(\)", "method"), (r"self\.method\(\)", "method"),
                (r"self\s*\.headers_get_all\(", "headers_get_all("), (r"self\s*\.headers_get\(", "headers_get(")],
         params=[("version", "val", "version", None), ("method", "val", "Request.method", "Method"),
                 ("headers_get_all", "val", "bytes -> list bytes", "listfn"), ("headers_get", "val", "bytes -> option bytes", None),
                 ("wanted_mode", "val", "writer", None), ("skip_method_body_check", "val", "bool", None)],
         known_res=[("verify_version", "gen_verify_version", 2)],
         methods={"has_body": "has_body", "need_request_body": "gen_need_request_body"},
         functions={"BodyWriter::new_chunked": "new_chunked", "BodyWriter::new_sized": "new_sized", "compare_lowercase_ascii": "gen_compare_lowercase_ascii"},
         result_structs={"RequestInfo": ["body_mode", "req_host_header", "req_body_header"]},
         rust_ret="Result<RequestInfo, Error>"),
]


def translate_custom(text, cfg, known_all=None, err_mode=False):
    if cfg.get("impl"):
        sig, body = find_fn_in_impl(text, cfg["impl"], cfg["rust"])
    else:
        from tools.rsparse import find_fn
        sig, body = find_fn(text, cfg["rust"], cfg.get("nth", 1))
    for rx, rep in cfg["subst"]:
        # an accessor / call that the function takes as a parameter value.  When the text is no longer there the parameter is simply
        # unused; if it was altered, the altered text stays and is translated as what it says, or refused (fallback)
        body, n = re.subn(rx, rep, body)
    from tools.rsparse import tokenize
    pp = P(tokenize(body))
    blk = pp.block()
    if pp.peek()[0] != "eof":
        raise Unsupported("trailing tokens")
    ps = [(n, k, t) for n, k, t, _ in cfg["params"]]
    info = FnInfo(cfg["coq"], ps, cfg.get("kind", "res"), rust_ret=cfg["rust_ret"])
    known = dict(((None, n), FnInfo(n, [("r", "val", "")], "plain")) for n in cfg.get("known", []))
    for rust, coq, arity in cfg.get("known_res", []):
        known[(None, rust)] = FnInfo(coq, [("a%d" % i, "val", "") for i in range(arity)], "res")
    for rust, coq in cfg.get("known_state2", []):
        known[(None, rust)] = FnInfo(coq, [("l", "mutval", ""), ("k", "val", "")], "res")
    for rust, coq in cfg.get("known_state", []):
        # a modelled operation on a list held in a mutable parameter: f(&mut list, key, value) -> Result<(), Error>
        known[(None, rust)] = FnInfo(coq, [("l", "mutval", ""), ("k", "val", ""), ("v", "val", "")], "res")
    if known_all:
        for key, fi in known_all.items():
            known.setdefault(key, fi)
    tr = Tr(cfg, rs2coq.constants_of(text), known)
    tr.info = info
    tr.err_mode = err_mode
    tr.types = dict(cfg.get("coq_types", {}))
    env = {"__order__": []}
    binders = []
    for n, k, t, ty in cfg["params"]:
        c = cn(n)
        if k == "buf":
            env = tr.bind(env, n, B("buf", c + "_buf"))
            binders.append("(%s_buf : bytes)" % c)
            tr.types[c + "_buf"] = "bytes"
        elif k == "writer":
            env = tr.bind(env, n, B("writer", fields={"avail": c + "_avail", "out": c + "_out"}))
            binders.append("(%s_avail : N) (%s_out : bytes)" % (c, c))
            tr.types[c + "_avail"] = "N"
            tr.types[c + "_out"] = "bytes"
        elif k.startswith("recmut:"):
            fm = {}
            for f, fty in SELF_RECORDS[k[7:]]:
                fm[f] = "%s_%s" % (c, f)
                binders.append("(%s_%s : %s)" % (c, f, COQ_TYPE[fty]))
                tr.types["%s_%s" % (c, f)] = COQ_TYPE[fty]
            env = tr.bind(env, n, B("selfrec", fields=fm, mutable=True, ty=k[7:]))
        else:
            env = tr.bind(env, n, B("val", c, ty=ty, mutable=(k == "mutval")))
            binders.append("(%s : %s)" % (c, t))
            tr.types[c] = t
    code = tr.stmts(blk[1], blk[2], env, None, tail_mode=True)
    if err_mode and tr.aux:
        raise Unsupported("error-state translation of a function with loops")
    return "\n".join(tr.aux + ["Definition %s%s %s :=\n  %s." % (cfg["coq"], "_errst" if err_mode else "", " ".join(binders), code)])


BASELINE = os.path.join(os.path.dirname(os.path.abspath(__file__)), "gen2_baseline.json")


def _sig(params, kind):
    return [[p[0], p[1]] for p in params] + [kind]


def _aux_sig(code):
    """names and binders of the auxiliary (loop) functions of a translation: the stored lemmas about a loop are stated about these"""
    return re.findall(r"^Fixpoint (\w+) (.*?)\{struct", code, flags=re.M)


def _generate(repo, base, force):
    chunks = [PREAMBLE2]
    # functions translated by tools/rs2coq.py (Gen.v) that the functions translated here call
    known = {(None, "max_chunk_fit"): FnInfo("gen_max_chunk_fit", [("available", "val", "usize"), ("max_chunk", "val", "usize")], "plain")}
    done = []
    failed = {}
    newbase = {}
    for cfg in FUNCS2:
        try:
            if cfg["coq"] in force:
                raise Unsupported(force[cfg["coq"]])
            text = open(os.path.join(repo, cfg["file"])).read()
            code, info = translate(text, cfg, rs2coq.constants_of(text), known)
            fb = base.get(cfg["coq"])
            if fb is not None and (_sig(info.params, info.kind) != _sig(fb["params"], fb["kind"])
                                   or [list(x) for x in _aux_sig(code)] != [list(x) for x in _aux_sig(fb["code"])]):
                raise Unsupported("the function's interface (or that of its loop) changed (the stored statements are about the interface at the pinned commit)")
            chunks.append("(* %s :: fn %s *)\n%s\n" % (cfg["file"], cfg["rust"], code))
            known[(cfg.get("impl"), cfg["rust"])] = info
            done.append(cfg["coq"])
            names = set(c["coq"] for c in FUNCS2)
            newbase[cfg["coq"]] = {"code": code, "params": info.params, "kind": info.kind, "rust_ret": info.rust_ret,
                                   "calls": sorted(n for n in set(re.findall(r"gen_[A-Za-z0-9_]+", code)) if n in names and n != cfg["coq"])}
        except Exception as ex:      # whatever goes wrong while translating is a gap of the translator, never a verdict
            failed[cfg["coq"]] = "%s: %s" % (type(ex).__name__, ex)
            fb = base.get(cfg["coq"])
            if fb is None:
                raise
            chunks.append("(* %s :: fn %s -- NOT TRANSLATED (%s): the translation of this function at the pinned commit stands in;\n"
                          "   tied to the current source by the correspondence check only *)\n%s\n" % (
                              cfg["file"], cfg["rust"], str(ex).replace("*)", "* )"), fb["code"]))
            known[(cfg.get("impl"), cfg["rust"])] = FnInfo(cfg["coq"], [tuple(p) for p in fb["params"]], fb["kind"], rust_ret=fb["rust_ret"])
    flow_text = None
    for cfg in SKELETONS:
        try:
            if cfg["coq"] in force:
                raise Unsupported(force[cfg["coq"]])
            flow_text = flow_text or open(os.path.join(repo, "src/client/flow.rs")).read()
            code = translate_skeleton(flow_text, cfg, {})
            chunks.append("(* src/client/flow.rs :: %s :: fn %s (decision skeleton) *)\n%s\n" % (cfg["impl"].split("Flow")[-1], cfg["rust"], code))
            done.append(cfg["coq"])
            newbase[cfg["coq"]] = {"code": code, "params": [], "kind": "skeleton", "rust_ret": "", "calls": []}
        except Exception as ex:      # whatever goes wrong while translating is a gap of the translator, never a verdict
            failed[cfg["coq"]] = "%s: %s" % (type(ex).__name__, ex)
            fb = base.get(cfg["coq"])
            if fb is None:
                raise
            chunks.append("(* src/client/flow.rs :: fn %s -- NOT TRANSLATED (%s): the skeleton at the pinned commit stands in *)\n%s\n" % (
                cfg["rust"], str(ex).replace("*)", "* )"), fb["code"]))
    for cfg in FLOWFUNCS:
        try:
            if cfg["coq"] in force:
                raise Unsupported(force[cfg["coq"]])
            code = translate_custom(open(os.path.join(repo, cfg["file"])).read(), cfg, known)
            if cfg.get("errst"):
                # the state the mutable parameters are left in when the function returns an error
                code += "\n" + translate_custom(open(os.path.join(repo, cfg["file"])).read(), cfg, known, err_mode=True)
            chunks.append("(* %s :: fn %s (fields of self.inner as parameters) *)\n%s\n" % (cfg["file"], cfg["rust"], code))
            done.append(cfg["coq"])
            if cfg.get("register"):
                known[(None, cfg.get("register_as", cfg["rust"]))] = FnInfo(cfg["coq"], [(n, k, t) for n, k, t, _ in cfg["params"]], cfg.get("kind", "res"), rust_ret=cfg["rust_ret"])
            newbase[cfg["coq"]] = {"code": code, "params": [], "kind": "flags", "rust_ret": "", "calls": []}
        except Exception as ex:      # whatever goes wrong while translating is a gap of the translator, never a verdict
            failed[cfg["coq"]] = "%s: %s" % (type(ex).__name__, ex)
            fb = base.get(cfg["coq"])
            if fb is None:
                raise
            chunks.append("(* %s :: fn %s -- NOT TRANSLATED (%s): the translation at the pinned commit stands in *)\n%s\n" % (
                cfg["file"], cfg["rust"], str(ex).replace("*)", "* )"), fb["code"]))
    return "\n".join(chunks), done, failed, newbase


def regenerate2(repo, out_path, write_baseline=False, force_all=None, force_some=None):
    """Returns {'translated2': [...], 'failed2': {name: reason}}; rewrites out_path only when its content changes.
    A function that cannot be translated any more, or whose interface (parameters, result kind) differs from the one the stored
    lemmas are stated about, is replaced by its BASELINE translation (the translation of the same function at the pinned commit,
    committed in tools/gen2_baseline.json, about which the stored equivalence proofs are known to go through): it then says nothing
    about the current source, is reported, and the function is tied by the correspondence check only.  A stand-in calls its callees
    through the interfaces of the pinned commit, which is sound because a callee whose interface changed is a stand-in too; a caller
    whose call no longer fits a callee's (pinned) interface cannot be translated and falls back as well (iterated to a fixpoint)."""
    import json
    base = {}
    if os.path.exists(BASELINE) and not write_baseline:
        base = json.load(open(BASELINE))
    force = {}
    if force_all:
        force = dict((c["coq"], force_all) for c in FUNCS2 + SKELETONS + FLOWFUNCS)
    if force_some:
        force.update(force_some)
    for _round in range(len(FUNCS2) + 2):
        text, done, failed, newbase = _generate(repo, base, force)
        more = dict((n, r) for n, r in failed.items() if n not in force)
        if not more:
            break
        force.update(more)
    if not os.path.exists(out_path) or open(out_path).read() != text:
        with open(out_path, "w") as f:
            f.write(text)
    if write_baseline:
        with open(BASELINE, "w") as f:
            json.dump(newbase, f, indent=1, sort_keys=True)
    return {"translated2": done, "failed2": failed}


def function_at_line(gen2_text, line_no):
    """coq name (as in FUNCS2 / SKELETONS / FLOWFUNCS) of the translated function whose definition contains the given line of Gen2.v"""
    lines = gen2_text.split("\n")
    names = sorted((c["coq"] for c in FUNCS2 + SKELETONS + FLOWFUNCS), key=len, reverse=True)
    for i in range(min(line_no, len(lines)) - 1, -1, -1):
        m = re.match(r"(?:Definition|Fixpoint) (\w+)", lines[i])
        if m:
            for n in names:
                if m.group(1) == n or m.group(1).startswith(n + "_"):
                    return n
            return None
    return None


if __name__ == "__main__":
    import sys
    args = [a for a in sys.argv[1:] if not a.startswith("--")]
    repo = args[0] if args else "/repo"
    out = os.path.join(os.path.dirname(os.path.abspath(__file__)), "..", "coq", "theories", "Gen2.v")
    print(regenerate2(repo, out, write_baseline="--write-baseline" in sys.argv))
