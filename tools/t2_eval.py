#!/usr/bin/env python3
"""How the whole-function translator (tools/rs2coq2.py) and the stored equivalence proofs react to the stored harmless rewrites and
seeded changes that touch the translated files (not a check; results are quoted in DESIGN.md section 18).

  python3 tools/t2_eval.py [harmless|seeded|all] [C03,C07,...]

For every patch touching src/chunk.rs, src/body.rs or src/util.rs: a scratch copy of /repo/src gets the patch, Gen2.v is regenerated
from it into a scratch copy of /verif/coq, and the equivalence proofs are rebuilt. Output: one line per patch:
  <name> translated=<n> fallbacks=<names> proofs=<ok|FAIL file>"""
import glob
import json
import os
import re
import shutil
import subprocess
import sys

ROOT = os.path.dirname(os.path.dirname(os.path.abspath(__file__)))
sys.path.insert(0, ROOT)
from tools import rs2coq2   # noqa

SCR = "/tmp/t2eval_%d" % os.getpid()
TARGETS = sorted("theories/proofs/" + os.path.basename(f)[:-2] + ".vo"
                 for f in glob.glob(os.path.join(ROOT, "coq", "theories", "proofs", "Gen*_equiv*.v")) + glob.glob(os.path.join(ROOT, "coq", "theories", "proofs", "Gen2_transport*.v")))


def main():
    which = sys.argv[1] if len(sys.argv) > 1 else "all"
    pats = []
    if which in ("harmless", "all"):
        pats += sorted(glob.glob(os.path.join(ROOT, "harmless", "*", "patch.diff")))
    if which in ("seeded", "all"):
        pats += sorted(glob.glob(os.path.join(ROOT, "seeded", "*", "patch.diff")))
    if which not in ("harmless", "seeded", "all") and os.path.isdir(which):
        which = os.path.abspath(which)
        # a directory of deliveries: <dir>/*/out/*/patch.diff or <dir>/*/patch.diff
        pats = sorted(glob.glob(os.path.join(which, "*", "out", "*", "patch.diff")) + glob.glob(os.path.join(which, "*", "patch.diff")))
    only = sys.argv[2].split(",") if len(sys.argv) > 2 else None
    if only:
        pats = [p for p in pats if os.path.basename(os.path.dirname(p)).split("-")[0] in only]
    shutil.rmtree(SCR, ignore_errors=True)
    os.makedirs(SCR)
    subprocess.run(["cp", "-r", os.path.join(ROOT, "coq"), SCR + "/coq"], check=True)
    results = {}
    for p in pats:
        text = open(p).read()
        files = re.findall(r"^\+\+\+ b/(\S+)", text, flags=re.M)
        if not any(f in ("src/chunk.rs", "src/body.rs", "src/util.rs", "src/client/flow.rs", "src/client/amended.rs", "src/client/call.rs", "src/ext.rs", "src/parser.rs") for f in files):
            continue
        if os.environ.get("T2_ONLY_FILE") and os.environ["T2_ONLY_FILE"] not in files:
            continue
        name = os.path.basename(os.path.dirname(p))
        if which not in ("harmless", "seeded", "all") and os.path.isdir(which):
            name = os.path.relpath(os.path.dirname(p), which).replace("/out/", "-").replace("/", "-")
        repo = SCR + "/repo"
        shutil.rmtree(repo, ignore_errors=True)
        os.makedirs(repo)
        subprocess.run(["cp", "-r", "/repo/src", repo + "/src"], check=True)
        r = subprocess.run(["patch", "-p1", "-s", "-i", p], cwd=repo, stdout=subprocess.PIPE, stderr=subprocess.STDOUT, text=True)
        if r.returncode != 0:
            print(name, "patch does not apply")
            continue
        tr = rs2coq2.regenerate2(repo, SCR + "/coq/theories/Gen2.v")
        m = subprocess.run(["timeout", "900", "make", "-j8"] + TARGETS, cwd=SCR + "/coq", stdout=subprocess.PIPE, stderr=subprocess.STDOUT, text=True)
        bad = re.findall(r'File "\./(theories/\S+)", line (\d+)', m.stdout)
        res = {"translated": len(tr["translated2"]), "fallbacks": sorted(tr["failed2"]), "proofs_ok": m.returncode == 0,
               "failing": ["%s:%s" % b for b in bad[:3]]}
        results[name] = res
        print(name, "translated=%d" % res["translated"], "fallbacks=%s" % ",".join(res["fallbacks"]), "proofs=%s" % ("ok" if res["proofs_ok"] else "FAIL " + " ".join(res["failing"])), flush=True)
    shutil.rmtree(SCR, ignore_errors=True)
    json.dump(results, open(os.path.join(ROOT, "coverage", "translator2_eval_%s%s.json" % (os.path.basename(which.rstrip("/")), "_" + os.path.basename(os.environ["T2_ONLY_FILE"]).replace(".", "_") if os.environ.get("T2_ONLY_FILE") else "")), "w"), indent=1, sort_keys=True)


if __name__ == "__main__":
    main()
