"""rs2coq: a translator from a small, pure subset of Rust to Gallina, run on every check.

It regenerates coq/theories/Gen.v from the CURRENT sources of the repository under test for the functions listed in
FUNCTIONS below (integer arithmetic and decision tables of src/ext.rs and src/body.rs). proofs/Gen_equiv_{ext,body}.v prove, for
ALL arguments, that each generated function equals the corresponding function of the hand-written model; the property
files that depend on those functions re-export these equalities, so that a change of the Rust function which is not
an equivalent rewrite breaks a proof obligation of the property (DESIGN.md section 3.5).

Subset translated (anything else raises Unsupported and is reported as `translator_failed` for that function):
  fn f(&self | x: usize | v: Version ...) -> bool | usize | Result<(), Error> { stmts; expr }
  stmts:   let [mut] x = e;   x = e;   x += e;   x -= e;   x *= e;   while c { stmts }
           if c { return Err(Error::V[(..)]); }   let x = match e { P => e1, .. , _ => return Err(..) };
  expr:    literals, identifiers, SCREAMING constants (resolved from `const NAME: usize = expr;` of the same file),
           + - * / %   == != < <= > >=   && || !   ( ) , if c { e } else { e } , a.min(b) a.max(b) a.saturating_sub(b),
           matches!(e, P | P ..), match e { P | P => e, .., _ => e } (patterns: path constants, integer literals, _),
           self / *self, self.as_u16(), self.method() calls of other translated functions, paths Method::X, Version::HTTP_xx,
           StatusCode::NAME, Ok(()).
Semantics: usize / u64 become N; `-` is N's truncated subtraction (= saturating_sub; a plain `-` that could underflow is a
panic site in a debug build: the hand-written model carries those as explicit Panic branches, the translation does not);
overflow of + and * is not modelled. `while` becomes a structurally recursive function over explicit fuel (FUEL below)
returning the tuple of the variables the body assigns.
"""
import os
import re

FUEL = {"max_chunk_fit": 20}

# (rust file, fn name, coq name, self type or None)
FUNCTIONS = [
    ("src/ext.rs", "is_http10", "gen_is_http10", "method"),
    ("src/ext.rs", "is_http11", "gen_is_http11", "method"),
    ("src/ext.rs", "need_request_body", "gen_need_request_body", "method"),
    ("src/ext.rs", "verify_version", "gen_verify_version", "method"),
    ("src/ext.rs", "is_redirect_retaining_status", "gen_is_retaining", "N"),
    ("src/body.rs", "calculate_max_input", "gen_calculate_max_input", None),
    ("src/body.rs", "max_chunk_fit", "gen_max_chunk_fit", None),
    # The decision table of BodyReader::for_response. What it gets from the header parsing is abstracted into parameters
    # (the hand-written model has header_defined as a separate function): the framing the headers define, and whether a
    # content-length / transfer-encoding header is present at all.
    ("src/body.rs", "for_response", "gen_for_response", None,
     {"subst": [(r"Self::header_defined\(http10, header_lookup\)\?", "hd_param"),
                (r'header_lookup\("content-length"\)\s*\.is_some\(\)', "cl_present"),
                (r'header_lookup\("transfer-encoding"\)\s*\.is_some\(\)', "te_present")],
      "params": [("http10", "bool"), ("method", "method"), ("status_code", "N"), ("hd_param", "reader"),
                 ("cl_present", "bool"), ("te_present", "bool")],
      "ret": "reader", "unwrap_ok": True}),
]

# Fragments: single expressions inside functions that as a whole are outside the translated subset (they mutate through references,
# write to the output cursor, ...): the arithmetic that decides HOW MANY bytes a call moves and the guards that refuse a call.
# kind "let": the right-hand side of `let <var> = <expr>;` in fn; kind "guard": the condition of `if <cond> { return Err(Error::<err> ...`.
# `subst` maps accessor calls to the parameters of the generated function. A fragment that is not found (renamed variable, restructured
# function) is NOT an error: the generated definition is then `fallback` (the model's own formula), the fragment is reported under
# `fragments_not_found`, and that piece of the code is tied to the model by the correspondence check only, as the rest of the function is.
FRAGMENTS = [
    dict(name="gen_sized_write_n", file="src/body.rs", fn="write", kind="let", var="to_write",
         subst=[(r"w\.available\(\)", "avail"), (r"input\.len\(\)", "input_len")],
         params=[("avail", "N"), ("input_len", "N"), ("left_usize", "N")], ret="N", fallback="N.min (N.min avail input_len) left_usize"),
    dict(name="gen_sized_left_usize", file="src/body.rs", fn="write", kind="let", var="left_usize", subst=[],
         params=[("left", "N")], ret="N", fallback="N.min left 18446744073709551615"),
    dict(name="gen_read_left_usize", file="src/body.rs", fn="read_limit", kind="let", var="left_usize", subst=[],
         params=[("left", "N")], ret="N", fallback="N.min left 18446744073709551615"),
    dict(name="gen_chunk_to_write", file="src/body.rs", fn="write_chunk", kind="let", var="to_write",
         subst=[(r"input\.len\(\)", "input_len")],
         params=[("input_len", "N"), ("max_chunk", "N"), ("available", "N")], ret="N", fallback="N.min (N.min input_len max_chunk) available"),
    dict(name="gen_read_limit_n", file="src/body.rs", fn="read_limit", kind="let", var="to_read",
         subst=[(r"src\.len\(\)", "src_len"), (r"dst\.len\(\)", "dst_len")],
         params=[("src_len", "N"), ("dst_len", "N"), ("left_usize", "N")], ret="N", fallback="N.min (N.min src_len dst_len) left_usize"),
    dict(name="gen_read_unlimit_n", file="src/body.rs", fn="read_unlimit", kind="let", var="to_read",
         subst=[(r"src\.len\(\)", "src_len"), (r"dst\.len\(\)", "dst_len")],
         params=[("src_len", "N"), ("dst_len", "N")], ret="N", fallback="N.min src_len dst_len"),
    dict(name="gen_chunk_read_n", file="src/chunk.rs", fn="read_data", kind="let", var="to_read",
         subst=[(r"src\.len\(\)", "src_len"), (r"dst\.len\(\)", "dst_len")],
         params=[("src_len", "N"), ("dst_len", "N"), ("left", "N")], ret="N", fallback="N.min (N.min src_len dst_len) left"),
    dict(name="gen_size_len_end", file="src/chunk.rs", fn="read_size", kind="let", var="len_end",
         subst=[(r"maybe_meta\s*\.unwrap_or\(([^()]*)\)", r"(if meta_some { meta_val } else { \1 })")],
         params=[("meta_some", "bool"), ("meta_val", "N"), ("i", "N")], ret="N",
         fallback="N.min (if meta_some then meta_val else 21) i"),
    dict(name="gen_write_overshoot", file="src/client/call.rs", fn="write", nth=2, kind="guard", err="BodyLargerThanContentLength",
         subst=[(r"input\.len\(\)", "input_len")],
         params=[("input_len", "N"), ("left", "N")], ret="bool", fallback="N.ltb left input_len"),
    dict(name="gen_write_after_finish", file="src/client/call.rs", fn="write", nth=2, kind="guard", err="BodyContentAfterFinish",
         subst=[(r"input\.is_empty\(\)", "input_empty"), (r"self\.state\.writer\.is_ended\(\)", "ended")],
         params=[("input_empty", "bool"), ("ended", "bool")], ret="bool", fallback="(negb input_empty) && ended"),
    # the redirect method table: `let new_method = if status.is_redirect_retaining_status() { .. return Ok(None) .. } else { .. };`
    # as a function status -> method -> Option<Method> (None = the redirect is not followed)
    dict(name="gen_redirect_method", file="src/client/flow.rs", fn="as_new_flow", kind="let", var="new_method",
         subst=[(r"return\s+Ok\(None\)\s*;", "NoneM"), (r"\{\s*method\.clone\(\)\s*\}", "{ SomeM(method) }"),
                (r"\{\s*Method::GET\s*\}", "{ SomeM(Method::GET) }")],
         params=[("status", "N"), ("method", "method")], ret="option Request.method",
         fallback="if gen_is_retaining status then (if gen_need_request_body method then None else if method_eqb method DELETE then None else Some method) "
                  "else (if method_eqb method GET || method_eqb method HEAD then Some method else Some GET)"),
    # what counts as a redirect: the `Some(v) => ...` arm of Inner::is_redirect
    dict(name="gen_is_redirect_status", file="src/client/flow.rs", fn="is_redirect", kind="arm", arm=r"Some\(v\)",
         subst=[(r"v\.is_redirection\(\)", "(300 <= v && v <= 399)")],
         params=[("v", "N")], ret="bool", fallback="(N.leb 300 v && N.leb v 399) && negb (N.eqb v 304)"),
    dict(name="gen_direct_overshoot", file="src/client/call.rs", fn="consume_direct_write", kind="guard", err="BodyLargerThanContentLength",
         subst=[], params=[("amount", "N"), ("left", "N")], ret="bool", fallback="N.ltb left amount"),
]

STATUS = {"CONTINUE": 100, "SWITCHING_PROTOCOLS": 101, "OK": 200, "NO_CONTENT": 204, "MULTIPLE_CHOICES": 300, "MOVED_PERMANENTLY": 301,
          "FOUND": 302, "SEE_OTHER": 303, "NOT_MODIFIED": 304, "USE_PROXY": 305, "TEMPORARY_REDIRECT": 307, "PERMANENT_REDIRECT": 308}
VERSIONS = {"HTTP_09": "V09", "HTTP_10": "V10", "HTTP_11": "V11", "HTTP_2": "V2", "HTTP_3": "V3"}
METHODS = ["GET", "HEAD", "POST", "PUT", "DELETE", "CONNECT", "OPTIONS", "TRACE", "PATCH"]
TYPES = {"usize": "N", "u64": "N", "Version": "version", "bool": "bool"}


# When a function cannot be TRANSLATED (it was rewritten into syntax outside the subset above) that is not a verdict about the
# function: Gen.v then defines the generated name as the model's own function, the function is listed under
# `translator_fallbacks` in the evidence, and it is tied to the model by the correspondence check only in that run (for these
# functions -- finite tables and byte counts -- the correspondence scripts cover the whole table / the boundary values).
# When a function IS translated and the equality with the model does not hold, the property files do not compile: that is reported.
FALLBACKS = {
    "gen_is_http10": ("(self : method) : bool", "is_http10 self"),
    "gen_is_http11": ("(self : method) : bool", "is_http11 self"),
    "gen_need_request_body": ("(self : method) : bool", "need_request_body self"),
    "gen_verify_version": ("(self : method) (v : version) : res unit", "verify_version self v"),
    "gen_is_retaining": ("(self : N) : bool", "(N.eqb self 307) || (N.eqb self 308)"),
    "gen_calculate_max_input": ("(output_len : N) : N", "calculate_max_input output_len"),
    "gen_max_chunk_fit": ("(available : N) (max_chunk : N) : N", "max_chunk_fit available max_chunk"),
    "gen_for_response": ("(http10 : bool) (method : method) (status_code : N) (hd_param : reader) (cl_present : bool) (te_present : bool) : reader",
                         "if (method_eqb method HEAD) || (((N.leb 200 status_code) && (N.leb status_code 299)) && (method_eqb method CONNECT)) || "
                         "((N.leb 100 status_code) && (N.leb status_code 199)) || (N.eqb status_code 204) || (N.eqb status_code 304) || "
                         "((((N.leb 300 status_code) && (N.leb status_code 399)) && negb (N.eqb status_code 304)) && negb (cl_present || te_present)) "
                         "then RNoBody else hd_param"),
}


class Unsupported(Exception):
    pass


TOKEN = re.compile(r"\s*(?:(//[^\n]*)|(\d[\d_]*)|([A-Za-z_][A-Za-z0-9_]*)|(::|==|!=|<=|>=|=>|&&|\|\||\+=|-=|\*=|->|[-+*/%<>!=(){};,.&:|]))")


def tokenize(src):
    out = []
    pos = 0
    while pos < len(src):
        m = TOKEN.match(src, pos)
        if not m:
            if src[pos:].strip() == "":
                break
            raise Unsupported("cannot tokenize at: %r" % src[pos:pos + 30])
        pos = m.end()
        if m.group(1):
            continue
        if m.group(2):
            out.append(("num", m.group(2).replace("_", "")))
        elif m.group(3):
            out.append(("id", m.group(3)))
        else:
            out.append(("op", m.group(4)))
    return out


def extract_fn(text, name, nth=1):
    m = None
    seen = 0
    for cand in re.finditer(r"fn %s\s*(?:<[^>]*>)?\s*\(" % re.escape(name), text):
        semi = text.find(";", cand.end())
        brace = text.find("{", cand.end())
        if brace != -1 and (semi == -1 or brace < semi):      # a definition, not a trait method declaration
            seen += 1
            if seen == nth:
                m = cand
                break
    if not m:
        raise Unsupported("function %s not found" % name)
    i = text.index("{", m.end())
    depth = 0
    j = i
    while True:
        if text[j] == "{":
            depth += 1
        elif text[j] == "}":
            depth -= 1
            if depth == 0:
                break
        j += 1
    return text[m.start():i], text[i + 1:j]


def constants_of(text):
    consts = {}
    for m in re.finditer(r"const ([A-Z_0-9]+): (?:usize|u64) = ([^;]+);", text):
        consts[m.group(1)] = m.group(2)
    return consts


def const_value(name, consts, depth=0):
    """numeric value of `const NAME: usize = <expr over literals and other constants>;`"""
    if name not in consts or depth > 8:
        raise Unsupported("unknown constant %s" % name)
    expr = consts[name]
    expr = re.sub(r"[A-Z][A-Z0-9_]*", lambda m: str(const_value(m.group(0), consts, depth + 1)), expr)
    expr = re.sub(r"(\d)_(\d)", r"\1\2", expr)
    if not re.fullmatch(r"[0-9 *+()/-]+", expr):
        raise Unsupported("constant %s is not a numeric expression: %s" % (name, expr))
    return int(eval(expr.replace("/", "//"), {"__builtins__": {}}))


class Parser(object):
    """Pratt parser producing (coq expression text, type) pairs; statements are translated to nested lets."""

    def __init__(self, toks, consts, self_ty, known_fns):
        self.t = toks
        self.i = 0
        self.consts = consts
        self.self_ty = self_ty
        self.known = known_fns
        self.aux = []         # auxiliary definitions (loops), emitted before the function

    def peek(self, k=0):
        return self.t[self.i + k] if self.i + k < len(self.t) else ("eof", "")

    def next(self):
        tok = self.peek()
        self.i += 1
        return tok

    def expect(self, v):
        tok = self.next()
        if tok[1] != v:
            raise Unsupported("expected %r, got %r" % (v, tok[1]))

    # ---- expressions
    PREC = {"||": 1, "&&": 2, "==": 3, "!=": 3, "<": 3, "<=": 3, ">": 3, ">=": 3, "+": 5, "-": 5, "*": 6, "/": 6, "%": 6}

    def expr(self, minp=0):
        lhs = self.unary()
        while True:
            tok = self.peek()
            if tok[0] != "op" or tok[1] not in self.PREC or self.PREC[tok[1]] < minp:
                break
            op = tok[1]
            self.next()
            rhs = self.expr(self.PREC[op] + 1)
            lhs = self.binop(op, lhs, rhs)
        return lhs

    def binop(self, op, a, b):
        (ea, ta), (eb, tb) = a, b
        if op in ("&&", "||"):
            return ("(%s %s %s)" % (ea, op, eb), "bool")
        if op in ("==", "!="):
            ty = ta if ta != "?" else tb
            eq = {"method": "method_eqb", "version": "version_eqb", "N": "N.eqb", "bool": "Bool.eqb"}.get(ty)
            if eq is None:
                raise Unsupported("equality at type %s" % ty)
            e = "(%s %s %s)" % (eq, ea, eb)
            return (e if op == "==" else "(negb %s)" % e, "bool")
        if op in ("<", "<=", ">", ">="):
            f = {"<": "N.ltb %s %s", "<=": "N.leb %s %s", ">": "N.ltb %s %s", ">=": "N.leb %s %s"}[op]
            x, y = (ea, eb) if op in ("<", "<=") else (eb, ea)
            return ("(" + f % (x, y) + ")", "bool")
        f = {"+": "N.add", "-": "N.sub", "*": "N.mul", "/": "N.div", "%": "N.modulo"}[op]
        return ("(%s %s %s)" % (f, ea, eb), "N")

    def unary(self):
        tok = self.peek()
        if tok == ("op", "!"):
            self.next()
            e, _ = self.unary()
            return self.postfix(("(negb %s)" % e, "bool"))
        if tok == ("op", "*") or tok == ("op", "&"):
            self.next()
            return self.unary()
        return self.postfix(self.atom())

    def atom(self):
        tok = self.next()
        if tok[0] == "num":
            return (tok[1], "N")
        if tok == ("op", "("):
            if self.peek() == ("op", ")"):
                self.next()
                return ("tt", "unit")
            e = self.expr()
            self.expect(")")
            return ("(%s)" % e[0], e[1])
        if tok == ("id", "if"):
            c = self.expr()
            self.expect("{")
            a = self.block_expr()
            self.expect("}")
            self.expect("else")
            if self.peek() == ("id", "if"):
                b = self.atom()               # else if ...: a nested conditional without braces of its own
            else:
                self.expect("{")
                b = self.block_expr()
                self.expect("}")
            return ("(if %s then %s else %s)" % (c[0], a[0], b[0]), a[1] if a[1] != "?" else b[1])
        if tok == ("id", "matches") and self.peek() == ("op", "!"):
            self.next()
            self.expect("(")
            scrut = self.expr()
            self.expect(",")
            alts = [self.pattern()]
            while self.peek() == ("op", "|"):
                self.next()
                alts.append(self.pattern())
            if self.peek() == ("op", ","):
                self.next()
            self.expect(")")
            tests = [self.binop("==", scrut, a)[0] for a in alts]
            e = tests[0]
            for t in tests[1:]:
                e = "(%s || %s)" % (e, t)
            return (e, "bool")
        if tok == ("id", "match"):
            arms, scrut = self.match_arms()
            if any(r for _, _, r in arms):
                raise Unsupported("`return` inside a match that is not the right-hand side of a let")
            return self.match_chain(scrut, arms, lambda b: b)
        if tok[0] == "id":
            name = tok[1]
            if self.peek() == ("op", "::"):
                self.next()
                member = self.next()[1]
                if name == "Method" and member in METHODS:
                    return (member, "method")
                if name == "Version" and member in VERSIONS:
                    return (VERSIONS[member], "version")
                if name == "StatusCode" and member in STATUS:
                    return (str(STATUS[member]), "N")
                if name == "Self" and member in ("NoBody", "CloseDelimited"):
                    return ({"NoBody": "RNoBody", "CloseDelimited": "RClose"}[member], "reader")
                if name in ("usize", "u64") and member == "MAX":
                    return ("18446744073709551615", "N")
                if name == "Error":
                    if self.peek() == ("op", "("):
                        self.skip_parens()
                    return (member, "err")
                raise Unsupported("path %s::%s" % (name, member))
            if name == "NoneM":
                return ("(@None Request.method)", "optm")     # (fragments) `return Ok(None)` of a function whose value is an Option<Method>
            if name == "SomeM":
                self.expect("(")
                inner = self.expr()
                self.expect(")")
                return ("(Some %s)" % inner[0], "optm")
            if name == "self":
                return ("self", self.self_ty)
            if name == "true" or name == "false":
                return (name, "bool")
            if name in ("Ok", "Err"):
                self.expect("(")
                inner = ("tt", "unit") if self.peek() == ("op", ")") else self.expr()
                self.expect(")")
                if name == "Ok" and getattr(self, "unwrap_ok", False):
                    return inner
                return ("(%s %s)" % (name, inner[0]), "res")
            if re.fullmatch(r"[A-Z][A-Z0-9_]*", name):
                return (str(const_value(name, self.consts)), "N")     # constants are folded to their numeric value
            return (name, self.vars.get(name, "N"))
        raise Unsupported("unexpected token %r" % (tok,))

    def pattern(self):
        """a pattern of matches!/match: a path constant, an integer literal or `_` (returns None)."""
        while self.peek() in (("op", "&"), ("op", "*")):
            self.next()
        if self.peek() == ("id", "_"):
            self.next()
            return None
        return self.atom()

    def match_arms(self):
        """after `match`: parses `scrutinee { pats => body, ... }`; returns ([(alts, body, is_return)], scrutinee)."""
        scrut = self.expr()
        self.expect("{")
        arms = []
        while self.peek() != ("op", "}"):
            alts = [self.pattern()]
            while self.peek() == ("op", "|"):
                self.next()
                alts.append(self.pattern())
            self.expect("=>")
            is_ret = False
            if self.peek() == ("id", "return"):
                self.next()
                is_ret = True
            if self.peek() == ("op", "{"):
                self.next()
                body = self.block_expr()
                self.expect("}")
            else:
                body = self.expr()
            if self.peek() == ("op", ","):
                self.next()
            arms.append((alts, body, is_ret))
        self.expect("}")
        return arms, scrut

    def match_chain(self, scrut, arms, k):
        """if-chain for the arms, in order; k maps a non-returning arm's body (expr, type) to the continuation's (expr, type)."""
        out = None
        ty = "?"
        for alts, body, is_ret in reversed(arms):
            val = body if is_ret else k(body)
            if not is_ret:
                ty = val[1]
            if any(a is None for a in alts):
                out = val[0]
                continue
            if out is None:
                raise Unsupported("match without a wildcard arm")
            tests = [self.binop("==", scrut, a)[0] for a in alts]
            cond = tests[0]
            for t in tests[1:]:
                cond = "(%s || %s)" % (cond, t)
            out = "(if %s then %s else %s)" % (cond, val[0], out)
        return (out, ty)

    def skip_parens(self):
        depth = 0
        while True:
            tok = self.next()
            if tok == ("op", "("):
                depth += 1
            elif tok == ("op", ")"):
                depth -= 1
                if depth == 0:
                    return
            elif tok[0] == "eof":
                raise Unsupported("unbalanced parentheses")

    CASTS = {"u64": None, "usize": None, "u128": None, "u32": 4294967296, "u16": 65536, "u8": 256}

    def casts(self, e):
        """`e as T`: widening casts are the identity on N; narrowing ones keep the low bits."""
        while self.peek() == ("id", "as"):
            self.next()
            ty = self.next()[1]
            if ty not in self.CASTS:
                raise Unsupported("cast to %s" % ty)
            if self.CASTS[ty] is not None:
                e = ("(N.modulo %s %d)" % (e[0], self.CASTS[ty]), "N")
        return e

    def postfix(self, e):
        e = self.casts(e)
        while self.peek() == ("op", "."):
            self.next()
            name = self.next()[1]
            self.expect("(")
            args = []
            while self.peek() != ("op", ")"):
                args.append(self.expr())
                if self.peek() == ("op", ","):
                    self.next()
            self.expect(")")
            if name in ("min", "max") and len(args) == 1:
                e = ("(N.%s %s %s)" % (name, e[0], args[0][0]), "N")
            elif name == "saturating_sub" and len(args) == 1:
                e = ("(N.sub %s %s)" % (e[0], args[0][0]), "N")
            elif name in ("clone", "as_u16") and not args:
                pass
            elif name in self.known and not args:
                e = ("(%s %s)" % (self.known[name][0], e[0]), self.known[name][1])
            else:
                raise Unsupported("method call .%s(..)" % name)
            e = self.casts(e)
        return e

    # ---- statements
    def block_expr(self):
        """statements followed by a tail expression, as one Gallina expression."""
        return self.stmts_then(lambda: self.tail())

    def tail(self):
        if self.peek() == ("op", "}") or self.peek()[0] == "eof":
            return ("tt", "unit")
        return self.expr()

    def stmts_then(self, k):
        tok = self.peek()
        if tok == ("id", "let"):
            self.next()
            if self.peek() == ("id", "mut"):
                self.next()
            name = self.next()[1]
            if self.peek() == ("op", ":"):
                self.next()
                self.next()
            self.expect("=")
            if self.peek() == ("id", "match"):
                self.next()
                arms, scrut = self.match_arms()
                self.expect(";")
                tys = [b[1] for _, b, r in arms if not r]
                self.vars[name] = tys[0] if tys else "N"
                rest = self.stmts_then(k)
                # arms that `return` leave the function; the others bind the variable and go on (continuation duplicated)
                return self.match_chain(scrut, arms, lambda b: ("(let %s := %s in\n  %s)" % (name, b[0], rest[0]), rest[1]))
            e = self.expr()
            self.expect(";")
            self.vars[name] = e[1]
            rest = self.stmts_then(k)
            return ("let %s := %s in\n  %s" % (name, e[0], rest[0]), rest[1])
        if tok == ("id", "while"):
            return self.while_stmt(k)
        if tok == ("id", "if") and self.is_return_if():
            self.next()
            c = self.expr()
            self.expect("{")
            self.expect("return")
            r = self.expr()
            self.expect(";")
            self.expect("}")
            rest = self.stmts_then(k)
            return ("if %s then %s else\n  %s" % (c[0], r[0], rest[0]), rest[1])
        if tok[0] == "id" and self.peek(1)[0] == "op" and self.peek(1)[1] in ("=", "+=", "-=", "*="):
            name = self.next()[1]
            op = self.next()[1]
            e = self.expr()
            self.expect(";")
            rhs = e[0] if op == "=" else "(%s %s %s)" % ({"+=": "N.add", "-=": "N.sub", "*=": "N.mul"}[op], name, e[0])
            self.assigned.append(name)
            rest = self.stmts_then(k)
            return ("let %s := %s in\n  %s" % (name, rhs, rest[0]), rest[1])
        return k()

    def is_return_if(self):
        # `if cond { return ...; }` : find the `{` at depth 0 and look at what follows
        j = self.i + 1
        depth = 0
        while j < len(self.t):
            tok = self.t[j]
            if tok == ("op", "("):
                depth += 1
            elif tok == ("op", ")"):
                depth -= 1
            elif tok == ("op", "{") and depth == 0:
                return self.t[j + 1] == ("id", "return")
            j += 1
        return False

    def while_stmt(self, k):
        self.next()
        cond = self.expr()
        self.expect("{")
        saved_assigned = self.assigned
        self.assigned = []
        body = self.stmts_then(lambda: ("@@RECURSE@@", "unit"))
        self.expect("}")
        state = []
        for v in self.assigned:
            if v not in state:
                state.append(v)
        self.assigned = saved_assigned + state
        params = [p for p in self.params if p not in state]
        idx = len(self.aux) + 1
        lname = "%s_loop%d" % (self.coq_name, idx)
        tup = "(" + ", ".join(state) + ")"
        rec = "%s fuel' %s" % (lname, " ".join(params + state))
        ty = " * ".join(["N"] * len(state))
        self.aux.append(
            "Fixpoint %s (fuel : nat) %s : %s :=\n  match fuel with\n  | O => %s\n  | S fuel' =>\n  if %s then\n  %s\n  else %s\n  end." % (
                lname, " ".join("(%s : N)" % p for p in params + state), ty, tup, cond[0], body[0].replace("@@RECURSE@@", rec), tup))
        rest = self.stmts_then(k)
        fuel = FUEL.get(self.rust_name, 64)
        return ("let '%s := %s %d%%nat %s in\n  %s" % (tup, lname, fuel, " ".join(params + state), rest[0]), rest[1])


def translate_fn(text, rust_name, coq_name, self_ty, consts, known, opts=None):
    opts = opts or {}
    sig, body = extract_fn(text, rust_name)
    for rx, rep in opts.get("subst", []):
        body, n = re.subn(rx, rep, body)
        if n == 0:
            raise Unsupported("expected source pattern not found: %s" % rx)
    m = re.search(r"\((.*)\)\s*(?:->\s*(.*))?$", sig.strip(), flags=re.S)
    params = []
    ptypes = {}
    for part in ([] if "params" in opts else [p.strip() for p in m.group(1).split(",") if p.strip()]):
        if part in ("&self", "self", "&mut self"):
            params.append(("self", self_ty))
            continue
        pn, pt = [x.strip() for x in part.split(":")]
        pt = pt.lstrip("&").strip()
        if pt not in TYPES:
            raise Unsupported("parameter type %s" % pt)
        params.append((pn, TYPES[pt]))
    ret = (m.group(2) or "()").strip()
    ret_ty = {"bool": "bool", "usize": "N", "u64": "N", "Result<(), Error>": "res unit"}.get(ret)
    if "params" in opts:
        params = list(opts["params"])
        ret_ty = opts["ret"]
    if ret_ty is None:
        raise Unsupported("return type %s" % ret)
    body = re.sub(r"\((\d+)\.\.=(\d+)\)\s*\.contains\(&(\w+)\)", r"(\1 <= \3 && \3 <= \2)", body)
    p = Parser(tokenize(body), consts, self_ty, known)
    p.unwrap_ok = bool(opts.get("unwrap_ok"))
    p.vars = dict(params)
    p.params = [n for n, _ in params]
    p.assigned = []
    p.coq_name = coq_name
    p.rust_name = rust_name
    e = p.block_expr()
    if p.peek()[0] != "eof":
        raise Unsupported("trailing tokens in %s: %r" % (rust_name, p.peek()))
    head = "Definition %s %s : %s :=\n  %s." % (coq_name, " ".join("(%s : %s)" % (n, t) for n, t in params), ret_ty, e[0])
    return "\n".join(p.aux + [head]), ret_ty


def translate_fragment(text, fr, consts, known=None):
    _sig, body = extract_fn(text, fr["fn"], fr.get("nth", 1))
    if fr["kind"] == "let":
        m = re.search(r"let\s+(?:mut\s+)?%s(?:\s*:\s*[\w<>]+)?\s*=\s*" % re.escape(fr["var"]), body)
        if not m:
            raise Unsupported("fragment not found")
        # up to the `;` that ends the statement (at brace / parenthesis depth 0; comments skipped)
        j = m.end()
        depth = 0
        while j < len(body):
            if body.startswith("//", j):
                j = body.index("\n", j) if "\n" in body[j:] else len(body)
                continue
            ch = body[j]
            if ch in "({[":
                depth += 1
            elif ch in ")}]":
                depth -= 1
            elif ch == ";" and depth == 0:
                break
            j += 1
        if j >= len(body):
            raise Unsupported("fragment not terminated")
        e = body[m.end():j]
    elif fr["kind"] == "arm":
        m = re.search(r"%s\s*=>\s*(?P<e>[^,{}]*)," % fr["arm"], body)
        if not m:
            raise Unsupported("fragment not found")
        e = m.group("e")
    else:
        m = re.search(r"if\s+(?P<e>[^{};]*?)\s*\{\s*return\s+Err\(\s*Error::%s\b" % re.escape(fr["err"]), body)
        if not m:
            raise Unsupported("fragment not found")
        e = m.group("e")
    e = re.sub(r"//[^\n]*", "", e)                  # comments inside the expression
    e = re.sub(r"\s*\.\s*(?=[A-Za-z_])", ".", e)     # rustfmt puts method chains on several lines
    for rx, rep in fr["subst"]:
        e = re.sub(rx, rep, e)
    p = Parser(tokenize(e), consts, None, dict(known or {}))
    p.vars = dict(fr["params"])
    p.params = [n for n, _ in fr["params"]]
    p.assigned = []
    p.coq_name = fr["name"]
    p.rust_name = fr["fn"]
    out = p.expr()
    if p.peek()[0] != "eof":
        raise Unsupported("trailing tokens in fragment %s: %r" % (fr["name"], p.peek()))
    used = set(t[1] for t in p.t if t[0] == "id")
    unknown = [u for u in used if u not in p.vars and u not in ("if", "else", "min", "max", "saturating_sub", "true", "false", "matches", "NoneM", "SomeM",
                                                                "Method", "Version", "StatusCode", "clone", "as_u16", "as", "u8", "u16", "u32", "u64", "u128", "usize", "MAX") + tuple(METHODS) + tuple(STATUS)
               and u not in (known or {}) and not re.fullmatch(r"[A-Z][A-Z0-9_]*", u)]
    if unknown:
        raise Unsupported("fragment %s mentions %s, which is not one of its parameters" % (fr["name"], unknown))
    return out[0]


PREAMBLE = """(* GENERATED by tools/rs2coq.py from the repository sources on every run -- do not edit.
   Each definition is the translation of the Rust function named above it; proofs/Gen_equiv_ext.v and proofs/Gen_equiv_body.v prove it equal to the
   hand-written model's function for all arguments. *)
From Coq Require Import NArith Bool List.
From Hoot Require Import Base Body Url Request.
Open Scope N_scope.
Open Scope bool_scope.
Definition version_eqb (a b : version) : bool :=
  match a, b with V09, V09 | V10, V10 | V11, V11 | V2, V2 | V3, V3 => true | _, _ => false end.
"""


def regenerate(repo, out_path):
    """Returns {'translated': [...], 'failed': {name: reason}}; rewrites out_path only when its content changes."""
    chunks = [PREAMBLE]
    known = {}
    done = []
    failed = {}
    for entry in FUNCTIONS:
        rel, rust_name, coq_name, self_ty = entry[:4]
        opts = entry[4] if len(entry) > 4 else None
        try:
            text = open(os.path.join(repo, rel)).read()
            code, ret_ty = translate_fn(text, rust_name, coq_name, self_ty, constants_of(text), known, opts)
            chunks.append("(* %s :: fn %s *)\n%s\n" % (rel, rust_name, code))
            known[rust_name] = (coq_name, {"bool": "bool", "N": "N", "res unit": "res"}.get(ret_ty, ret_ty))
            done.append(rust_name)
        except (Unsupported, OSError, ValueError, KeyError, IndexError, AttributeError) as e:
            failed[rust_name] = "%s: %s" % (type(e).__name__, e)
            sig, body = FALLBACKS[coq_name]
            chunks.append("(* %s :: fn %s -- NOT TRANSLATED (%s): the model's own function stands in; tied by correspondence only *)\n"
                          "Definition %s %s :=\n  %s.\n" % (rel, rust_name, str(e).replace("*)", "* )"), coq_name, sig, body))
            known[rust_name] = (coq_name, {"gen_verify_version": "res"}.get(coq_name, "N" if sig.endswith(": N") else "bool"))
    frags = []
    frags_missing = {}
    for fr in FRAGMENTS:
        sig = " ".join("(%s : %s)" % (n, t) for n, t in fr["params"])
        where = "%s :: fn %s :: %s" % (fr["file"], fr["fn"], ("let " + fr["var"]) if fr["kind"] == "let" else ("match arm " + fr["arm"]) if fr["kind"] == "arm" else ("guard of Error::" + fr["err"]))
        try:
            text = open(os.path.join(repo, fr["file"])).read()
            e = translate_fragment(text, fr, constants_of(text), known)
            chunks.append("(* %s *)\nDefinition %s %s : %s :=\n  %s.\n" % (where, fr["name"], sig, fr["ret"], e))
            frags.append(fr["name"])
        except (Unsupported, OSError, ValueError, KeyError, IndexError, AttributeError) as ex:
            frags_missing[fr["name"]] = "%s: %s" % (type(ex).__name__, ex)
            chunks.append("(* %s -- NOT FOUND in the sources (%s): the model's own formula stands in; tied by correspondence only *)\n"
                          "Definition %s %s : %s :=\n  %s.\n" % (where, str(ex).replace("*)", "* )"), fr["name"], sig, fr["ret"], fr["fallback"]))
    text = "\n".join(chunks)
    if not os.path.exists(out_path) or open(out_path).read() != text:
        with open(out_path, "w") as f:
            f.write(text)
    return {"translated": done, "failed": failed, "fragments": frags, "fragments_not_found": frags_missing}


if __name__ == "__main__":
    import sys
    repo = sys.argv[1] if len(sys.argv) > 1 else "/repo"
    out = os.path.join(os.path.dirname(os.path.abspath(__file__)), "..", "coq", "theories", "Gen.v")
    print(regenerate(repo, out))
    print(open(out).read())
