#!/bin/bash
# Re-runs the check of its property against every stored seeded change (regression of the detection, after generator changes).
# Meant for `vp run --with-repo -- tools/recheck_all.sh` (uses $VP_RUN_REPO when set) or directly in /verif (uses /repo).
cd "$(dirname "$0")/.."
[ -n "$VP_RUN_REPO" ] && export VERIF_REPO=$VP_RUN_REPO
python3 verif.py setup || exit 2
for d in seeded/C*; do
  n=$(basename $d)
  python3 tools/seed_eval.py $d $n --recheck 2>&1 | grep -E "confirmed=" 
done
