#!/bin/bash
# Re-runs the check of its property against every stored seeded change (regression of the detection, after generator changes).
# Meant for `vp run --with-repo -- tools/recheck_all.sh [k n]` (uses $VP_RUN_REPO when set; shard k of n) or directly in /verif (uses /repo).
cd "$(dirname "$0")/.."
[ -n "$VP_RUN_REPO" ] && export VERIF_REPO=$VP_RUN_REPO
k=${1:-0}; n=${2:-1}
python3 verif.py setup || exit 2
i=0
for d in seeded/C*; do
  i=$((i+1)); [ $((i % n)) -eq $k ] || continue
  name=$(basename $d)
  python3 tools/seed_eval.py $d $name --recheck 2>&1 | grep -E "confirmed="
done
