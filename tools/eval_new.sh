#!/bin/bash
# usage (inside a `vp run --with-repo` snapshot): tools/eval_new.sh <src root> <offset> C01 C02 ... ; results go to $SEED_OUT (default: this tree)
cd "$(dirname "$0")/.."
[ -n "$VP_RUN_REPO" ] && export VERIF_REPO=$VP_RUN_REPO
src=$1; off=$2; shift 2
python3 verif.py setup || exit 2
for p in "$@"; do for n in 1 2 3; do
  d=$src/$p/out/$n; [ -f $d/patch.diff ] || continue
  name=$p-$((n+off))
  [ -f ${SEED_OUT:-seeded}/$name/meta.json ] && continue
  echo "=== $name"; python3 tools/seed_eval.py $d $name 2>&1 | grep -v conda | tail -3
done; done
