#!/usr/bin/env python3
"""Orchestrator of the hoot (ureq-proto) verification machinery.

  python3 verif.py setup                       build everything from files on disk (offline)
  python3 verif.py check <ID> [--tier quick|thorough]
  python3 verif.py replay <replay.json>

A check for property P:
  1. regenerates coq/theories/Constants.v from /repo (tools/source_facts.py),
  2. rebuilds the Coq development (full .vo build), re-runs coqc on theories/props/P.v and compares the
     Print Assumptions output with the allow-list; greps the sources for Admitted / Axiom / ...,
  3. re-extracts the model and rebuilds the OCaml driver if a model source changed,
  4. rebuilds the Rust harness against /repo's working tree,
  5. generates scripts (props_py/P.py) from VERIF_SEED, runs implementation and model, compares them
     under P's observation function, evaluates P's oracle on the implementation's observations,
  6. writes evidence/P.json and decides (DESIGN.md section 8).
Exit codes: 0 property held on everything explored, 1 violation (a VIOLATION line is printed),
2 infrastructure failure.
"""
import fcntl
import hashlib
import importlib
import json
import os
import random
import re
import shutil
import subprocess
import sys
import time

ROOT = os.path.dirname(os.path.abspath(__file__))
REPO = os.environ.get("VERIF_REPO", "/repo")
COQ = os.path.join(ROOT, "coq")
THEORIES = os.path.join(COQ, "theories")
MODELRUN = os.path.join(ROOT, "modelrun")
HARNESS = os.path.join(ROOT, "harness")
WORK = os.path.join(ROOT, ".work")
EVIDENCE = os.path.join(ROOT, "evidence")
REPLAYS = os.path.join(ROOT, "replays")
NPROC = min(16, os.cpu_count() or 4)

sys.path.insert(0, ROOT)

ALLOWED_AXIOMS = set()  # every property theorem is expected to be closed under the global context

FORBIDDEN = re.compile(
    r"\b(Admitted|admit|Axiom|Axioms|Parameter|Parameters|Conjecture|Conjectures|Hypothesis|Hypotheses|"
    r"Variable|Variables|Admit Obligations|bypass_check|Unset Guard Checking|Unset Positivity Checking|"
    r"Unset Universe Checking|type-in-type|impredicative-set)\b")


class Infra(Exception):
    pass


def log(*a):
    print("[verif]", *a, file=sys.stderr, flush=True)


def run(cmd, cwd=None, timeout=1800, env=None, check=True, capture=True, input=None):
    e = dict(os.environ)
    e.update({"CARGO_NET_OFFLINE": "true"})
    if env:
        e.update(env)
    try:
        p = subprocess.run(cmd, cwd=cwd, timeout=timeout, env=e, input=input,
                           stdout=subprocess.PIPE if capture else None,
                           stderr=subprocess.STDOUT if capture else None, text=True)
    except subprocess.TimeoutExpired:
        raise Infra("timeout: %s" % " ".join(cmd))
    if check and p.returncode != 0:
        raise Infra("command failed (%d): %s\n%s" % (p.returncode, " ".join(cmd), (p.stdout or "")[-4000:]))
    return p


class Lock:
    def __init__(self, name):
        os.makedirs(WORK, exist_ok=True)
        self.path = os.path.join(WORK, name + ".lock")

    def __enter__(self):
        self.f = open(self.path, "w")
        fcntl.flock(self.f, fcntl.LOCK_EX)
        return self

    def __exit__(self, *a):
        fcntl.flock(self.f, fcntl.LOCK_UN)
        self.f.close()


# --------------------------------------------------------------------------- builds

def source_facts():
    """Regenerates Constants.v (constants) and Gen.v (functions translated from Rust to Gallina) from REPO's sources."""
    from tools import source_facts as sf
    from tools import rs2coq
    facts = sf.regenerate(REPO, os.path.join(THEORIES, "Constants.v"))
    tr = rs2coq.regenerate(REPO, os.path.join(THEORIES, "Gen.v"))
    from tools import rs2coq2
    tr2 = rs2coq2.regenerate2(REPO, os.path.join(THEORIES, "Gen2.v"))
    census, cdiff = sf.census_diff(REPO)
    facts["panic_site_census_changes"] = cdiff
    facts["model_stale_warning"] = bool(cdiff)
    facts["translated_functions"] = tr["translated"]
    facts["translated_fragments"] = tr.get("fragments", [])
    if tr.get("fragments_not_found"):
        # not an error: that expression is tied to the model by the correspondence check only in this run (DESIGN.md section 13)
        facts["fragments_not_found"] = tr["fragments_not_found"]
    facts["translated_whole_functions"] = tr2["translated2"]
    if tr2["failed2"]:
        # whole functions (tools/rs2coq2.py) now outside the translated subset: their translation at the pinned commit stands in,
        # they are tied to the current source by the correspondence check only in this run
        facts["translator2_fallbacks"] = tr2["failed2"]
    if tr["failed"]:
        # functions rewritten into syntax outside the translated subset: tied by the correspondence check only in this run
        facts["translator_fallbacks"] = tr["failed"]
    return facts


def coq_files():
    out = []
    for d, _, fs in os.walk(THEORIES):
        for f in sorted(fs):
            if f.endswith(".v"):
                out.append(os.path.relpath(os.path.join(d, f), COQ))
    return sorted(out)


def _vo_deps():
    """target .vo -> set of .vo it depends on, from coq_makefile's dependency file."""
    deps = {}
    path = os.path.join(COQ, ".Makefile.d")
    if not os.path.exists(path):
        return deps
    for line in open(path).read().replace("\\\n", " ").split("\n"):
        if ":" not in line:
            continue
        lhs, rhs = line.split(":", 1)
        tgts = [t for t in lhs.split() if t.endswith(".vo")]
        ds = set(d for d in rhs.split() if d.endswith(".vo"))
        for t in tgts:
            deps.setdefault(t, set()).update(ds)
    return deps


def build_coq():
    """Full .vo build through coq_makefile (make -k: a broken file does not stop unrelated ones).
    Compiled files of every target that failed, and of everything depending on it, are removed so that
    no stale .vo can make a later coqc succeed. Returns (all ok, log, set of failed targets)."""
    with Lock("coq"):
        files = coq_files()
        mk = os.path.join(COQ, "Makefile")
        stamp = os.path.join(COQ, ".files")
        listing = "\n".join(files)
        if not os.path.exists(mk) or not os.path.exists(stamp) or open(stamp).read() != listing:
            run(["coq_makefile", "-f", "_CoqProject", "-o", "Makefile"] + files, cwd=COQ)
            open(stamp, "w").write(listing)
        p = run(["timeout", "1500", "make", "-j%d" % NPROC, "-k"], cwd=COQ, check=False, timeout=1600)
        failed = set()
        if p.returncode != 0:
            failed = set(re.findall(r"\*\*\* \[[^\]]*?:\s*(\S+\.vo)\] Error", p.stdout))
            deps = _vo_deps()
            # transitive dependents
            changed = True
            while changed:
                changed = False
                for t, ds in deps.items():
                    if t not in failed and ds & failed:
                        failed.add(t)
                        changed = True
            for t in failed:
                for ext in (".vo", ".vok", ".vos", ".glob"):
                    fp = os.path.join(COQ, t[:-3] + ext)
                    if os.path.exists(fp):
                        os.remove(fp)
            if not failed:
                failed.add("<unknown>")
        return p.returncode == 0, p.stdout, failed


def build_coq_checked(facts):
    """build_coq; if the whole-function translation (Gen2.v) does not even type-check -- a gap of the translator, not a verdict about the
    code -- every translated function is replaced by its translation at the pinned commit (reported in the evidence; those functions
    are then tied by the correspondence check only) and the build is repeated."""
    ok, lg, failed = build_coq()
    if "theories/Gen2.vo" in failed:
        from tools import rs2coq2
        gen2 = os.path.join(THEORIES, "Gen2.v")
        # first try to replace only the function(s) whose translation does not type-check
        some = {}
        for _attempt in range(6):
            m = re.search(r'File "\./theories/Gen2\.v", line (\d+)', lg)
            name = rs2coq2.function_at_line(open(gen2).read(), int(m.group(1))) if m else None
            if not name or name in some:
                break
            some[name] = "the translation of this function from the current sources does not type-check"
            tr2 = rs2coq2.regenerate2(REPO, gen2, force_some=some)
            facts["translator2_fallbacks"] = tr2["failed2"]
            facts["translated_whole_functions"] = tr2["translated2"]
            log("Gen2.v: %s replaced by its pinned translation (ill-typed as translated)" % name)
            ok, lg, failed = build_coq()
            if "theories/Gen2.vo" not in failed:
                break
    if "theories/Gen2.vo" in failed:
        from tools import rs2coq2
        why = "Gen2.v as translated from the current sources does not compile"
        tr2 = rs2coq2.regenerate2(REPO, os.path.join(THEORIES, "Gen2.v"), force_all=why)
        facts["translator2_fallbacks"] = tr2["failed2"]
        facts["translated_whole_functions"] = tr2["translated2"]
        log(why + ": all whole-function translations replaced by their pinned versions")
        ok, lg, failed = build_coq()
    return ok, lg, failed


def scan_forbidden():
    hits = []
    for f in coq_files() + ["../modelrun/Extract.v"]:
        path = os.path.join(COQ, f)
        text = open(path).read()
        # strip comments (non-nested is enough for our sources; nested handled by loop)
        prev = None
        while prev != text:
            prev = text
            text = re.sub(r"\(\*[^()]*?\*\)", "", text, flags=re.S)
            text = re.sub(r"\(\*(?:(?!\(\*|\*\)).)*?\*\)", "", text, flags=re.S)
        for m in FORBIDDEN.finditer(text):
            # Variable/Hypothesis inside a Section are allowed; we simply use none at all.
            hits.append("%s: %s" % (f, m.group(0)))
    return hits


def check_props_file(pid):
    """Re-run coqc on theories/props/<pid>.v and parse Print Assumptions. Returns dict."""
    path = os.path.join(THEORIES, "props", pid + ".v")
    res = {"file": os.path.relpath(path, ROOT), "theorems": [], "ok": False, "log": ""}
    if not os.path.exists(path):
        res["log"] = "no props file"
        return res
    src = open(path).read()
    names = re.findall(r"^\s*(?:Theorem|Example|Lemma|Corollary)\s+([A-Za-z0-9_']+)", src, flags=re.M)
    printed = re.findall(r"^\s*Print Assumptions\s+([A-Za-z0-9_']+)\s*\.", src, flags=re.M)
    with Lock("coq"):
        p = run(["timeout", "600", "coqc", "-q", "-Q", "theories", "Hoot",
                 "-w", "-notation-overridden,-deprecated-syntactic-definition,-deprecated-hint-without-locality",
                 os.path.relpath(path, COQ)], cwd=COQ, check=False, timeout=700)
    res["log"] = p.stdout[-6000:]
    if p.returncode != 0:
        return res
    # Output: one block per Print Assumptions, in order: either "Closed under the global context"
    # or "Axioms:" followed by indented lines.
    blocks = re.split(r"(?=Closed under the global context|Axioms:)", p.stdout)
    blocks = [b for b in blocks if b.startswith("Closed under") or b.startswith("Axioms:")]
    ok = len(blocks) == len(printed) and set(names) == set(printed) and len(names) > 0
    for n, blk in zip(printed, blocks):
        if blk.startswith("Closed under"):
            res["theorems"].append({"name": n, "assumptions": []})
        else:
            ax = re.findall(r"^([A-Za-z0-9_.']+)\s*:", blk[len("Axioms:"):], flags=re.M)
            res["theorems"].append({"name": n, "assumptions": ax})
            if not set(ax) <= ALLOWED_AXIOMS:
                ok = False
    res["ok"] = ok
    if set(names) != set(printed):
        res["log"] += "\n[verif] theorems without Print Assumptions: %s" % sorted(set(names) ^ set(printed))
    return res


def model_hash():
    h = hashlib.sha256()
    for f in coq_files():
        if "/props/" in f or "/proofs/" in f:
            continue
        h.update(open(os.path.join(COQ, f), "rb").read())
    for f in ["Extract.v", "driver.ml"]:
        h.update(open(os.path.join(MODELRUN, f), "rb").read())
    return h.hexdigest()


def build_modelrun():
    with Lock("modelrun"):
        want = model_hash()
        stamp = os.path.join(MODELRUN, ".hash")
        exe = os.path.join(MODELRUN, "modelrun")
        if os.path.exists(exe) and os.path.exists(stamp) and open(stamp).read() == want:
            return
        run(["timeout", "600", "coqc", "-q", "-Q", "../coq/theories", "Hoot", "Extract.v"], cwd=MODELRUN)
        run(["ocamlfind", "ocamlopt", "-O2", "-w", "-a", "model.mli", "model.ml", "driver.ml", "-o", "modelrun"],
            cwd=MODELRUN)
        open(stamp, "w").write(want)


def build_harness(release=False):
    with Lock("harness"):
        lock = os.path.join(HARNESS, "Cargo.lock")
        if not os.path.exists(lock):
            shutil.copy(os.path.join(REPO, "Cargo.lock"), lock)
        toml = os.path.join(HARNESS, "Cargo.toml")
        text = open(toml).read()
        want = re.sub(r'ureq-proto = \{ path = "[^"]*" \}', 'ureq-proto = { path = "%s" }' % REPO, text)
        if want != text:
            open(toml, "w").write(want)
        cmd = ["cargo", "build", "--offline", "--bin", "implrun"] + (["--release"] if release else [])
        env = {"RUSTFLAGS": "--cfg ureq_proto_verif"}
        p = run(cmd, cwd=HARNESS, check=False, timeout=1200, env=env)
        if p.returncode != 0:
            raise Infra("harness does not build against %s:\n%s" % (REPO, p.stdout[-4000:]))
        return os.path.join(HARNESS, "target", "release" if release else "debug", "implrun")


# --------------------------------------------------------------------------- running scripts

def render_scripts(scripts):
    out = []
    for i, s in enumerate(scripts):
        out.append("S %d" % i)
        out.extend(s["ops"])
        out.append("E")
    return "\n".join(out) + "\n"


def parse_output(text, n):
    """Returns list of observation-line lists, indexed by script number; None when missing."""
    res = [None] * n
    cur = None
    lines = []
    for line in text.split("\n"):
        if line.startswith("S "):
            try:
                cur = int(line[2:])
            except ValueError:
                cur = None
            lines = []
        elif line == "E":
            if cur is not None and 0 <= cur < n:
                res[cur] = lines
            cur = None
        elif cur is not None and line != "":
            lines.append(line)
    return res, cur


def run_sharded(exe, scripts, timeout_s, label):
    """Runs scripts through exe in up to NPROC shards. Returns (observations per script, hangs)."""
    n = len(scripts)
    if n == 0:
        return [], []
    os.makedirs(WORK, exist_ok=True)
    k = max(1, min(NPROC, n // 8 + 1))
    shards = [list(range(i, n, k)) for i in range(k)]
    procs = []
    pid = os.getpid()
    for si, idxs in enumerate(shards):
        inp = os.path.join(WORK, "%d.%s.%d.in" % (pid, label, si))
        outp = os.path.join(WORK, "%d.%s.%d.out" % (pid, label, si))
        with open(inp, "w") as f:
            for i in idxs:
                f.write("S %d\n" % i)
                f.write("\n".join(scripts[i]["ops"]))
                f.write("\nE\n")
        fin = open(inp)
        fout = open(outp, "w")
        p = subprocess.Popen(["bash", "-c", "ulimit -s unlimited 2>/dev/null; exec timeout %d %s" % (timeout_s, exe)],
                             stdin=fin, stdout=fout, stderr=subprocess.DEVNULL)
        procs.append((p, inp, outp, fin, fout, idxs))
    res = [None] * n
    hangs = []
    for p, inp, outp, fin, fout, idxs in procs:
        rc = p.wait()
        fin.close()
        fout.close()
        text = open(outp, errors="replace").read()
        part, cur = parse_output(text, n)
        for i in idxs:
            res[i] = part[i]
        if rc == 124:
            hangs.append(cur if cur is not None else idxs[0])
        elif rc != 0:
            log("%s shard exited with %d" % (label, rc))
        os.remove(inp)
        os.remove(outp)
    return res, hangs



# --------------------------------------------------------------------------- kernel cross-check of the extracted model

def _tok_gallina(t):
    if t.startswith("#") and t[1:].isdigit():
        return "TN %s" % t[1:]
    if len(t) > 1 and t[0] == "z" and t[1:].isdigit():
        n = int(t[1:])
        return "TH [%s]" % ";".join(str((i * 7 + 3) & 255) for i in range(n))
    if t[0] == "x" and len(t) % 2 == 1 and all(c in "0123456789abcdefABCDEF" for c in t[1:]):
        b = bytes.fromhex(t[1:])
        return "TH [%s]" % ";".join(str(x) for x in b)
    return "TW [%s]" % ";".join(str(x) for x in t.encode("latin-1"))


def _lines_gallina(lines):
    return "[" + ";\n  ".join("[" + "; ".join(_tok_gallina(t) for t in l.split(" ") if t != "") + "]" for l in lines) + "]"


KERNEL_PREAMBLE = """From Hoot Require Import Base Script.
Open Scope N_scope.
Definition tok_eqb (a b : tok) : bool :=
  match a, b with
  | TW x, TW y => beq_bytes x y
  | TN x, TN y => x =? y
  | TH x, TH y => beq_bytes x y
  | _, _ => false
  end.
Fixpoint list_eqb {A} (eq : A -> A -> bool) (l1 l2 : list A) : bool :=
  match l1, l2 with
  | [], [] => true
  | a :: t1, b :: t2 => eq a b && list_eqb eq t1 t2
  | _, _ => false
  end.
"""


def kernel_sample(pid, scripts, model_obs, rng, count):
    """Evaluates run_script INSIDE Coq (vm_compute, kernel reduction) on a seeded sample of the scripts and compares with
    what the extracted OCaml model printed: keeps extraction, ocamlopt and the driver out of the trusted base for the
    sample. Returns (number checked, list of script indices that differ or failed)."""
    def size(lines):
        # characters of the Gallina term, roughly: hex tokens count 2 chars per byte, z<n> pattern tokens expand to n bytes
        return sum(len(o) + sum(2 * int(t[1:]) for t in o.split(" ") if len(t) > 1 and t[0] == "z" and t[1:].isdigit()) for o in lines)
    cand = [i for i, sc in enumerate(scripts)
            if model_obs[i] is not None and "panic" not in model_obs[i] and size(sc["ops"]) + size(model_obs[i]) < 12000]
    if not cand:
        return 0, []
    pick = cand if len(cand) <= count else rng.sample(cand, count)
    k = max(1, min(NPROC, len(pick) // 6 + 1))
    os.makedirs(WORK, exist_ok=True)
    procs = []
    for si in range(k):
        idxs = pick[si::k]
        if not idxs:
            continue
        name = "Cases_%s_%d_%d" % (pid, os.getpid(), si)
        path = os.path.join(WORK, name + ".v")
        with open(path, "w") as f:
            f.write(KERNEL_PREAMBLE)
            for i in idxs:
                f.write("Eval vm_compute in (list_eqb (list_eqb tok_eqb) (run_script\n %s)\n %s).\n" % (
                    _lines_gallina(scripts[i]["ops"]), _lines_gallina(model_obs[i])))
        p = subprocess.Popen(["timeout", "900", "coqc", "-q", "-noglob", "-Q", THEORIES, "Hoot", "-Q", WORK, "HootWork", path],
                             stdout=subprocess.PIPE, stderr=subprocess.STDOUT, text=True)
        procs.append((p, idxs, path))
    bad = []
    checked = 0
    for p, idxs, path in procs:
        out, _ = p.communicate()
        verdicts = re.findall(r"=\s*(true|false)\s*:\s*bool", out)
        if p.returncode != 0 or len(verdicts) != len(idxs):
            log("kernel sample: coqc failed on %s:\n%s" % (path, out[-1500:]))
            bad.extend(idxs)
        else:
            checked += len(idxs)
            bad.extend(i for i, v in zip(idxs, verdicts) if v != "true")
        for ext in (".v", ".vo", ".vok", ".vos", ".glob"):
            fp = path[:-2] + ext
            if os.path.exists(fp):
                os.remove(fp)
        aux = os.path.join(os.path.dirname(path), "." + os.path.basename(path)[:-2] + ".aux")
        if os.path.exists(aux):
            os.remove(aux)
    return checked, bad


def run_coqchk(pid):
    """Independent re-check of the compiled theorems of one property (and everything they depend on) with coqchk;
    returns (ok, text of its context summary)."""
    with Lock("coq"):
        p = run(["timeout", "1500", "coqchk", "-silent", "-o", "-Q", "theories", "Hoot", "Hoot.props.%s" % pid], cwd=COQ,
                check=False, timeout=1600)
    m = re.search(r"CONTEXT SUMMARY.*", p.stdout, flags=re.S)
    summary = m.group(0) if m else p.stdout[-2000:]
    ok = p.returncode == 0 and re.search(r"\* Axioms: <none>", summary) is not None \
        and "type-in-type: <none>" in summary and "unsafe (co)fixpoints: <none>" in summary and "positivity is assumed: <none>" in summary
    return ok, re.sub(r"\s+", " ", summary)[:1200]

# --------------------------------------------------------------------------- comparison helpers

def collapse_err(line):
    return "err" if line.startswith("err ") or line == "err" else line


def default_project(script, i, line):
    return collapse_err(line)


def truncate_at_panic(lines):
    out = []
    for l in lines:
        out.append(l)
        if l == "panic":
            break
    return out


# --------------------------------------------------------------------------- check

def load_known():
    known = {}
    path = os.path.join(ROOT, "known_findings.txt")
    for line in open(path):
        m = re.match(r"known:\s+property=(\S+)\s+class=(\S+)\s+(.*)", line)
        if m:
            known.setdefault(m.group(1), {})[m.group(2)] = m.group(3).strip()
    return known


def write_replay(pid, kind, payload):
    os.makedirs(REPLAYS, exist_ok=True)
    blob = json.dumps(payload, sort_keys=True)
    h = hashlib.sha256(blob.encode()).hexdigest()[:12]
    path = os.path.join(REPLAYS, "%s-%s-%s.json" % (pid, kind, h))
    with open(path, "w") as f:
        json.dump(payload, f, indent=1, sort_keys=True)
    return path


def minimise(script, still_fails, budget=60):
    """Greedy delta-debugging over the op list (keeps the first op)."""
    ops = list(script["ops"])
    t0 = time.time()
    changed = True
    while changed and time.time() - t0 < budget:
        changed = False
        i = len(ops) - 1
        while i >= 1 and time.time() - t0 < budget:
            cand = ops[:i] + ops[i + 1:]
            s2 = dict(script)
            s2["ops"] = cand
            if still_fails(s2):
                ops = cand
                changed = True
            i -= 1
    s2 = dict(script)
    s2["ops"] = ops
    return s2


def check(pid, tier, seed):
    t0 = time.time()
    os.makedirs(EVIDENCE, exist_ok=True)
    mod = importlib.import_module("props_py." + pid)
    known_classes = load_known().get(pid, {})

    # 1-2: constants, proofs
    facts = source_facts()
    coq_all_ok, coq_log, coq_failed = build_coq_checked(facts)
    forbidden = scan_forbidden()
    props = check_props_file(pid)
    # The property's own theorem file must compile against freshly built dependencies (stale .vo files of
    # failed targets and of their dependents were removed by build_coq); unrelated broken files do not count.
    coq_ok = props["ok"] or ("theories/props/%s.vo" % pid) not in coq_failed and "<unknown>" not in coq_failed
    proof_ok = props["ok"] and not forbidden
    if not coq_all_ok:
        log("Coq build: failed targets %s" % sorted(coq_failed))
    if not props["ok"] and not coq_all_ok:
        log("Coq build log:\n" + coq_log[-3000:])
    if forbidden:
        log("forbidden constructs: %s" % forbidden)
    if not props["ok"]:
        log("props/%s.v does not check:\n%s" % (pid, props["log"][-3000:]))

    # 3-4: executables. If the model does not build any more (a regenerated constant broke a
    # definition) the last good binary, if any, is still used for the search.
    model_ok = True
    try:
        build_modelrun()
    except Infra as e:
        model_ok = False
        log("model does not build: %s" % e)
    impl = build_harness(release=False)
    model = os.path.join(MODELRUN, "modelrun")
    if not os.path.exists(model):
        raise Infra("no model executable")

    rng = random.Random(seed)
    budget_mult = 1 if proof_ok and model_ok else 3
    if facts.get("model_stale_warning") and pid in ("C09", "C12"):
        budget_mult *= 2     # panic sites moved since the model was written: look harder (DESIGN.md 3.4)
        log("panic-site census changed: %s" % facts["panic_site_census_changes"][:6])
    scripts = mod.generate(rng, tier, budget_mult)
    corpus = mod.corpus() if hasattr(mod, "corpus") else []
    scripts = corpus + scripts
    timeout_s = 900 if tier == "thorough" else 240
    t_run = time.time()
    impl_obs, hangs = run_sharded(impl, scripts, timeout_s, "impl")
    t_impl = time.time() - t_run
    t_run = time.time()
    model_obs, mhangs = run_sharded(model, scripts, timeout_s, "model")
    t_model = time.time() - t_run
    log("ran %d scripts: implementation %.1fs, model %.1fs" % (len(scripts), t_impl, t_model))
    # kernel cross-check of extraction + driver on a seeded sample (DESIGN.md 3.2)
    kernel_checked, kernel_bad = (0, [])
    if model_ok:
        t_run = time.time()
        kernel_checked, kernel_bad = kernel_sample(pid, scripts, model_obs, random.Random(seed + 1), 300 if tier == "thorough" else 24)
        log("kernel sample: %d scripts evaluated inside Coq, %d differ from the extracted model (%.1fs)" % (
            kernel_checked, len(kernel_bad), time.time() - t_run))
    # thorough: release-profile build of the harness must observe the same (debug builds trap on overflow, release wraps)
    release_diff = []
    coqchk_ok, coqchk_summary = (None, "")
    if tier == "thorough":
        try:
            impl_rel = build_harness(release=True)
            rel_obs, rel_hangs = run_sharded(impl_rel, scripts, timeout_s, "implrel")
            release_diff = [i for i in range(len(scripts)) if rel_obs[i] != impl_obs[i]]
            hangs = hangs + rel_hangs
        except Infra as e:
            log("release harness: %s" % e)
        if props["ok"]:
            coqchk_ok, coqchk_summary = run_coqchk(pid)
            if not coqchk_ok:
                proof_ok = False
                log("coqchk does not accept props/%s.vo: %s" % (pid, coqchk_summary))

    project = getattr(mod, "project", default_project)
    project_all = getattr(mod, "project_all", None)
    disagreements = []
    oracle_failures = []
    known_seen = {}
    nontrivial = set()
    op_hist = {}
    err_hist = {}
    for idx, s in enumerate(scripts):
        io = impl_obs[idx]
        mo = model_obs[idx]
        if io is None:
            oracle_failures.append((idx, "implementation produced no result (hang or crash of the harness)", None))
            continue
        for l in s["ops"]:
            k = l.split(" ", 1)[0]
            op_hist[k] = op_hist.get(k, 0) + 1
        for l in io:
            if l.startswith("err "):
                err_hist[l[4:]] = err_hist.get(l[4:], 0) + 1
            elif l == "panic":
                err_hist["panic"] = err_hist.get("panic", 0) + 1
        try:
            fails = mod.oracle(s, io)
        except Exception as e:      # the implementation's output is not even of the shape the oracle can read: that is a failure of the property's check on this input
            fails = ["the oracle could not interpret the implementation's observations (%s: %s)" % (type(e).__name__, str(e)[:200])]
        kclass = mod.known_class(s, io) if hasattr(mod, "known_class") else None
        for f in fails:
            fk = f[1] if isinstance(f, tuple) else None
            ftxt = f[0] if isinstance(f, tuple) else f
            if fk is not None and fk in known_classes:
                known_seen[fk] = known_seen.get(fk, 0) + 1
            else:
                oracle_failures.append((idx, ftxt, None))
        if mod.nontrivial(s, io):
            nontrivial.add(hashlib.sha256("\n".join(s["ops"]).encode()).hexdigest())
        if kclass is not None and kclass in known_classes:
            continue  # model comparison skipped inside a known-finding class (DESIGN.md 3.3)
        if mo is None:
            disagreements.append((idx, -1, "<model produced no result>", ""))
            continue
        a = truncate_at_panic(io)
        b = truncate_at_panic(mo)
        if project_all is not None:
            # whole-script projection (needed when what is compared depends on earlier observations)
            a = project_all(s, a)
            b = project_all(s, b)
        for i in range(max(len(a), len(b))):
            la = project(s, i, a[i]) if i < len(a) else "<missing>"
            lb = project(s, i, b[i]) if i < len(b) else "<missing>"
            if la is None or lb is None:
                continue
            if la != lb:
                disagreements.append((idx, i, a[i] if i < len(a) else "<missing>", b[i] if i < len(b) else "<missing>"))
                break
    for h in hangs:
        oracle_failures.append((h, "implementation did not finish within the time limit (hang)", None))
    for i in release_diff[:5]:
        oracle_failures.append((i, "debug and release builds of the crate observe differently on this script (arithmetic overflow?)", None))
    for i in kernel_bad[:5]:
        disagreements.append((i, -1, "<extracted model>", "<differs from evaluation inside Coq (vm_compute)>"))

    corr_ok = not disagreements and not mhangs
    violations = 0
    out_lines = []
    # known findings: printed for every listed class of this property whose canonical replay still fails
    for cls, what in sorted(known_classes.items()):
        still = mod.known_still_fails(cls, impl) if hasattr(mod, "known_still_fails") else (known_seen.get(cls, 0) > 0)
        if still:
            out_lines.append("KNOWN-FINDING: property=%s %s" % (pid, what))

    def signature(why):
        # the kind of failure: the message with numbers and byte strings blanked
        return re.sub(r"(b'[^']*'|b\"[^\"]*\"|x[0-9a-f]+|\d+)", "#", str(why))[:70]

    def impl_fails(s2, want=None):
        o, hg = run_sharded(impl, [s2], 30, "min")
        if hg or o[0] is None:
            return want is None or "hang" in want or "no result" in want
        try:
            fs = mod.oracle(s2, o[0])
        except Exception:
            return False      # the shortened script is not one the oracle understands
        fs = [f for f in fs if not (isinstance(f, tuple) and f[1] in known_classes)]
        if not fs:
            return False
        first = fs[0][0] if isinstance(fs[0], tuple) else fs[0]
        return want is None or signature(first) == want

    if oracle_failures:
        idx, why, _ = oracle_failures[0]
        s = scripts[idx]
        try:
            want_sig = signature(why)
            s_min = minimise(s, lambda s2: impl_fails(s2, want_sig)) if impl_obs[idx] is not None else s
        except Exception:
            s_min = s
        o_min, _ = run_sharded(impl, [s_min], 30, "rep")
        m_min, _ = run_sharded(model, [s_min], 30, "repm")
        path = write_replay(pid, "fail", {
            "property": pid, "kind": "failing-input", "why": why, "seed": seed, "tier": tier,
            "script": s_min["ops"], "meta": s_min.get("meta"), "impl_obs": o_min[0], "model_obs": m_min[0],
            "proof_ok": proof_ok, "corr_ok": corr_ok})
        out_lines.append("VIOLATION property=%s replay=%s" % (pid, path))
        violations = len(oracle_failures)
    elif not proof_ok or not corr_ok or not model_ok:
        what = []
        if not coq_ok:
            what.append("Coq development does not build")
        if not props["ok"]:
            what.append("theorems of %s do not check" % props["file"])
        if forbidden:
            what.append("forbidden constructs: %s" % forbidden)
        if not model_ok:
            what.append("model no longer builds (extraction)")
        payload = {"property": pid, "kind": "no-failing-input-found", "what": what, "seed": seed, "tier": tier,
                   "coq_log": (coq_log[-3000:] if not coq_ok else ""), "props_log": props["log"][-3000:] if not props["ok"] else ""}
        if disagreements:
            idx, i, la, lb = disagreements[0]
            payload["correspondence"] = {"script": scripts[idx]["ops"], "meta": scripts[idx].get("meta"),
                                         "line": i, "impl": la, "model": lb,
                                         "impl_obs": impl_obs[idx], "model_obs": model_obs[idx]}
            what.append("correspondence model/implementation broken (%d scripts disagree)" % len(disagreements))
        path = write_replay(pid, "unshown", payload)
        out_lines.append("VIOLATION property=%s replay=%s no-failing-input-found" % (pid, path))
        violations = 1

    n_theorems = len(props["theorems"])
    discharged = sum(1 for t in props["theorems"] if set(t["assumptions"]) <= ALLOWED_AXIOMS) if props["ok"] else 0
    samples = []
    for s in scripts[len(corpus):len(corpus) + 3]:
        samples.append({"ops": [o if len(o) < 300 else o[:300] + "..." for o in s["ops"][:40]], "meta": s.get("meta")})
    ev = {
        "property_id": pid, "tier": tier, "seed": seed, "level": "proof",
        "coverage": {
            "obligations": max(n_theorems, 1), "discharged": discharged,
            "checker_cmd": "cd coq && make (coqc 8.16.1, full .vo build) && coqc theories/props/%s.v" % pid,
            "trusted_base": mod.TRUSTED_BASE if hasattr(mod, "TRUSTED_BASE") else [],
            "theorems": props["theorems"],
            "evaluations": len(scripts), "distinct_nontrivial": len(nontrivial),
            "rule": mod.RULE, "samples": samples,
            "exhaustive": bool(getattr(mod, "EXHAUSTIVE", {}).get(tier, False)),
            "op_histogram": op_hist, "error_histogram": err_hist,
            "disagreements": len(disagreements), "oracle_failures": len(oracle_failures),
            "known_findings_seen": known_seen, "facts": facts, "proof_ok": proof_ok, "correspondence_ok": corr_ok,
            "forbidden_constructs": forbidden,
            "generator_stats": mod.stats() if hasattr(mod, "stats") else {},
            "kernel_sample": {"evaluated_in_coq": kernel_checked, "differ_from_extracted_model": len(kernel_bad)},
            "release_profile_differences": len(release_diff) if tier == "thorough" else None,
            "coqchk": {"ok": coqchk_ok, "summary": coqchk_summary} if tier == "thorough" else None,
        },
        "assumptions": getattr(mod, "ASSUMPTIONS", []),
        "wall_s": round(time.time() - t0, 2),
        "violations": violations,
    }
    with open(os.path.join(EVIDENCE, pid + ".json"), "w") as f:
        json.dump(ev, f, indent=1, sort_keys=True)
    for l in out_lines:
        print(l, flush=True)
    log("%s tier=%s seed=%d scripts=%d nontrivial=%d disagreements=%d oracle_failures=%d proof_ok=%s wall=%.1fs" % (
        pid, tier, seed, len(scripts), len(nontrivial), len(disagreements), len(oracle_failures), proof_ok, time.time() - t0))
    return 1 if violations else 0


def replay(path):
    data = json.load(open(path))
    pid = data["property"]
    mod = importlib.import_module("props_py." + pid)
    impl = build_harness()
    build_modelrun()
    model = os.path.join(MODELRUN, "modelrun")
    if "script" in data:
        s = {"ops": data["script"], "meta": data.get("meta")}
    elif "correspondence" in data:
        s = {"ops": data["correspondence"]["script"], "meta": data["correspondence"].get("meta")}
    else:
        print("replay names a broken proof obligation, nothing to execute: %s" % data.get("what"))
        return 1
    io, _ = run_sharded(impl, [s], 60, "rp")
    mo, _ = run_sharded(model, [s], 60, "rpm")
    for i, op in enumerate(s["ops"]):
        a = io[0][i] if io[0] and i < len(io[0]) else "<none>"
        b = mo[0][i] if mo[0] and i < len(mo[0]) else "<none>"
        print("%-3d %s\n      impl : %s\n      model: %s" % (i, op[:200], a[:200], b[:200]))
    try:
        fails = mod.oracle(s, io[0]) if io[0] is not None else ["no output"]
    except Exception as e:
        fails = ["the oracle could not interpret the implementation's observations (%s: %s)" % (type(e).__name__, str(e)[:200])]
    print("oracle:", fails if fails else "passes")
    return 1 if fails else 0


def setup():
    facts = source_facts()
    ok, lg, failed = build_coq_checked(facts)
    if not ok:
        # not an infrastructure failure: a proof that no longer checks is what the check of the property concerned reports
        print(lg[-3000:])
        print("setup: Coq targets that do not build: %s (the checks of the properties that depend on them will report it)" % sorted(failed))
    build_modelrun()
    build_harness()
    print("setup ok")
    return 0


def main():
    args = sys.argv[1:]
    if not args:
        print(__doc__)
        return 2
    try:
        if args[0] == "setup":
            return setup()
        if args[0] == "check":
            pid = args[1]
            tier = os.environ.get("VERIF_TIER") or "quick"
            if "--tier" in args:
                tier = args[args.index("--tier") + 1]
                if os.environ.get("VERIF_TIER"):
                    tier = os.environ["VERIF_TIER"]
            seed = int(os.environ.get("VERIF_SEED", "1"))
            return check(pid, tier, seed)
        if args[0] == "replay":
            return replay(args[1])
    except Infra as e:
        print("INFRASTRUCTURE FAILURE: %s" % e, file=sys.stderr)
        return 2
    print(__doc__)
    return 2


if __name__ == "__main__":
    sys.exit(main())
