(** * Parser: model of src/parser.rs (the bridge httparse -> http). *)
From Hoot Require Import Base Httparse.
Open Scope N_scope.

(** http::HeaderMap as used here: names in first-insertion order, each with its values in order. *)
Definition hmap := list (bytes * list bytes).

Fixpoint hm_append (m : hmap) (k v : bytes) : hmap :=
  match m with
  | [] => [(k, [v])]
  | (k', vs) :: t => if beq_bytes k k' then (k', vs ++ [v]) :: t else (k', vs) :: hm_append t k v
  end.

Fixpoint hm_insert (m : hmap) (k v : bytes) : hmap :=
  match m with
  | [] => [(k, [v])]
  | (k', vs) :: t => if beq_bytes k k' then (k', [v]) :: t else (k', vs) :: hm_insert t k v
  end.

Definition hm_get_all (m : hmap) (k : bytes) : list bytes :=
  match find (fun e => beq_bytes k (fst e)) m with
  | Some (_, vs) => vs
  | None => []
  end.
Definition hm_get (m : hmap) (k : bytes) : option bytes := hd_error (hm_get_all m k).
Definition hm_contains (m : hmap) (k : bytes) : bool :=
  match find (fun e => beq_bytes k (fst e)) m with Some _ => true | None => false end.

(** Iteration order of [HeaderMap::iter]. *)
Definition hm_iter (m : hmap) : list header :=
  flat_map (fun e => map (fun v => (fst e, v)) (snd e)) m.

Definition hm_of_list (l : list header) : hmap :=
  fold_left (fun m h => hm_append m (lower (fst h)) (snd h)) l [].

(** [HeaderIterExt::has]: some field with exactly that name and exactly that value. *)
Definition headers_has (l : list header) (k v : bytes) : bool :=
  existsb (fun h => beq_bytes (fst h) k && beq_bytes (snd h) v) l.

Record response := { rs_version : N; rs_status : N; rs_headers : hmap }.

Definition map_hperr (e : hperr) : err :=
  match e with ETooManyHeaders => HttpParseTooManyHeaders | _ => HttpParseFail end.

(** The http builder refuses header names longer than 65535 bytes (every other name / value that
    httparse lets through is accepted: inclusion of the byte classes is checked in proofs/). *)
Definition builder_ok (hs : list header) : bool :=
  forallb (fun h => len (fst h) <=? MAX_HEADER_NAME_LEN) hs.

Definition version_ok (v : option N) : res N :=
  match v with
  | None => Err MissingResponseVersion
  | Some n => if (n =? 0) || (n =? 1) then Ok n else Err UnsupportedVersion
  end.

Definition status_ok (c : option N) : res N :=
  match c with
  | None => Err ResponseMissingStatus
  | Some n => if (100 <=? n) && (n <=? 999) then Ok n else Err ResponseInvalidStatus
  end.

Definition try_parse_response (slots : nat) (input : bytes) : res (option (N * response)) :=
  let '(st, v) := parse_response slots input in
  match st with
  | SError e => Err (map_hperr e)
  | SPartial => Ok None
  | SComplete n =>
      do ver <- version_ok (hv_version v);
      do code <- status_ok (hv_code v);
      if builder_ok (hv_headers v)
      then Ok (Some (n, {| rs_version := ver; rs_status := code; rs_headers := hm_of_list (hv_headers v) |}))
      else Err HttpParseFail
  end.

(** Fields up to the first one with an empty value (the loop's [break]). *)
Fixpoint until_empty_value (hs : list header) : list header :=
  match hs with
  | [] => []
  | h :: t => match snd h with [] => [] | _ => h :: until_empty_value t end
  end.

Definition try_parse_partial_response (slots : nat) (input : bytes) : res (option response) :=
  let '(st, v) := parse_response slots input in
  match st with
  | SError e => Err (map_hperr e)
  | _ =>
      match hv_version v with
      | None => Ok None
      | Some ver =>
          match hv_code v with
          | None => Ok None
          | Some _ =>
              do code <- status_ok (hv_code v);
              let hs := until_empty_value (hv_headers v) in
              if builder_ok hs
              then Ok (Some {| rs_version := ver; rs_status := code; rs_headers := hm_of_list hs |})
              else Err HttpParseFail
          end
      end
  end.

(** http::Method::from_bytes: non-empty, all bytes in the method character table. *)
Definition is_http_method_char (b : N) : bool :=
  is_digit b || is_alpha b || (b =? 33) || (b =? 42) || (b =? 43) || (b =? 45) || (b =? 46) ||
  (b =? 94) || (b =? 95) || (b =? 96) || (b =? 124) || (b =? 126).

Record prequest := { pq_method : bytes; pq_version : N; pq_headers : hmap }.

Definition try_parse_request (slots : nat) (input : bytes) : res (option (N * prequest)) :=
  let '(st, v) := parse_request slots input in
  match st with
  | SError e => Err (map_hperr e)
  | SPartial => Ok None
  | SComplete n =>
      do ver <- version_ok (hq_version v);
      match hq_method v with
      | None => Err RequestMissingMethod
      | Some m =>
          if match m with [] => false | _ => forallb is_http_method_char m end
          then if builder_ok (hq_headers v)
               then Ok (Some (n, {| pq_method := m; pq_version := ver; pq_headers := hm_of_list (hq_headers v) |}))
               else Err HttpParseFail
          else Err RequestInvalidMethod
      end
  end.
