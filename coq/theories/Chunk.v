(** * Chunk: model of src/chunk.rs (Dechunker) and util::find_crlf. *)
From Hoot Require Import Base.
Open Scope N_scope.

(** [find_crlf]: index of the FIRST CR, provided the byte after it exists and is LF. *)
Fixpoint find_crlf_aux (b : bytes) (i : N) : option N :=
  match b with
  | [] => None
  | c :: t =>
      if c =? 13 then
        match t with
        | d :: _ => if d =? 10 then Some i else None
        | [] => None
        end
      else find_crlf_aux t (N.succ i)
  end.
Definition find_crlf (b : bytes) : option N := find_crlf_aux b 0.

Inductive dechunker :=
| DSize
| DChunk (lft : N)
| DCrLf
| DEnding
| DTrailer
| DEnded.

Definition dechunker_eqb (a b : dechunker) : bool :=
  match a, b with
  | DSize, DSize | DCrLf, DCrLf | DEnding, DEnding | DTrailer, DTrailer | DEnded, DEnded => true
  | DChunk x, DChunk y => x =? y
  | _, _ => false
  end.

Definition is_on_chunk_boundary (d : dechunker) : bool :=
  match d with DSize => true | _ => false end.
Definition dech_is_ended (d : dechunker) : bool :=
  match d with DEnded => true | _ => false end.

(** One transition. [src] is the input from the current position, [room] the free output space.
    Result: new state, input consumed, bytes produced, "more". *)
Record stepres := { sr_st : dechunker; sr_in : N; sr_out : bytes; sr_more : bool }.

Definition read_size (src : bytes) : res stepres :=
  match find_crlf src with
  | None => Ok {| sr_st := DSize; sr_in := 0; sr_out := []; sr_more := false |}
  | Some i =>
      if SANITY_CHECK <? i then Err ChunkExpectedCrLf else
      let maybe_meta := position (fun c => c =? 59) (take META_WINDOW src) in
      let len_end := N.min (match maybe_meta with Some m => m | None => SANITY_CHECK + 1 end) i in
      let raw := take len_end src in
      (* str::from_utf8: modelled as "all bytes below 0x80" (see DESIGN.md, modelled std) *)
      if negb (forallb (fun c => c <? 128) raw) then Err ChunkLenNotAscii else
      match parse_hex_usize (trim raw) with
      | None => Err ChunkLenNotANumber
      | Some n =>
          Ok {| sr_st := if n =? 0 then DEnding else DChunk n;
                sr_in := i + 2; sr_out := []; sr_more := true |}
      end
  end.

Definition read_data (lft : N) (src : bytes) (room : N) : res stepres :=
  let to_read := N.min (N.min (len src) room) lft in
  let lft' := lft - to_read in
  Ok {| sr_st := if lft' =? 0 then DCrLf else DChunk lft';
        sr_in := to_read; sr_out := take to_read src; sr_more := 0 <? to_read |}.

Definition expect_crlf (src : bytes) : res stepres :=
  match find_crlf src with
  | None => Ok {| sr_st := DCrLf; sr_in := 0; sr_out := []; sr_more := false |}
  | Some i =>
      if 0 <? i then Err ChunkExpectedCrLf
      else Ok {| sr_st := DSize; sr_in := 2; sr_out := []; sr_more := false |}
  end.

Definition trailer_or_ended (src : bytes) : res stepres :=
  match find_crlf src with
  | None => Ok {| sr_st := DEnding; sr_in := 0; sr_out := []; sr_more := false |}
  | Some i =>
      if i =? 0 then Ok {| sr_st := DEnded; sr_in := 2; sr_out := []; sr_more := true |}
      else Ok {| sr_st := DTrailer; sr_in := 0; sr_out := []; sr_more := true |}
  end.

Definition trailer (src : bytes) : res stepres :=
  match find_crlf src with
  | None => Ok {| sr_st := DTrailer; sr_in := 0; sr_out := []; sr_more := false |}
  | Some i =>
      if i =? 0 then Panic "chunk.rs: assert!(i > 0) in trailer"
      else Ok {| sr_st := DEnding; sr_in := i + 2; sr_out := []; sr_more := true |}
  end.

Definition dech_step (d : dechunker) (src : bytes) (room : N) : res stepres :=
  match d with
  | DSize => read_size src
  | DChunk lft => read_data lft src room
  | DCrLf => expect_crlf src
  | DEnding => trailer_or_ended src
  | DTrailer => trailer src
  | DEnded => Ok {| sr_st := DEnded; sr_in := 0; sr_out := []; sr_more := false |}
  end.

(** [Dechunker::parse_input]: the inner loop. Fuel: every iteration with [more = true] either
    consumes input or moves Ending->Trailer (then Trailer consumes), so 2*|src|+2 suffices
    (lemma [parse_input_fuel] in proofs/). Running out of fuel is reported as a panic so it can
    never be mistaken for a normal result. *)
Fixpoint parse_input_loop (fuel : nat) (d : dechunker) (src : bytes) (room : N)
         (used : N) (out : bytes) : res (dechunker * N * bytes) :=
  match fuel with
  | O => Panic "model: parse_input out of fuel"
  | S f =>
      do r <- dech_step d src room;
      let used' := used + sr_in r in
      let out' := out ++ sr_out r in
      if sr_more r
      then parse_input_loop f (sr_st r) (drop (sr_in r) src) (room - len (sr_out r)) used' out'
      else Ok (sr_st r, used', out')
  end.

Definition parse_input (d : dechunker) (src : bytes) (room : N) : res (dechunker * N * bytes) :=
  parse_input_loop (2 * length src + 3) d src room 0 [].

(** [BodyReader::read_chunked]: the outer loop. *)
Fixpoint read_chunked_loop (fuel : nat) (d : dechunker) (src : bytes) (room : N) (stop : bool)
         (used : N) (out : bytes) : res (dechunker * N * bytes) :=
  match fuel with
  | O => Panic "model: read_chunked out of fuel"
  | S f =>
      do r <- parse_input d src room;
      let '(d', i, o) := r in
      let used' := used + i in
      let out' := out ++ o in
      let src' := drop i src in
      let room' := room - len o in
      if (i =? 0) || (len src' =? 0) || (room' =? 0) then Ok (d', used', out')
      else if dech_is_ended d' then Ok (d', used', out')
      else if stop && is_on_chunk_boundary d' then Ok (d', used', out')
      else read_chunked_loop f d' src' room' stop used' out'
  end.

Definition read_chunked (d : dechunker) (src : bytes) (room : N) (stop : bool)
  : res (dechunker * N * bytes) :=
  read_chunked_loop (length src + 1) d src room stop 0 [].
