(** C17 strengthening (review 3, findings 4 and 5).

    (a) WHAT "NOTHING EMITTED / STATE UNCHANGED" MEANS IN THE MODEL.  The write entry points return
        [res (state * output)]: an [Err] carries neither a new state nor output bytes.  "Refused" therefore means
        by the TYPE of the model that no byte is produced and that there is no new state; that the caller's Rust
        object ([&mut self]) and its output buffer are in fact untouched after an [Err] is what the Script level
        expresses: [Script.step] keeps the whole script state on an [Err] observation, and every LATER operation is
        evaluated on that kept state.  The Script semantics is what is compared with the Rust crate by differential
        testing (the harness performs the same operations on the real object after the real error), so the
        theorems below -- a refused [write_head] leaves the whole script state unchanged, and later
        [q_can_proceed] / [proceed] / further writes observe "false" / "stay" / the same error -- are the
        machine-checked half of that clause; the other half (the Rust object equals the kept state) is
        correspondence, not proof.

    (b) THE SPEC [invalid] VERSUS THE ENGLISH CLASSES.  [invalid_english] is the list of the statement;
        [invalid_extra] names the two classes the code rejects in addition: a Host value that is not text, and an
        all-digit Content-Length of 2^64 or more (the statement says "non-numeric").  [invalid] is their
        disjunction. *)
From Coq Require Import Lia ZArith.
From Hoot Require Import Base Chunk Body Httparse Parser Url Request Call Flow Script.
From Hoot.proofs Require Import BytesLemmas C17_proofs.
Open Scope N_scope.

(* ------------------------------------------------------------------ (b) the classes *)

(** 1*DIGIT *)
Definition numeric (v : bytes) : bool := is_nonempty v && forallb is_digit v.
Definition non_numeric (v : bytes) : bool := negb (numeric v).
(** all digits, but the value does not fit 64 bits *)
Definition overflowing (v : bytes) : bool := numeric v && negb (dec_value v <? 2 ^ 64).

(** The classes of the statement, in its order: version; method/version; more than one Host; more than one
    Content-Length; non-numeric Content-Length; body on a method that takes none (unless sent despite the method)
    or no body on a body-taking method. *)
Definition invalid_english (a : amended) (wanted : writer) (skip : bool) : bool :=
  negb (version_supported (am_version a))
  || negb (method_defined (am_version a) (am_method a))
  || (1 <? len (hosts a))
  || (1 <? len (cls a))
  || existsb non_numeric (cls a)
  || (negb skip &&
      (if need_request_body (am_method a)
       then negb (body_announced a wanted)
       else body_announced a wanted)).

(** The extra classes. *)
Definition extra_nontext_host (a : amended) : bool := existsb (fun v => negb (is_text v)) (hosts a).
Definition extra_length_overflow (a : amended) : bool := existsb overflowing (cls a).
Definition invalid_extra (a : amended) : bool := extra_nontext_host a || extra_length_overflow a.

Lemma existsb_orb {A} (f g : A -> bool) l :
  existsb (fun x => f x || g x) l = existsb f l || existsb g l.
Proof.
  induction l as [|x l IH]; cbn [existsb]; [reflexivity|]. rewrite IH.
  destruct (f x), (g x), (existsb f l), (existsb g l); reflexivity.
Qed.

Lemma not_ok_split v : negb (content_length_ok v) = non_numeric v || overflowing v.
Proof.
  unfold content_length_ok, non_numeric, overflowing, numeric.
  destruct (is_nonempty v), (forallb is_digit v), (dec_value v <? 2 ^ 64); reflexivity.
Qed.

Lemma bool_rearrange b1 b2 b3 b4 b5 b6 b7 b8 :
  b1 || b2 || b3 || b4 || b5 || (b6 || b7) || b8 = (b1 || b2 || b3 || b4 || b6 || b8) || (b5 || b7).
Proof. destruct b1, b2, b3, b4, b5, b6, b7, b8; reflexivity. Qed.

Lemma invalid_split a w s : invalid a w s = invalid_english a w s || invalid_extra a.
Proof.
  unfold invalid, invalid_english, invalid_extra, extra_nontext_host, extra_length_overflow.
  rewrite (existsb_ext_eq (fun v => negb (content_length_ok v)) (fun v => non_numeric v || overflowing v)
             (cls a) not_ok_split).
  rewrite existsb_orb. apply bool_rearrange.
Qed.

Lemma invalid_split_iff a w s :
  invalid a w s = true <-> invalid_english a w s = true \/ invalid_extra a = true.
Proof. rewrite invalid_split. apply orb_true_iff. Qed.

(** The extra classes are reported with these errors when nothing earlier in the list applies. *)
Lemma extra_classes_disjoint_from_english v :
  overflowing v = true -> non_numeric v = false.
Proof. unfold overflowing, non_numeric. destruct (numeric v); [reflexivity|discriminate]. Qed.

(* ------------------------------------------------------------------ (a) Script level *)

(** A flow in SendRequest holding a fresh invalid request: every [write_head] is answered with the same analysis
    error and leaves the WHOLE script state as it was; [q_can_proceed] answers false; [proceed] answers "stay";
    all three leave the state unchanged. *)
Lemma script_refused s f :
  s_obj s = ObFlow TSendRequest f -> fresh_flow f -> call_invalid (i_call f) = true ->
  exists e, analysis_error e = true /\
    (forall cap, step s (OWriteHead cap) = (s, obs_err e)) /\
    step s OQCanProceed = (s, obs_bool false) /\
    step s OProceed = (s, [w "stay"]).
Proof.
  intros Hs Hf Hi. destruct (flow_invalid f Hf Hi) as (e & Hc & He). exists e. split; [exact Hc|].
  pose proof (fresh_flow_cannot_proceed f Hf) as Hp.
  split; [|split].
  - intros cap. unfold step. rewrite Hs. unfold upd. rewrite He. reflexivity.
  - unfold step. rewrite Hs. rewrite Hp. reflexivity.
  - unfold step. rewrite Hs. unfold do_proceed, send_request_proceed. rewrite Hp. reflexivity.
Qed.

(** Probing operations: head writes of any capacity, readiness queries, attempts to advance. *)
Definition head_probe (o : op) : bool :=
  match o with OWriteHead _ | OQCanProceed | OProceed => true | _ => false end.

Definition probe_answer (e : err) (o : op) : list tok :=
  match o with
  | OWriteHead _ => obs_err e
  | OQCanProceed => obs_bool false
  | _ => [w "stay"]
  end.

(** Any history of probing operations: the state after it is the state before it, and each operation was
    answered as on the first attempt (repeatable, never ready to advance, nothing emitted: an [err] observation
    has no output component). *)
Lemma script_refused_history s f :
  s_obj s = ObFlow TSendRequest f -> fresh_flow f -> call_invalid (i_call f) = true ->
  exists e, analysis_error e = true /\
    forall ops, forallb head_probe ops = true ->
      run_ops s ops = s /\
      forall o, In o ops -> step s o = (s, probe_answer e o).
Proof.
  intros Hs Hf Hi. destruct (script_refused s f Hs Hf Hi) as (e & Hc & Hw & Hq & Hp).
  exists e. split; [exact Hc|].
  assert (Hstep : forall o, head_probe o = true -> step s o = (s, probe_answer e o)).
  { intros o Ho. destruct o; try discriminate Ho; cbn [probe_answer]; auto. }
  intros ops Hall. split.
  - induction ops as [|o ops IH]; [reflexivity|].
    cbn [forallb] in Hall. apply andb_prop in Hall. destruct Hall as [Ho Hall].
    unfold run_ops. cbn [fold_left]. rewrite (Hstep o Ho). cbn [fst]. apply IH. exact Hall.
  - intros o Hin. apply Hstep. rewrite forallb_forall in Hall. apply Hall. exact Hin.
Qed.

(** The single-call API objects of the Script. *)
Lemma script_refused_call s h c :
  s_obj s = ObCall h c -> fresh c -> call_invalid c = true ->
  exists e, analysis_error e = true /\
    (h = HWithoutBody -> forall cap, step s (OWriteHead cap) = (s, obs_err e)) /\
    (h = HWithBody -> forall input cap, step s (OWriteBody input cap) = (s, obs_err e)).
Proof.
  intros Hs Hf Hi. destruct Hf as [Ha Hp].
  destruct (analyze_request_invalid c Ha Hi) as (e & Har & Hc).
  exists e. split; [exact Hc|].
  (* the analysis failed, so the call a failed write leaves behind is the call itself *)
  assert (Hk : call_after_failed_write c = c) by (unfold call_after_failed_write; rewrite Har; reflexivity).
  assert (Hw : forall h0, h0 = h -> with_obj s (ObCall h0 c) = s).
  { intros h0 ->. rewrite <- Hs. destruct s; reflexivity. }
  split.
  - intros -> cap. unfold step. rewrite Hs. unfold call_write_nobody. rewrite Har. cbn [bind].
    rewrite Hk, (Hw _ eq_refl). reflexivity.
  - intros -> input cap. unfold step, do_write_body. rewrite Hs. unfold call_write_body. rewrite Har. cbn [bind].
    rewrite Hk, (Hw _ eq_refl). reflexivity.
Qed.

(** Where such script states come from: [new r] then [proceed]. *)
Lemma script_new_state r f :
  flow_new r = Ok f ->
  s_obj (run_ops s_init [ONew r; OProceed]) = ObFlow TSendRequest f /\ fresh_flow f /\
  call_invalid (i_call f) = invalid (am_new r) (if need_request_body (rq_method r) then new_chunked else new_none) false.
Proof.
  intros H. destruct (flow_new_fresh r f H) as (Hf & Hr & Hk & Hw).
  split; [|split; [exact Hf|]].
  - unfold run_ops. cbn [fold_left]. unfold step at 2. cbn [s_obj s_init]. rewrite H. cbn [fst].
    unfold step. cbn [s_obj]. reflexivity.
  - unfold call_invalid. rewrite Hr, Hk, Hw. reflexivity.
Qed.
