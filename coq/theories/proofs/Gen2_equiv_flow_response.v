(** Flow<RecvResponse>::try_response (translated) against the model; split from Gen2_equiv_flow. *)
From Coq Require Import Lia.
From Hoot Require Import Base Chunk Body Httparse Parser Url Request Call Flow GenLib Gen Gen2.
Open Scope N_scope.
(* ------------------------------------------------------------------ Flow<RecvResponse>::try_response *)
(** What the flow does with the call's answer: skip a delayed 100 while one is awaited, record status and the last Location, add the
    server's Connection: close as a close reason, hand the response out. *)
Lemma gen_try_response_ok f input c c' got :
  as_recv_response f = Ok c ->
  call_try_response c input = Ok (c', got) ->
  match recv_try_response f input with
  | Ok (f', used, orsp) =>
      gen_try_response (i_reasons f) (i_await_100 f) (i_status f) (i_location f) (Ok got)
      = Ok (i_reasons f', i_await_100 f', i_status f', i_location f', (used, orsp))
  | Err e => gen_try_response (i_reasons f) (i_await_100 f) (i_status f) (i_location f) (Ok got) = Err e
  | Panic _ => exists s, gen_try_response (i_reasons f) (i_await_100 f) (i_status f) (i_location f) (Ok got) = Panic s
  end.
Proof.
  intros Hc Ht. unfold recv_try_response. rewrite Hc. cbn [bind]. rewrite Ht. cbn [bind].
  unfold gen_try_response, resp_status, resp_last_location, resp_has_close, set_await, set_call.
  destruct f as [c0 h rs0 ssb aw st loc]. cbn [i_reasons i_should_send_body i_await_100 i_call i_holder i_status i_location bind].
  destruct got as [[used rsp]|]; [|reflexivity].
  destruct (N.eqb_spec (rs_status rsp) 100) as [E|E]; cbn [andb].
  - destruct aw; cbn [andb i_reasons i_should_send_body i_await_100 i_call i_holder i_status i_location].
    + reflexivity.
    + destruct (headers_has (hm_iter (rs_headers rsp)) (s2b "connection") (s2b "close")).
      * destruct (add_reason rs0 ServerConnectionClose) as [rs|e|s]; cbn [bind i_reasons i_await_100 i_status i_location]; [reflexivity|reflexivity|eauto].
      * cbn [bind i_reasons i_await_100 i_status i_location]. reflexivity.
  - destruct (headers_has (hm_iter (rs_headers rsp)) (s2b "connection") (s2b "close")).
    + destruct (add_reason rs0 ServerConnectionClose) as [rs|e|s]; cbn [bind i_reasons i_await_100 i_status i_location]; [reflexivity|reflexivity|eauto].
    + cbn [bind i_reasons i_await_100 i_status i_location]. reflexivity.
Qed.
Print Assumptions gen_try_response_ok.

