(** C05 strengthening: concrete heads and a flow REACHED BY RUNNING THE MODEL for the non-vacuity examples. *)
From Coq Require Import Lia ZArith.
From Hoot Require Import Base Chunk Body Httparse Parser Url Request Call Flow.
From Hoot Require Script.
From Hoot.proofs Require Import BytesLemmas C05_spec C05_proofs C05_examples C05_rfc_bytes C05_more.
Open Scope N_scope.

(** HTTP/1.1 200 OK / Content-Length: 5 / content-length: x / Transfer-Encoding: gzip / Connection: close
    / Location: /a / LOCATION: /b    (first Content-Length numeric; a second, bad one is not looked at). *)
Definition cl_head : resp_head :=
  {| rh_version := 1; rh_status := 200; rh_reason := Some (s2b "OK");
     rh_fields :=
       [ {| f_name := s2b "Content-Length"; f_ows1 := [32]; f_value := s2b "5"; f_ows2 := [] |};
         {| f_name := s2b "content-length"; f_ows1 := [32]; f_value := s2b "x"; f_ows2 := [] |};
         {| f_name := s2b "Transfer-Encoding"; f_ows1 := [32]; f_value := s2b "gzip"; f_ows2 := [] |};
         {| f_name := s2b "Connection"; f_ows1 := [32]; f_value := s2b "close"; f_ows2 := [] |};
         {| f_name := s2b "Location"; f_ows1 := [32]; f_value := s2b "/a"; f_ows2 := [] |};
         {| f_name := s2b "LOCATION"; f_ows1 := [32]; f_value := s2b "/b"; f_ows2 := [] |} ] |}.

(** HTTP/1.1 200 OK / X: y / Content-Length: [v] *)
Definition cl_head_with (v : bytes) : resp_head :=
  {| rh_version := 1; rh_status := 200; rh_reason := Some (s2b "OK");
     rh_fields :=
       [ {| f_name := s2b "X"; f_ows1 := [32]; f_value := s2b "y"; f_ows2 := [] |};
         {| f_name := s2b "Content-Length"; f_ows1 := [32]; f_value := v; f_ows2 := [] |} ] |}.

Lemma cl_head_wf : wf_resp_head cl_head.
Proof.
  unfold wf_resp_head, cl_head. cbn [rh_version rh_status rh_reason rh_fields].
  split; [right; reflexivity|]. split; [lia|]. split; [reflexivity|].
  repeat constructor; wf_field_tac.
Qed.

Lemma cl_head_with_wf v :
  forallb is_value_token v = true -> no_edge_ws v = true -> wf_resp_head (cl_head_with v).
Proof.
  intros H1 H2. unfold wf_resp_head, cl_head_with. cbn [rh_version rh_status rh_reason rh_fields].
  split; [right; reflexivity|]. split; [lia|]. split; [reflexivity|].
  constructor; [wf_field_tac|]. constructor; [|constructor].
  unfold wf_field; cbn [f_name f_ows1 f_value f_ows2]. repeat split; try assumption; try discriminate; reflexivity.
Qed.

Lemma cl_head_acceptable : cl_acceptable cl_head.
Proof.
  intros v Hv. vm_compute in Hv. inversion Hv; subst. split; [discriminate|]. split; reflexivity.
Qed.

(** The flow the model reaches for  GET http://a.test/x  HTTP/1.1 once the request has been written:
    new, proceed (Prepare -> SendRequest), write the head, proceed (-> RecvResponse). *)
Definition ex_request : request :=
  {| rq_method := GET; rq_version := V11;
     rq_uri := {| u_scheme := s2b "http"; u_auth := s2b "a.test"; u_pq := s2b "/x" |}; rq_headers := [] |}.

Definition reached_flow : option inner :=
  match Script.s_obj (Script.run_ops Script.s_init
          [Script.ONew ex_request; Script.OProceed; Script.OWriteHead 1000; Script.OProceed]) with
  | Script.ObFlow TRecvResponse f => Some f
  | _ => None
  end.
