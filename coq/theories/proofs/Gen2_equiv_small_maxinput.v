(** src/client/flow.rs Flow<SendBody>::calculate_max_input, translated (Gen2.gen_flow_calculate_max_input), against the model's
    [send_body_max_input]: the whole output buffer for a sized body, body.rs calculate_max_input for a chunked one. *)
From Coq Require Import NArith Bool List.
From Hoot Require Import Base Chunk Body Request Call Flow GenLib Gen Gen2.
From Hoot.proofs Require Import Gen_equiv_body.
Open Scope N_scope.

Theorem gen_flow_calculate_max_input_eq f n :
  i_holder f = HWithBody ->
  send_body_max_input f n = Ok (gen_flow_calculate_max_input (w_is_chunked (c_writer (i_call f))) n).
Proof.
  intros Hh. unfold send_body_max_input, as_with_body. rewrite Hh. cbn [bind].
  unfold gen_flow_calculate_max_input. destruct (w_is_chunked (c_writer (i_call f))); cbn [negb]; [|reflexivity].
  apply f_equal. symmetry. apply gen_calculate_max_input_eq.
Qed.
