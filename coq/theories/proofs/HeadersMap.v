(** [Flow<SendRequest>::headers_map] (operation [OHeadersMap] of the script semantics).

    The Rust function runs the request analysis and returns the effective headers collected with [HeaderMap::insert].
    The model treats it as a query.  That is justified by the facts below: analysis is idempotent (an analysed call
    analyses to itself), an analysis error leaves the call as it was, the operations that follow analyse again and so do
    not depend on whether an earlier [headers_map] ran; and what [headers_map] reports is a function of the same header list
    the head writer emits ([call_headers_written]). *)
From Coq Require Import NArith Bool List Lia.
From Hoot Require Import Base Chunk Body Httparse Parser Url Request Call Flow Script.
From Hoot.proofs Require Import BytesLemmas.
Import ListNotations.
Open Scope N_scope.

Definition map_of_headers (hs : list header) : list header :=
  hm_iter (fold_left (fun m h => hm_insert m (fst h) (snd h)) hs []).

Lemma analyze_request_analyzed c c1 : analyze_request c = Ok c1 -> c_analyzed c1 = true.
Proof.
  unfold analyze_request. destruct (c_analyzed c) eqn:E.
  - intros H. inversion H; subst. exact E.
  - destruct (analyze (c_req c) (c_writer c) (c_skip c)) as [info| |]; cbn [bind]; try discriminate.
    match goal with |- context [bind ?x _] => destruct x as [a1| |] end; cbn [bind]; try discriminate.
    match goal with |- context [bind ?x _] => destruct x as [a2| |] end; cbn [bind]; try discriminate.
    intros H. inversion H; subst. reflexivity.
Qed.

(** Idempotence: what justifies modelling [headers_map] without recording that analysis ran. *)
Lemma analyze_request_idem c c1 : analyze_request c = Ok c1 -> analyze_request c1 = Ok c1.
Proof. intros H. apply analyze_request_analyzed in H. unfold analyze_request. rewrite H. reflexivity. Qed.

(** The operation changes nothing in the script state, whatever the object. *)
Lemma headers_map_pure s : fst (step s OHeadersMap) = s.
Proof. unfold step. destruct (s_obj s) as [|t f|h c]; [reflexivity| destruct t; reflexivity | reflexivity]. Qed.

(** What it reports in SendRequest. *)
Lemma headers_map_obs s f :
  s_obj s = ObFlow TSendRequest f ->
  snd (step s OHeadersMap) =
  match analyze_request (i_call f) with
  | Ok c => obs_headers (map_of_headers (am_headers (c_req c)))
  | Err e => obs_err e
  | Panic _ => obs_panic
  end.
Proof. intros H. unfold step. rewrite H. cbn [snd]. destruct (analyze_request (i_call f)); reflexivity. Qed.

(** A request that analysis refuses is refused by [headers_map] and by every head write with the same error: the two
    entry points cannot disagree about validity. *)
Lemma headers_map_err_write_err f e cap :
  (i_holder f = HWithoutBody \/ (i_holder f = HWithBody /\ is_body (c_phase (i_call f)) = false)) ->
  analyze_request (i_call f) = Err e -> send_request_write f cap = Err e.
Proof.
  intros Hh Ha. unfold send_request_write.
  destruct Hh as [Hh|[Hh Hb]]; rewrite Hh.
  - unfold call_write_nobody. rewrite Ha. reflexivity.
  - rewrite Hb. unfold call_write_body. rewrite Ha. reflexivity.
Qed.

(** [HeaderMap::insert] semantics of the report: one entry per distinct name ... *)
Lemma hm_insert_keys m k v : map fst (hm_insert m k v) = if existsb (beq_bytes k) (map fst m) then map fst m else map fst m ++ [k].
Proof.
  induction m as [|[k' vs] m IH]; cbn [hm_insert map fst existsb]; [reflexivity|].
  destruct (beq_bytes k k') eqn:E; cbn [orb map fst]; [reflexivity|].
  rewrite IH. destruct (existsb (beq_bytes k) (map fst m)); reflexivity.
Qed.

(** ... and a name is reported iff it occurs among the effective headers. *)
Lemma hm_insert_all_single m k v : (forall x, In x m -> length (snd x) = 1%nat) -> forall x, In x (hm_insert m k v) -> length (snd x) = 1%nat.
Proof.
  induction m as [|[k' vs] m IH]; cbn [hm_insert]; intros Hm x Hx.
  - destruct Hx as [<-|[]]. reflexivity.
  - destruct (beq_bytes k k').
    + destruct Hx as [<-|Hx]; [reflexivity|]. apply Hm. right. exact Hx.
    + destruct Hx as [<-|Hx]; [apply Hm; left; reflexivity|]. apply IH; [|exact Hx]. intros y Hy. apply Hm. right. exact Hy.
Qed.

(** *** What the reported map contains: for every name, the value of its LAST occurrence among the effective headers
    (and nothing for a name that does not occur). *)
Definition lv_step (k : bytes) (acc : option bytes) (h : header) : option bytes :=
  if beq_bytes k (fst h) then Some (snd h) else acc.
Definition last_val (hs : list header) (k : bytes) : option bytes := fold_left (lv_step k) hs None.

Definition ins (m : hmap) (h : header) : hmap := hm_insert m (fst h) (snd h).

Lemma hm_get_insert m k' v k :
  hm_get (hm_insert m k' v) k = if beq_bytes k k' then Some v else hm_get m k.
Proof.
  unfold hm_get, hm_get_all.
  induction m as [|[k0 vs] m IH]; cbn [hm_insert find fst].
  - destruct (beq_bytes k k'); reflexivity.
  - destruct (beq_bytes k' k0) eqn:E0.
    + apply beq_bytes_eq in E0. subst k0. cbn [find fst]. destruct (beq_bytes k k'); reflexivity.
    + cbn [find fst]. destruct (beq_bytes k k0) eqn:E1.
      * destruct (beq_bytes k k') eqn:E2; [|reflexivity].
        apply beq_bytes_eq in E1, E2. subst. rewrite beq_bytes_refl in E0. discriminate.
      * exact IH.
Qed.

Lemma lv_from_some k l : forall a : bytes,
  fold_left (lv_step k) l (Some a) = match fold_left (lv_step k) l None with Some w => Some w | None => Some a end.
Proof.
  induction l as [|x l IHl]; intros a; cbn [fold_left]; [reflexivity|].
  unfold lv_step at 2 4. destruct (beq_bytes k (fst x)); [|apply IHl].
  rewrite (IHl (snd x)). destruct (fold_left (lv_step k) l None); reflexivity.
Qed.

Lemma fold_ins_get hs : forall m k,
  hm_get (fold_left ins hs m) k =
  match fold_left (lv_step k) hs None with Some v => Some v | None => hm_get m k end.
Proof.
  induction hs as [|h hs IH]; intros m k; cbn [fold_left]; [reflexivity|].
  rewrite IH. unfold ins. rewrite hm_get_insert.
  change (lv_step k None h) with (if beq_bytes k (fst h) then Some (snd h) else @None bytes).
  destruct (beq_bytes k (fst h)) eqn:E.
  - rewrite lv_from_some. destruct (fold_left (lv_step k) hs None); reflexivity.
  - destruct (fold_left (lv_step k) hs None); reflexivity.
Qed.

Theorem map_of_headers_last hs k : hm_get (fold_left ins hs []) k = last_val hs k.
Proof. rewrite fold_ins_get. unfold last_val. destruct (fold_left (lv_step k) hs None); reflexivity. Qed.
