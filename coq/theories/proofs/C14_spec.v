(** * C14 specification: RFC 3986 5.2 "Relative Resolution", transcribed from the RFC text.

    Independent of Url.v (the model of the url crate): only Bytes.v / Base.v are imported, for the
    byte-string vocabulary ([is_prefix], [drop], [lower], [is_alpha], [is_digit], [s2b]).
    The algorithms below follow the RFC's wording on byte strings:
      - [rfc_parse]                  appendix B (component regular expression) + 3.1 (scheme syntax)
      - [rfc_merge]                  5.2.3
      - [rfc_remove_dot_segments]    5.2.4, the input-buffer / output-buffer algorithm, steps 2A-2E
      - [rfc_transform]              5.2.2 (strict)
      - [rfc_recompose]              5.3
      - [rfc_normalise]              the syntax-based normalisations (6.2.2.1 case, 6.2.3 default
                                     port / empty path) the client applies to the target
      - [rfc_resolve]                the composition, fragment dropped. *)
From Hoot Require Import Base.
Open Scope N_scope.

(* ------------------------------------------------------------------ helpers on byte strings *)

(** Longest prefix whose bytes all satisfy [p], and the remainder. *)
Fixpoint span (p : N -> bool) (s : bytes) : bytes * bytes :=
  match s with
  | [] => ([], [])
  | b :: t => if p b then let '(a, r) := span p t in (b :: a, r) else ([], s)
  end.

(** [b] is none of the bytes [cs]. *)
Definition not_in (cs : list N) (b : N) : bool := negb (existsb (N.eqb b) cs).

Definition is_nil {A} (l : list A) : bool := match l with [] => true | _ => false end.

Definition has_slash (s : bytes) : bool := existsb (N.eqb 47) s.

(* ------------------------------------------------------------------ appendix B: components *)

(** A parsed URI reference: five components, three of them possibly undefined. *)
Record reference := {
  rf_scheme : option bytes;
  rf_authority : option bytes;
  rf_path : bytes;
  rf_query : option bytes;
  rf_fragment : option bytes
}.

(** 3.1:  scheme = ALPHA *( ALPHA / DIGIT / "+" / "-" / "." ) *)
Definition scheme_char (b : N) : bool :=
  is_alpha b || is_digit b || (b =? 43) || (b =? 45) || (b =? 46).
Definition valid_scheme (s : bytes) : bool :=
  match s with c :: t => is_alpha c && forallb scheme_char t | [] => false end.

(** Appendix B (a blank is inserted after every star to keep this a comment):
        ^(([^:/?#]+):)?(//([^/?#]* ))?([^?#]* )(\?([^#]* ))?(#(.* ))?
         12            3  4           5        6  7         8 9
    Each function takes one group off the front and returns what is left.

    Group 1/2.  The candidate [^:/?#]+ followed by ":" is taken as the scheme only if it is a scheme
    according to 3.1; otherwise the reference has no scheme (it is then a relative reference whose
    first segment contains a colon -- 4.2 excludes those from the grammar; clients read them as
    relative paths). *)
Definition take_scheme (s : bytes) : option bytes * bytes :=
  let '(cand, rest) := span (not_in [58; 47; 63; 35]) s in
  if is_prefix [58] rest && valid_scheme cand then (Some cand, drop 1 rest) else (None, s).

(** Group 3/4: "//" [^/?#]* *)
Definition take_authority (s : bytes) : option bytes * bytes :=
  if is_prefix [47; 47] s
  then let '(a, rest) := span (not_in [47; 63; 35]) (drop 2 s) in (Some a, rest)
  else (None, s).

(** Group 5: [^?#]* *)
Definition take_path (s : bytes) : bytes * bytes := span (not_in [63; 35]) s.

(** Group 6/7: "?" [^#]* *)
Definition take_query (s : bytes) : option bytes * bytes :=
  if is_prefix [63] s
  then let '(q, rest) := span (not_in [35]) (drop 1 s) in (Some q, rest)
  else (None, s).

(** Group 8/9: "#" .* *)
Definition take_fragment (s : bytes) : option bytes :=
  if is_prefix [35] s then Some (drop 1 s) else None.

Definition rfc_parse (s : bytes) : reference :=
  let '(sc, s1) := take_scheme s in
  let '(au, s2) := take_authority s1 in
  let '(pa, s3) := take_path s2 in
  let '(qu, s4) := take_query s3 in
  {| rf_scheme := sc; rf_authority := au; rf_path := pa; rf_query := qu;
     rf_fragment := take_fragment s4 |}.

(* ------------------------------------------------------------------ 5.2.4 remove_dot_segments *)

(** "removing the last segment and its preceding "/" (if any) from the output buffer":
    everything from the right-most "/" on is removed; all of it when there is no "/". *)
Fixpoint remove_last_segment (out : bytes) : bytes :=
  match out with
  | [] => []
  | b :: t => if has_slash t then b :: remove_last_segment t else []
  end.

(** 2E: "the first path segment in the input buffer ..., including the initial "/" character (if
    any) and any subsequent characters up to, but not including, the next "/" character or the
    end of the input buffer"; returned with the rest of the input. *)
Definition first_segment (inp : bytes) : bytes * bytes :=
  match inp with
  | [] => ([], [])
  | b :: t =>
      if b =? 47 then let '(a, r) := span (not_in [47]) t in (b :: a, r)
      else span (not_in [47]) inp
  end.

(** One turn of the loop of step 2, on (input buffer, output buffer). *)
Definition rds_step (inp out : bytes) : bytes * bytes :=
  (* A. input begins with "../" or "./": remove that prefix *)
  if is_prefix (s2b "../") inp then (drop 3 inp, out)
  else if is_prefix (s2b "./") inp then (drop 2 inp, out)
  (* B. input begins with "/./", or is "/." : replace that prefix with "/" *)
  else if is_prefix (s2b "/./") inp then (drop 2 inp, out)
  else if beq_bytes inp (s2b "/.") then (s2b "/", out)
  (* C. input begins with "/../", or is "/..": replace that prefix with "/" and remove the last
        segment and its preceding "/" (if any) from the output *)
  else if is_prefix (s2b "/../") inp then (drop 3 inp, remove_last_segment out)
  else if beq_bytes inp (s2b "/..") then (s2b "/", remove_last_segment out)
  (* D. input is "." or "..": remove it *)
  else if beq_bytes inp (s2b ".") || beq_bytes inp (s2b "..") then ([], out)
  (* E. move the first path segment to the end of the output *)
  else let '(seg, rest) := first_segment inp in (rest, out ++ seg).

(** Step 2: "while the input buffer is not empty, loop".  Every turn shortens the input, so the
    length of the input bounds the number of turns. *)
Fixpoint rds_loop (fuel : nat) (inp out : bytes) : bytes :=
  match inp with
  | [] => out
  | _ => match fuel with
         | O => out
         | S f => let '(i, o) := rds_step inp out in rds_loop f i o
         end
  end.

(** Steps 1 and 3: input := the path, output := empty; result := the output buffer. *)
Definition rfc_remove_dot_segments (p : bytes) : bytes := rds_loop (List.length p) p [].

(* ------------------------------------------------------------------ 5.2.3 merge *)

(** "excluding any characters after the right-most "/" in the base URI path, or excluding the entire
    base URI path if it does not contain any "/" characters". *)
Fixpoint up_to_last_slash (p : bytes) : bytes :=
  match p with
  | [] => []
  | b :: t => if has_slash p then b :: up_to_last_slash t else []
  end.

Definition rfc_merge (base_has_authority : bool) (base_path rel : bytes) : bytes :=
  if base_has_authority && is_nil base_path then 47 :: rel
  else up_to_last_slash base_path ++ rel.

(* ------------------------------------------------------------------ 5.2.2 transform references *)

(** A URI as components (a base URI, or a target URI). *)
Record components := {
  x_scheme : bytes;
  x_authority : option bytes;
  x_path : bytes;
  x_query : option bytes;
  x_fragment : option bytes
}.

Definition starts_with_slash (p : bytes) : bool := is_prefix [47] p.

(** The pseudocode of 5.2.2 with strict = true. *)
Definition rfc_transform (base : components) (r : reference) : components :=
  match rf_scheme r with
  | Some s =>
      {| x_scheme := s; x_authority := rf_authority r;
         x_path := rfc_remove_dot_segments (rf_path r); x_query := rf_query r;
         x_fragment := rf_fragment r |}
  | None =>
      match rf_authority r with
      | Some a =>
          {| x_scheme := x_scheme base; x_authority := Some a;
             x_path := rfc_remove_dot_segments (rf_path r); x_query := rf_query r;
             x_fragment := rf_fragment r |}
      | None =>
          if is_nil (rf_path r) then
            {| x_scheme := x_scheme base; x_authority := x_authority base;
               x_path := x_path base;
               x_query := match rf_query r with Some q => Some q | None => x_query base end;
               x_fragment := rf_fragment r |}
          else
            {| x_scheme := x_scheme base; x_authority := x_authority base;
               x_path := if starts_with_slash (rf_path r)
                         then rfc_remove_dot_segments (rf_path r)
                         else rfc_remove_dot_segments
                                (rfc_merge (match x_authority base with Some _ => true | None => false end)
                                           (x_path base) (rf_path r));
               x_query := rf_query r;
               x_fragment := rf_fragment r |}
      end
  end.

(* ------------------------------------------------------------------ 5.3 recomposition *)

Definition rfc_recompose (t : components) : bytes :=
  x_scheme t ++ [58] ++
  (match x_authority t with Some a => [47; 47] ++ a | None => [] end) ++
  x_path t ++
  (match x_query t with Some q => 63 :: q | None => [] end) ++
  (match x_fragment t with Some f => 35 :: f | None => [] end).

(* ------------------------------------------------------------------ normalisation of the target *)

(** Value of a string of decimal digits. *)
Definition digits_value (p : bytes) : N := fold_left (fun acc b => acc * 10 + (b - 48)) p 0.

(** A digit string without its leading zeros ("0" if nothing else is left). *)
Fixpoint strip_zeros (p : bytes) : bytes :=
  match p with
  | [] => []
  | b :: t => if b =? 48 then strip_zeros t else p
  end.
Definition canonical_digits (p : bytes) : bytes :=
  match strip_zeros p with [] => [48] | t => t end.

Definition scheme_default_port (scheme : bytes) : option N :=
  if beq_bytes scheme (s2b "http") then Some 80
  else if beq_bytes scheme (s2b "https") then Some 443
  else None.

(** What follows the host in the normalised authority, given what follows it in the authority
    (nothing, or ":" port).  An empty port and the scheme's default port are dropped; other ports
    are written without leading zeros.  [None]: not a port (non-digits, or above 65535). *)
Definition normal_port_suffix (scheme after_host : bytes) : option bytes :=
  match after_host with
  | [] => Some []
  | _ :: p =>                                     (* the byte is ":" *)
      if is_nil p then Some []
      else if forallb is_digit p && (digits_value p <? 65536) then
        match scheme_default_port scheme with
        | Some d => if digits_value p =? d then Some [] else Some (58 :: canonical_digits p)
        | None => Some (58 :: canonical_digits p)
        end
      else None
  end.

(** The normalised target as (scheme, authority, path-and-query); fragment dropped.
    Authority = host [ ":" port ] (no userinfo, no IP literal in the property's grammar).
    [None]: no authority, an empty host, or an invalid port -- not a URI a request can be sent to. *)
Definition rfc_normalise (t : components) : option (bytes * bytes * bytes) :=
  match x_authority t with
  | None => None
  | Some au =>
      let scheme := lower (x_scheme t) in
      let '(host, after_host) := span (not_in [58]) au in
      if is_nil host then None
      else
        match normal_port_suffix scheme after_host with
        | None => None
        | Some port =>
            Some (scheme, lower host ++ port,
                  (if is_nil (x_path t) then [47] else x_path t) ++
                  (match x_query t with Some q => 63 :: q | None => [] end))
        end
  end.

(** Reference resolution as the property states it: resolve per 5.2, drop the fragment, normalise. *)
Definition rfc_resolve (base : components) (loc : bytes) : option (bytes * bytes * bytes) :=
  rfc_normalise (rfc_transform base (rfc_parse loc)).
