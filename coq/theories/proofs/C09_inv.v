(** C09: the flow invariant.  Definitions and basic consequences only (imported by C11, C12).

    [Inv t f] says what has to hold of the flow record [f] while the typestate is [t] so that every
    call the types permit in [t] is panic-free (proved in C09_proofs.v, together with preservation).

    Two facts about the *request configuration* are carried along because two panic sites of the
    model depend on them (both are documented as outside every property's quantifier):
    - the effective URI has a scheme and an authority ([abs_uri]): without an authority and without
      any header the head has zero field lines and [call.rs: header_count - 1] underflows; without
      a scheme [as_new_flow] panics in [expect(base uri to be a url)];
    - while the request has not been analysed, at most 62 headers have been added, so that the
      (at most two) headers analysis adds fit into the 64-slot array. *)
From Coq Require Import Lia ZArith.
From Hoot Require Import Base Chunk Body Httparse Parser Url Request Call Flow.
From Hoot.proofs Require Import BytesLemmas.
Open Scope N_scope.

Definition abs_uri (u : uri) : Prop := u_scheme u <> [] /\ u_auth u <> [].

(** The request has been moved out by [as_new_flow] (finding F18). *)
Definition Taken (f : inner) : Prop := am_req (c_req (i_call f)) = None.

(** Caller-added headers so far (analysis may add two more; the array has 64 slots). *)
Definition HEADER_BUDGET : N := 62.

(** Phases of the sending half. *)
Definition send_phase (p : phase) : bool := is_prelude p || is_body p.

(** Call-level facts of the sending half (also the invariant of the single-call API objects). *)
Definition SendCommon (c : call) : Prop :=
  am_req (c_req c) <> None /\
  abs_uri (am_eff_uri (c_req c)) /\
  (c_analyzed c = false -> len (am_added (c_req c)) <= HEADER_BUDGET) /\
  (c_analyzed c = true -> am_headers (c_req c) <> []) /\
  (c_phase c = PLine \/ c_analyzed c = true) /\
  send_phase (c_phase c) = true /\
  c_reader c = None.

(** With-body call: the writer is never in mode None ([unreachable!] in body.rs). *)
Definition WB (c : call) : Prop := w_mode (c_writer c) <> SNone.

(** Without-body call of a flow: the method takes no body, the check is not skipped and the writer
    is (and after analysis stays) the finished None writer, so [into_receive().unwrap()] is safe. *)
Definition NB (c : call) : Prop :=
  c_writer c = new_none /\ c_skip c = false /\ need_request_body (am_method (c_req c)) = false.

(** The method takes a body, or [send_body_despite_method] was called ([c_skip] records exactly that). *)
Definition body_due (c : call) : bool := need_request_body (am_method (c_req c)) || c_skip c.

(** Before the head is out: the holder variant and [should_send_body] agree, and both agree with
    the request. *)
Definition HolderOK (f : inner) : Prop :=
  (i_holder f = HWithoutBody /\ i_should_send_body f = false /\ NB (i_call f)) \/
  (i_holder f = HWithBody /\ i_should_send_body f = true /\ WB (i_call f) /\ body_due (i_call f) = true).

(** A chunked reader is never left in the transient Trailer state between two calls. *)
Definition reader_ok (r : reader) : Prop := r <> RChunked DTrailer.

Definition RecvCommon (c : call) : Prop :=
  am_req (c_req c) <> None /\ abs_uri (am_eff_uri (c_req c)).

Definition Inv (t : tag) (f : inner) : Prop :=
  NoDup (i_reasons f) /\
  let c := i_call f in
  match t with
  | TPrepare =>
      SendCommon c /\ HolderOK f /\ c_analyzed c = false /\ c_phase c = PLine
  | TSendRequest =>
      SendCommon c /\ HolderOK f
  | TAwait100 =>
      SendCommon c /\ i_holder f = HWithBody /\ WB c /\ c_analyzed c = true /\ c_phase c = PBody
  | TSendBody =>
      SendCommon c /\ i_holder f = HWithBody /\ WB c /\ c_analyzed c = true /\ c_phase c = PBody /\
      i_should_send_body f = true
  | TRecvResponse =>
      RecvCommon c /\ i_holder f = HRecvResponse /\ c_phase c = PRecvResponse /\
      (forall r, c_reader c = Some r -> reader_ok r)
  | TRecvBody =>
      RecvCommon c /\ i_holder f = HRecvBody /\ c_phase c = PRecvBody /\
      (exists r, c_reader c = Some r /\ reader_ok r)
  | TRedirect =>
      (~ Taken f -> abs_uri (am_eff_uri (c_req c))) /\ i_holder f = HRecvBody /\
      c_phase c = PRecvBody /\ is_redirect f = true
  | TCleanup =>
      i_holder f = HRecvBody /\ c_phase c = PRecvBody
  end.

(** Invariant of the single-call objects ([Call<WithoutBody>], [Call<WithBody>], and past the
    request [Call<RecvResponse>], [Call<RecvBody>]: the call-level part of the flow invariant of
    the state of the same name). *)
Definition CallInv (h : holder) (c : call) : Prop :=
  match h with
  | HWithoutBody => SendCommon c
  | HWithBody => SendCommon c /\ WB c
  | HRecvResponse =>
      RecvCommon c /\ c_phase c = PRecvResponse /\ (forall r, c_reader c = Some r -> reader_ok r)
  | HRecvBody =>
      RecvCommon c /\ c_phase c = PRecvBody /\ (exists r, c_reader c = Some r /\ reader_ok r)
  end.

(* ------------------------------------------------------------------ basic consequences *)

Lemma inv_nodup t f : Inv t f -> NoDup (i_reasons f).
Proof. intros [H _]. exact H. Qed.

(** The holder variant matches the state tag. *)
Definition holder_of (t : tag) (h : holder) : Prop :=
  match t with
  | TPrepare | TSendRequest => h = HWithoutBody \/ h = HWithBody
  | TAwait100 | TSendBody => h = HWithBody
  | TRecvResponse => h = HRecvResponse
  | TRecvBody | TRedirect | TCleanup => h = HRecvBody
  end.

Lemma inv_holder t f : Inv t f -> holder_of t (i_holder f).
Proof.
  intros [_ H]. destruct t; cbn in H |- *.
  - destruct H as (_ & [(Hh & _)|(Hh & _)] & _); auto.
  - destruct H as (_ & [(Hh & _)|(Hh & _)]); auto.
  - destruct H as (_ & Hh & _); exact Hh.
  - destruct H as (_ & Hh & _); exact Hh.
  - destruct H as (_ & Hh & _); exact Hh.
  - destruct H as (_ & Hh & _); exact Hh.
  - destruct H as (_ & Hh & _); exact Hh.
  - destruct H as (Hh & _); exact Hh.
Qed.

(** Phase of the call per state. *)
Definition phase_of (t : tag) (p : phase) : Prop :=
  match t with
  | TPrepare => p = PLine
  | TSendRequest => send_phase p = true
  | TAwait100 | TSendBody => p = PBody
  | TRecvResponse => p = PRecvResponse
  | TRecvBody | TRedirect | TCleanup => p = PRecvBody
  end.

Lemma inv_phase t f : Inv t f -> phase_of t (c_phase (i_call f)).
Proof.
  intros [_ H]. destruct t; cbn in H |- *.
  - destruct H as (_ & _ & _ & Hp); exact Hp.
  - destruct H as ((_ & _ & _ & _ & _ & Hp & _) & _); exact Hp.
  - destruct H as (_ & _ & _ & _ & Hp); exact Hp.
  - destruct H as (_ & _ & _ & _ & Hp & _); exact Hp.
  - destruct H as (_ & _ & Hp & _); exact Hp.
  - destruct H as (_ & _ & Hp & _); exact Hp.
  - destruct H as (_ & _ & Hp & _); exact Hp.
  - destruct H as (_ & Hp); exact Hp.
Qed.

(** The request can only have been taken in the two final states. *)
Lemma inv_not_taken t f : Inv t f -> t <> TRedirect -> t <> TCleanup -> ~ Taken f.
Proof.
  intros [_ H] H1 H2. unfold Taken. destruct t; cbn in H; try congruence.
  - destruct H as ((Hn & _) & _); exact Hn.
  - destruct H as ((Hn & _) & _); exact Hn.
  - destruct H as ((Hn & _) & _); exact Hn.
  - destruct H as ((Hn & _) & _); exact Hn.
  - destruct H as ((Hn & _) & _); exact Hn.
  - destruct H as ((Hn & _) & _); exact Hn.
Qed.

(** The reader is set in RecvBody and is not in the Trailer state. *)
Lemma inv_reader f : Inv TRecvBody f -> exists r, c_reader (i_call f) = Some r /\ reader_ok r.
Proof. intros [_ (_ & _ & _ & H)]. exact H. Qed.

(** Redirect is only entered with a recorded 3xx status other than 304. *)
Lemma inv_redirect_status f :
  Inv TRedirect f -> exists s, i_status f = Some s /\ 300 <= s <= 399 /\ s <> 304.
Proof.
  intros [_ (_ & _ & _ & H)]. unfold is_redirect in H.
  destruct (i_status f) as [s|]; [|discriminate]. exists s. split; [reflexivity|].
  apply andb_prop in H. destruct H as [H1 H2]. unfold is_redirection in H1.
  apply andb_prop in H1. destruct H1 as [Ha Hb].
  apply N.leb_le in Ha. apply N.leb_le in Hb.
  destruct (N.eqb_spec s 304); [discriminate|]. lia.
Qed.

(** The body writer of the two body-sending states is usable. *)
Lemma inv_writer t f : Inv t f -> t = TAwait100 \/ t = TSendBody -> w_mode (c_writer (i_call f)) <> SNone.
Proof.
  intros [_ H] [->| ->]; cbn in H.
  - destruct H as (_ & _ & Hw & _); exact Hw.
  - destruct H as (_ & _ & Hw & _); exact Hw.
Qed.

Lemma inv_send_body_due f : Inv TSendBody f -> i_should_send_body f = true.
Proof. intros [_ (_ & _ & _ & _ & _ & H)]. exact H. Qed.

(** Before the head is complete, a body is due exactly when the holder is the with-body variant. *)
Lemma inv_should_holder t f :
  Inv t f -> t = TPrepare \/ t = TSendRequest ->
  (i_should_send_body f = true <-> i_holder f = HWithBody).
Proof.
  intros [_ H] [->| ->]; cbn in H.
  - destruct H as (_ & [(Hh & Hs & _)|(Hh & Hs & _)] & _); rewrite Hh, Hs; split; congruence.
  - destruct H as (_ & [(Hh & Hs & _)|(Hh & Hs & _)]); rewrite Hh, Hs; split; congruence.
Qed.

(** Ghost-free reading of [should_send_body] before the head is out: the method takes a body or
    [send_body_despite_method] was called. *)
Lemma inv_should_request t f :
  Inv t f -> t = TPrepare \/ t = TSendRequest -> i_should_send_body f = body_due (i_call f).
Proof.
  intros [_ H] Ht.
  assert (Hh : HolderOK f) by (destruct Ht as [->| ->]; cbn in H; tauto).
  destruct Hh as [(_ & Hs & _ & Hk & Hn)|(_ & Hs & _ & Hd)].
  - unfold body_due. rewrite Hs, Hk, Hn. reflexivity.
  - rewrite Hs, Hd. reflexivity.
Qed.
