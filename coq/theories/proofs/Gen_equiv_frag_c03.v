(** Part of Gen_equiv_frag (see there), the fragments C03 exports; split so that a change of one fragment disturbs only the property it belongs to. *)
From Coq Require Import NArith ZArith Bool List Lia ZifyBool ZifyN.
From Hoot Require Import Base Chunk Body Url Request Call Gen.
Open Scope N_scope.

Ltac frag := intros; cbv beta delta [gen_sized_write_n gen_chunk_to_write gen_read_limit_n gen_read_unlimit_n gen_chunk_read_n
                                      gen_size_len_end gen_write_overshoot gen_write_after_finish gen_direct_overshoot];
             repeat match goal with |- context [if ?c then _ else _] => destruct c eqn:? end; try reflexivity; lia.

Lemma gen_chunk_to_write_spec i m a : gen_chunk_to_write i m a = N.min (N.min i m) a.         Proof. frag. Qed.

Lemma write_chunk_gen input avail maxc :
  write_chunk input avail maxc =
  let n := gen_chunk_to_write (len input) maxc (max_chunk_fit avail maxc) in
  if n =? 0 then None
  else if len (enc_chunk_n n input) <=? avail then Some (n, enc_chunk_n n input) else None.
Proof. unfold write_chunk. cbv zeta. rewrite ?gen_chunk_to_write_spec. reflexivity. Qed.
