(** Lemmas about [hex_of] (the chunk size line printer): a fuel-free recursive equation, its length on
    the digit ranges, and the round trip through the decoder's size parser [parse_hex_usize]. *)
From Coq Require Import Lia ZArith ZifyN ZifyBool.
From Hoot Require Import Bytes.
From Hoot.proofs Require Import BytesLemmas.
Open Scope N_scope.
Ltac Zify.zify_post_hook ::= Z.div_mod_to_equations.

Lemma hex_aux_S f n acc :
  hex_aux (S f) n acc =
    if n <? 16 then hex_digit n :: acc else hex_aux f (n / 16) (hex_digit (n mod 16) :: acc).
Proof. reflexivity. Qed.

Lemma hex_aux_acc f : forall n acc, hex_aux f n acc = hex_aux f n [] ++ acc.
Proof.
  induction f as [|f IH]; intros n acc; [reflexivity|].
  rewrite !hex_aux_S. destruct (n <? 16); [reflexivity|].
  rewrite IH. rewrite (IH _ [_]). rewrite <- app_assoc. reflexivity.
Qed.

Lemma pow2_succ f : 2 ^ N.of_nat (S f) = 2 * 2 ^ N.of_nat f.
Proof. rewrite Nat2N.inj_succ. apply N.pow_succ_r'. Qed.

(** The result does not depend on the fuel once there is one unit of fuel per bit. *)
Lemma hex_aux_fuel f : forall g n acc,
  n < 2 ^ N.of_nat f -> n < 2 ^ N.of_nat g -> hex_aux (S f) n acc = hex_aux (S g) n acc.
Proof.
  induction f as [|f IH]; intros g n acc Hf Hg.
  - cbn [N.of_nat] in Hf. rewrite N.pow_0_r in Hf. rewrite !hex_aux_S.
    destruct (N.ltb_spec n 16); [reflexivity|lia].
  - rewrite (hex_aux_S (S f)), (hex_aux_S g).
    destruct (N.ltb_spec n 16) as [Hlt|Hge]; [reflexivity|].
    destruct g as [|g].
    + cbn [N.of_nat] in Hg. rewrite N.pow_0_r in Hg. lia.
    + rewrite pow2_succ in Hf, Hg. apply IH; lia.
Qed.

Lemma pos_size_nat_gt p : N.pos p < 2 ^ N.of_nat (Pos.size_nat p).
Proof.
  induction p as [p IH|p IH|]; cbn [Pos.size_nat].
  - rewrite pow2_succ. lia.
  - rewrite pow2_succ. lia.
  - rewrite pow2_succ. cbn [N.of_nat]. rewrite N.pow_0_r. lia.
Qed.

Lemma size_nat_gt n : n < 2 ^ N.of_nat (N.size_nat n).
Proof.
  destruct n as [|p]; cbn [N.size_nat].
  - cbn [N.of_nat]. rewrite N.pow_0_r. lia.
  - apply pos_size_nat_gt.
Qed.

(** Fuel-free recursive equation: the usual most-significant-digit-first printer. *)
Lemma hex_of_eq n :
  hex_of n = if n <? 16 then [hex_digit n] else hex_of (n / 16) ++ [hex_digit (n mod 16)].
Proof.
  unfold hex_of at 1. rewrite hex_aux_S.
  destruct (N.ltb_spec n 16) as [Hlt|Hge]; [reflexivity|].
  rewrite hex_aux_acc. f_equal. unfold hex_of.
  pose proof (size_nat_gt n) as Hs. pose proof (size_nat_gt (n / 16)) as Hs'.
  destruct (N.size_nat n) as [|k].
  - cbn [N.of_nat] in Hs. rewrite N.pow_0_r in Hs. lia.
  - rewrite pow2_succ in Hs. apply hex_aux_fuel; lia.
Qed.

Lemma hex_of_small n : n < 16 -> hex_of n = [hex_digit n].
Proof. intros H. rewrite hex_of_eq. destruct (N.ltb_spec n 16); [reflexivity|lia]. Qed.

Lemma hex_of_big n : 16 <= n -> hex_of n = hex_of (n / 16) ++ [hex_digit (n mod 16)].
Proof. intros H. rewrite hex_of_eq. destruct (N.ltb_spec n 16); [lia|reflexivity]. Qed.

(** Number of hexadecimal digits. *)
Definition hexlen (n : N) : N := len (hex_of n).

Lemma hexlen_small n : n < 16 -> hexlen n = 1.
Proof. intros H. unfold hexlen. rewrite hex_of_small by exact H. reflexivity. Qed.

Lemma hexlen_big n : 16 <= n -> hexlen n = hexlen (n / 16) + 1.
Proof. intros H. unfold hexlen. rewrite (hex_of_big n) by exact H. rewrite len_app. reflexivity. Qed.

(** The digit ranges that matter for chunk sizes (chunks never exceed 65535 bytes). *)
Lemma hexlen_spec n :
  (n < 16 -> hexlen n = 1) /\
  (16 <= n < 256 -> hexlen n = 2) /\
  (256 <= n < 4096 -> hexlen n = 3) /\
  (4096 <= n < 65536 -> hexlen n = 4) /\
  (65536 <= n -> 5 <= hexlen n).
Proof.
  split; [apply hexlen_small|].
  split; [intros H; rewrite hexlen_big by lia; rewrite hexlen_small by lia; reflexivity|].
  split; [intros H; rewrite hexlen_big by lia; rewrite hexlen_big by lia;
          rewrite hexlen_small by lia; reflexivity|].
  split; [intros H; rewrite hexlen_big by lia; rewrite hexlen_big by lia; rewrite hexlen_big by lia;
          rewrite hexlen_small by lia; reflexivity|].
  intros H. rewrite hexlen_big by lia. rewrite hexlen_big by lia. rewrite hexlen_big by lia.
  rewrite hexlen_big by lia.
  assert (1 <= hexlen (n / 16 / 16 / 16 / 16)); [|lia].
  set (m := n / 16 / 16 / 16 / 16). clearbody m.
  destruct (N.lt_ge_cases m 16) as [Hm|Hm].
  - rewrite hexlen_small by exact Hm. lia.
  - rewrite hexlen_big by exact Hm. lia.
Qed.

Lemma hexlen_pos n : 1 <= hexlen n.
Proof.
  destruct (N.lt_ge_cases n 16) as [Hm|Hm].
  - rewrite hexlen_small by exact Hm. lia.
  - rewrite hexlen_big by exact Hm. lia.
Qed.

(** ** Round trip through the decoder's size parser. *)

Lemma hexval_hex_digit d : d < 16 -> hexval (hex_digit d) = Some d.
Proof.
  intros H. unfold hexval, hex_digit, is_digit.
  destruct (N.ltb_spec d 10) as [Hd|Hd].
  - destruct (N.leb_spec 48 (48 + d)); [|lia]. destruct (N.leb_spec (48 + d) 57); [|lia].
    cbn [andb]. f_equal. lia.
  - destruct (N.leb_spec 48 (87 + d)); [|lia]. destruct (N.leb_spec (87 + d) 57); [lia|].
    cbn [andb]. destruct (N.leb_spec 97 (87 + d)); [|lia]. destruct (N.leb_spec (87 + d) 102); [|lia].
    cbn [andb]. f_equal. lia.
Qed.

Lemma hex_digit_ge d : 48 <= hex_digit d.
Proof. unfold hex_digit. destruct (d <? 10); lia. Qed.

Lemma parse_digits_app r dv a : forall b acc,
  parse_digits r dv (a ++ b) acc =
    match parse_digits r dv a acc with Some v => parse_digits r dv b v | None => None end.
Proof.
  induction a as [|x a IH]; intros b acc; cbn [app parse_digits]; [reflexivity|].
  destruct (dv x) as [d|]; [|reflexivity]. cbv zeta.
  destruct (acc * r + d <? U64_LIMIT); [apply IH|reflexivity].
Qed.

Lemma parse_hex_of n : n < U64_LIMIT -> parse_digits 16 hexval (hex_of n) 0 = Some n.
Proof.
  induction n as [n IH] using (well_founded_induction N.lt_wf_0). intros Hn.
  destruct (N.lt_ge_cases n 16) as [Hs|Hb].
  - rewrite hex_of_small by exact Hs. cbn [parse_digits]. rewrite hexval_hex_digit by exact Hs.
    cbv zeta. replace (0 * 16 + n) with n by lia.
    destruct (N.ltb_spec n U64_LIMIT); [reflexivity|lia].
  - rewrite hex_of_big by exact Hb. rewrite parse_digits_app.
    rewrite IH by (unfold U64_LIMIT in *; lia).
    cbn [parse_digits]. rewrite hexval_hex_digit by lia. cbv zeta.
    replace (n / 16 * 16 + n mod 16) with n by lia.
    destruct (N.ltb_spec n U64_LIMIT); [reflexivity|lia].
Qed.

Lemma hex_of_head n : exists d rest, d < 16 /\ hex_of n = hex_digit d :: rest.
Proof.
  induction n as [n IH] using (well_founded_induction N.lt_wf_0).
  destruct (N.lt_ge_cases n 16) as [Hs|Hb].
  - exists n, []. split; [exact Hs|]. apply hex_of_small. exact Hs.
  - destruct (IH (n / 16)) as (d & rest & Hd & E); [lia|].
    exists d, (rest ++ [hex_digit (n mod 16)]). split; [exact Hd|].
    rewrite hex_of_big by exact Hb. rewrite E. reflexivity.
Qed.

Lemma parse_hex_usize_noplus b rest :
  b <> 43 -> parse_hex_usize (b :: rest) = parse_digits 16 hexval (b :: rest) 0.
Proof.
  intros Hb. unfold parse_hex_usize.
  destruct b as [|p]; [reflexivity|].
  do 7 (try (destruct p as [p|p|]; try reflexivity; try congruence)).
Qed.

(** The size line printed by the encoder is read back by the decoder's size parser. *)
Lemma hex_roundtrip n : n < U64_LIMIT -> parse_hex_usize (hex_of n) = Some n.
Proof.
  intros Hn. destruct (hex_of_head n) as (d & rest & Hd & E).
  rewrite <- (parse_hex_of n Hn). rewrite E. apply parse_hex_usize_noplus.
  pose proof (hex_digit_ge d). lia.
Qed.

(** Every byte of a size line is a hexadecimal digit (so it contains no CR, LF, ';' or space). *)
Lemma hex_digit_range d : d < 16 ->
  (48 <= hex_digit d <= 57) \/ (97 <= hex_digit d <= 102).
Proof. intros H. unfold hex_digit. destruct (N.ltb_spec d 10); lia. Qed.

Lemma hex_of_digits n : Forall (fun b => (48 <= b <= 57) \/ (97 <= b <= 102)) (hex_of n).
Proof.
  induction n as [n IH] using (well_founded_induction N.lt_wf_0).
  destruct (N.lt_ge_cases n 16) as [Hs|Hb].
  - rewrite hex_of_small by exact Hs. constructor; [|constructor]. apply hex_digit_range. exact Hs.
  - rewrite hex_of_big by exact Hb. apply Forall_app. split; [apply IH; lia|].
    constructor; [|constructor]. apply hex_digit_range. lia.
Qed.
