(** src/client/call.rs Call<WithoutBody>::into_send_body, translated (Gen2.gen_into_send_body), against the model. *)
From Coq Require Import NArith Bool List String.
From Hoot Require Import Base Chunk Body Request Call Flow GenLib Gen Gen2.
Open Scope N_scope.

(** Call<WithoutBody>::into_send_body (send_body_despite_method): the model's [into_send_body] -- refused (assert!) once the request
    was analysed; otherwise the method check is switched off and the writer becomes the chunked default; nothing else changes. *)
Theorem gen_into_send_body_eq c :
  match into_send_body c, gen_into_send_body (c_analyzed c) (c_skip c) (c_writer c) with
  | Ok c', Ok (skip', w', _) =>
      c_skip c' = skip' /\ c_writer c' = w' /\ c_req c' = c_req c /\ c_analyzed c' = c_analyzed c /\ c_phase c' = c_phase c /\
      c_reader c' = c_reader c /\ c_stop c' = c_stop c
  | Panic _, Panic _ => True
  | _, _ => False
  end.
Proof.
  unfold into_send_body, gen_into_send_body. destruct (c_analyzed c); cbn [negb]; [exact I|].
  cbn. repeat split; reflexivity.
Qed.
