(** Transport lemmas, chunked readers only. *)
From Coq Require Import Lia.
From Hoot Require Import Base Chunk Body GenLib Gen Gen2.
From Hoot.proofs Require Import BytesLemmas Gen2_equiv_rel Gen2_equiv_reader_chunked.
Open Scope N_scope.

Lemma gen_read_chunked_ok_of_model : forall d src dst stop r' i out,
  reader_read (RChunked d) src (len dst) stop = Ok (r', i, out) ->
  gen_br_read (RChunked d) src dst stop = Ok (r', out ++ drop (len out) dst, (i, len out)).
Proof.
  intros d src dst stop r' i out Hm.
  pose proof (gen_br_read_on_chunked d src dst stop) as H. rewrite Hm in H. unfold rd_rel in H.
  destruct (gen_br_read (RChunked d) src dst stop) as [[[r1 d1] [i1 o1]]|e|s]; try contradiction.
  destruct H as (-> & -> & -> & ->). reflexivity.
Qed.
Lemma gen_read_chunked_panic_only_if_model : forall d src dst stop s,
  gen_br_read (RChunked d) src dst stop = Panic s -> exists s', reader_read (RChunked d) src (len dst) stop = Panic s'.
Proof.
  intros d src dst stop s Hg.
  pose proof (gen_br_read_on_chunked d src dst stop) as H. rewrite Hg in H. unfold rd_rel in H.
  destruct (reader_read (RChunked d) src (len dst) stop) as [[[r2 i2] o2]|e|s']; try contradiction. eauto.
Qed.
