(** (decision tables of src/ext.rs) The functions translated from the Rust sources by tools/rs2coq.py (theories/Gen.v, regenerated on every run)
    equal the corresponding functions of the hand-written model, for ALL arguments.  These equalities are what ties
    the model to the code by proof rather than by sampling for the decision tables of src/ext.rs and the integer
    arithmetic of src/body.rs; the property files that depend on them re-export them. *)
From Coq Require Import NArith ZArith Bool List Lia ZifyBool ZifyN.
From Hoot Require Import Base Body Url Request Call Flow Gen.
Open Scope N_scope.

Lemma gen_is_http10_eq m : gen_is_http10 m = is_http10 m.
Proof. destruct m; reflexivity. Qed.

Lemma gen_is_http11_eq m : gen_is_http11 m = is_http11 m.
Proof. destruct m; reflexivity. Qed.

Lemma gen_need_request_body_eq m : gen_need_request_body m = need_request_body m.
Proof. destruct m; reflexivity. Qed.

Lemma gen_verify_version_eq m v : gen_verify_version m v = verify_version m v.
Proof. destruct m, v; reflexivity. Qed.

Lemma gen_is_retaining_eq s : gen_is_retaining s = is_retaining s.
Proof.
  first [ reflexivity
        | unfold gen_is_retaining, is_retaining;
          repeat (try reflexivity; try lia; match goal with |- context [if ?c then _ else _] => destruct c eqn:? | |- context [?a =? ?b] => destruct (a =? b) eqn:?
                                                  | |- context [?a <=? ?b] => destruct (a <=? b) eqn:? | |- context [?a <? ?b] => destruct (a <? b) eqn:? end);
          try reflexivity; lia ].
Qed.

