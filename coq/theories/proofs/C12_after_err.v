(** C12, part 3b: calls made AFTER A FAILED BODY READ, from the real post-error state.

    The Rust [Dechunker] is mutated in place, so when [RecvBody::read] returns an error the flow the
    caller holds afterwards is not the flow it had: the chunked decoder stays in the state it had
    reached at the failing transition ([recv_body_after_err], Flow.v; what [Script.do_read] continues
    from).  Here: that state again satisfies the preconditions of the C12 flow-level theorems (holder
    RecvBody, reader present and between calls, same close reasons), it is in fact a chunked reader in
    [DSize] or [DCrLf]; and any schedule of reads and stop-flag changes that carries on through errors
    in this way is panic-free with bounded counts.  (General facts: proofs/AfterErr.v.) *)
From Coq Require Import Lia ZArith.
From Hoot Require Import Base Chunk Body Httparse Parser Url Request Call Flow.
From Hoot.proofs Require Import BytesLemmas AfterErr C12_chunk C12_flow.
Open Scope N_scope.

(** The two formulations of "between-calls reader" (C09_inv: [r <> RChunked DTrailer]; C12_chunk:
    [dech_ok] for a chunked reader) agree. *)
Lemma reader_ok_c09 r : C09_inv.reader_ok r <-> C12_chunk.reader_ok r.
Proof.
  unfold C09_inv.reader_ok, C12_chunk.reader_ok, dech_ok. split.
  - intros H. destruct r as [|n|d|]; try exact I. intros ->. apply H. reflexivity.
  - intros H E. subst r. apply H. reflexivity.
Qed.

(** The reader after a failed read is a between-calls reader of the same kind. *)
Theorem reader_after_err_ok12 r w cap stop :
  reader_ok r -> reader_ok (reader_after_err r w cap stop) /\
  reader_mode (reader_after_err r w cap stop) = reader_mode r.
Proof.
  intros H. split; [|apply reader_after_err_mode].
  apply reader_ok_c09. apply reader_after_err_ok. apply reader_ok_c09. exact H.
Qed.

(** A failed [read_chunked] from a between-calls state leaves the decoder in Size or in CrLf. *)
Theorem after_error_decoder d w cap stop e :
  d <> DTrailer -> read_chunked d w cap stop = Err e ->
  reader_after_err (RChunked d) w cap stop = RChunked DSize \/
  reader_after_err (RChunked d) w cap stop = RChunked DCrLf.
Proof.
  intros Hd He. apply (reader_after_err_cases (RChunked d) w cap stop e).
  - cbn [reader_read]. rewrite He. reflexivity.
  - intros E. inversion E. contradiction.
Qed.

(** The flow after [recv_body_read] failed, whatever the window: only the reader of the call may
    differ, and it is a between-calls reader of the same kind.  (No assumption that the read did
    fail is needed for this part.) *)
Lemma recv_body_after_err_pre f r w cap :
  i_holder f = HRecvBody -> c_reader (i_call f) = Some r -> reader_ok r ->
  exists r', recv_body_after_err f w cap = set_call f (set_reader (i_call f) (Some r')) /\
             reader_ok r' /\ reader_mode r' = reader_mode r.
Proof.
  intros Hh Hr Hok. exists (reader_after r w cap (c_stop (i_call f))). split; [|split].
  - rewrite recv_body_after_err_eq. rewrite (recv_body_after_err_reader f w cap Hh), Hr. reflexivity.
  - apply reader_ok_c09. apply reader_after_ok. apply reader_ok_c09. exact Hok.
  - apply reader_after_mode.
Qed.

(** The real post-error state satisfies the preconditions of [recv_body_read_safe],
    [body_run_safe_all], [then_proceed_body] again; the reader is chunked and waits for a size line
    or for the CRLF behind a chunk (the two transitions that can fail); nothing else changed. *)
Theorem after_error_state f r w cap e :
  i_holder f = HRecvBody -> c_reader (i_call f) = Some r -> reader_ok r ->
  recv_body_read f w cap = Err e ->
  exists r',
    recv_body_after_err f w cap = set_call f (set_reader (i_call f) (Some r')) /\
    (r' = RChunked DSize \/ r' = RChunked DCrLf) /\
    i_holder (recv_body_after_err f w cap) = HRecvBody /\
    c_reader (i_call (recv_body_after_err f w cap)) = Some r' /\
    reader_ok r' /\
    i_reasons (recv_body_after_err f w cap) = i_reasons f.
Proof.
  intros Hh Hr Hok He.
  assert (Hall : forall r0, c_reader (i_call f) = Some r0 -> C09_inv.reader_ok r0).
  { intros r0 Hr0. rewrite Hr in Hr0. inversion Hr0; subst. apply reader_ok_c09. exact Hok. }
  assert (Hc : exists r', c_reader (i_call (recv_body_after_err f w cap)) = Some r' /\
                          (r' = RChunked DSize \/ r' = RChunked DCrLf)).
  { destruct (recv_body_after_err_reader_cases f w cap e He Hall) as [E|E]; eauto. }
  destruct Hc as (r' & Er' & Hcase). exists r'.
  split; [rewrite recv_body_after_err_eq, Er'; reflexivity|].
  split; [exact Hcase|].
  split; [rewrite recv_body_after_err_holder; exact Hh|].
  split; [exact Er'|].
  split; [destruct Hcase as [-> | ->]; cbn; unfold dech_ok; discriminate|].
  apply recv_body_after_err_reasons.
Qed.

(* ------------------------------------------------------------------ schedules through errors *)

(** Reads with arbitrary windows and capacities, interleaved with changes of the stop flag, for any
    number of operations; after a read that fails the caller goes on with the flow as the failed call
    left it (exactly what [Script.do_read] does).  [body_run_through_errors] says: no call panics,
    and every successful read reports counts within its window and output space, the output being an
    in-order copy of consumed bytes. *)
Fixpoint body_run_through_errors (f : inner) (ops : list body_op) : Prop :=
  match ops with
  | [] => True
  | BRead w cap :: rest =>
      match recv_body_read f w cap with
      | Panic _ => False
      | Err _ => body_run_through_errors (recv_body_after_err f w cap) rest
      | Ok (f', i, out) =>
          i <= len w /\ len out <= cap /\ subseq out (take i w) /\ body_run_through_errors f' rest
      end
  | BStop b :: rest =>
      match recv_body_stop f b with
      | Ok f' => body_run_through_errors f' rest
      | _ => False
      end
  end.

Theorem body_run_through_errors_all ops : forall f r,
  i_holder f = HRecvBody -> c_reader (i_call f) = Some r -> reader_ok r -> body_run_through_errors f ops.
Proof.
  induction ops as [|[w cap|b] rest IH]; intros f r Hh Hr Hok; cbn [body_run_through_errors]; [exact I| |].
  - pose proof (recv_body_read_safe f r w cap Hh Hr Hok) as H.
    destruct (recv_body_read f w cap) as [[[f' i] out]|e|s]; [| |exact H].
    + destruct H as (H1 & H2 & H3 & r' & -> & H4). repeat split; try assumption.
      apply (IH _ r'); [exact Hh|reflexivity|exact H4].
    + destruct (recv_body_after_err_pre f r w cap Hh Hr Hok) as (r' & -> & Hok' & _).
      apply (IH _ r'); [exact Hh|reflexivity|exact Hok'].
  - destruct (recv_body_stop_safe f r b Hh Hr) as (f' & E & Hh' & Hr' & _). rewrite E.
    apply (IH f' r); assumption.
Qed.

(** The special case asked for in the property text: a list of (window, capacity) reads. *)
Fixpoint reads_through_errors (f : inner) (sched : list (bytes * N)) : Prop :=
  match sched with
  | [] => True
  | (w, cap) :: rest =>
      match recv_body_read f w cap with
      | Panic _ => False
      | Err _ => reads_through_errors (recv_body_after_err f w cap) rest
      | Ok (f', i, out) =>
          i <= len w /\ len out <= cap /\ subseq out (take i w) /\ reads_through_errors f' rest
      end
  end.

Lemma reads_as_body_ops sched : forall f,
  body_run_through_errors f (map (fun x => BRead (fst x) (snd x)) sched) -> reads_through_errors f sched.
Proof.
  induction sched as [|[w cap] rest IH]; intros f H; cbn [reads_through_errors]; [exact I|].
  cbn [map body_run_through_errors fst snd] in H.
  destruct (recv_body_read f w cap) as [[[f' i] out]|e|s]; [| |exact H].
  - destruct H as (H1 & H2 & H3 & H4). repeat split; try assumption. apply IH. exact H4.
  - apply IH. exact H.
Qed.

Theorem reads_through_errors_all sched f r :
  i_holder f = HRecvBody -> c_reader (i_call f) = Some r -> reader_ok r -> reads_through_errors f sched.
Proof.
  intros Hh Hr Hok. apply reads_as_body_ops. apply (body_run_through_errors_all _ f r); assumption.
Qed.

(* ------------------------------------------------------------------ read, then proceed *)

(** After a body read -- success or error -- [proceed] does not panic; after an error the flow is the
    real post-error flow. *)
Theorem then_proceed_body_real f r w cap :
  i_holder f = HRecvBody -> c_reader (i_call f) = Some r -> reader_ok r ->
  let f1 := match recv_body_read f w cap with
            | Ok (f', _, _) => f'
            | _ => recv_body_after_err f w cap
            end in
  match recv_body_proceed f1 with
  | Panic _ => False
  | Err _ => False
  | Ok None => True
  | Ok (Some (t, f2)) => f2 = f1 /\ ((t = TRedirect /\ is_redirect f1 = true) \/ t = TCleanup)
  end.
Proof.
  intros Hh Hr Hok. cbv zeta. pose proof (recv_body_read_safe f r w cap Hh Hr Hok) as H.
  assert (H1 : exists f1 r1, (match recv_body_read f w cap with
                              | Ok (f', _, _) => f'
                              | _ => recv_body_after_err f w cap
                              end) = f1 /\
                             i_holder f1 = HRecvBody /\ c_reader (i_call f1) = Some r1).
  { destruct (recv_body_after_err_pre f r w cap Hh Hr Hok) as (ra & Ea & _).
    destruct (recv_body_read f w cap) as [[[f' i] o]|e|s].
    - destruct H as (_ & _ & _ & r' & -> & _). exists (set_call f (set_reader (i_call f) (Some r'))), r'.
      cbn. auto.
    - exists (recv_body_after_err f w cap), ra. rewrite Ea. cbn. auto.
    - contradiction. }
  destruct H1 as (f1 & r1 & -> & Hh1 & Hr1).
  pose proof (recv_body_proceed_safe f1 r1 Hh1 Hr1) as Hp.
  destruct (recv_body_proceed f1) as [[[t f2]|]|e|s]; try exact Hp. exact I.
Qed.
