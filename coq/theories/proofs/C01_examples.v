(** C01 (part 6): boolean checkers for the side conditions (sound), and a concrete exchange:
    POST (chunked by default) with Expect: 100-continue, the server sends 100 Continue, then
    200 with a chunked body of two chunks, then the first bytes of a next response. *)
From Coq Require Import Lia ZArith List.
From Hoot Require Import Base Chunk Body Httparse Parser Url Request Call Flow Script.
From Hoot.proofs Require Import BytesLemmas Reasons C17_proofs C02_proofs C05_spec C20_proofs C05_proofs
                                C05_examples C07_spec C07_proofs C11_proofs C11_examples
                                C01_defs C01_start C01_send C01_recv C01_main.
Open Scope N_scope.

(* ------------------------------------------------------------------ checkers *)

Definition recv_or_later_b (s : sstate) : bool :=
  match s_obj s with
  | ObFlow TRecvResponse _ | ObFlow TRecvBody _ | ObFlow TRedirect _ | ObFlow TCleanup _ => true
  | _ => false
  end.

Definition head_pending_b (s : sstate) : bool :=
  match s_obj s with
  | ObFlow TRecvResponse f => match recv_response_can_proceed f with Ok false => true | _ => false end
  | _ => true
  end.

Definition known_b (x : exch) (s : sstate) : bool :=
  (len (window s) <? len (x_H x)) &&
  is_redirection (rh_status (x_head x)) && location_seen (x_head x) (window s).

Definition allowed_b (x : exch) (s : sstate) (o : op) : bool :=
  sched_op o &&
  match o with
  | OArrive k => recv_or_later_b s || (N.min (len (s_stream s)) (s_arrived s + k) <=? x_off x + len (x_h100 x))
  | OWriteFrom t _ => (1 <=? t) || (s_sent s =? len (s_body s))
  | OTryResponse => head_pending_b s && negb (known_b x s)
  | _ => true
  end.

Fixpoint allowed_run_b (x : exch) (s : sstate) (ops : list op) : bool :=
  match ops with
  | [] => true
  | o :: t => allowed_b x s o && allowed_run_b x (fst (step s o)) t
  end.

Definition complete_b (x : exch) (s : sstate) : bool :=
  match s_obj s with ObFlow TRedirect _ | ObFlow TCleanup _ => true | _ => false end &&
  match x_rd0 x with RClose => s_consumed s =? len (x_stream x) | _ => true end.

Lemma allowed_b_sound x s o : allowed_b x s o = true -> allowed x s o.
Proof.
  unfold allowed_b, allowed. intros H. apply Bool.andb_true_iff in H. destruct H as [H1 H2].
  split; [exact H1|]. destruct o; try exact I.
  - apply Bool.orb_true_iff in H2. destruct H2 as [H2|H2]; [left; apply N.leb_le; exact H2|right; apply N.eqb_eq; exact H2].
  - apply Bool.orb_true_iff in H2. destruct H2 as [H2|H2]; [left|right; apply N.leb_le; exact H2].
    unfold recv_or_later_b, recv_or_later in *. destruct (s_obj s) as [|t f|h c]; try discriminate.
    destruct t; try discriminate; exact I.
  - apply Bool.andb_true_iff in H2. destruct H2 as [Hp Hk]. split.
    + unfold head_pending_b, head_pending in *. destruct (s_obj s) as [|t f|h c]; try exact I.
      destruct t; try exact I. destruct (recv_response_can_proceed f) as [[|]| |]; try discriminate. reflexivity.
    + intros (y & Hy & Hsplit & Hr & Hl). unfold known_b in Hk. rewrite Hr, Hl in Hk.
      assert (Hlt : (len (window s) <? len (x_H x)) = true).
      { apply N.ltb_lt. rewrite Hsplit, len_app. destruct y; [congruence|]. rewrite len_cons. lia. }
      rewrite Hlt in Hk. discriminate.
Qed.

Lemma allowed_run_b_sound x : forall ops s, allowed_run_b x s ops = true -> allowed_run x s ops.
Proof.
  induction ops as [|o t IH]; intros s H; [exact I|].
  cbn [allowed_run_b] in H. apply Bool.andb_true_iff in H. destruct H as [H1 H2].
  split; [apply allowed_b_sound; exact H1|apply IH; exact H2].
Qed.

Lemma complete_b_sound x s : complete_b x s = true -> complete x s.
Proof.
  unfold complete_b, complete. intros H. apply Bool.andb_true_iff in H. destruct H as [H1 H2]. split.
  - destruct (s_obj s) as [|t f|h c]; try discriminate. destruct t; try discriminate; exact I.
  - intros E. rewrite E in H2. apply N.eqb_eq. exact H2.
Qed.

(* ------------------------------------------------------------------ the concrete exchange *)

Definition ex_req : request :=
  {| rq_method := POST; rq_version := V11;
     rq_uri := {| u_scheme := s2b "http"; u_auth := s2b "a.test"; u_pq := s2b "/up" |};
     rq_headers := [(s2b "expect", s2b "100-continue")] |}.

Definition head200 : resp_head :=
  {| rh_version := 1; rh_status := 200; rh_reason := Some (s2b "OK");
     rh_fields := [ {| f_name := s2b "Transfer-Encoding"; f_ows1 := [32]; f_value := s2b "chunked"; f_ows2 := [] |} ] |}.

Definition ex_coding : coding :=
  {| cd_chunks := [ {| ck_line := s2b "3"; ck_data := s2b "abc" |}; {| ck_line := s2b "2"; ck_data := s2b "de" |} ];
     cd_last := s2b "0"; cd_trailers := [] |}.

Definition ex_x : exch :=
  {| x_pre := []; x_req := ex_req; x_despite := false; x_body := s2b "hello";
     x_h100 := render_response_head head100; x_head := head200; x_coding := ex_coding;
     x_wire := enc ex_coding; x_rest := s2b "HTTP/1.1 204" |}.

Lemma head200_wf : wf_resp_head head200.
Proof.
  unfold wf_resp_head, head200. cbn [rh_version rh_status rh_reason rh_fields].
  split; [right; reflexivity|]. split; [lia|]. split; [reflexivity|].
  repeat constructor; wf_field_tac.
Qed.

Lemma ex_coding_valid : valid ex_coding /\ line_limit_F17 ex_coding.
Proof.
  split.
  - unfold valid, ex_coding; cbn [cd_chunks cd_last cd_trailers]. split; [|split; [|split]].
    + constructor; [|constructor; [|constructor]]; unfold valid_chunk; cbn [ck_line ck_data].
      * split; [apply cr_free_b; reflexivity|]. split; [|vm_compute; reflexivity].
        size_line_tac (s2b "3") (@nil N) (@nil N).
      * split; [apply cr_free_b; reflexivity|]. split; [|vm_compute; reflexivity].
        size_line_tac (s2b "2") (@nil N) (@nil N).
    + apply cr_free_b; reflexivity.
    + size_line_tac (s2b "0") (@nil N) (@nil N).
    + constructor.
  - unfold line_limit_F17, ex_coding; cbn [cd_chunks cd_last]. split.
    + repeat constructor; vm_compute; discriminate.
    + vm_compute; discriminate.
Qed.

Lemma ex_wf : WfX ex_x.
Proof.
  unfold WfX.
  split; [discriminate|]. split; [vm_compute; reflexivity|]. split; [vm_compute; reflexivity|].
  split; [intros H; vm_compute in H; discriminate|].
  split; [intros n H; vm_compute in H; discriminate|].
  split.
  { right. split; [vm_compute; reflexivity|]. exists head100.
    split; [exact head100_wf|]. split; [reflexivity|]. split; reflexivity. }
  split; [exact head200_wf|]. split; [cbn; discriminate|]. split; [cbn; lia|].
  assert (Hrd : x_framing ex_x = Ok (RChunked DSize)) by (vm_compute; reflexivity).
  assert (Hrd0 : x_rd0 ex_x = RChunked DSize) by (unfold x_rd0; rewrite Hrd; reflexivity).
  split; [rewrite Hrd0; exact Hrd|].
  unfold wire_ok. rewrite Hrd0. split; [reflexivity|]. exact ex_coding_valid.
Qed.

(** Schedule 1: everything at once, big buffers; the 100 is awaited and consumed in Await100. *)
Definition sched_big : list op :=
  [OProceed; OWriteHead 1000; OProceed; OQKeepAwait; OArrive 25; OTry100; OQKeepAwait; OProceed;
   OWriteFrom 100 1000; OWriteFrom 0 1000; OProceed;
   OArrive 1000; OTryResponse; OQCanProceed; OProceed; OQBodyMode; ORead 1000; OProceed; OQMustClose].

(** Schedule 2: head written line by line (first attempt too small), the caller gives up waiting
    for the 100 (which then arrives late and is skipped in RecvResponse), body sent in 1..2 byte
    pieces into 7..8 byte buffers, the terminator first refused for lack of room; then the server
    bytes arrive ONE AT A TIME, each followed by a try_response / a one-byte read. *)
Fixpoint rep (n : nat) (l : list op) : list op :=
  match n with O => [] | S m => l ++ rep m l end.

Definition sched_tiny : list op :=
  [OProceed; OWriteHead 5; OWriteHead 20; OQCanProceed; OWriteHead 14; OWriteHead 27; OWriteHead 28;
   OWriteHead 24; OProceed; OTry100; OProceed;
   OWriteFrom 1 7; OQIsChunked; OWriteFrom 2 8; OWriteFrom 2 5; OWriteFrom 2 8; OWriteFrom 0 4; OWriteFrom 0 5;
   OProceed]
  ++ rep 72 [OArrive 1; OTryResponse] ++ [OProceed; OStop true]
  ++ rep 32 [OArrive 1; OQBoundary; ORead 1] ++ [OProceed; OQCloseReason].

Definition ex_outcome : outcome :=
  {| o_head := s2b "POST /up HTTP/1.1" ++ CRLF ++ s2b "host: a.test" ++ CRLF ++
               s2b "transfer-encoding: chunked" ++ CRLF ++ s2b "expect: 100-continue" ++ CRLF ++ CRLF;
     o_sent := 5; o_payload := s2b "hello";
     o_resp := [response_of head200]; o_rbody := s2b "abcde";
     o_term := Some TCleanup; o_must_close := false; o_close_reason := None;
     o_consumed := 25 + 47 + 20 |}.

Lemma ex_runs :
  x_pre ex_x = [] /\
  allowed_run_b ex_x (start ex_x) sched_big = true /\
  allowed_run_b ex_x (start ex_x) sched_tiny = true /\
  complete_b ex_x (fst (irun (start ex_x) acc0 sched_big)) = true /\
  complete_b ex_x (fst (irun (start ex_x) acc0 sched_tiny)) = true /\
  outcome_of (fst (irun (start ex_x) acc0 sched_big)) (snd (irun (start ex_x) acc0 sched_big)) = ex_outcome /\
  outcome_of (fst (irun (start ex_x) acc0 sched_tiny)) (snd (irun (start ex_x) acc0 sched_tiny)) = ex_outcome /\
  spec_outcome ex_x = ex_outcome /\
  (* the two schedules emit DIFFERENT chunkings of the same payload *)
  a_body (snd (irun (start ex_x) acc0 sched_big)) = s2b "5" ++ CRLF ++ s2b "hello" ++ CRLF ++ s2b "0" ++ CRLF ++ CRLF /\
  a_body (snd (irun (start ex_x) acc0 sched_tiny)) =
    s2b "1" ++ CRLF ++ s2b "h" ++ CRLF ++ s2b "2" ++ CRLF ++ s2b "el" ++ CRLF ++
    s2b "2" ++ CRLF ++ s2b "lo" ++ CRLF ++ s2b "0" ++ CRLF ++ CRLF /\
  (* the unconsumed rest is the next response *)
  drop (s_consumed (fst (irun (start ex_x) acc0 sched_tiny))) (x_stream ex_x) = s2b "HTTP/1.1 204".
Proof. vm_compute. repeat split. Qed.

(* ------------------------------------------------------------------ a second exchange: redirect, sized body, HTTP/1.0 *)

Definition ex2_req : request :=
  {| rq_method := GET; rq_version := V10;
     rq_uri := {| u_scheme := s2b "http"; u_auth := s2b "a.test"; u_pq := s2b "/old" |};
     rq_headers := [] |}.

Definition head301 : resp_head :=
  {| rh_version := 0; rh_status := 301; rh_reason := Some (s2b "Moved");
     rh_fields := [ {| f_name := s2b "Location"; f_ows1 := [32]; f_value := s2b "/new"; f_ows2 := [] |};
                    {| f_name := s2b "Content-Length"; f_ows1 := [32]; f_value := s2b "2"; f_ows2 := [] |} ] |}.

Definition ex2_x : exch :=
  {| x_pre := []; x_req := ex2_req; x_despite := false; x_body := [];
     x_h100 := []; x_head := head301; x_coding := ex_coding;
     x_wire := s2b "ok"; x_rest := s2b "HTTP/1.0 200" |}.

Lemma head301_wf : wf_resp_head head301.
Proof.
  unfold wf_resp_head, head301. cbn [rh_version rh_status rh_reason rh_fields].
  split; [left; reflexivity|]. split; [lia|]. split; [reflexivity|].
  repeat constructor; wf_field_tac.
Qed.

Lemma ex2_wf : WfX ex2_x.
Proof.
  unfold WfX.
  split; [discriminate|]. split; [vm_compute; reflexivity|]. split; [vm_compute; reflexivity|].
  split; [intros _; reflexivity|].
  split; [intros n H; vm_compute in H; discriminate|].
  split; [left; reflexivity|].
  split; [exact head301_wf|]. split; [cbn; discriminate|]. split; [cbn; lia|].
  assert (Hrd : x_framing ex2_x = Ok (RLength 2)) by (vm_compute; reflexivity).
  assert (Hrd0 : x_rd0 ex2_x = RLength 2) by (unfold x_rd0; rewrite Hrd; reflexivity).
  split; [rewrite Hrd0; exact Hrd|].
  unfold wire_ok. rewrite Hrd0. reflexivity.
Qed.

Definition sched2_a : list op :=
  [OProceed; OWriteHead 1000; OProceed; OArrive 1000; OTryResponse; OProceed; ORead 10; OProceed;
   OQStatus; OQMustClose].

Definition sched2_b : list op :=
  [OProceed; OWriteHead 17; OWriteHead 19; OQCanProceed; OWriteHead 100; OProceed;
   OArrive 10; OTryResponse; OArrive 1000; OTryResponse; OProceed; ORead 1; OQCanProceed; ORead 1;
   OProceed; OProceed].

Lemma ex2_runs :
  allowed_run_b ex2_x (start ex2_x) sched2_a = true /\
  allowed_run_b ex2_x (start ex2_x) sched2_b = true /\
  complete_b ex2_x (fst (irun (start ex2_x) acc0 sched2_a)) = true /\
  complete_b ex2_x (fst (irun (start ex2_x) acc0 sched2_b)) = true /\
  (* one run stops in Redirect, the other went on to Cleanup ... *)
  term_of (s_obj (fst (irun (start ex2_x) acc0 sched2_a))) = Some TRedirect /\
  term_of (s_obj (fst (irun (start ex2_x) acc0 sched2_b))) = Some TCleanup /\
  (* ... with the same outcome *)
  outcome_of (fst (irun (start ex2_x) acc0 sched2_a)) (snd (irun (start ex2_x) acc0 sched2_a)) = spec_outcome ex2_x /\
  outcome_of (fst (irun (start ex2_x) acc0 sched2_b)) (snd (irun (start ex2_x) acc0 sched2_b)) = spec_outcome ex2_x /\
  o_term (spec_outcome ex2_x) = Some TRedirect /\
  o_must_close (spec_outcome ex2_x) = true /\
  o_close_reason (spec_outcome ex2_x) = Some (explain Http10) /\
  o_rbody (spec_outcome ex2_x) = s2b "ok" /\
  o_consumed (spec_outcome ex2_x) = len (x_H ex2_x) + 2.
Proof. vm_compute. repeat split. Qed.
