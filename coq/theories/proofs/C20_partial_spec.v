(** C05 / C20: the two places where the specification side still used a model function ([until_empty_value] of
    Parser.v, in [partial_response_of] and in [KnownClass]) restated with a specification-side function on field
    records, and the partial parser's report expressed through the independent header-map characterisation. *)
From Coq Require Import Lia ZArith Permutation.
From Hoot Require Import Base Chunk Body Httparse Parser Url Request Call.
From Hoot.proofs Require Import BytesLemmas C05_stable C05_spec C05_roundtrip C20_proofs C05_proofs C05_hmap
                                C05_rfc_bytes C05_more.
Open Scope N_scope.

(** The fields before the first one whose value is empty (where src/parser.rs stops copying). *)
Fixpoint fields_before_empty (fs : list field) : list field :=
  match fs with
  | [] => []
  | f :: t => match f_value f with [] => [] | _ => f :: fields_before_empty t end
  end.

Lemma until_empty_headers_of fs : until_empty_value (headers_of fs) = headers_of (fields_before_empty fs).
Proof.
  induction fs as [|f t IH]; [reflexivity|].
  cbn [headers_of map until_empty_value fields_before_empty field_header snd].
  destruct (f_value f); [reflexivity|]. cbn [headers_of map]. f_equal. exact IH.
Qed.

(** What the partial parser reports for a list [fs] of complete fields: version, status, and for every name the
    values of the fields of that name among those before the first empty-valued one, in order; iterating gives
    exactly those fields. *)
Theorem partial_response_values h fs :
  rs_version (partial_response_of h fs) = rh_version h /\ rs_status (partial_response_of h fs) = rh_status h /\
  (forall k, hm_get_all (rs_headers (partial_response_of h fs)) k =
             map f_value (fields_called k (fields_before_empty fs))) /\
  Permutation (hm_iter (rs_headers (partial_response_of h fs))) (map norm_field (fields_before_empty fs)).
Proof.
  split; [reflexivity|]. split; [reflexivity|]. cbn [partial_response_of rs_headers].
  rewrite until_empty_headers_of. split.
  - intros k. rewrite hm_get_all_of_list. apply fields_named_headers_of.
  - rewrite <- norm_headers_of. apply hm_iter_of_list_perm.
Qed.

(** The known class of C05 (F10) without model functions: a 3xx head cut where a Location field is among the
    complete field lines, before the first empty-valued one. *)
Theorem known_class_spec h p :
  KnownClass h p <->
  300 <= rh_status h <= 399 /\
  fields_called (s2b "location") (fields_before_empty (complete_fields h p)) <> [].
Proof.
  unfold KnownClass, location_seen, is_redirection. rewrite until_empty_headers_of.
  assert (He : forall fs,
            existsb (fun hd : header => beq_bytes (s2b "location") (lower (fst hd))) (headers_of fs) = true <->
            fields_called (s2b "location") fs <> []).
  { intros fs. unfold fields_called, headers_of. induction fs as [|f t IH]; cbn [map existsb filter field_header fst].
    - split; [discriminate|congruence].
    - destruct (beq_bytes (s2b "location") (lower (f_name f))); cbn [orb]; [split; [discriminate|reflexivity]|exact IH]. }
  rewrite He. rewrite Bool.andb_true_iff, N.leb_le, N.leb_le. tauto.
Qed.

(** Whatever the partial parser reports on a prefix [p] of a well-formed head is exactly that, for the fields whose
    lines are complete in [p]. *)
Theorem partial_response_reports slots h p x r :
  wf_resp_head h -> render_response_head h = p ++ x ->
  (List.length (complete_fields h p) <= slots)%nat ->
  try_parse_partial_response slots p = Ok (Some r) ->
  rs_version r = rh_version h /\ rs_status r = rh_status h /\
  (forall k, hm_get_all (rs_headers r) k =
             map f_value (fields_called k (fields_before_empty (complete_fields h p)))) /\
  Permutation (hm_iter (rs_headers r)) (map norm_field (fields_before_empty (complete_fields h p))).
Proof.
  intros Hwf Hp Hn H.
  destruct (partial_response_sound_strong slots h p x Hwf Hp Hn) as [[H0 _]|H1].
  - rewrite H0 in H. discriminate.
  - rewrite H1 in H. inversion H; subst r. apply partial_response_values.
Qed.
