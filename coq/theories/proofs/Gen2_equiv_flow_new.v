(** Flow::new: flags and initial close reasons (translated) against the model; split from Gen2_equiv_flow. *)
From Coq Require Import Lia.
From Hoot Require Import Base Chunk Body Httparse Parser Url Request Call Flow GenLib Gen Gen2.
Open Scope N_scope.
(* ------------------------------------------------------------------ Flow::new: the flags and the initial close reasons *)
Definition is_v10 (v : version) : bool := match v with V10 => true | _ => false end.

(** As a table (evaluated on every combination of flags): independent of how the source orders its statements. *)
Lemma gen_flow_new_table h10 cc nb ex :
  gen_flow_new h10 cc nb ex (Ok tt)
  = Ok ((if h10 then [Http10] else []) ++ (if cc then [ClientConnectionClose] else []), nb, ex).
Proof. destruct h10, cc, nb, ex; vm_compute; reflexivity. Qed.

Lemma gen_flow_new_ok r f :
  flow_new r = Ok f ->
  gen_flow_new (is_v10 (rq_version r)) (headers_has (rq_headers r) (s2b "connection") (s2b "close"))
               (need_request_body (rq_method r)) (headers_has (rq_headers r) (s2b "expect") (s2b "100-continue")) (Ok tt)
  = Ok (i_reasons f, i_should_send_body f, i_await_100 f).
Proof.
  rewrite gen_flow_new_table. unfold flow_new, is_v10.
  destruct (rq_version r); cbn [bind];
    destruct (headers_has (rq_headers r) (s2b "connection") (s2b "close"));
    vm_compute push_reason; cbn [bind]; intros H; inversion H; subst; reflexivity.
Qed.
Print Assumptions gen_flow_new_ok.
Print Assumptions gen_flow_new_table.

