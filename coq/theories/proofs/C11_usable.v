(** C11, "usable": every branch of the handshake leaves a flow that satisfies the flow invariant of
    C09 ([Inv], proofs/C09_inv.v) for the state it is in.  Together with C09 (every permitted call
    from an [Inv] state is panic-free and preserves [Inv]) this is "usable to completion". *)
From Coq Require Import Lia ZArith Relations.
From Hoot Require Import Base Chunk Body Httparse Parser Url Request Call Flow.
From Hoot.proofs Require Import BytesLemmas Reasons C05_spec C05_roundtrip C20_proofs C05_proofs C09_inv C11_proofs.
Open Scope N_scope.

(** The invariant does not mention the two handshake flags. *)
Lemma inv_set_await t f b : Inv t f -> Inv t (set_await f b).
Proof. intros H. exact H. Qed.

Lemma inv_await_refused f : Inv TAwait100 f -> Inv TAwait100 (refused f).
Proof. intros [Hnd H]. split; [apply reasons_with_nodup; exact Hnd|exact H]. Qed.

Lemma inv_await_to_send f : Inv TAwait100 f -> i_should_send_body f = true -> Inv TSendBody f.
Proof.
  intros [Hnd (H1 & H2 & H3 & H4 & H5)] Hb. split; [exact Hnd|].
  exact (conj H1 (conj H2 (conj H3 (conj H4 (conj H5 Hb))))).
Qed.

(** The F2 repair is what makes this one true: holder and phase are converted on the edge. *)
Lemma inv_await_to_recv f : Inv TAwait100 f -> Inv TRecvResponse (to_recv f).
Proof.
  intros [Hnd (Hsc & _)]. destruct Hsc as (Hreq & Habs & _ & _ & _ & _ & Hrd).
  split; [exact Hnd|].
  refine (conj (conj Hreq Habs) (conj eq_refl (conj eq_refl _))).
  intros r Hr. change (c_reader (i_call f) = Some r) in Hr. rewrite Hrd in Hr. discriminate.
Qed.

(** *** Branch: undecided *)
Theorem usable_undecided f h rest n :
  Inv TAwait100 f -> wf_resp_head h -> n < decision_point h ->
  try_read_100 f (take n (render_response_head h ++ rest)) = (f, Ok 0) /\ Inv TAwait100 f.
Proof. intros Hi Hwf Hn. split; [apply try100_before_decision; assumption|exact Hi]. Qed.

(** *** Branch: 100 Continue, then proceed *)
Theorem usable_continue f h rest :
  Inv TAwait100 f -> i_should_send_body f = true ->
  wf_resp_head h -> rh_status h = 100 -> bare h ->
  try_read_100 f (render_response_head h ++ rest) =
    (set_await f false, Ok (len (render_response_head h))) /\
  Inv TAwait100 (set_await f false) /\
  await_100_proceed (set_await f false) = Ok (TSendBody, set_await f false) /\
  Inv TSendBody (set_await f false).
Proof.
  intros Hi Hb Hwf Hs Hbare.
  assert (Ha : c_analyzed (i_call f) = true).
  { destruct Hi as [_ (_ & _ & _ & Ha & _)]. exact Ha. }
  split; [apply try100_continue; assumption|].
  split; [apply inv_set_await; exact Hi|].
  split; [apply await_proceed_send; assumption|].
  apply (inv_await_to_send (set_await f false)); [apply inv_set_await; exact Hi|exact Hb].
Qed.

(** *** Branch: refusal, then proceed *)
Theorem usable_refused f :
  Inv TAwait100 f ->
  Inv TAwait100 (refused f) /\
  await_100_proceed (refused f) = Ok (TRecvResponse, to_recv (refused f)) /\
  Inv TRecvResponse (to_recv (refused f)) /\
  never_body (TRecvResponse, to_recv (refused f)).
Proof.
  intros Hi.
  assert (Hh : i_holder f = HWithBody).
  { destruct Hi as [_ (_ & Hh & _)]. exact Hh. }
  split; [apply inv_await_refused; exact Hi|].
  split; [apply await_proceed_refused; [reflexivity|exact Hh]|].
  split; [apply inv_await_to_recv; apply inv_await_refused; exact Hi|].
  split; [left; reflexivity|]. split; [reflexivity|]. apply reasons_with_in.
Qed.

(** *** Branch: giving up waiting *)
Theorem usable_giveup f :
  Inv TAwait100 f -> i_should_send_body f = true ->
  await_100_proceed f = Ok (TSendBody, f) /\ Inv TSendBody f.
Proof.
  intros Hi Hb.
  assert (Ha : c_analyzed (i_call f) = true).
  { destruct Hi as [_ (_ & _ & _ & Ha & _)]. exact Ha. }
  split; [apply await_proceed_send; assumption|apply inv_await_to_send; assumption].
Qed.

(** *** RecvResponse: the late 100, a second 100, the real head *)
Lemma inv_recv_handed_100 f : Inv TRecvResponse f -> Inv TRecvResponse (handed_100 f).
Proof. intros H. exact H. Qed.

Lemma header_defined_reader_ok http10 cl te rd : header_defined http10 cl te = Ok rd -> reader_ok rd.
Proof.
  unfold header_defined, reader_ok. destruct cl as [v|]; cbn [bind].
  - destruct (negb (all_digits v)); cbn [bind]; [discriminate|].
    destruct (parse_dec_u64 v); cbn [bind]; [|discriminate].
    destruct (_ && negb http10); intros H; inversion H; discriminate.
  - destruct (_ && negb http10); intros H; inversion H; discriminate.
Qed.

Lemma deliver_reader_ok c used r c' o :
  deliver c used r = Ok (c', o) ->
  o = Some (used, r) /\ exists rd, c' = set_reader c (Some rd) /\ reader_ok rd.
Proof.
  unfold deliver.
  destruct (match hm_get (rs_headers r) (s2b "content-length") with
            | Some v => negb (is_text v) | None => false end); [discriminate|].
  unfold for_response.
  match goal with |- context [header_defined ?a ?b ?c] =>
    pose proof (header_defined_reader_ok a b c) as Hp; destruct (header_defined a b c) as [hd|e|s'] end;
    cbn [bind]; try discriminate.
  match goal with |- context [if ?b then Ok RNoBody else _] => destruct b end; cbn [bind];
    intros H; inversion H; subst; (split; [reflexivity|]); eexists; (split; [reflexivity|]).
  - unfold reader_ok. discriminate.
  - apply Hp. reflexivity.
Qed.

Lemma inv_recv_received f rd rsp :
  Inv TRecvResponse f -> reader_ok rd -> Inv TRecvResponse (received f (set_reader (i_call f) (Some rd)) rsp).
Proof.
  intros [Hnd (Hc & Hh & Hp & _)] Hrd. split.
  - unfold received. cbn [i_reasons]. destruct (headers_has _ _ _); [apply reasons_with_nodup|]; exact Hnd.
  - refine (conj Hc (conj Hh (conj Hp _))). intros r Hr.
    change (Some rd = Some r) in Hr. inversion Hr; subst. exact Hrd.
Qed.

Theorem usable_late_100 f h rest :
  Inv TRecvResponse f -> i_await_100 f = true -> wf_resp_head h -> rh_status h = 100 -> bare h ->
  recv_try_response f (render_response_head h ++ rest) =
    Ok (set_await f false, len (render_response_head h), None) /\
  Inv TRecvResponse (set_await f false).
Proof.
  intros Hi Ha Hwf Hs Hb. split; [|apply inv_set_await; exact Hi].
  apply recv_late_100; try assumption. destruct Hi as [_ (_ & Hh & _)]. exact Hh.
Qed.

Theorem usable_second_100 f h rest :
  Inv TRecvResponse f -> i_await_100 f = false -> wf_resp_head h -> rh_status h = 100 -> bare h ->
  recv_try_response f (render_response_head h ++ rest) =
    Ok (handed_100 f, len (render_response_head h), Some (response_of h)) /\
  Inv TRecvResponse (handed_100 f).
Proof.
  intros Hi Ha Hwf Hs Hb. split; [|apply inv_recv_handed_100; exact Hi].
  apply recv_second_100; try assumption. destruct Hi as [_ (_ & Hh & _)]. exact Hh.
Qed.

(** The real head: never a panic; when it is [Ok] it is that very head, exactly consumed, and the
    invariant holds again (so [proceed] and the body reads are available). *)
Theorem usable_real_head f h rest :
  Inv TRecvResponse f -> wf_resp_head h -> rh_status h <> 100 -> (List.length (rh_fields h) <= 128)%nat ->
  (forall s, recv_try_response f (render_response_head h ++ rest) <> Panic s) /\
  (forall f' n o, recv_try_response f (render_response_head h ++ rest) = Ok (f', n, o) ->
     n = len (render_response_head h) /\ o = Some (response_of h) /\ Inv TRecvResponse f' /\
     i_should_send_body f' = i_should_send_body f /\ i_await_100 f' = i_await_100 f /\
     recv_response_can_proceed f' = Ok true).
Proof.
  intros Hi Hwf Hs Hn.
  assert (Hh : i_holder f = HRecvResponse) by (destruct Hi as [_ (_ & Hh & _)]; exact Hh).
  assert (Hnd : NoDup (i_reasons f)) by (exact (inv_nodup _ _ Hi)).
  destruct (recv_real_head_ok f h rest Hwf Hs Hn Hh Hnd) as [Hp Hok].
  split; [exact Hp|]. intros f' n o H.
  rewrite recv_real_head in H by assumption.
  destruct (deliver (i_call f) (len (render_response_head h)) (response_of h)) as [[c' o']| |] eqn:E;
    try discriminate.
  inversion H; subst.
  destruct (deliver_reader_ok _ _ _ _ _ E) as [_ (rd & -> & Hrd)].
  split; [reflexivity|]. split; [reflexivity|].
  split; [apply inv_recv_received; assumption|].
  split; [reflexivity|]. split; [reflexivity|].
  unfold recv_response_can_proceed, as_recv_response. cbn [received i_holder]. rewrite Hh. reflexivity.
Qed.
