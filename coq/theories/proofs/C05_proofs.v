(** C05: response head parsing through [Call::try_response] on every prefix. *)
From Coq Require Import Lia ZArith.
From Hoot Require Import Base Chunk Body Httparse Parser Url Request Call.
From Hoot.proofs Require Import BytesLemmas C05_stable C05_spec C05_roundtrip C20_proofs.
Open Scope N_scope.

(** ** The header map built from a field list contains exactly the lower-cased names *)

Lemma beq_bytes_false_trans k k' k'' :
  beq_bytes k k'' = false -> beq_bytes k' k'' = true -> beq_bytes k k' = false.
Proof. intros H1 H2. apply beq_bytes_eq in H2. subst. exact H1. Qed.

Lemma hm_contains_append m k' v k :
  hm_contains (hm_append m k' v) k = hm_contains m k || beq_bytes k k'.
Proof.
  unfold hm_contains. induction m as [|[k'' vs] t IH]; cbn [hm_append find fst].
  - destruct (beq_bytes k k'); reflexivity.
  - destruct (beq_bytes k' k'') eqn:E1; cbn [find fst].
    + destruct (beq_bytes k k'') eqn:E2; [reflexivity|].
      rewrite (beq_bytes_false_trans _ _ _ E2 E1). rewrite Bool.orb_false_r. reflexivity.
    + destruct (beq_bytes k k'') eqn:E2; [reflexivity|]. exact IH.
Qed.

Lemma hm_contains_fold l : forall m k,
  hm_contains (fold_left (fun m h => hm_append m (lower (fst h)) (snd h)) l m) k =
    hm_contains m k || existsb (fun hd => beq_bytes k (lower (fst hd))) l.
Proof.
  induction l as [|hd l IH]; intros m k; cbn [fold_left existsb].
  - rewrite Bool.orb_false_r. reflexivity.
  - rewrite IH, hm_contains_append. rewrite Bool.orb_assoc. reflexivity.
Qed.

Lemma hm_contains_of_list l k :
  hm_contains (hm_of_list l) k = existsb (fun hd => beq_bytes k (lower (fst hd))) l.
Proof. unfold hm_of_list. rewrite hm_contains_fold. reflexivity. Qed.

(** ** The known finding "partial-redirect" (F10): a 3xx head of which the complete field lines seen
    so far (up to the first empty-valued one) contain Location. *)
Definition location_seen (h : resp_head) (p : bytes) : bool :=
  existsb (fun hd => beq_bytes (s2b "location") (lower (fst hd)))
          (until_empty_value (headers_of (complete_fields h p))).

Definition KnownClass (h : resp_head) (p : bytes) : Prop :=
  is_redirection (rh_status h) = true /\ location_seen h p = true.

Definition LIMIT : nat := 128.

Lemma limit_eq : N.to_nat MAX_RESPONSE_HEADERS = LIMIT.
Proof. reflexivity. Qed.

(** What [try_response] does with a parsed head whose status is not 100: picks the body framing. *)
Definition deliver (c : call) (used : N) (r : response) : res (call * option (N * response)) :=
  if match hm_get (rs_headers r) (s2b "content-length") with Some v => negb (is_text v) | None => false end
  then Err BadContentLengthHeader
  else
    do rd <- for_response (rs_version r =? 0)
                          (method_eqb (am_method (c_req c)) HEAD) (method_eqb (am_method (c_req c)) CONNECT)
                          (rs_status r)
                          (lookup_text (rs_headers r) (s2b "content-length"))
                          (lookup_text (rs_headers r) (s2b "transfer-encoding"));
    Ok (set_reader c (Some rd), Some (used, r)).

Theorem try_response_complete c h rest :
  wf_resp_head h -> rh_status h <> 100 -> (List.length (rh_fields h) <= LIMIT)%nat ->
  call_try_response c (render_response_head h ++ rest) =
    deliver c (len (render_response_head h)) (response_of h).
Proof.
  intros Hwf Hs Hn. unfold call_try_response. rewrite limit_eq.
  rewrite response_complete by assumption. cbn [bind].
  change (rs_status (response_of h)) with (rh_status h).
  destruct (N.eqb_spec (rh_status h) 100) as [E|_]; [contradiction|]. reflexivity.
Qed.

Corollary try_response_complete_ok c h rest c' o :
  wf_resp_head h -> rh_status h <> 100 -> (List.length (rh_fields h) <= LIMIT)%nat ->
  call_try_response c (render_response_head h ++ rest) = Ok (c', o) ->
  o = Some (len (render_response_head h), response_of h) /\ exists rd, c' = set_reader c (Some rd).
Proof.
  intros Hwf Hs Hn H. rewrite try_response_complete in H by assumption. unfold deliver in H.
  destruct (match hm_get (rs_headers (response_of h)) (s2b "content-length") with
            | Some v => negb (is_text v) | None => false end); [discriminate|].
  destruct (for_response _ _ _ _ _ _) as [rd| |]; cbn [bind] in H; try discriminate.
  inversion H; subst. split; [reflexivity|]. exists rd. reflexivity.
Qed.

Theorem try_response_prefix c h p x :
  wf_resp_head h -> (List.length (rh_fields h) <= LIMIT)%nat ->
  render_response_head h = p ++ x -> x <> [] -> ~ KnownClass h p ->
  call_try_response c p = Ok (c, None).
Proof.
  intros Hwf Hn Hp Hx Hk. unfold call_try_response. rewrite limit_eq.
  rewrite (response_prefix LIMIT h p x Hwf Hn Hp Hx). cbn [bind].
  assert (Hc : (List.length (complete_fields h p) <= LIMIT)%nat).
  { pose proof (complete_fields_length h p). lia. }
  destruct (partial_response_sound LIMIT h p x Hwf Hp Hc) as [H|H]; rewrite H; cbn [bind]; [reflexivity|].
  cbn [partial_response_of rs_status rs_headers rs_version].
  rewrite hm_contains_of_list. fold (location_seen h p).
  destruct (is_redirection (rh_status h)) eqn:E1; cbn [andb]; [|reflexivity].
  destruct (location_seen h p) eqn:E2; [|reflexivity].
  exfalso. apply Hk. split; assumption.
Qed.

Theorem try_response_too_many c h fs1 f fs2 any :
  wf_resp_head h -> rh_fields h = fs1 ++ f :: fs2 -> List.length fs1 = LIMIT ->
  call_try_response c (render_status_line h ++ render_lines fs1 ++ render_field f ++ any) =
    Err HttpParseTooManyHeaders.
Proof.
  intros Hwf Hfs Hl. unfold call_try_response. rewrite limit_eq.
  rewrite (response_too_many LIMIT h fs1 f fs2 any Hwf Hfs Hl). reflexivity.
Qed.

Theorem try_response_too_many_complete c h rest :
  wf_resp_head h -> (LIMIT < List.length (rh_fields h))%nat ->
  call_try_response c (render_response_head h ++ rest) = Err HttpParseTooManyHeaders.
Proof.
  intros Hwf Hn. unfold call_try_response. rewrite limit_eq.
  apply (response_limit_iff LIMIT h rest Hwf) in Hn. rewrite Hn. reflexivity.
Qed.

(** Without a Content-Length field nothing can be refused: the head is always delivered. *)
Lemma deliver_without_content_length c used r :
  hm_get (rs_headers r) (s2b "content-length") = None ->
  exists rd, deliver c used r = Ok (set_reader c (Some rd), Some (used, r)).
Proof.
  intros H. unfold deliver, lookup_text. rewrite H.
  unfold for_response, header_defined. cbn [bind].
  destruct (_ && negb (rs_version r =? 0)); cbn [bind];
    match goal with |- context [if ?b then Ok RNoBody else _] => destruct b end;
    eexists; reflexivity.
Qed.

Theorem try_response_complete_plain c h rest :
  wf_resp_head h -> rh_status h <> 100 -> (List.length (rh_fields h) <= LIMIT)%nat ->
  hm_get (rs_headers (response_of h)) (s2b "content-length") = None ->
  exists rd, call_try_response c (render_response_head h ++ rest) =
             Ok (set_reader c (Some rd), Some (len (render_response_head h), response_of h)).
Proof.
  intros Hwf Hs Hn Hcl. rewrite try_response_complete by assumption.
  apply deliver_without_content_length. exact Hcl.
Qed.

(** ** The known class is exact: on every member the truncated head is handed to the body-framing
    step as if it were complete, with [len p] bytes consumed and a synthetic "connection: close". *)
Definition truncated_response (h : resp_head) (p : bytes) : response :=
  {| rs_version := rh_version h; rs_status := rh_status h;
     rs_headers := hm_insert (hm_of_list (until_empty_value (headers_of (complete_fields h p))))
                             (s2b "connection") (s2b "close") |}.

Theorem try_response_known c h p x :
  wf_resp_head h -> (List.length (rh_fields h) <= LIMIT)%nat ->
  render_response_head h = p ++ x -> x <> [] -> KnownClass h p ->
  call_try_response c p = deliver c (len p) (truncated_response h p).
Proof.
  intros Hwf Hn Hp Hx [Hr Hl]. unfold call_try_response. rewrite limit_eq.
  rewrite (response_prefix LIMIT h p x Hwf Hn Hp Hx). cbn [bind].
  assert (Hc : (List.length (complete_fields h p) <= LIMIT)%nat).
  { pose proof (complete_fields_length h p). lia. }
  destruct (partial_response_sound_strong LIMIT h p x Hwf Hp Hc) as [[_ He]|H].
  - unfold location_seen in Hl. rewrite He in Hl. cbn in Hl. discriminate.
  - rewrite H. cbn [bind]. cbn [partial_response_of rs_status rs_headers rs_version].
    rewrite hm_contains_of_list. fold (location_seen h p). rewrite Hr, Hl. cbn [andb bind rs_status].
    destruct (N.eqb_spec (rh_status h) 100) as [E|_].
    + rewrite E in Hr. vm_compute in Hr. discriminate.
    + reflexivity.
Qed.

Lemma deliver_not_none c used r c' : deliver c used r <> Ok (c', None).
Proof.
  unfold deliver.
  destruct (match hm_get (rs_headers r) (s2b "content-length") with
            | Some v => negb (is_text v) | None => false end); [discriminate|].
  destruct (for_response _ _ _ _ _ _); cbn [bind]; discriminate.
Qed.

Corollary try_response_known_fails c h p x c' :
  wf_resp_head h -> (List.length (rh_fields h) <= LIMIT)%nat ->
  render_response_head h = p ++ x -> x <> [] -> KnownClass h p ->
  call_try_response c p <> Ok (c', None).
Proof.
  intros Hwf Hn Hp Hx Hk. rewrite (try_response_known c h p x Hwf Hn Hp Hx Hk). apply deliver_not_none.
Qed.
