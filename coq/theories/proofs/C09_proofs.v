(** C09 (part 3): the script level.  Every operation of Script.v, in every state satisfying the
    invariant, is panic-free and re-establishes the invariant -- except the recorded finding F18
    ([Known]) and three explicitly excluded classes ([in_quantifier]).  Lifted to histories of any
    length by induction. *)
From Coq Require Import Lia ZArith.
From Hoot Require Import Base Chunk Body Httparse Parser Url Request Call Flow Script.
From Hoot.proofs Require Import BytesLemmas Reasons C17_proofs C06_proofs C09_inv C09_chunk C09_calls C09_flow AfterErr.
Open Scope N_scope.

(* ------------------------------------------------------------------ state invariant *)

Definition ObjInv (o : obj) : Prop :=
  match o with
  | ObNone => True
  | ObFlow t f => Inv t f
  | ObCall h c => CallInv h c
  end.

Definition NextInv (n : option inner) : Prop :=
  match n with Some x => Inv TPrepare x | None => True end.

Definition SInv (s : sstate) : Prop := ObjInv (s_obj s) /\ NextInv (s_next s).

(** Finding F18: [as_new_flow] on a Redirect flow whose request has already been taken. *)
Definition Known (s : sstate) (o : op) : Prop :=
  match o, s_obj s with
  | OAsNewFlow _, ObFlow TRedirect f => Taken f
  | _, _ => False
  end.

(** The three classes outside the property's quantifier (each is a panic of the model that the
    design documents as excluded):
    - requests whose URI lacks a scheme or an authority (zero effective headers underflow
      [header_count - 1]; [expect(base uri to be a url)]);
    - a 63rd [header()] call before the request has been analysed (the array of added headers has
      64 slots and analysis needs up to two of them; the property quantifies over 0..60 additions);
    - [try_read_100] after a refusal on a window that parses as a complete 100 response
      ([assert!(should_send_body)]: only reachable by violating the re-presentation discipline). *)
Definition in_quantifier (s : sstate) (o : op) : Prop :=
  match o, s_obj s with
  | ONew r, _ => abs_uri (rq_uri r)
  | OCallWithout r, _ => abs_uri (rq_uri r)
  | OCallWith r, _ => abs_uri (rq_uri r)
  | OHeader _ _, ObFlow TPrepare f => len (am_added (c_req (i_call f))) < HEADER_BUDGET
  | OTry100, ObFlow TAwait100 f => ~ misuse_100 f (window s)
  | ORawTry100 b, ObFlow TAwait100 f => ~ misuse_100 f b
  | _, _ => True
  end.

Definition Good (x : sstate * list tok) : Prop := snd x <> obs_panic /\ SInv (fst x).

Lemma sinv_init : SInv s_init.
Proof. split; exact I. Qed.

Lemma sinv_with_obj s o : SInv s -> ObjInv o -> SInv (with_obj s o).
Proof. intros [_ Hn] Ho. split; assumption. Qed.

Lemma sinv_with_flow s t f : SInv s -> Inv t f -> SInv (with_flow s t f).
Proof. intros HS Hi. apply sinv_with_obj; assumption. Qed.

Lemma sinv_add_consumed s n : SInv s -> SInv (add_consumed s n).
Proof. intros H. exact H. Qed.

Lemma sinv_add_sent s n : SInv s -> SInv (add_sent s n).
Proof. intros H. exact H. Qed.

Lemma sinv_track (b : bool) s n : SInv s -> SInv (if b then add_consumed s n else s).
Proof. destruct b; auto. Qed.

Lemma sinv_track_sent (b : bool) s n : SInv s -> SInv (if b then add_sent s n else s).
Proof. destruct b; auto. Qed.

(* ------------------------------------------------------------------ observations *)

Ltac neq_panic := let H := fresh in intro H; try discriminate H; vm_compute in H; discriminate H.

Lemma np_neq : obs_np <> obs_panic. Proof. neq_panic. Qed.
Lemma ok_neq : [w "ok"] <> obs_panic. Proof. neq_panic. Qed.
Lemma err_neq e : obs_err e <> obs_panic. Proof. unfold obs_err, obs_panic. discriminate. Qed.
Lemma bool_neq b : obs_bool b <> obs_panic. Proof. destruct b; neq_panic. Qed.

Lemma obs_res_neq {A} (P : A -> Prop) (r : res A) k :
  safe P r -> (forall a, k a <> obs_panic) -> obs_res r k <> obs_panic.
Proof. destruct r; cbn; intros H Hk; [apply Hk|apply err_neq|contradiction]. Qed.

Lemma good_same s obs : SInv s -> obs <> obs_panic -> Good (s, obs).
Proof. intros HS Ho. split; assumption. Qed.

Lemma good_upd {A} s t (r : res A) getf k :
  SInv s -> safe (fun a => Inv t (getf a)) r -> (forall a, k a <> obs_panic) ->
  Good (upd s t r getf k).
Proof.
  intros HS Hr Hk. unfold upd. destruct r as [a|e|site]; cbn [safe] in Hr.
  - split; [apply Hk|]. apply sinv_with_flow; assumption.
  - apply good_same; [exact HS|apply err_neq].
  - contradiction.
Qed.

(* ------------------------------------------------------------------ proceed / premature *)

Lemma good_opt s Succ can pr :
  SInv s -> proceed_ok Succ can pr ->
  Good (match pr with
        | Ok (Some (t', f')) => (with_flow s t' f', [w "state"; tag_name t'])
        | Ok None => (s, [w "stay"])
        | Err e => (with_obj s ObNone, obs_err e)
        | Panic _ => (s, obs_panic)
        end).
Proof.
  intros HS Hp. unfold proceed_ok in Hp. destruct pr as [[[t' f']|]|e|site]; try contradiction.
  - destruct Hp as (_ & Hi & _). split; [cbn; discriminate|]. apply sinv_with_flow; assumption.
  - apply good_same; [exact HS|neq_panic].
Qed.

Lemma good_proceed s t f : SInv s -> Inv t f -> Good (do_proceed s t f).
Proof.
  intros HS Hi. unfold do_proceed. destruct t; cbv beta zeta.
  - split; [cbn; discriminate|]. apply sinv_with_flow; [exact HS|apply prepare_proceed; exact Hi].
  - eapply good_opt; [exact HS|apply send_request_proceed_ok; exact Hi].
  - pose proof (await_100_proceed_total f Hi) as Ht.
    destruct (await_100_proceed f) as [[t' f']|e|site]; cbn [total] in Ht; try contradiction.
    cbn [bind fst snd] in *. destruct Ht as (Hi' & _).
    split; [cbn; discriminate|]. apply sinv_with_flow; assumption.
  - eapply good_opt; [exact HS|apply send_body_proceed_ok; exact Hi].
  - eapply good_opt; [exact HS|apply recv_response_proceed_ok; exact Hi].
  - eapply good_opt; [exact HS|apply recv_body_proceed_ok; exact Hi].
  - split; [cbn; discriminate|]. apply sinv_with_flow; [exact HS|apply redirect_proceed; exact Hi].
  - apply good_same; [exact HS|apply np_neq].
Qed.

Lemma good_prem s Succ can pr :
  SInv s -> proceed_ok Succ can pr ->
  Good (with_obj s ObNone,
        match pr with
        | Ok (Some _) => [w "some"]
        | Ok None => [w "none"]
        | Err e => obs_err e
        | Panic _ => obs_panic
        end).
Proof.
  intros HS Hp. unfold proceed_ok in Hp.
  split; [|apply sinv_with_obj; [exact HS|exact I]].
  destruct pr as [[[t' f']|]|e|site]; try contradiction; cbn [snd]; neq_panic.
Qed.

Lemma good_premature s t f : SInv s -> Inv t f -> Good (do_premature s t f).
Proof.
  intros HS Hi. unfold do_premature. destruct t; cbv beta zeta;
    try (apply good_same; [exact HS|apply np_neq]).
  - eapply good_prem; [exact HS|apply send_request_proceed_ok; exact Hi].
  - eapply good_prem; [exact HS|apply send_body_proceed_ok; exact Hi].
  - eapply good_prem; [exact HS|apply recv_response_proceed_ok; exact Hi].
  - eapply good_prem; [exact HS|apply recv_body_proceed_ok; exact Hi].
Qed.

(* ------------------------------------------------------------------ server-facing calls *)

Lemma good_try100 s f win track :
  SInv s -> Inv TAwait100 f -> ~ misuse_100 f win -> Good (do_try100 s f win track).
Proof.
  intros HS Hi Hm. unfold do_try100.
  destruct (try_read_100_safe f win Hi Hm) as [Hi' Hr].
  destruct (try_read_100 f win) as [f' r]. cbn [fst snd] in *.
  destruct r as [n|e|site]; cbn [safe] in Hr; try contradiction.
  - split; [cbn; discriminate|]. cbn [fst]. apply sinv_track. apply sinv_with_flow; assumption.
  - split; [apply err_neq|]. apply sinv_with_flow; assumption.
Qed.

Lemma good_try_response s f win track :
  SInv s -> Inv TRecvResponse f -> Good (do_try_response s f win track).
Proof.
  intros HS Hi. unfold do_try_response.
  pose proof (recv_try_response_safe f win Hi) as Hr.
  destruct (recv_try_response f win) as [[[f' used] got]|e|site]; cbn [safe fst] in Hr; try contradiction.
  - split; [destruct got; cbn; discriminate|]. cbn [fst]. apply sinv_track. apply sinv_with_flow; assumption.
  - apply good_same; [exact HS|apply err_neq].
Qed.

Lemma good_read s f win cap track :
  SInv s -> Inv TRecvBody f -> Good (do_read s f win cap track).
Proof.
  intros HS Hi. unfold do_read.
  pose proof (recv_body_read_safe f win cap Hi) as Hr.
  destruct (recv_body_read f win cap) as [[[f' i] o]|e|site]; cbn [safe fst] in Hr; try contradiction.
  - split; [cbn; discriminate|]. cbn [fst]. apply sinv_track. apply sinv_with_flow; assumption.
  - (* a failed read: the decoder keeps the state it reached; the invariant holds there too *)
    split; [apply err_neq|]. cbn [fst]. apply sinv_with_flow; [exact HS|].
    apply recv_body_after_err_inv. exact Hi.
Qed.

Lemma written_neq sum used out : obs_written sum used out <> obs_panic.
Proof. unfold obs_written. destruct sum; discriminate. Qed.

(** A failed write of a single call keeps the analysed call (or the call itself when the analysis
    failed): the invariant of the sending half holds there too. *)
Lemma call_after_failed_write_inv c :
  SendCommon c ->
  SendCommon (call_after_failed_write c) /\ (WB c -> WB (call_after_failed_write c)).
Proof.
  intros Hc. unfold call_after_failed_write.
  pose proof (analyze_request_safe c Hc) as Hs.
  destruct (analyze_request c) as [c1|e|site]; cbn [safe] in Hs; [|auto|auto].
  destruct Hs as (Hc1 & _ & _ & Hw1 & _). auto.
Qed.

Lemma good_write_body s input cap track sum :
  SInv s -> Good (do_write_body s input cap track sum).
Proof.
  intros HS. pose proof HS as [Hobj _]. unfold do_write_body.
  destruct (s_obj s) as [|t f|h c] eqn:Eo; cbn [ObjInv] in Hobj.
  - apply good_same; [exact HS|apply np_neq].
  - destruct t; try (apply good_same; [exact HS|apply np_neq]).
    pose proof (send_body_write_safe f input cap Hobj) as Hr.
    destruct (send_body_write f input cap) as [[[f' used] out]|e|site]; cbn [safe fst] in Hr; try contradiction.
    + split; [apply written_neq|]. cbn [fst]. apply sinv_track_sent. apply sinv_with_flow; assumption.
    + apply good_same; [exact HS|apply err_neq].
  - destruct h; try (apply good_same; [exact HS|apply np_neq]).
    cbn [CallInv] in Hobj. destruct Hobj as [Hc Hw].
    pose proof (call_write_body_safe c input cap Hc Hw) as Hr.
    destruct (call_write_body c input cap) as [[[c' used] out]|e|site]; cbn [safe fst] in Hr; try contradiction.
    + destruct Hr as (Hc' & Hw' & _).
      split; [apply written_neq|]. cbn [fst]. apply sinv_track_sent. apply sinv_with_obj; [exact HS|].
      split; assumption.
    + destruct (call_after_failed_write_inv c Hc) as [Hc' Hw'].
      split; [apply err_neq|]. apply sinv_with_obj; [exact HS|]. split; [exact Hc'|exact (Hw' Hw)].
Qed.

(* ------------------------------------------------------------------ the single call past the request *)

(** [Call::into_receive]: what the sending half knows ([SendCommon]: no reader yet) gives the
    invariant of [Call<RecvResponse>]; an unfinished request is an error and the call is gone. *)
Lemma good_call_into_receive s c : SInv s -> SendCommon c -> Good (do_call_into_receive s c).
Proof.
  intros HS Hc. unfold do_call_into_receive, into_receive.
  destruct (w_ended (c_writer c)).
  - split; [cbn; discriminate|]. apply sinv_with_obj; [exact HS|].
    cbn [ObjInv CallInv]. split; [exact (send_recv_common c Hc)|]. split; [reflexivity|].
    destruct Hc as (_ & _ & _ & _ & _ & _ & Hrd). cbn [set_phase c_reader].
    intros r E. rewrite Hrd in E. discriminate.
  - split; [apply err_neq|]. apply sinv_with_obj; [exact HS|exact I].
Qed.

(** [Call<RecvResponse>::into_body]. *)
Lemma good_call_into_body s c :
  SInv s -> CallInv HRecvResponse c ->
  Good (match c_reader c with
        | None => (with_obj s ObNone, obs_err IncompleteResponse)
        | Some RNoBody => (with_obj s ObNone, [w "none"])
        | Some _ => (with_obj s (ObCall HRecvBody (set_phase c PRecvBody)), [w "call"; w "RecvBody"])
        end).
Proof.
  intros HS (Hc & Hp & Hr).
  assert (Hb : forall r, c_reader c = Some r ->
               Good (with_obj s (ObCall HRecvBody (set_phase c PRecvBody)), [w "call"; w "RecvBody"])).
  { intros r E. split; [cbn; discriminate|]. apply sinv_with_obj; [exact HS|].
    cbn [ObjInv CallInv]. split; [exact Hc|]. split; [reflexivity|].
    exists r. split; [exact E|exact (Hr r E)]. }
  destruct (c_reader c) as [r|] eqn:Er.
  - destruct r; try exact (Hb _ eq_refl).
    split; [neq_panic|]. apply sinv_with_obj; [exact HS|exact I].
  - split; [apply err_neq|]. apply sinv_with_obj; [exact HS|exact I].
Qed.

(** [Call<RecvResponse>::try_response]. *)
Lemma good_call_try_response s c b :
  SInv s -> CallInv HRecvResponse c ->
  Good (match call_try_response c b with
        | Ok (c', got) =>
            (with_obj s (ObCall HRecvResponse c'),
             match got with
             | None => [w "none"; TN 0]
             | Some (used, r) => [w "some"; TN used] ++ obs_response r
             end)
        | Err e => (s, obs_err e)
        | Panic _ => (s, obs_panic)
        end).
Proof.
  intros HS (Hc & Hp & Hr).
  pose proof (call_try_response_safe c b) as Hs.
  destruct (call_try_response c b) as [[c' got]|e|site]; cbn [safe fst] in Hs; try contradiction.
  - split; [destruct got as [[used r]|]; cbn; discriminate|]. apply sinv_with_obj; [exact HS|].
    cbn [ObjInv CallInv]. destruct Hs as [->|(rd & -> & Hrd)]; [auto|].
    split; [exact Hc|]. split; [exact Hp|].
    cbn [set_reader c_reader]. intros r E. inversion E; subst. exact Hrd.
  - apply good_same; [exact HS|apply err_neq].
Qed.

(** [Call<RecvBody>::read]; after a failed read the decoder keeps the state it reached. *)
Lemma good_call_read s c b cap :
  SInv s -> CallInv HRecvBody c ->
  Good (match call_read c b cap with
        | Ok (c', i, o) => (with_obj s (ObCall HRecvBody c'), [w "ok"; TN i; TN (len o); TH o])
        | Err e => (with_obj s (ObCall HRecvBody (call_read_after_err c b cap)), obs_err e)
        | Panic _ => (s, obs_panic)
        end).
Proof.
  intros HS (Hc & Hp & (rd & Er & Hrd)).
  pose proof (call_read_safe c b cap rd Er Hrd) as Hs.
  destruct (call_read c b cap) as [[[c' i] o]|e|site]; cbn [safe fst] in Hs; try contradiction.
  - split; [cbn; discriminate|]. apply sinv_with_obj; [exact HS|].
    cbn [ObjInv CallInv]. destruct Hs as [->|(rd' & -> & Hrd')].
    + split; [exact Hc|]. split; [exact Hp|]. exists rd. split; assumption.
    + split; [exact Hc|]. split; [exact Hp|]. exists rd'. split; [reflexivity|exact Hrd'].
  - split; [apply err_neq|]. apply sinv_with_obj; [exact HS|].
    cbn [ObjInv CallInv]. unfold RecvCommon.
    rewrite call_read_after_err_req, call_read_after_err_phase, call_read_after_err_reader, Er.
    split; [exact Hc|]. split; [exact Hp|].
    eexists. split; [reflexivity|]. apply reader_after_ok. exact Hrd.
Qed.

Lemma call_reader_of_safe c : CallInv HRecvBody c -> safe (fun _ => True) (reader_of c).
Proof. intros (_ & _ & (rd & Er & _)). unfold reader_of. rewrite Er. exact I. Qed.

(* ------------------------------------------------------------------ the step *)

Lemma method_name_neq m : [TW (method_name m)] <> obs_panic.
Proof. destruct m; neq_panic. Qed.
Lemma version_name_neq v : [TW (version_name v)] <> obs_panic.
Proof. destruct v; neq_panic. Qed.
Lemma mode_neq m : obs_mode m <> obs_panic.
Proof. destruct m; neq_panic. Qed.
Lemma opt_bytes_neq o : obs_opt_bytes o <> obs_panic.
Proof. destruct o; neq_panic. Qed.
Lemma headers_neq hs : obs_headers hs <> obs_panic.
Proof. unfold obs_headers, obs_panic, w. discriminate. Qed.

Lemma parse_obs_neq {A} (r : res A) k :
  safe (fun _ => True) r -> (forall a, k a <> obs_panic) -> obs_res r k <> obs_panic.
Proof. apply obs_res_neq. Qed.

Lemma try_parse_request_safe slots input : safe (fun _ => True) (try_parse_request slots input).
Proof.
  unfold try_parse_request. destruct (parse_request slots input) as [st v].
  destruct st as [k| |e]; [|exact I|exact I].
  unfold version_ok. destruct (hq_version v) as [vn|]; [|exact I].
  destruct ((vn =? 0) || (vn =? 1)); [|exact I]. cbn [bind].
  destruct (hq_method v) as [m|]; [|exact I].
  destruct (match m with [] => false | _ => forallb is_http_method_char m end); [|exact I].
  destruct (builder_ok (hq_headers v)); exact I.
Qed.

Ltac same_np HS := apply good_same; [exact HS|apply np_neq].

Theorem step_good s o :
  SInv s -> ~ Known s o -> in_quantifier s o -> Good (step s o).
Proof.
  intros HS HK HQ. pose proof HS as [Hobj Hnext].
  unfold Known in HK. unfold in_quantifier in HQ. unfold step.
  destruct o.
  - (* ONew *)
    assert (Hq : abs_uri (rq_uri r)) by (destruct (s_obj s); exact HQ).
    assert (Hg : Good match flow_new r with
                 | Ok f => ({| s_obj := ObFlow TPrepare f; s_next := None; s_stream := s_stream s;
                               s_arrived := s_arrived s; s_consumed := s_consumed s;
                               s_body := s_body s; s_sent := 0 |}, [w "ok"])
                 | Err e => (s, obs_err e)
                 | Panic _ => (s, obs_panic)
                 end).
    { pose proof (flow_new_inv r Hq) as Ht.
      destruct (flow_new r) as [f|e|site]; cbn [total] in Ht; try contradiction.
      split; [apply ok_neq|]. split; [exact Ht|exact I]. }
    destruct (s_obj s); exact Hg.
  - (* OCallWithout *)
    assert (Hq : abs_uri (rq_uri r)) by (destruct (s_obj s); exact HQ).
    assert (Hg : Good (with_obj s (ObCall HWithoutBody (call_new r new_none)), [w "ok"])).
    { split; [apply ok_neq|]. apply sinv_with_obj; [exact HS|].
      unfold ObjInv, CallInv, SendCommon, call_new. cbn [c_req c_analyzed c_phase c_reader].
      split; [discriminate|]. split; [exact Hq|]. split; [intros _; cbn; unfold HEADER_BUDGET; lia|].
      split; [intros; discriminate|]. split; [left; reflexivity|]. split; reflexivity. }
    destruct (s_obj s); exact Hg.
  - (* OCallWith *)
    assert (Hq : abs_uri (rq_uri r)) by (destruct (s_obj s); exact HQ).
    assert (Hg : Good (with_obj s (ObCall HWithBody (call_new r new_chunked)), [w "ok"])).
    { split; [apply ok_neq|]. apply sinv_with_obj; [exact HS|].
      unfold ObjInv, CallInv, SendCommon, WB, call_new. cbn [c_req c_analyzed c_phase c_reader c_writer].
      split; [|cbn; discriminate].
      split; [discriminate|]. split; [exact Hq|]. split; [intros _; cbn; unfold HEADER_BUDGET; lia|].
      split; [intros; discriminate|]. split; [left; reflexivity|]. split; reflexivity. }
    destruct (s_obj s); exact Hg.
  - (* OHeader *)
    destruct (s_obj s) as [|t f|h c] eqn:Eo; try destruct t; try same_np HS.
    cbn [ObjInv] in Hobj. apply good_upd; [exact HS| |intros; apply ok_neq].
    apply prepare_header_safe; assumption.
  - (* ODespite *)
    destruct (s_obj s) as [|t f|h c] eqn:Eo; try destruct t; try same_np HS.
    cbn [ObjInv] in Hobj. apply good_upd; [exact HS| |intros; apply ok_neq].
    apply total_safe. apply despite_total. exact Hobj.
  - (* OProceed *)
    destruct (s_obj s) as [|t f|h c] eqn:Eo; try same_np HS.
    + apply good_proceed; assumption.
    + cbn [ObjInv] in Hobj. destruct h; cbn [CallInv] in Hobj; try same_np HS.
      * apply good_call_into_receive; [exact HS|exact Hobj].
      * apply good_call_into_receive; [exact HS|exact (proj1 Hobj)].
      * apply good_call_into_body; assumption.
  - (* OPremature *)
    destruct (s_obj s) as [|t f|h c] eqn:Eo; try same_np HS.
    apply good_premature; assumption.
  - (* OWriteHead *)
    destruct (s_obj s) as [|t f|h c] eqn:Eo; try destruct t; try destruct h; try same_np HS.
    + cbn [ObjInv] in Hobj. apply good_upd; [exact HS| |intros; discriminate].
      apply send_request_write_safe. exact Hobj.
    + cbn [ObjInv CallInv] in Hobj.
      pose proof (call_write_nobody_safe c cap Hobj) as Hr.
      destruct (call_write_nobody c cap) as [[c' out]|e|site]; cbn [safe fst] in Hr; try contradiction.
      * destruct Hr as (Hc' & _). split; [cbn; discriminate|]. apply sinv_with_obj; [exact HS|exact Hc'].
      * split; [apply err_neq|]. apply sinv_with_obj; [exact HS|].
        exact (proj1 (call_after_failed_write_inv c Hobj)).
  - (* OWriteBody *)
    assert (Hg := good_write_body s input cap false false HS). destruct (s_obj s); exact Hg.
  - (* OWriteSum *)
    assert (Hg := good_write_body s input cap false true HS). destruct (s_obj s); exact Hg.
  - (* OWriteFrom *)
    assert (Hg := good_write_body s (take take_n (drop (s_sent s) (s_body s))) cap true true HS).
    destruct (s_obj s); exact Hg.
  - (* OSetBody *)
    assert (Hg : Good ({| s_obj := s_obj s; s_next := s_next s; s_stream := s_stream s;
                          s_arrived := s_arrived s; s_consumed := s_consumed s; s_body := b;
                          s_sent := 0 |}, [w "ok"])) by (split; [apply ok_neq|exact HS]).
    destruct (s_obj s); exact Hg.
  - (* ODirect *)
    destruct (s_obj s) as [|t f|h c] eqn:Eo; try destruct t; try same_np HS.
    cbn [ObjInv] in Hobj. apply good_upd; [exact HS| |intros; apply ok_neq].
    apply send_body_direct_safe. exact Hobj.
  - (* OSetStream *)
    assert (Hg : Good ({| s_obj := s_obj s; s_next := s_next s; s_stream := b; s_arrived := 0;
                          s_consumed := 0; s_body := s_body s; s_sent := s_sent s |}, [w "ok"]))
      by (split; [apply ok_neq|exact HS]).
    destruct (s_obj s); exact Hg.
  - (* OArrive *)
    assert (Hg : Good ({| s_obj := s_obj s; s_next := s_next s; s_stream := s_stream s;
                          s_arrived := N.min (len (s_stream s)) (s_arrived s + k);
                          s_consumed := s_consumed s; s_body := s_body s; s_sent := s_sent s |}, [w "ok"]))
      by (split; [apply ok_neq|exact HS]).
    destruct (s_obj s); exact Hg.
  - (* OTry100 *)
    destruct (s_obj s) as [|t f|h c] eqn:Eo; try destruct t; try same_np HS.
    cbn [ObjInv] in Hobj. apply good_try100; assumption.
  - (* ORawTry100 *)
    destruct (s_obj s) as [|t f|h c] eqn:Eo; try destruct t; try same_np HS.
    cbn [ObjInv] in Hobj. apply good_try100; assumption.
  - (* OTryResponse *)
    destruct (s_obj s) as [|t f|h c] eqn:Eo; try destruct t; try same_np HS.
    cbn [ObjInv] in Hobj. apply good_try_response; assumption.
  - (* ORawTryResponse *)
    destruct (s_obj s) as [|t f|h c] eqn:Eo; try destruct t; try destruct h; try same_np HS.
    + cbn [ObjInv] in Hobj. apply good_try_response; assumption.
    + cbn [ObjInv] in Hobj. apply good_call_try_response; assumption.
  - (* ORead *)
    destruct (s_obj s) as [|t f|h c] eqn:Eo; try destruct t; try same_np HS.
    cbn [ObjInv] in Hobj. apply good_read; assumption.
  - (* ORawRead *)
    destruct (s_obj s) as [|t f|h c] eqn:Eo; try destruct t; try destruct h; try same_np HS.
    + cbn [ObjInv] in Hobj. apply good_read; assumption.
    + cbn [ObjInv] in Hobj. apply good_call_read; assumption.
  - (* OStop *)
    destruct (s_obj s) as [|t f|h c] eqn:Eo; try destruct t; try destruct h; try same_np HS.
    + cbn [ObjInv] in Hobj. apply good_upd; [exact HS| |intros; apply ok_neq].
      apply total_safe. apply recv_body_stop_total. exact Hobj.
    + cbn [ObjInv] in Hobj. split; [apply ok_neq|]. apply sinv_with_obj; [exact HS|exact Hobj].
  - (* OAsNewFlow *)
    destruct (s_obj s) as [|t f|h c] eqn:Eo; try destruct t; try same_np HS.
    cbn [ObjInv] in Hobj.
    pose proof (as_new_flow_safe f p Hobj HK) as Hr.
    destruct (as_new_flow f p) as [[f' nxt]|e|site]; cbn [safe fst snd] in Hr; try contradiction.
    + destruct Hr as [Hi' Hn']. split; [destruct nxt; neq_panic|].
      split; [exact Hi'|]. cbn [fst s_next]. destruct nxt; [exact Hn'|exact Hnext].
    + apply good_same; [exact HS|apply err_neq].
  - (* OFollow *)
    assert (Hg : Good match s_next s with
                 | Some n => ({| s_obj := ObFlow TPrepare n; s_next := None; s_stream := s_stream s;
                                 s_arrived := s_arrived s; s_consumed := s_consumed s;
                                 s_body := s_body s; s_sent := 0 |}, [w "ok"])
                 | None => (s, obs_np)
                 end).
    { destruct (s_next s) as [n|]; [|same_np HS]. split; [apply ok_neq|]. split; [exact Hnext|exact I]. }
    destruct (s_obj s); exact Hg.
  - (* OQCanProceed *)
    destruct (s_obj s) as [|t f|h c] eqn:Eo; try same_np HS. cbn [ObjInv] in Hobj.
    destruct t; try same_np HS; (apply good_same; [exact HS|]).
    + destruct (proj1 (inv_holder _ _ Hobj)) as [Hh|Hh] || destruct (inv_holder _ _ Hobj) as [Hh|Hh];
        unfold send_request_can_proceed; rewrite Hh; apply bool_neq.
    + eapply obs_res_neq; [apply total_safe; apply (send_body_queries_total f 0 Hobj)|apply bool_neq].
    + pose proof (inv_holder _ _ Hobj) as Hh. cbn in Hh. unfold recv_response_can_proceed.
      rewrite (as_recv_response_ok f Hh). apply bool_neq.
    + eapply obs_res_neq; [apply total_safe; apply (recv_body_queries_total f Hobj)|apply bool_neq].
  - (* OQKeepAwait *)
    destruct (s_obj s) as [|t f|h c] eqn:Eo; try destruct t; try same_np HS.
    apply good_same; [exact HS|apply bool_neq].
  - (* OQIsChunked *)
    destruct (s_obj s) as [|t f|h c] eqn:Eo; try destruct t; try same_np HS.
    cbn [ObjInv] in Hobj. apply good_same; [exact HS|].
    eapply obs_res_neq; [apply total_safe; apply (send_body_queries_total f 0 Hobj)|apply bool_neq].
  - (* OQMaxInput *)
    destruct (s_obj s) as [|t f|h c] eqn:Eo; try destruct t; try same_np HS.
    cbn [ObjInv] in Hobj. apply good_same; [exact HS|].
    eapply obs_res_neq; [apply total_safe; apply (send_body_queries_total f n Hobj)|intros; discriminate].
  - (* OQBoundary *)
    destruct (s_obj s) as [|t f|h c] eqn:Eo; try destruct t; try destruct h; try same_np HS.
    + cbn [ObjInv] in Hobj. apply good_same; [exact HS|].
      eapply obs_res_neq; [apply total_safe; apply (recv_body_queries_total f Hobj)|apply bool_neq].
    + cbn [ObjInv] in Hobj. apply good_same; [exact HS|].
      eapply obs_res_neq; [apply call_reader_of_safe; exact Hobj|intros r; apply bool_neq].
  - (* OQBodyMode *)
    destruct (s_obj s) as [|t f|h c] eqn:Eo; try destruct t; try same_np HS.
    apply good_same; [exact HS|apply mode_neq].
  - (* OQMustClose *)
    destruct (s_obj s) as [|t f|h c] eqn:Eo; try destruct t; try same_np HS;
      (apply good_same; [exact HS|apply bool_neq]).
  - (* OQCloseReason *)
    destruct (s_obj s) as [|t f|h c] eqn:Eo; try destruct t; try same_np HS;
      (apply good_same; [exact HS|apply opt_bytes_neq]).
  - (* OQStatus *)
    destruct (s_obj s) as [|t f|h c] eqn:Eo; try destruct t; try same_np HS.
    cbn [ObjInv] in Hobj. apply good_same; [exact HS|].
    destruct (inv_redirect_status f Hobj) as (st & -> & _). discriminate.
  - (* OQMethod *)
    destruct (s_obj s) as [|t f|h c] eqn:Eo; try destruct t; try same_np HS;
      (apply good_same; [exact HS|apply method_name_neq]).
  - (* OQUri *)
    destruct (s_obj s) as [|t f|h c] eqn:Eo; try destruct t; try same_np HS;
      (apply good_same; [exact HS|cbv zeta; discriminate]).
  - (* OQVersion *)
    destruct (s_obj s) as [|t f|h c] eqn:Eo; try destruct t; try same_np HS;
      (apply good_same; [exact HS|apply version_name_neq]).
  - (* OQIsFinished *)
    destruct (s_obj s) as [|t f|h c] eqn:Eo; try destruct h; try same_np HS;
      try (apply good_same; [exact HS|apply bool_neq]).
    cbn [ObjInv] in Hobj. apply good_same; [exact HS|].
    eapply obs_res_neq; [apply call_reader_of_safe; exact Hobj|intros r; apply bool_neq].
  - (* OQHeaders *)
    destruct (s_obj s) as [|t f|h c] eqn:Eo; try destruct t; try same_np HS.
    apply good_same; [exact HS|apply headers_neq].
  - (* OHeadersMap *)
    destruct (s_obj s) as [|t f|h c] eqn:Eo; try destruct t; try same_np HS.
    cbn [ObjInv] in Hobj. destruct Hobj as [_ (Hc & _)].
    apply good_same; [exact HS|].
    eapply obs_res_neq; [apply analyze_request_safe; exact Hc|intros a; apply headers_neq].
  - (* OParseResponse *)
    assert (Hg : Good (s, obs_res (try_parse_response (N.to_nat slots) w)
                  (fun r => match r with
                            | None => [Script.w "none"]
                            | Some (used, rsp) => [Script.w "some"; TN used] ++ obs_response rsp
                            end))).
    { apply good_same; [exact HS|]. eapply obs_res_neq; [apply try_parse_response_safe|].
      intros [[u r]|]; [cbn; discriminate|neq_panic]. }
    destruct (s_obj s); exact Hg.
  - (* OParsePartial *)
    assert (Hg : Good (s, obs_res (try_parse_partial_response (N.to_nat slots) w)
                  (fun r => match r with
                            | None => [Script.w "none"]
                            | Some rsp => [Script.w "some"] ++ obs_response rsp
                            end))).
    { apply good_same; [exact HS|]. eapply obs_res_neq; [apply try_parse_partial_safe|].
      intros [r|]; [cbn; discriminate|neq_panic]. }
    destruct (s_obj s); exact Hg.
  - (* OParseRequest *)
    assert (Hg : Good (s, obs_res (try_parse_request (N.to_nat slots) w)
                  (fun r => match r with
                            | None => [Script.w "none"]
                            | Some (used, rq) =>
                                [Script.w "some"; TN used; TH (pq_method rq); TN (pq_version rq)]
                                  ++ obs_headers (hm_iter (pq_headers rq))
                            end))).
    { apply good_same; [exact HS|]. eapply obs_res_neq; [apply try_parse_request_safe|].
      intros [[u r]|]; [cbn; discriminate|neq_panic]. }
    destruct (s_obj s); exact Hg.
Qed.

(* ------------------------------------------------------------------ histories *)

(** The observation lines of a history. *)
Fixpoint obs_run (s : sstate) (ops : list op) : list (list tok) :=
  match ops with
  | [] => []
  | o :: t => snd (step s o) :: obs_run (fst (step s o)) t
  end.

(** No operation of the history is in the Known class or outside the quantifier, in the state in
    which it is executed. *)
Fixpoint admissible (s : sstate) (ops : list op) : Prop :=
  match ops with
  | [] => True
  | o :: t => ~ Known s o /\ in_quantifier s o /\ admissible (fst (step s o)) t
  end.

Lemma run_ops_cons s o t : run_ops s (o :: t) = run_ops (fst (step s o)) t.
Proof. reflexivity. Qed.

Lemma run_ops_app s p q : run_ops s (p ++ q) = run_ops (run_ops s p) q.
Proof. unfold run_ops. apply fold_left_app. Qed.

Theorem history_good : forall ops s,
  SInv s -> admissible s ops ->
  Forall (fun o => o <> obs_panic) (obs_run s ops) /\ SInv (run_ops s ops).
Proof.
  induction ops as [|o t IH]; intros s HS Ha.
  - split; [constructor|exact HS].
  - destruct Ha as (HK & HQ & Ht). destruct (step_good s o HS HK HQ) as [Hno HS'].
    destruct (IH _ HS' Ht) as [Hf Hfin]. rewrite run_ops_cons.
    split; [constructor; assumption|exact Hfin].
Qed.

Lemma admissible_prefix : forall p q s, admissible s (p ++ q) -> admissible s p.
Proof.
  induction p as [|o t IH]; intros q s H; [exact I|].
  destruct H as (HK & HQ & Ht). split; [exact HK|]. split; [exact HQ|]. exact (IH _ _ Ht).
Qed.

(** The invariant holds after every prefix of an admissible history. *)
Theorem history_inv_everywhere p q s :
  SInv s -> admissible s (p ++ q) -> SInv (run_ops s p).
Proof.
  intros HS Ha. exact (proj2 (history_good p s HS (admissible_prefix p q s Ha))).
Qed.

(* ------------------------------------------------------------------ a checker for examples *)

Definition is_nil {A} (l : list A) : bool := match l with [] => true | _ => false end.
Definition abs_uri_b (u : uri) : bool := negb (is_nil (u_scheme u)) && negb (is_nil (u_auth u)).
Definition taken_b (f : inner) : bool := match am_req (c_req (i_call f)) with None => true | _ => false end.
Definition misuse_100_b (f : inner) (win : bytes) : bool :=
  negb (i_should_send_body f) &&
  match try_parse_response 0 win with Ok (Some (_, r)) => rs_status r =? 100 | _ => false end.

Definition known_b (s : sstate) (o : op) : bool :=
  match o, s_obj s with
  | OAsNewFlow _, ObFlow TRedirect f => taken_b f
  | _, _ => false
  end.

Definition inq_b (s : sstate) (o : op) : bool :=
  match o, s_obj s with
  | ONew r, _ => abs_uri_b (rq_uri r)
  | OCallWithout r, _ => abs_uri_b (rq_uri r)
  | OCallWith r, _ => abs_uri_b (rq_uri r)
  | OHeader _ _, ObFlow TPrepare f => len (am_added (c_req (i_call f))) <? HEADER_BUDGET
  | OTry100, ObFlow TAwait100 f => negb (misuse_100_b f (window s))
  | ORawTry100 b, ObFlow TAwait100 f => negb (misuse_100_b f b)
  | _, _ => true
  end.

Fixpoint admissible_b (s : sstate) (ops : list op) : bool :=
  match ops with
  | [] => true
  | o :: t => negb (known_b s o) && inq_b s o && admissible_b (fst (step s o)) t
  end.

Lemma abs_uri_b_sound u : abs_uri_b u = true -> abs_uri u.
Proof.
  unfold abs_uri_b, abs_uri. intros H. apply andb_prop in H. destruct H as [H1 H2].
  destruct (u_scheme u); [discriminate|]. destruct (u_auth u); [discriminate|]. split; discriminate.
Qed.

Lemma taken_b_spec f : taken_b f = true <-> Taken f.
Proof.
  unfold taken_b, Taken. destruct (am_req (c_req (i_call f))); split; intros H; try discriminate; reflexivity.
Qed.

Lemma misuse_100_b_sound f win : misuse_100_b f win = false -> ~ misuse_100 f win.
Proof.
  unfold misuse_100_b, misuse_100. intros H (Hs & used & r & Hp & Hst).
  rewrite Hs, Hp, Hst in H. discriminate.
Qed.

Lemma known_b_sound s o : known_b s o = false -> ~ Known s o.
Proof.
  unfold known_b, Known. intros H HK.
  destruct o; try exact HK. destruct (s_obj s) as [|t f|h c]; try exact HK.
  destruct t; try exact HK. apply taken_b_spec in HK. congruence.
Qed.

Lemma known_b_complete s o : known_b s o = true -> Known s o.
Proof.
  unfold known_b, Known. intros H.
  destruct o; try discriminate. destruct (s_obj s) as [|t f|h c]; try discriminate.
  destruct t; try discriminate. apply taken_b_spec. exact H.
Qed.

Lemma inq_b_sound s o : inq_b s o = true -> in_quantifier s o.
Proof.
  unfold inq_b, in_quantifier. intros H.
  destruct o; try exact I;
    try (destruct (s_obj s); apply abs_uri_b_sound; exact H);
    destruct (s_obj s) as [|t f|h c]; try exact I; destruct t; try exact I.
  - apply N.ltb_lt. exact H.
  - apply misuse_100_b_sound. destruct (misuse_100_b f (window s)); [discriminate|reflexivity].
  - apply misuse_100_b_sound. destruct (misuse_100_b f w); [discriminate|reflexivity].
Qed.

Lemma admissible_b_sound : forall ops s, admissible_b s ops = true -> admissible s ops.
Proof.
  induction ops as [|o t IH]; intros s H; [exact I|].
  cbn [admissible_b] in H. apply andb_prop in H. destruct H as [H H3].
  apply andb_prop in H. destruct H as [H1 H2].
  split; [apply known_b_sound; destruct (known_b s o); [discriminate|reflexivity]|].
  split; [apply inq_b_sound; exact H2|apply IH; exact H3].
Qed.

(* ------------------------------------------------------------------ statements collected for props/C09.v *)

(** In each of the four states with a readiness query: the query never fails; it is true exactly
    when [proceed] yields a new state, and false exactly when [proceed] returns [None] (a premature
    attempt "stays": no panic, no error). *)
Definition ready_iff (can : res bool) (pr : res (option (tag * inner))) : Prop :=
  (exists b, can = Ok b) /\
  (can = Ok true <-> exists x, pr = Ok (Some x)) /\
  (can = Ok false <-> pr = Ok None).

Lemma ready_iff_of Succ can pr : proceed_ok Succ can pr -> ready_iff can pr.
Proof.
  intros H. split; [|exact (proceed_ok_ready _ _ _ H)].
  unfold proceed_ok in H. destruct pr as [[[t' f']|]|e|s]; try contradiction.
  - destruct H as (Hc & _). eauto.
  - eauto.
Qed.


Lemma ready_iff_all : forall f,
  (Inv TSendRequest f -> ready_iff (send_request_can_proceed f) (send_request_proceed f)) /\
  (Inv TSendBody f -> ready_iff (send_body_can_proceed f) (send_body_proceed f)) /\
  (Inv TRecvResponse f -> ready_iff (recv_response_can_proceed f) (recv_response_proceed f)) /\
  (Inv TRecvBody f -> ready_iff (recv_body_can_proceed f) (recv_body_proceed f)).
Proof.
  intros f. split; [|split; [|split]]; intros H.
  - exact (ready_iff_of _ _ _ (send_request_proceed_ok f H)).
  - exact (ready_iff_of _ _ _ (send_body_proceed_ok f H)).
  - exact (ready_iff_of _ _ _ (recv_response_proceed_ok f H)).
  - exact (ready_iff_of _ _ _ (recv_body_proceed_ok f H)).
Qed.


Lemma await_100_proceed_inv : forall f,
  Inv TAwait100 f -> exists t' f', await_100_proceed f = Ok (t', f') /\ Inv t' f'.
Proof.
  intros f H. pose proof (await_100_proceed_total f H) as Ht.
  destruct (await_100_proceed f) as [[t' f']|e|s]; cbn in Ht; try contradiction.
  exists t', f'. split; [reflexivity|apply Ht].
Qed.


Lemma successor_all : forall f t' f',
  (Inv TSendRequest f -> send_request_proceed f = Ok (Some (t', f')) ->
     t' = (if i_should_send_body f then (if i_await_100 f then TAwait100 else TSendBody)
           else TRecvResponse) /\
     Inv t' f' /\ i_should_send_body f' = i_should_send_body f) /\
  (Inv TAwait100 f -> await_100_proceed f = Ok (t', f') ->
     t' = (if i_should_send_body f then TSendBody else TRecvResponse) /\
     Inv t' f' /\ i_should_send_body f' = i_should_send_body f) /\
  (Inv TSendBody f -> send_body_proceed f = Ok (Some (t', f')) ->
     t' = TRecvResponse /\ Inv t' f') /\
  (Inv TRecvResponse f -> recv_response_proceed f = Ok (Some (t', f')) ->
     t' = (if need_response_body (i_call f) then TRecvBody
           else if is_redirect f then TRedirect else TCleanup) /\
     Inv t' f' /\ i_status f' = i_status f) /\
  (Inv TRecvBody f -> recv_body_proceed f = Ok (Some (t', f')) ->
     t' = (if is_redirect f then TRedirect else TCleanup) /\ Inv t' f' /\ f' = f).
Proof.
  intros f t' f'. split; [|split; [|split; [|split]]]; intros H E.
  - pose proof (send_request_proceed_ok f H) as Hp. rewrite E in Hp.
    destruct Hp as (_ & Hi & Ht & Hsf & _). split; [exact Ht|split; [exact Hi|exact Hsf]].
  - pose proof (await_100_proceed_total f H) as Hp. rewrite E in Hp. cbn [total fst snd] in Hp.
    destruct Hp as (Hi & Ht & Hsf & _). split; [exact Ht|split; [exact Hi|exact Hsf]].
  - pose proof (send_body_proceed_ok f H) as Hp. rewrite E in Hp.
    destruct Hp as (_ & Hi & Ht & _). split; [exact Ht|exact Hi].
  - pose proof (recv_response_proceed_ok f H) as Hp. rewrite E in Hp.
    destruct Hp as (_ & Hi & Ht & Hst & _). split; [exact Ht|split; [exact Hi|exact Hst]].
  - pose proof (recv_body_proceed_ok f H) as Hp. rewrite E in Hp.
    destruct Hp as (_ & Hi & Ht & Hf). split; [exact Ht|split; [exact Hi|exact Hf]].
Qed.


Lemma response_successor_c06 : forall f r status,
  c_reader (i_call f) = Some r -> i_status f = Some status ->
  response_successor f = successor r status.
Proof.
  intros f r status Hr Hs. unfold response_successor, successor, need_response_body.
  rewrite Hr, (is_redirect_spec f status Hs). destruct r; reflexivity.
Qed.


Lemma body_due_all : forall t f,
  Inv t f ->
  (t = TPrepare \/ t = TSendRequest ->
     i_should_send_body f = need_request_body (am_method (c_req (i_call f))) || c_skip (i_call f)) /\
  (t = TSendBody -> i_should_send_body f = true).
Proof.
  intros t f H. split.
  - intros Ht. exact (inv_should_request t f H Ht).
  - intros ->. exact (inv_send_body_due f H).
Qed.

