(** C05 / C20, part 1: [hp_stable] -- extension stability of the httparse model, for ARBITRARY bytes.

    A piece parser [p : bytes -> pres A] is [stable] when a verdict reached on [b] is final:
      p b = Done a r  ->  p (b ++ x) = Done a (r ++ x)
      p b = Fail e    ->  p (b ++ x) = Fail e
    (only [Partial] may change when more bytes arrive).  Every piece of Httparse.v is stable, [pbind]
    preserves stability, the header loop does not depend on surplus fuel, hence the two top-level
    functions [parse_response] / [parse_request] are stable ([hp_stable_*]).

    The file also gives a complete characterisation of [parse_response] / [parse_request] by three
    resp. four "stage" parsers written with [pbind] ([resp_ver], [resp_code], [resp_line], ...), which
    everything else in C05/C20 uses instead of the nested matches, and monotonicity of the view that
    is left behind on Partial ([response_view_mono]). *)
From Coq Require Import Lia ZArith.
From Hoot Require Import Base Httparse.
From Hoot.proofs Require Import BytesLemmas.
Open Scope N_scope.

Arguments is_name_token : simpl never.
Arguments is_value_token : simpl never.
Arguments is_uri_token : simpl never.
Arguments is_method_token : simpl never.
Arguments is_reason_byte : simpl never.
Arguments is_sp_tab : simpl never.
Arguments is_digit : simpl never.

Definition stable {A} (p : bytes -> pres A) : Prop :=
  forall b x,
    match p b with
    | Done a r => p (b ++ x) = Done a (r ++ x)
    | Partial => True
    | Fail e => p (b ++ x) = Fail e
    end.

Lemma stable_done {A} (p : bytes -> pres A) : stable p ->
  forall b x a r, p b = Done a r -> p (b ++ x) = Done a (r ++ x).
Proof. intros H b x a r E. specialize (H b x). rewrite E in H. exact H. Qed.

Lemma stable_fail {A} (p : bytes -> pres A) : stable p ->
  forall b x e, p b = Fail e -> p (b ++ x) = Fail e.
Proof. intros H b x e E. specialize (H b x). rewrite E in H. exact H. Qed.

Lemma stable_ret {A} (a : A) : stable (fun r => Done a r).
Proof. intros b x. reflexivity. Qed.

Lemma stable_pbind {A B} (p : bytes -> pres A) (f : A -> bytes -> pres B) :
  stable p -> (forall a, stable (f a)) -> stable (fun b => pbind (p b) f).
Proof.
  intros Hp Hf b x. specialize (Hp b x).
  destruct (p b) as [a r| |e]; cbn [pbind].
  - rewrite Hp. cbn [pbind]. apply Hf.
  - exact I.
  - rewrite Hp. reflexivity.
Qed.

(** ** The pieces *)

Lemma stable_skip_empty_lines : stable skip_empty_lines.
Proof.
  assert (H : forall b, (forall x, match skip_empty_lines b with
                                   | Done a r => skip_empty_lines (b ++ x) = Done a (r ++ x)
                                   | Partial => True
                                   | Fail e => skip_empty_lines (b ++ x) = Fail e end) /\
                        (forall c x, match skip_empty_lines (c :: b) with
                                   | Done a r => skip_empty_lines ((c :: b) ++ x) = Done a (r ++ x)
                                   | Partial => True
                                   | Fail e => skip_empty_lines ((c :: b) ++ x) = Fail e end)).
  { induction b as [|d t [IH1 IH2]].
    - split; [intros x; exact I|]. intros c x. cbn [skip_empty_lines app].
      destruct (c =? 13); [exact I|]. destruct (c =? 10) eqn:E10; [exact I|].
      destruct x; cbn [skip_empty_lines]; rewrite ?E10; reflexivity.
    - split; [intros x; apply IH2|]. intros c x.
      cbn [app]. cbn [skip_empty_lines]. fold (skip_empty_lines t). fold (skip_empty_lines (t ++ x)).
      destruct (c =? 13) eqn:E13.
      + destruct (d =? 10); [apply IH1|reflexivity].
      + destruct (c =? 10) eqn:E10; [apply (IH2 d x)|]. reflexivity. }
  intros b x. apply (H b).
Qed.

Lemma stable_expect_lit e lit : stable (expect_lit e lit).
Proof.
  induction lit as [|c lit IH]; intros b x; cbn [expect_lit]; [reflexivity|].
  destruct b as [|y b]; [exact I|]. cbn [app]. destruct (c =? y); [apply IH|reflexivity].
Qed.

Lemma stable_version_digit :
  stable (fun r => match r with
                   | [] => Partial
                   | d :: r' => if d =? 48 then Done 0 r' else if d =? 49 then Done 1 r' else Fail EVersion
                   end).
Proof.
  intros [|d r] x; [exact I|]. cbn [app].
  destruct (d =? 48); [reflexivity|]. destruct (d =? 49); reflexivity.
Qed.

Lemma stable_parse_version : stable parse_version.
Proof.
  unfold parse_version.
  apply (stable_pbind (expect_lit EVersion [72; 84; 84; 80; 47; 49; 46])).
  - apply stable_expect_lit.
  - intros _. apply stable_version_digit.
Qed.

Lemma stable_expect_byte e c : stable (expect_byte e c).
Proof. intros [|y b] x; cbn [expect_byte app]; [exact I|]. destruct (c =? y); reflexivity. Qed.

Lemma stable_digit e : stable (digit e).
Proof. intros [|y b] x; cbn [digit app]; [exact I|]. destruct (is_digit y); reflexivity. Qed.

Lemma stable_parse_code : stable parse_code.
Proof.
  unfold parse_code.
  apply (stable_pbind (digit EStatus)); [apply stable_digit|intros h].
  apply (stable_pbind (digit EStatus)); [apply stable_digit|intros t].
  apply (stable_pbind (digit EStatus)); [apply stable_digit|intros o].
  apply stable_ret.
Qed.

Lemma stable_parse_reason : stable parse_reason.
Proof.
  intros b x. induction b as [|c t IH]; [exact I|].
  cbn [app parse_reason].
  destruct (c =? 13); [apply stable_expect_byte|].
  destruct (c =? 10); [reflexivity|].
  destruct (is_reason_byte c); [exact IH|reflexivity].
Qed.

Lemma stable_parse_after_code : stable parse_after_code.
Proof.
  intros [|c t] x; [exact I|]. cbn [app parse_after_code].
  destruct (c =? 32); [apply stable_parse_reason|].
  destruct (c =? 13); [apply stable_expect_byte|].
  destruct (c =? 10); reflexivity.
Qed.

Lemma stable_value_eol : stable value_eol.
Proof.
  intros [|c t] x; [exact I|]. cbn [app value_eol].
  destruct (c =? 13); [apply stable_expect_byte|].
  destruct (c =? 10); reflexivity.
Qed.

Lemma stable_newline : stable newline.
Proof.
  intros [|c t] x; [exact I|]. cbn [app newline].
  destruct (c =? 13); [apply stable_expect_byte|].
  destruct (c =? 10); reflexivity.
Qed.

(** ** Runs *)

Lemma span_app_stable p b x a r :
  span p b = (a, r) -> r <> [] -> span p (b ++ x) = (a, r ++ x).
Proof.
  revert a r. induction b as [|c t IH]; intros a r E Hr; cbn [span] in E.
  - inversion E; subst. congruence.
  - cbn [app span]. destruct (p c) eqn:Ec.
    + destruct (span p t) as [a' r'] eqn:Et. inversion E; subst.
      rewrite (IH a' r eq_refl Hr). reflexivity.
    + inversion E; subst. reflexivity.
Qed.

Lemma span_eq p b a r : span p b = (a, r) -> b = a ++ r.
Proof.
  revert a r. induction b as [|c t IH]; intros a r E; cbn [span] in E.
  - inversion E; reflexivity.
  - destruct (p c).
    + destruct (span p t) as [a' r'] eqn:Et. inversion E; subst. cbn [app]. f_equal. apply IH. reflexivity.
    + inversion E; reflexivity.
Qed.

Lemma drop_while_app_stable p b x :
  drop_while p b <> [] -> drop_while p (b ++ x) = drop_while p b ++ x.
Proof.
  induction b as [|c t IH]; intros H; cbn [drop_while] in *; [congruence|].
  cbn [app drop_while]. destruct (p c); [apply IH; exact H|reflexivity].
Qed.

Lemma drop_while_length p b : (List.length (drop_while p b) <= List.length b)%nat.
Proof.
  induction b as [|c t IH]; cbn [drop_while]; [lia|]. destruct (p c); cbn [List.length] in *; lia.
Qed.

(** ** One header line *)

Definition line_value (name : bytes) (r1 : bytes) : pres (option header) :=
  match drop_while is_sp_tab r1 with
  | [] => Partial
  | c :: t =>
      let '(v, r3) := span is_value_token (c :: t) in
      pbind (value_eol r3) (fun _ r4 => Done (Some (name, rtrim_sp_tab v)) r4)
  end.

Lemma parse_line_name c t :
  (c =? 13) = false -> (c =? 10) = false -> is_name_token c = true ->
  parse_line (c :: t) =
    pbind (expect_byte EHeaderName 58 (snd (span is_name_token (c :: t))))
          (fun _ r1 => line_value (fst (span is_name_token (c :: t))) r1).
Proof.
  intros H13 H10 Hn. unfold parse_line. rewrite H13, H10, Hn. cbn [negb].
  destruct (span is_name_token (c :: t)) as [name r]. cbn [fst snd]. unfold line_value.
  destruct (expect_byte EHeaderName 58 r) as [[] r1| |e]; cbn [pbind]; try reflexivity.
  cbv zeta. destruct (drop_while is_sp_tab r1); reflexivity.
Qed.

Lemma stable_line_value name : stable (line_value name).
Proof.
  intros r1 x. unfold line_value.
  destruct (drop_while is_sp_tab r1) as [|c t] eqn:Ed; [exact I|].
  rewrite drop_while_app_stable by congruence. rewrite Ed. cbn [app].
  change (c :: t ++ x) with ((c :: t) ++ x).
  destruct (span is_value_token (c :: t)) as [v r3] eqn:Es.
  destruct r3 as [|d r3'].
  - cbn [value_eol pbind]. exact I.
  - rewrite (span_app_stable _ _ x _ _ Es) by congruence.
    apply (stable_pbind value_eol (fun _ r4 => Done (Some (name, rtrim_sp_tab v)) r4)).
    + apply stable_value_eol.
    + intros _. apply stable_ret.
Qed.

Lemma stable_parse_line : stable parse_line.
Proof.
  intros [|c t] x; [exact I|].
  cbn [app].
  destruct (c =? 13) eqn:E13.
  { unfold parse_line. rewrite E13.
    apply (stable_pbind (expect_byte ENewLine 10) (fun _ r => Done None r)).
    - apply stable_expect_byte.
    - intros _. apply stable_ret. }
  destruct (c =? 10) eqn:E10.
  { unfold parse_line. rewrite E13, E10. reflexivity. }
  destruct (is_name_token c) eqn:En.
  2:{ unfold parse_line. rewrite E13, E10, En. reflexivity. }
  rewrite !parse_line_name by assumption.
  change (c :: t ++ x) with ((c :: t) ++ x).
  destruct (span is_name_token (c :: t)) as [name r] eqn:Es. cbn [fst snd].
  destruct r as [|d r'].
  - cbn [expect_byte pbind]. exact I.
  - rewrite (span_app_stable _ _ x _ _ Es) by congruence. cbn [fst snd].
    apply (stable_pbind (expect_byte EHeaderName 58) (fun _ r1 => line_value name r1)).
    + apply stable_expect_byte.
    + intros _. apply stable_line_value.
Qed.

(** Every piece that returns [Done] has consumed at least one byte ... *)
Lemma expect_byte_done e c b u r : expect_byte e c b = Done u r -> b = c :: r.
Proof.
  destruct b as [|y b]; cbn [expect_byte]; [discriminate|].
  destruct (N.eqb_spec c y); [|discriminate]. intros H; inversion H; subst. reflexivity.
Qed.

Lemma value_eol_shorter b u r : value_eol b = Done u r -> (List.length r < List.length b)%nat.
Proof.
  destruct b as [|c t]; cbn [value_eol]; [discriminate|].
  destruct (c =? 13).
  - intros H. apply expect_byte_done in H. subst. cbn [List.length]. lia.
  - destruct (c =? 10); [|discriminate]. intros H; inversion H; subst. cbn [List.length]. lia.
Qed.

Lemma line_value_shorter name r1 o r : line_value name r1 = Done o r -> (List.length r < List.length r1)%nat.
Proof.
  unfold line_value. pose proof (drop_while_length is_sp_tab r1) as Hd.
  destruct (drop_while is_sp_tab r1) as [|c t]; [discriminate|].
  destruct (span is_value_token (c :: t)) as [v r3] eqn:Es.
  apply span_eq in Es. assert (Hl : (List.length r3 <= List.length (c :: t))%nat).
  { rewrite Es. rewrite app_length. lia. }
  destruct (value_eol r3) as [[] r4| |e] eqn:Ev; cbn [pbind]; try discriminate.
  intros H; inversion H; subst. apply value_eol_shorter in Ev. lia.
Qed.

Lemma parse_line_shorter b o r : parse_line b = Done o r -> (List.length r < List.length b)%nat.
Proof.
  destruct b as [|c t]; [discriminate|].
  destruct (c =? 13) eqn:E13.
  { unfold parse_line. rewrite E13.
    destruct (expect_byte ENewLine 10 t) as [[] r1| |e] eqn:Ee; cbn [pbind]; try discriminate.
    intros H; inversion H; subst. apply expect_byte_done in Ee. subst. cbn [List.length]. lia. }
  destruct (c =? 10) eqn:E10.
  { unfold parse_line. rewrite E13, E10. intros H; inversion H; subst. cbn [List.length]. lia. }
  destruct (is_name_token c) eqn:En.
  2:{ unfold parse_line. rewrite E13, E10, En. discriminate. }
  rewrite parse_line_name by assumption.
  destruct (span is_name_token (c :: t)) as [name r0] eqn:Es. cbn [fst snd].
  apply span_eq in Es.
  destruct (expect_byte EHeaderName 58 r0) as [[] r1| |e] eqn:Ee; cbn [pbind]; try discriminate.
  apply expect_byte_done in Ee. intros H. apply line_value_shorter in H.
  rewrite Es. rewrite app_length. subst r0. cbn [List.length]. lia.
Qed.

(** ** The header loop: surplus fuel is irrelevant, verdicts are final, stored fields only grow *)

Lemma headers_loop_fuel : forall f1 f2 slots b,
  (List.length b < f1)%nat -> (List.length b < f2)%nat ->
  headers_loop f1 slots b = headers_loop f2 slots b.
Proof.
  induction f1 as [|f1 IH]; intros f2 slots b H1 H2; [lia|].
  destruct f2 as [|f2]; [lia|]. cbn [headers_loop].
  destruct (parse_line b) as [[h|] r| |e] eqn:El; try reflexivity.
  destruct slots as [|k]; [reflexivity|].
  apply parse_line_shorter in El. rewrite (IH f2 k r) by lia. reflexivity.
Qed.

Lemma parse_headers_fuel f slots b :
  (List.length b < f)%nat -> headers_loop f slots b = parse_headers slots b.
Proof. intros H. unfold parse_headers. apply headers_loop_fuel; lia. Qed.

Lemma headers_loop_stable : forall f f' slots b x,
  (List.length b < f)%nat -> (List.length (b ++ x) < f')%nat ->
  match headers_loop f slots b with
  | (hs, Done _ r) => headers_loop f' slots (b ++ x) = (hs, Done tt (r ++ x))
  | (hs, Fail e) => headers_loop f' slots (b ++ x) = (hs, Fail e)
  | (hs, Partial) => exists t, fst (headers_loop f' slots (b ++ x)) = hs ++ t
  end.
Proof.
  induction f as [|f IH]; intros f' slots b x H1 H2; [lia|].
  destruct f' as [|f']; [lia|]. cbn [headers_loop].
  pose proof (stable_parse_line b x) as Hs.
  destruct (parse_line b) as [[h|] r| |e] eqn:El.
  - rewrite Hs. destruct slots as [|k]; [reflexivity|].
    apply parse_line_shorter in El.
    assert (Hl : (List.length (r ++ x) < f')%nat).
    { rewrite app_length in *. lia. }
    specialize (IH f' k r x ltac:(lia) Hl).
    destruct (headers_loop f k r) as [hs o]. destruct o as [[] r'| |e].
    + rewrite IH. reflexivity.
    + destruct IH as [t Ht]. exists t. destruct (headers_loop f' k (r ++ x)) as [hs' o'].
      cbn [fst] in *. subst. reflexivity.
    + rewrite IH. reflexivity.
  - rewrite Hs. reflexivity.
  - eexists. cbn [app]. reflexivity.
  - rewrite Hs. reflexivity.
Qed.

Lemma parse_headers_stable slots b x :
  match parse_headers slots b with
  | (hs, Done _ r) => parse_headers slots (b ++ x) = (hs, Done tt (r ++ x))
  | (hs, Fail e) => parse_headers slots (b ++ x) = (hs, Fail e)
  | (hs, Partial) => exists t, fst (parse_headers slots (b ++ x)) = hs ++ t
  end.
Proof. unfold parse_headers. apply headers_loop_stable; lia. Qed.

(** ** The top level as stage parsers *)

Definition resp_ver (b : bytes) : pres N :=
  pbind (skip_empty_lines b) (fun _ b0 => parse_version b0).

Definition resp_code (b : bytes) : pres N :=
  pbind (skip_empty_lines b) (fun _ b0 =>
  pbind (parse_version b0) (fun _ b1 =>
  pbind (expect_byte EVersion 32 b1) (fun _ b2 => parse_code b2))).

Definition resp_line (b : bytes) : pres (N * N) :=
  pbind (skip_empty_lines b) (fun _ b0 =>
  pbind (parse_version b0) (fun ver b1 =>
  pbind (expect_byte EVersion 32 b1) (fun _ b2 =>
  pbind (parse_code b2) (fun code b3 =>
  pbind (parse_after_code b3) (fun _ b4 => Done (ver, code) b4))))).

Definition headers_status (buf : bytes) (o : pres unit) : hstat :=
  match o with
  | Done _ rest => SComplete (len buf - len rest)
  | Partial => SPartial
  | Fail e => SError e
  end.

Lemma parse_response_status slots buf :
  fst (parse_response slots buf) =
    match resp_line buf with
    | Done _ b4 => headers_status buf (snd (parse_headers slots b4))
    | Partial => SPartial
    | Fail e => SError e
    end.
Proof.
  unfold parse_response, resp_line.
  destruct (skip_empty_lines buf) as [[] b0| |e]; cbn [pbind]; try reflexivity.
  destruct (parse_version b0) as [ver b1| |e]; cbn [pbind]; try reflexivity.
  destruct (expect_byte EVersion 32 b1) as [[] b2| |e]; cbn [pbind]; try reflexivity.
  destruct (parse_code b2) as [code b3| |e]; cbn [pbind]; try reflexivity.
  destruct (parse_after_code b3) as [[] b4| |e]; cbn [pbind]; try reflexivity.
  destruct (parse_headers slots b4) as [hs o]. destruct o as [[] r| |e]; reflexivity.
Qed.

Lemma parse_response_version slots buf :
  hv_version (snd (parse_response slots buf)) =
    match resp_ver buf with Done ver _ => Some ver | _ => None end.
Proof.
  unfold parse_response, resp_ver.
  destruct (skip_empty_lines buf) as [[] b0| |e]; cbn [pbind]; try reflexivity.
  destruct (parse_version b0) as [ver b1| |e]; cbn [pbind]; try reflexivity.
  destruct (expect_byte EVersion 32 b1) as [[] b2| |e]; cbn [pbind]; try reflexivity.
  destruct (parse_code b2) as [code b3| |e]; cbn [pbind]; try reflexivity.
  destruct (parse_after_code b3) as [[] b4| |e]; cbn [pbind]; try reflexivity.
  destruct (parse_headers slots b4) as [hs o]. destruct o as [[] r| |e]; reflexivity.
Qed.

Lemma parse_response_code slots buf :
  hv_code (snd (parse_response slots buf)) =
    match resp_code buf with Done c _ => Some c | _ => None end.
Proof.
  unfold parse_response, resp_code.
  destruct (skip_empty_lines buf) as [[] b0| |e]; cbn [pbind]; try reflexivity.
  destruct (parse_version b0) as [ver b1| |e]; cbn [pbind]; try reflexivity.
  destruct (expect_byte EVersion 32 b1) as [[] b2| |e]; cbn [pbind]; try reflexivity.
  destruct (parse_code b2) as [code b3| |e]; cbn [pbind]; try reflexivity.
  destruct (parse_after_code b3) as [[] b4| |e]; cbn [pbind]; try reflexivity.
  destruct (parse_headers slots b4) as [hs o]. destruct o as [[] r| |e]; reflexivity.
Qed.

Lemma parse_response_headers slots buf :
  hv_headers (snd (parse_response slots buf)) =
    match resp_line buf with Done _ b4 => fst (parse_headers slots b4) | _ => [] end.
Proof.
  unfold parse_response, resp_line.
  destruct (skip_empty_lines buf) as [[] b0| |e]; cbn [pbind]; try reflexivity.
  destruct (parse_version b0) as [ver b1| |e]; cbn [pbind]; try reflexivity.
  destruct (expect_byte EVersion 32 b1) as [[] b2| |e]; cbn [pbind]; try reflexivity.
  destruct (parse_code b2) as [code b3| |e]; cbn [pbind]; try reflexivity.
  destruct (parse_after_code b3) as [[] b4| |e]; cbn [pbind]; try reflexivity.
  destruct (parse_headers slots b4) as [hs o]. destruct o as [[] r| |e]; reflexivity.
Qed.

(** A view is determined by its three components. *)
Lemma hview_eq (v w : hview) :
  hv_version v = hv_version w -> hv_code v = hv_code w -> hv_headers v = hv_headers w -> v = w.
Proof. destruct v, w; cbn. intros; subst; reflexivity. Qed.

Lemma stable_resp_ver : stable resp_ver.
Proof.
  unfold resp_ver. apply (stable_pbind skip_empty_lines); [apply stable_skip_empty_lines|intros _].
  apply stable_parse_version.
Qed.

Lemma stable_resp_code : stable resp_code.
Proof.
  unfold resp_code. apply (stable_pbind skip_empty_lines); [apply stable_skip_empty_lines|intros _].
  apply (stable_pbind parse_version); [apply stable_parse_version|intros _].
  apply (stable_pbind (expect_byte EVersion 32)); [apply stable_expect_byte|intros _].
  apply stable_parse_code.
Qed.

Lemma stable_resp_line : stable resp_line.
Proof.
  unfold resp_line. apply (stable_pbind skip_empty_lines); [apply stable_skip_empty_lines|intros _].
  apply (stable_pbind parse_version); [apply stable_parse_version|intros ver].
  apply (stable_pbind (expect_byte EVersion 32)); [apply stable_expect_byte|intros _].
  apply (stable_pbind parse_code); [apply stable_parse_code|intros code].
  apply (stable_pbind parse_after_code); [apply stable_parse_after_code|intros _].
  apply stable_ret.
Qed.

(** *** hp_stable, response *)

Theorem hp_stable_response_full slots b x :
  fst (parse_response slots b) <> SPartial ->
  parse_response slots (b ++ x) = parse_response slots b.
Proof.
  intros Hnp.
  assert (Hst : fst (parse_response slots (b ++ x)) = fst (parse_response slots b) /\
                hv_headers (snd (parse_response slots (b ++ x))) = hv_headers (snd (parse_response slots b)) /\
                resp_ver b <> Partial /\ resp_code b <> Partial).
  { rewrite parse_response_status in Hnp. rewrite !parse_response_status, !parse_response_headers.
    pose proof (stable_resp_line b x) as Hl.
    unfold resp_line, resp_ver, resp_code in *.
    destruct (skip_empty_lines b) as [[] b0| |e]; cbn [pbind] in *; [| congruence |].
    2:{ rewrite Hl. repeat split; congruence. }
    destruct (parse_version b0) as [ver b1| |e]; cbn [pbind] in *; [| congruence |].
    2:{ rewrite Hl. repeat split; congruence. }
    destruct (expect_byte EVersion 32 b1) as [[] b2| |e]; cbn [pbind] in *; [| congruence |].
    2:{ rewrite Hl. repeat split; congruence. }
    destruct (parse_code b2) as [code b3| |e]; cbn [pbind] in *; [| congruence |].
    2:{ rewrite Hl. repeat split; congruence. }
    destruct (parse_after_code b3) as [[] b4| |e]; cbn [pbind] in *; [| congruence |].
    2:{ rewrite Hl. repeat split; congruence. }
    rewrite Hl. pose proof (parse_headers_stable slots b4 x) as Hh.
    destruct (parse_headers slots b4) as [hs o]. cbn [fst snd] in *.
    destruct o as [[] r| |e]; cbn [headers_status] in *; [| congruence |].
    - rewrite Hh. cbn [fst snd headers_status]. rewrite !len_app.
      repeat split; try congruence. f_equal. lia.
    - rewrite Hh. cbn [fst snd headers_status]. repeat split; congruence. }
  destruct Hst as (H1 & H2 & H3 & H4).
  destruct (parse_response slots (b ++ x)) as [s v] eqn:E1.
  destruct (parse_response slots b) as [s' v'] eqn:E2. cbn [fst snd] in *. subst s'.
  f_equal. apply hview_eq.
  - pose proof (parse_response_version slots (b ++ x)) as Ha. rewrite E1 in Ha.
    pose proof (parse_response_version slots b) as Hb. rewrite E2 in Hb. cbn [snd] in *.
    rewrite Ha, Hb. pose proof (stable_resp_ver b x) as Hv.
    destruct (resp_ver b); [rewrite Hv; reflexivity|congruence|rewrite Hv; reflexivity].
  - pose proof (parse_response_code slots (b ++ x)) as Ha. rewrite E1 in Ha.
    pose proof (parse_response_code slots b) as Hb. rewrite E2 in Hb. cbn [snd] in *.
    rewrite Ha, Hb. pose proof (stable_resp_code b x) as Hv.
    destruct (resp_code b); [rewrite Hv; reflexivity|congruence|rewrite Hv; reflexivity].
  - exact H2.
Qed.

Theorem hp_stable_response_complete slots b x n v :
  parse_response slots b = (SComplete n, v) -> parse_response slots (b ++ x) = (SComplete n, v).
Proof. intros H. rewrite hp_stable_response_full; [exact H|]. rewrite H. discriminate. Qed.

Theorem hp_stable_response_error slots b x e v :
  parse_response slots b = (SError e, v) -> parse_response slots (b ++ x) = (SError e, v).
Proof. intros H. rewrite hp_stable_response_full; [exact H|]. rewrite H. discriminate. Qed.

Theorem response_consumed_le slots b n v : parse_response slots b = (SComplete n, v) -> n <= len b.
Proof.
  intros H. pose proof (parse_response_status slots b) as Hs. rewrite H in Hs. cbn [fst] in Hs.
  destruct (resp_line b) as [a b4| |e]; try discriminate.
  destruct (snd (parse_headers slots b4)) as [[] r| |e]; cbn [headers_status] in Hs; try discriminate.
  inversion Hs. lia.
Qed.

(** Monotonicity of the view, for arbitrary bytes: whatever the struct holds after looking at [b]
    (version, code, stored fields) it still holds, in the same positions, after looking at [b ++ x]. *)
Theorem response_view_mono slots b x :
  let v := snd (parse_response slots b) in
  let v' := snd (parse_response slots (b ++ x)) in
  (hv_version v = None \/ hv_version v' = hv_version v) /\
  (hv_code v = None \/ hv_code v' = hv_code v) /\
  exists t, hv_headers v' = hv_headers v ++ t.
Proof.
  cbv zeta. rewrite !parse_response_version, !parse_response_code, !parse_response_headers.
  split; [|split].
  - pose proof (stable_resp_ver b x) as Hv.
    destruct (resp_ver b); [right; rewrite Hv; reflexivity|left; reflexivity|left; reflexivity].
  - pose proof (stable_resp_code b x) as Hv.
    destruct (resp_code b); [right; rewrite Hv; reflexivity|left; reflexivity|left; reflexivity].
  - pose proof (stable_resp_line b x) as Hl.
    destruct (resp_line b) as [a b4| |e]; [|eexists; cbn [app]; reflexivity|eexists; cbn [app]; reflexivity].
    rewrite Hl. pose proof (parse_headers_stable slots b4 x) as Hh.
    destruct (parse_headers slots b4) as [hs o]. cbn [fst].
    destruct o as [[] r| |e].
    + rewrite Hh. exists []. cbn [fst]. rewrite app_nil_r. reflexivity.
    + exact Hh.
    + rewrite Hh. exists []. cbn [fst]. rewrite app_nil_r. reflexivity.
Qed.

(** ** Requests *)

Lemma stable_parse_method : stable parse_method.
Proof.
  intros [|c t] x; [exact I|]. cbn [app]. unfold parse_method.
  destruct (is_method_token c); cbn [negb]; [|reflexivity]. cbn [tl].
  destruct (span (fun x0 => is_method_token x0 && negb (x0 =? 32)) t) as [run r] eqn:Es.
  destruct r as [|d r']; [exact I|].
  rewrite (span_app_stable _ _ x _ _ Es) by congruence. cbn [app].
  destruct (d =? 32); reflexivity.
Qed.

Lemma stable_parse_uri : stable parse_uri.
Proof.
  intros b x. unfold parse_uri.
  destruct (span is_uri_token b) as [run r] eqn:Es.
  destruct r as [|d r']; [exact I|].
  rewrite (span_app_stable _ _ x _ _ Es) by congruence. cbn [app].
  destruct (d =? 32); [|reflexivity]. destruct run; reflexivity.
Qed.

Definition req_method (b : bytes) : pres bytes :=
  pbind (skip_empty_lines b) (fun _ b0 => parse_method b0).

Definition req_ver (b : bytes) : pres N :=
  pbind (skip_empty_lines b) (fun _ b0 =>
  pbind (parse_method b0) (fun _ b1 =>
  pbind (parse_uri b1) (fun _ b2 => parse_version b2))).

Definition req_line (b : bytes) : pres (bytes * N) :=
  pbind (skip_empty_lines b) (fun _ b0 =>
  pbind (parse_method b0) (fun m b1 =>
  pbind (parse_uri b1) (fun _ b2 =>
  pbind (parse_version b2) (fun ver b3 =>
  pbind (newline b3) (fun _ b4 => Done (m, ver) b4))))).

Lemma parse_request_status slots buf :
  fst (parse_request slots buf) =
    match req_line buf with
    | Done _ b4 => headers_status buf (snd (parse_headers slots b4))
    | Partial => SPartial
    | Fail e => SError e
    end.
Proof.
  unfold parse_request, req_line.
  destruct (skip_empty_lines buf) as [[] b0| |e]; cbn [pbind]; try reflexivity.
  destruct (parse_method b0) as [m b1| |e]; cbn [pbind]; try reflexivity.
  destruct (parse_uri b1) as [u b2| |e]; cbn [pbind]; try reflexivity.
  destruct (parse_version b2) as [ver b3| |e]; cbn [pbind]; try reflexivity.
  destruct (newline b3) as [[] b4| |e]; cbn [pbind]; try reflexivity.
  destruct (parse_headers slots b4) as [hs o]. destruct o as [[] r| |e]; reflexivity.
Qed.

Lemma parse_request_method slots buf :
  hq_method (snd (parse_request slots buf)) =
    match req_method buf with Done m _ => Some m | _ => None end.
Proof.
  unfold parse_request, req_method.
  destruct (skip_empty_lines buf) as [[] b0| |e]; cbn [pbind]; try reflexivity.
  destruct (parse_method b0) as [m b1| |e]; cbn [pbind]; try reflexivity.
  destruct (parse_uri b1) as [u b2| |e]; cbn [pbind]; try reflexivity.
  destruct (parse_version b2) as [ver b3| |e]; cbn [pbind]; try reflexivity.
  destruct (newline b3) as [[] b4| |e]; cbn [pbind]; try reflexivity.
  destruct (parse_headers slots b4) as [hs o]. destruct o as [[] r| |e]; reflexivity.
Qed.

Lemma parse_request_version slots buf :
  hq_version (snd (parse_request slots buf)) =
    match req_ver buf with Done v _ => Some v | _ => None end.
Proof.
  unfold parse_request, req_ver.
  destruct (skip_empty_lines buf) as [[] b0| |e]; cbn [pbind]; try reflexivity.
  destruct (parse_method b0) as [m b1| |e]; cbn [pbind]; try reflexivity.
  destruct (parse_uri b1) as [u b2| |e]; cbn [pbind]; try reflexivity.
  destruct (parse_version b2) as [ver b3| |e]; cbn [pbind]; try reflexivity.
  destruct (newline b3) as [[] b4| |e]; cbn [pbind]; try reflexivity.
  destruct (parse_headers slots b4) as [hs o]. destruct o as [[] r| |e]; reflexivity.
Qed.

Lemma parse_request_headers slots buf :
  hq_headers (snd (parse_request slots buf)) =
    match req_line buf with Done _ b4 => fst (parse_headers slots b4) | _ => [] end.
Proof.
  unfold parse_request, req_line.
  destruct (skip_empty_lines buf) as [[] b0| |e]; cbn [pbind]; try reflexivity.
  destruct (parse_method b0) as [m b1| |e]; cbn [pbind]; try reflexivity.
  destruct (parse_uri b1) as [u b2| |e]; cbn [pbind]; try reflexivity.
  destruct (parse_version b2) as [ver b3| |e]; cbn [pbind]; try reflexivity.
  destruct (newline b3) as [[] b4| |e]; cbn [pbind]; try reflexivity.
  destruct (parse_headers slots b4) as [hs o]. destruct o as [[] r| |e]; reflexivity.
Qed.

Lemma hreq_eq (v w : hreq) :
  hq_method v = hq_method w -> hq_version v = hq_version w -> hq_headers v = hq_headers w -> v = w.
Proof. destruct v, w; cbn. intros; subst; reflexivity. Qed.

Lemma stable_req_method : stable req_method.
Proof.
  unfold req_method. apply (stable_pbind skip_empty_lines); [apply stable_skip_empty_lines|intros _].
  apply stable_parse_method.
Qed.

Lemma stable_req_ver : stable req_ver.
Proof.
  unfold req_ver. apply (stable_pbind skip_empty_lines); [apply stable_skip_empty_lines|intros _].
  apply (stable_pbind parse_method); [apply stable_parse_method|intros _].
  apply (stable_pbind parse_uri); [apply stable_parse_uri|intros _].
  apply stable_parse_version.
Qed.

Lemma stable_req_line : stable req_line.
Proof.
  unfold req_line. apply (stable_pbind skip_empty_lines); [apply stable_skip_empty_lines|intros _].
  apply (stable_pbind parse_method); [apply stable_parse_method|intros m].
  apply (stable_pbind parse_uri); [apply stable_parse_uri|intros _].
  apply (stable_pbind parse_version); [apply stable_parse_version|intros ver].
  apply (stable_pbind newline); [apply stable_newline|intros _].
  apply stable_ret.
Qed.

Theorem hp_stable_request_full slots b x :
  fst (parse_request slots b) <> SPartial ->
  parse_request slots (b ++ x) = parse_request slots b.
Proof.
  intros Hnp.
  assert (Hst : fst (parse_request slots (b ++ x)) = fst (parse_request slots b) /\
                hq_headers (snd (parse_request slots (b ++ x))) = hq_headers (snd (parse_request slots b)) /\
                req_method b <> Partial /\ req_ver b <> Partial).
  { rewrite parse_request_status in Hnp. rewrite !parse_request_status, !parse_request_headers.
    pose proof (stable_req_line b x) as Hl.
    unfold req_line, req_method, req_ver in *.
    destruct (skip_empty_lines b) as [[] b0| |e]; cbn [pbind] in *; [| congruence |].
    2:{ rewrite Hl. repeat split; congruence. }
    destruct (parse_method b0) as [m b1| |e]; cbn [pbind] in *; [| congruence |].
    2:{ rewrite Hl. repeat split; congruence. }
    destruct (parse_uri b1) as [u b2| |e]; cbn [pbind] in *; [| congruence |].
    2:{ rewrite Hl. repeat split; congruence. }
    destruct (parse_version b2) as [ver b3| |e]; cbn [pbind] in *; [| congruence |].
    2:{ rewrite Hl. repeat split; congruence. }
    destruct (newline b3) as [[] b4| |e]; cbn [pbind] in *; [| congruence |].
    2:{ rewrite Hl. repeat split; congruence. }
    rewrite Hl. pose proof (parse_headers_stable slots b4 x) as Hh.
    destruct (parse_headers slots b4) as [hs o]. cbn [fst snd] in *.
    destruct o as [[] r| |e]; cbn [headers_status] in *; [| congruence |].
    - rewrite Hh. cbn [fst snd headers_status]. rewrite !len_app.
      repeat split; try congruence. f_equal. lia.
    - rewrite Hh. cbn [fst snd headers_status]. repeat split; congruence. }
  destruct Hst as (H1 & H2 & H3 & H4).
  destruct (parse_request slots (b ++ x)) as [s v] eqn:E1.
  destruct (parse_request slots b) as [s' v'] eqn:E2. cbn [fst snd] in *. subst s'.
  f_equal. apply hreq_eq.
  - pose proof (parse_request_method slots (b ++ x)) as Ha. rewrite E1 in Ha.
    pose proof (parse_request_method slots b) as Hb. rewrite E2 in Hb. cbn [snd] in *.
    rewrite Ha, Hb. pose proof (stable_req_method b x) as Hv.
    destruct (req_method b); [rewrite Hv; reflexivity|congruence|rewrite Hv; reflexivity].
  - pose proof (parse_request_version slots (b ++ x)) as Ha. rewrite E1 in Ha.
    pose proof (parse_request_version slots b) as Hb. rewrite E2 in Hb. cbn [snd] in *.
    rewrite Ha, Hb. pose proof (stable_req_ver b x) as Hv.
    destruct (req_ver b); [rewrite Hv; reflexivity|congruence|rewrite Hv; reflexivity].
  - exact H2.
Qed.

Theorem hp_stable_request_complete slots b x n v :
  parse_request slots b = (SComplete n, v) -> parse_request slots (b ++ x) = (SComplete n, v).
Proof. intros H. rewrite hp_stable_request_full; [exact H|]. rewrite H. discriminate. Qed.

Theorem hp_stable_request_error slots b x e v :
  parse_request slots b = (SError e, v) -> parse_request slots (b ++ x) = (SError e, v).
Proof. intros H. rewrite hp_stable_request_full; [exact H|]. rewrite H. discriminate. Qed.

Theorem request_consumed_le slots b n v : parse_request slots b = (SComplete n, v) -> n <= len b.
Proof.
  intros H. pose proof (parse_request_status slots b) as Hs. rewrite H in Hs. cbn [fst] in Hs.
  destruct (req_line b) as [a b4| |e]; try discriminate.
  destruct (snd (parse_headers slots b4)) as [[] r| |e]; cbn [headers_status] in Hs; try discriminate.
  inversion Hs. lia.
Qed.
