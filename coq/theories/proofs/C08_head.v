(** C08, strengthening: from the response head to the body reads.  "A response with Content-Length N"
    / "a close-delimited response" are tied to the readers [RLength N] / [RClose] through the rule
    [framing] of C06 (proofs/C06_spec.v), and the flow-level run theorems are composed with the
    transition out of RecvResponse. *)
From Coq Require Import Lia ZArith.
From Hoot Require Import Base Chunk Body Httparse Parser Url Request Call Flow.
From Hoot.proofs Require Import BytesLemmas Reasons C06_proofs C06_spec C06_values C06_more
     C08_proofs C08_flowrun.
Open Scope N_scope.


(** The reader with which the body state is entered is the one the rule prescribes for the head that
    was parsed. *)
Theorem from_head f input f' used rsp r :
  i_holder f = HRecvResponse -> NoDup (i_reasons f) ->
  recv_try_response f input = Ok (f', used, Some rsp) -> rs_status rsp <> 100 ->
  let hd := method_eqb (am_method (c_req (i_call f))) HEAD in
  let cn := method_eqb (am_method (c_req (i_call f))) CONNECT in
  let v11 := negb (rs_version rsp =? 0) in
  let cl := lookup_text (rs_headers rsp) (s2b "content-length") in
  let te := lookup_text (rs_headers rsp) (s2b "transfer-encoding") in
  framing hd cn (rs_status rsp) v11 cl te (Ok r) ->
  exists f'',
    recv_response_proceed f' = Ok (Some (successor r (rs_status rsp), f'')) /\
    c_reader (i_call f'') = Some r /\ i_holder f'' = HRecvBody /\ NoDup (i_reasons f') /\
    c_reader (i_call f') = Some r /\ i_holder f' = HRecvResponse.
Proof.
  intros Hh Hnd H Hs hd cn v11 cl te Hfr.
  destruct (after_head f input f' used rsp Hh Hnd H Hs) as (r0 & f'' & Hm & Hr' & Hst & Hp & Hr'' & Hh'' & _).
  fold hd cn v11 cl te in Hm.
  assert (Hp0 : te_plain te) by apply lookup_text_plain.
  apply (framing_model hd cn (rs_status rsp) v11 cl te (Ok r) Hp0) in Hfr.
  rewrite Hm in Hfr. inversion Hfr; subst r0.
  destruct (recv_try_response_some f input f' used rsp Hh H) as (c' & _ & _ & Hh' & _ & _ & _ & Hnd').
  exists f''. repeat split; auto.
Qed.

(** Content-Length N, N > 0, end to end: the body state is entered, and over any schedule of reads
    (any stream after the head) no read fails, at most N bytes are consumed, the delivered bytes are
    the consumed prefix, and the flow may proceed exactly when N were consumed. *)
Theorem length_end_to_end f input f' used rsp n :
  i_holder f = HRecvResponse -> NoDup (i_reasons f) ->
  recv_try_response f input = Ok (f', used, Some rsp) -> rs_status rsp <> 100 ->
  let hd := method_eqb (am_method (c_req (i_call f))) HEAD in
  let cn := method_eqb (am_method (c_req (i_call f))) CONNECT in
  let v11 := negb (rs_version rsp =? 0) in
  let cl := lookup_text (rs_headers rsp) (s2b "content-length") in
  let te := lookup_text (rs_headers rsp) (s2b "transfer-encoding") in
  framing hd cn (rs_status rsp) v11 cl te (Ok (RLength n)) -> n <> 0 ->
  exists f'',
    recv_response_proceed f' = Ok (Some (TRecvBody, f'')) /\
    forall stream sched,
      exists t,
        frun stream (fstart f'') sched = Ok t /\
        ft_consumed t <= n /\ ft_out t = take (ft_consumed t) stream /\ len (ft_out t) = ft_consumed t /\
        (recv_body_can_proceed (ft_flow t) = Ok true <-> ft_consumed t = n) /\
        must_close (ft_flow t) = must_close f'.
Proof.
  intros Hh Hnd H Hs hd cn v11 cl te Hfr Hn.
  destruct (from_head f input f' used rsp (RLength n) Hh Hnd H Hs Hfr)
    as (f'' & Hp & Hr'' & Hh'' & Hnd' & Hr' & Hh').
  assert (Hsucc : successor (RLength n) (rs_status rsp) = TRecvBody).
  { unfold successor. cbn [expects_body]. destruct (N.eqb_spec n 0); [contradiction|reflexivity]. }
  rewrite Hsucc in Hp. exists f''. split; [exact Hp|].
  (* reasons of f'' are those of f': a length-delimited reader adds none *)
  assert (Hrs : i_reasons f'' = i_reasons f').
  { unfold recv_response_proceed, recv_response_can_proceed, as_recv_response in Hp.
    rewrite Hh' in Hp. cbn [bind] in Hp. rewrite Hr' in Hp. cbn [negb] in Hp.
    unfold need_response_body in Hp. rewrite Hr' in Hp.
    destruct (N.eqb_spec n 0); [contradiction|]. cbn [negb set_phase c_reader] in Hp. rewrite Hr' in Hp.
    cbn [reader_is_close bind] in Hp. inversion Hp; subst f''. reflexivity. }
  intros stream sched.
  destruct (len_complete_run stream n f'' sched Hh'' Hr'') as (t & E & _ & _ & H4 & H5 & H6 & _ & H8 & _ & H10).
  exists t. repeat (split; [assumption|]).
  rewrite (same_shell_must_close f'' (ft_flow t) H10). unfold must_close. rewrite Hrs. reflexivity.
Qed.

(** Close-delimited, end to end: the body state is entered with the connection marked for closing,
    and over any schedule no read fails, everything consumed is delivered unchanged, the flow may
    proceed after every read, and the mark stays. *)
Theorem close_end_to_end f input f' used rsp :
  i_holder f = HRecvResponse -> NoDup (i_reasons f) ->
  recv_try_response f input = Ok (f', used, Some rsp) -> rs_status rsp <> 100 ->
  let hd := method_eqb (am_method (c_req (i_call f))) HEAD in
  let cn := method_eqb (am_method (c_req (i_call f))) CONNECT in
  let v11 := negb (rs_version rsp =? 0) in
  let cl := lookup_text (rs_headers rsp) (s2b "content-length") in
  let te := lookup_text (rs_headers rsp) (s2b "transfer-encoding") in
  framing hd cn (rs_status rsp) v11 cl te (Ok RClose) ->
  exists f'',
    recv_response_proceed f' = Ok (Some (TRecvBody, f'')) /\ must_close f'' = true /\
    forall stream sched,
      exists t,
        frun stream (fstart f'') sched = Ok t /\
        ft_out t = take (ft_consumed t) stream /\ len (ft_out t) = ft_consumed t /\
        recv_body_can_proceed (ft_flow t) = Ok true /\ must_close (ft_flow t) = true /\
        In CloseDelimitedBody (i_reasons (ft_flow t)).
Proof.
  intros Hh Hnd H Hs hd cn v11 cl te Hfr.
  destruct (from_head f input f' used rsp RClose Hh Hnd H Hs Hfr)
    as (f'' & Hp & Hr'' & Hh'' & Hnd' & Hr' & Hh').
  destruct (close_delimited_marks f' Hh' Hr' Hnd') as (f1 & Hp1 & Hin & Hmc & Hr1 & Hh1).
  rewrite Hp in Hp1. inversion Hp1; subst f1.
  exists f''. split; [rewrite Hp; f_equal|]. split; [exact Hmc|].
  intros stream sched.
  destruct (close_run stream f'' sched Hh1 Hr1) as (t & E & _ & _ & H3 & H4 & H5 & _ & Hsh & Hm).
  exists t. repeat (split; [assumption|]). split; [rewrite Hm; exact Hmc|].
  destruct Hsh as (_ & Hrs & _). rewrite Hrs. exact Hin.
Qed.
