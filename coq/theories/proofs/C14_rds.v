(** C14, part 2: the RFC's string algorithms for remove_dot_segments (5.2.4) and merge (5.2.3)
    compute the same paths as the model's segment-list implementations, on absolute paths. *)
From Coq Require Import Lia ZArith.
From Hoot Require Import Base Url.
From Hoot.proofs Require Import BytesLemmas C14_spec C14_rfc.
Open Scope N_scope.

(* ------------------------------------------------------------------ segments *)

Definition noslash (s : bytes) : Prop := forallb (not_in [47]) s = true.

Definition tail_ok (r : bytes) : Prop := match r with [] => True | b :: _ => b = 47 end.

Lemma not_in_47 b : not_in [47] b = negb (b =? 47).
Proof. unfold not_in. cbn [existsb]. rewrite orb_false_r. reflexivity. Qed.

Lemma noslash_nil : noslash [].
Proof. reflexivity. Qed.

Lemma noslash_cons b s : noslash (b :: s) <-> b <> 47 /\ noslash s.
Proof.
  unfold noslash. cbn [forallb]. rewrite not_in_47. split.
  - intros H. apply andb_prop in H. destruct H as [H1 H2]. apply negb_true_iff in H1.
    apply N.eqb_neq in H1. auto.
  - intros [H1 H2]. apply N.eqb_neq in H1. rewrite H1, H2. reflexivity.
Qed.

Lemma noslash_rev s : noslash s -> noslash (rev s).
Proof.
  unfold noslash. intros H. apply forallb_forall. intros b Hb. apply in_rev in Hb.
  revert b Hb. apply forallb_forall. exact H.
Qed.

Lemma noslash_has_slash s : noslash s -> has_slash s = false.
Proof.
  induction s as [|b t IH]; intros H; [reflexivity|]. apply noslash_cons in H. destruct H as [H1 H2].
  unfold has_slash. cbn [existsb]. fold (has_slash t). rewrite (IH H2).
  destruct (N.eqb_spec 47 b); [congruence|reflexivity].
Qed.

Lemma has_slash_app a r : has_slash (a ++ 47 :: r) = true.
Proof.
  unfold has_slash. rewrite existsb_app. cbn [existsb]. rewrite N.eqb_refl. cbn [orb]. apply orb_true_r.
Qed.

Lemma join_app a b : join_segments (a ++ b) = join_segments a ++ join_segments b.
Proof.
  induction a as [|s a IH]; [reflexivity|]. cbn [app join_segments]. rewrite IH, <- app_assoc. reflexivity.
Qed.

Lemma join_tail_ok l : tail_ok (join_segments l).
Proof. destruct l; cbn; auto. Qed.

Lemma join_snoc l s : join_segments (l ++ [s]) = join_segments l ++ 47 :: s.
Proof. rewrite join_app. cbn [join_segments]. rewrite app_nil_r. reflexivity. Qed.

Lemma split_on_join s : forall cur,
  join_segments (split_on 47 s cur) = 47 :: rev cur ++ s.
Proof.
  induction s as [|b t IH]; intros cur.
  - cbn [split_on join_segments]. reflexivity.
  - cbn [split_on]. destruct (N.eqb_spec b 47) as [->|E].
    + cbn [join_segments]. rewrite IH. reflexivity.
    + rewrite IH. cbn [rev]. rewrite <- app_assoc. reflexivity.
Qed.

Lemma split_on_noslash s : forall cur,
  noslash cur -> Forall noslash (split_on 47 s cur).
Proof.
  induction s as [|b t IH]; intros cur Hc.
  - cbn [split_on]. constructor; [apply noslash_rev; exact Hc|constructor].
  - cbn [split_on]. destruct (N.eqb_spec b 47) as [->|E].
    + constructor; [apply noslash_rev; exact Hc|]. apply IH. apply noslash_nil.
    + apply IH. apply noslash_cons. auto.
Qed.

Lemma split_on_nonempty s cur : split_on 47 s cur <> [].
Proof. revert cur. induction s as [|b t IH]; intros cur; cbn [split_on]; [discriminate|].
  destruct (b =? 47); [discriminate|apply IH]. Qed.

Lemma segments_abs t : segments (47 :: t) = split_on 47 t [].
Proof. reflexivity. Qed.

Lemma segments_join_abs t : join_segments (segments (47 :: t)) = 47 :: t.
Proof. rewrite segments_abs, split_on_join. reflexivity. Qed.

(* ------------------------------------------------------------------ removing the last segment *)

Lemma rls_app X s : noslash s -> remove_last_segment (X ++ 47 :: s) = X.
Proof.
  intros Hs. induction X as [|x X IH].
  - cbn [app remove_last_segment]. rewrite (noslash_has_slash _ Hs). reflexivity.
  - cbn [app remove_last_segment]. rewrite has_slash_app, IH. reflexivity.
Qed.

Lemma rls_join st :
  Forall noslash st ->
  remove_last_segment (join_segments (rev st)) = join_segments (rev (tl st)).
Proof.
  intros H. destruct st as [|s st]; [reflexivity|]. cbn [rev tl]. rewrite join_snoc.
  apply rls_app. inversion H; assumption.
Qed.

(* ------------------------------------------------------------------ the tests of step 2 *)

Lemma lit_dotdotslash : s2b "../" = [46; 46; 47]. Proof. reflexivity. Qed.
Lemma lit_dotslash : s2b "./" = [46; 47]. Proof. reflexivity. Qed.
Lemma lit_slashdotslash : s2b "/./" = [47; 46; 47]. Proof. reflexivity. Qed.
Lemma lit_slashdot : s2b "/." = [47; 46]. Proof. reflexivity. Qed.
Lemma lit_slashdotdotslash : s2b "/../" = [47; 46; 46; 47]. Proof. reflexivity. Qed.
Lemma lit_slashdotdot : s2b "/.." = [47; 46; 46]. Proof. reflexivity. Qed.
Lemma lit_dot : s2b "." = [46]. Proof. reflexivity. Qed.
Lemma lit_dotdot : s2b ".." = [46; 46]. Proof. reflexivity. Qed.
Lemma lit_slash : s2b "/" = [47]. Proof. reflexivity. Qed.

Lemma is_prefix_cons x p y l : is_prefix (x :: p) (y :: l) = (x =? y) && is_prefix p l.
Proof. reflexivity. Qed.
Lemma beq_cons x a y b : beq_bytes (x :: a) (y :: b) = (x =? y) && beq_bytes a b.
Proof. reflexivity. Qed.

(** [is_prefix [47] (s ++ r)] when [s] has no "/" and [r] is empty or begins with "/". *)
Lemma prefix_slash_seg s r :
  noslash s -> tail_ok r -> is_prefix [47] (s ++ r) = is_nil s && negb (is_nil r).
Proof.
  intros Hs Hr. destruct s as [|b s].
  - cbn [app is_nil andb]. destruct r as [|x r]; [reflexivity|]. cbn in Hr. subst x. reflexivity.
  - apply noslash_cons in Hs. destruct Hs as [Hb _]. cbn [app is_prefix is_nil andb].
    destruct (N.eqb_spec 47 b); [congruence|reflexivity].
Qed.

Lemma beq_seg_nil s r :
  noslash s -> tail_ok r -> beq_bytes (s ++ r) [] = is_nil s && is_nil r.
Proof. intros _ _. destruct s; [destruct r; reflexivity|reflexivity]. Qed.

Lemma beq_nil_r s : beq_bytes s [] = is_nil s.
Proof. destruct s; reflexivity. Qed.

(** Tests against "." ++ x, for x among "/" (prefix) and "" (equality). *)
Lemma prefix_dot_slash s r :
  noslash s -> tail_ok r ->
  is_prefix [46; 47] (s ++ r) = beq_bytes s [46] && negb (is_nil r).
Proof.
  intros Hs Hr. destruct s as [|a s].
  - cbn [app]. destruct r as [|x r]; [reflexivity|]. cbn in Hr. subst x. reflexivity.
  - apply noslash_cons in Hs. destruct Hs as [_ Hs].
    cbn [app]. rewrite is_prefix_cons, beq_cons, (N.eqb_sym 46 a).
    destruct (a =? 46); cbn [andb]; [|reflexivity].
    rewrite (prefix_slash_seg _ _ Hs Hr), beq_nil_r. reflexivity.
Qed.

Lemma beq_dot s r :
  noslash s -> tail_ok r ->
  beq_bytes (s ++ r) [46] = beq_bytes s [46] && is_nil r.
Proof.
  intros Hs Hr. destruct s as [|a s].
  - cbn [app]. destruct r as [|x r]; [reflexivity|]. cbn in Hr. subst x. reflexivity.
  - cbn [app]. rewrite !beq_cons. destruct (a =? 46); cbn [andb]; [|reflexivity].
    rewrite beq_nil_r. destruct s; [destruct r; reflexivity|reflexivity].
Qed.

Lemma prefix_dotdot_slash s r :
  noslash s -> tail_ok r ->
  is_prefix [46; 46; 47] (s ++ r) = beq_bytes s [46; 46] && negb (is_nil r).
Proof.
  intros Hs Hr. destruct s as [|a s].
  - cbn [app]. destruct r as [|x r]; [reflexivity|]. cbn in Hr. subst x. reflexivity.
  - apply noslash_cons in Hs. destruct Hs as [_ Hs].
    cbn [app]. rewrite is_prefix_cons, beq_cons, (N.eqb_sym 46 a).
    destruct (a =? 46); cbn [andb]; [|reflexivity].
    apply prefix_dot_slash; assumption.
Qed.

Lemma beq_dotdot s r :
  noslash s -> tail_ok r ->
  beq_bytes (s ++ r) [46; 46] = beq_bytes s [46; 46] && is_nil r.
Proof.
  intros Hs Hr. destruct s as [|a s].
  - cbn [app]. destruct r as [|x [|y r]]; try reflexivity; cbn in Hr; subst x; reflexivity.
  - apply noslash_cons in Hs. destruct Hs as [_ Hs].
    cbn [app]. rewrite !beq_cons. destruct (a =? 46); cbn [andb]; [|reflexivity].
    apply beq_dot; assumption.
Qed.

Lemma drop3_cons {A} (a b c : A) t : drop 3 (a :: b :: c :: t) = t.
Proof. rewrite drop_cons_pos by lia. change (3 - 1) with 2. apply drop2_cons. Qed.

Lemma first_segment_abs s r :
  noslash s -> tail_ok r -> first_segment (47 :: s ++ r) = (47 :: s, r).
Proof.
  intros Hs Hr. unfold first_segment. rewrite N.eqb_refl.
  rewrite span_unique; [reflexivity|exact Hs|].
  destruct r as [|x r]; [exact I|]. cbn in Hr. subst x. reflexivity.
Qed.

(** One turn of the RFC loop on an input "/" s r, where [s] is the first segment. *)
Lemma rds_step_abs s r out :
  noslash s -> tail_ok r ->
  rds_step (47 :: s ++ r) out =
    if beq_bytes s [46] then (if is_nil r then ([47], out) else (r, out))
    else if beq_bytes s [46; 46]
         then (if is_nil r then ([47], remove_last_segment out) else (r, remove_last_segment out))
         else (r, out ++ 47 :: s).
Proof.
  intros Hs Hr. unfold rds_step.
  rewrite lit_dotdotslash, lit_dotslash, lit_slashdotslash, lit_slashdot, lit_slashdotdotslash,
    lit_slashdotdot, lit_dot, lit_dotdot, lit_slash.
  change (is_prefix [46; 46; 47] (47 :: s ++ r)) with false.
  change (is_prefix [46; 47] (47 :: s ++ r)) with false.
  rewrite !is_prefix_cons, !beq_cons, !N.eqb_refl. cbn [andb].
  rewrite (prefix_dot_slash _ _ Hs Hr), (beq_dot _ _ Hs Hr),
    (prefix_dotdot_slash _ _ Hs Hr), (beq_dotdot _ _ Hs Hr).
  change (47 =? 46) with false. cbn [andb orb].
  destruct (beq_bytes s [46]) eqn:E1; cbn [andb].
  - apply beq_bytes_eq in E1. subst s. destruct r as [|x r]; cbn [is_nil negb]; [reflexivity|].
    cbn in Hr. subst x. cbn [app]. rewrite drop2_cons. reflexivity.
  - destruct (beq_bytes s [46; 46]) eqn:E2; cbn [andb].
    + apply beq_bytes_eq in E2. subst s. destruct r as [|x r]; cbn [is_nil negb]; [reflexivity|].
      cbn in Hr. subst x. cbn [app]. rewrite drop3_cons. reflexivity.
    + rewrite (first_segment_abs _ _ Hs Hr). reflexivity.
Qed.

Lemma rds_step_slash out : rds_step [47] out = ([], out ++ [47]).
Proof. reflexivity. Qed.

(* ------------------------------------------------------------------ the loop *)

Lemma length_join_cons s t : List.length (join_segments (s :: t)) = S (List.length s + List.length (join_segments t)).
Proof. cbn [join_segments List.length]. rewrite app_length. reflexivity. Qed.

Lemma is_nil_join t : is_nil (join_segments t) = is_nil t.
Proof. destruct t; reflexivity. Qed.

Lemma rds_loop_nil fuel out : rds_loop fuel [] out = out.
Proof. destruct fuel; reflexivity. Qed.

Lemma loop_segments : forall segs st fuel,
  Forall noslash segs -> Forall noslash st ->
  (List.length (join_segments segs) <= fuel)%nat ->
  rds_loop fuel (join_segments segs) (join_segments (rev st)) = join_segments (rds segs st).
Proof.
  induction segs as [|s t IH]; intros st fuel Hsegs Hst Hf.
  - cbn [join_segments rds]. apply rds_loop_nil.
  - inversion Hsegs as [|? ? Hs Ht]; subst.
    rewrite length_join_cons in Hf. destruct fuel as [|f]; [lia|].
    cbn [join_segments]. cbn [rds_loop].
    rewrite (rds_step_abs s (join_segments t) _ Hs (join_tail_ok t)).
    cbn [rds]. unfold is_dot, is_dotdot. rewrite is_nil_join.
    destruct (beq_bytes s [46]) eqn:E1.
    + apply beq_bytes_eq in E1. subst s. destruct t as [|s2 t]; cbn [is_nil].
      * cbn [List.length join_segments] in Hf. destruct f as [|f]; [lia|].
        cbn [rds_loop]. rewrite rds_step_slash, rds_loop_nil. cbn [rds rev].
        rewrite join_snoc. reflexivity.
      * apply IH; [assumption|assumption|]. cbn [List.length] in Hf. lia.
    + destruct (beq_bytes s [46; 46]) eqn:E2.
      * apply beq_bytes_eq in E2. subst s. rewrite (rls_join st Hst).
        assert (Htl : Forall noslash (tl st)) by (destruct st; [constructor|inversion Hst; assumption]).
        destruct t as [|s2 t]; cbn [is_nil].
        -- cbn [List.length join_segments] in Hf. destruct f as [|f]; [lia|].
           cbn [rds_loop]. rewrite rds_step_slash, rds_loop_nil. cbn [rds rev].
           rewrite join_snoc. reflexivity.
        -- apply IH; [assumption|assumption|]. cbn [List.length] in Hf. lia.
      * rewrite <- join_snoc. change (rev st ++ [s]) with (rev (s :: st)).
        apply IH; [assumption|constructor; assumption|lia].
Qed.

(** 5.2.4 as written in the RFC = the model's remove_dot_segments, on empty and absolute paths. *)
Lemma rds_agree_abs t :
  rfc_remove_dot_segments (47 :: t) = Url.remove_dot_segments (47 :: t).
Proof.
  unfold rfc_remove_dot_segments, Url.remove_dot_segments.
  pose proof (segments_join_abs t) as E.
  assert (Hns : Forall noslash (segments (47 :: t)))
    by (rewrite segments_abs; apply split_on_noslash, noslash_nil).
  set (segs := segments (47 :: t)) in *. rewrite <- E.
  change (@nil N) with (join_segments (rev [])) at 1.
  apply loop_segments; [exact Hns|constructor|lia].
Qed.

Lemma rds_agree_nil : rfc_remove_dot_segments [] = Url.remove_dot_segments [].
Proof. reflexivity. Qed.

Definition abs_or_empty (p : bytes) : Prop := p = [] \/ exists t, p = 47 :: t.

Lemma rds_agree p : abs_or_empty p -> rfc_remove_dot_segments p = Url.remove_dot_segments p.
Proof. intros [->|(t & ->)]; [apply rds_agree_nil|apply rds_agree_abs]. Qed.

(* ------------------------------------------------------------------ properties of remove_dot_segments *)

Definition not_dot_segment (s : bytes) : Prop := s <> [46] /\ s <> [46; 46].

Lemma is_dot_false s : is_dot s = false -> s <> [46].
Proof. unfold is_dot. intros H ->. discriminate. Qed.
Lemma is_dotdot_false s : is_dotdot s = false -> s <> [46; 46].
Proof. unfold is_dotdot. intros H ->. discriminate. Qed.

Lemma nil_not_dot : not_dot_segment [].
Proof. split; discriminate. Qed.

(** Every segment the model's loop produces is neither "." nor "..". *)
Lemma rds_no_dots : forall segs st,
  Forall not_dot_segment st -> Forall not_dot_segment (rds segs st).
Proof.
  induction segs as [|s t IH]; intros st Hst.
  - cbn [rds]. apply Forall_rev. exact Hst.
  - cbn [rds].
    assert (Htl : Forall not_dot_segment (tl st)) by (destruct st; [constructor|inversion Hst; assumption]).
    destruct (is_dot s) eqn:E1.
    + apply IH. destruct t; [constructor; [apply nil_not_dot|assumption]|assumption].
    + destruct (is_dotdot s) eqn:E2.
      * apply IH. destruct t; [constructor; [apply nil_not_dot|assumption]|assumption].
      * apply IH. constructor; [|assumption].
        split; [apply is_dot_false|apply is_dotdot_false]; assumption.
Qed.

Lemma rds_noslash : forall segs st,
  Forall noslash segs -> Forall noslash st -> Forall noslash (rds segs st).
Proof.
  induction segs as [|s t IH]; intros st Hs Hst.
  - cbn [rds]. apply Forall_rev. exact Hst.
  - inversion Hs; subst. cbn [rds].
    assert (Htl : Forall noslash (tl st)) by (destruct st; [constructor|inversion Hst; assumption]).
    destruct (is_dot s).
    + apply IH; [assumption|]. destruct t; [constructor; [apply noslash_nil|assumption]|assumption].
    + destruct (is_dotdot s).
      * apply IH; [assumption|]. destruct t; [constructor; [apply noslash_nil|assumption]|assumption].
      * apply IH; [assumption|]. constructor; assumption.
Qed.

Lemma rds_nonempty : forall segs st, segs <> [] -> rds segs st <> [].
Proof.
  induction segs as [|s t IH]; intros st H; [congruence|]. cbn [rds].
  destruct t as [|s2 t].
  - destruct (is_dot s); [|destruct (is_dotdot s)]; cbn [rds rev];
      intros E; apply app_eq_nil in E; destruct E as [_ E]; discriminate.
  - destruct (is_dot s); [|destruct (is_dotdot s)]; apply IH; discriminate.
Qed.

(** On a list without dot segments the loop is the identity. *)
Lemma rds_identity : forall segs st,
  Forall not_dot_segment segs -> rds segs st = rev st ++ segs.
Proof.
  induction segs as [|s t IH]; intros st H.
  - cbn [rds]. rewrite app_nil_r. reflexivity.
  - inversion H as [|? ? [H1 H2] Ht]; subst. cbn [rds].
    assert (E1 : is_dot s = false).
    { unfold is_dot. destruct (beq_bytes s [46]) eqn:E; [apply beq_bytes_eq in E; congruence|reflexivity]. }
    assert (E2 : is_dotdot s = false).
    { unfold is_dotdot. destruct (beq_bytes s [46; 46]) eqn:E; [apply beq_bytes_eq in E; congruence|reflexivity]. }
    rewrite E1, E2, (IH _ Ht). cbn [rev]. rewrite <- app_assoc. reflexivity.
Qed.

(** [segments] inverts [join_segments] on non-empty lists of "/"-free segments. *)
Lemma split_on_seg s r : forall cur,
  noslash s -> split_on 47 (s ++ r) cur =
               match r with
               | [] => [rev cur ++ s]
               | x :: r' => if x =? 47 then (rev cur ++ s) :: split_on 47 r' [] else split_on 47 (s ++ r) cur
               end.
Proof.
  induction s as [|b s IH]; intros cur Hs.
  - cbn [app]. rewrite app_nil_r. destruct r as [|x r']; [reflexivity|].
    destruct (x =? 47) eqn:E; [|reflexivity]. cbn [split_on]. rewrite E. reflexivity.
  - apply noslash_cons in Hs. destruct Hs as [Hb Hs]. cbn [app split_on].
    destruct (N.eqb_spec b 47); [contradiction|]. rewrite (IH (b :: cur) Hs).
    cbn [rev]. rewrite <- !app_assoc. cbn [app].
    destruct r as [|x r']; [reflexivity|]. destruct (x =? 47) eqn:E; [reflexivity|].
    cbn [split_on]. destruct (N.eqb_spec b 47); [contradiction|reflexivity].
Qed.

Lemma segments_join l :
  l <> [] -> Forall noslash l -> split_on 47 (tl (join_segments l)) [] = l.
Proof.
  induction l as [|s t IH]; intros Hne H; [congruence|].
  inversion H; subst. cbn [join_segments tl]. rewrite (split_on_seg s (join_segments t) [] H2).
  destruct t as [|s2 t]; [reflexivity|]. cbn [join_segments]. rewrite N.eqb_refl.
  cbn [rev app]. f_equal. apply (IH ltac:(discriminate) H3).
Qed.

(** The model's remove_dot_segments leaves no "." or ".." segment, and is idempotent, for every
    input path. *)
Lemma model_rds_shape p :
  Url.remove_dot_segments p = [] \/
  exists l, l <> [] /\ Forall noslash l /\ Forall not_dot_segment l /\
            Url.remove_dot_segments p = join_segments l /\
            Forall noslash (segments p).
Proof.
  destruct p as [|b t]; [left; reflexivity|]. right.
  assert (Hseg : segments (b :: t) <> [] /\ Forall noslash (segments (b :: t))).
  { assert (G : segments (b :: t) = split_on 47 t [] \/ segments (b :: t) = split_on 47 (b :: t) []).
    { unfold segments. destruct b as [|q]; [right; reflexivity|].
      do 6 (try (destruct q as [q|q|]; try (right; reflexivity))). left. reflexivity. }
    destruct G as [-> | ->]; (split; [apply split_on_nonempty|apply split_on_noslash, noslash_nil]). }
  destruct Hseg as [Hne Hns].
  exists (rds (segments (b :: t)) []). split; [apply rds_nonempty; exact Hne|].
  split; [apply rds_noslash; [exact Hns|constructor]|].
  split; [apply rds_no_dots; constructor|]. split; [reflexivity|exact Hns].
Qed.

Lemma join_nonempty_abs l : l <> [] -> exists t, join_segments l = 47 :: t.
Proof. destruct l as [|s l]; [congruence|]. intros _. cbn [join_segments]. eauto. Qed.

Lemma model_rds_of_join l :
  l <> [] -> Forall noslash l -> Forall not_dot_segment l ->
  Url.remove_dot_segments (join_segments l) = join_segments l.
Proof.
  intros Hne Hns Hnd. destruct (join_nonempty_abs l Hne) as (t & Ht).
  rewrite Ht. unfold Url.remove_dot_segments. rewrite segments_abs.
  assert (E : split_on 47 t [] = l).
  { rewrite <- (segments_join l Hne Hns). rewrite Ht. reflexivity. }
  rewrite E, (rds_identity l [] Hnd). cbn [rev app]. exact Ht.
Qed.

Lemma model_rds_idempotent p :
  Url.remove_dot_segments (Url.remove_dot_segments p) = Url.remove_dot_segments p.
Proof.
  destruct (model_rds_shape p) as [E|(l & Hne & Hns & Hnd & E & _)]; rewrite E; [reflexivity|].
  apply model_rds_of_join; assumption.
Qed.

Lemma model_rds_abs_or_empty p : abs_or_empty (Url.remove_dot_segments p).
Proof.
  destruct (model_rds_shape p) as [E|(l & Hne & _ & _ & E & _)]; rewrite E; [left; reflexivity|].
  right. apply join_nonempty_abs. exact Hne.
Qed.

(** Segments of an absolute path, as the specification reads them: the pieces between "/". *)
Definition path_segments (p : bytes) : list bytes := split_on 47 (tl p) [].

Lemma model_rds_segments p :
  Url.remove_dot_segments p <> [] ->
  Forall not_dot_segment (path_segments (Url.remove_dot_segments p)).
Proof.
  intros Hne. destruct (model_rds_shape p) as [E|(l & Hl & Hns & Hnd & E & _)]; [congruence|].
  unfold path_segments. rewrite E, (segments_join l Hl Hns). exact Hnd.
Qed.

(* ------------------------------------------------------------------ merge *)

Lemma utls_noslash s : noslash s -> up_to_last_slash s = [].
Proof.
  intros H. destruct s as [|b t]; [reflexivity|]. cbn [up_to_last_slash].
  rewrite (noslash_has_slash _ H). reflexivity.
Qed.

Lemma utls_app a r : up_to_last_slash (a ++ 47 :: r) = a ++ 47 :: up_to_last_slash r.
Proof.
  induction a as [|x a IH].
  - cbn [app up_to_last_slash]. unfold has_slash at 1. cbn [existsb]. rewrite N.eqb_refl. reflexivity.
  - cbn [app up_to_last_slash]. change (x :: a ++ 47 :: r) with ((x :: a) ++ 47 :: r).
    rewrite has_slash_app, IH. reflexivity.
Qed.

Lemma utls_prefix X J : tail_ok J -> J <> [] -> up_to_last_slash (X ++ J) = X ++ up_to_last_slash J.
Proof.
  intros Hj Hne. destruct J as [|b rest]; [congruence|]. cbn in Hj. subst b.
  rewrite utls_app. change (47 :: rest) with ([] ++ 47 :: rest). rewrite utls_app. reflexivity.
Qed.

Lemma utls_join l :
  l <> [] -> Forall noslash l ->
  up_to_last_slash (join_segments l) = join_segments (removelast l) ++ [47].
Proof.
  induction l as [|s t IH]; intros Hne H; [congruence|]. inversion H as [|? ? Hs Ht]; subst.
  destruct t as [|s2 t].
  - cbn [join_segments removelast app]. rewrite app_nil_r.
    change (47 :: s) with ([] ++ 47 :: s). rewrite utls_app, (utls_noslash _ Hs). reflexivity.
  - change (removelast (s :: s2 :: t)) with (s :: removelast (s2 :: t)).
    change (join_segments (s :: s2 :: t)) with ((47 :: s) ++ join_segments (s2 :: t)).
    rewrite utls_prefix; [|apply join_tail_ok|discriminate].
    rewrite (IH ltac:(discriminate) Ht). cbn [join_segments app]. rewrite <- app_assoc. reflexivity.
Qed.

(** 5.2.3 as written = the model's merge, for an absolute base path (base with authority). *)
Lemma merge_agree_abs t rel :
  rfc_merge true (47 :: t) rel = Url.merge (47 :: t) rel.
Proof.
  unfold rfc_merge, Url.merge. cbn [is_nil andb].
  rewrite <- (segments_join_abs t) at 1.
  rewrite utls_join.
  - rewrite <- app_assoc. reflexivity.
  - rewrite segments_abs. apply split_on_nonempty.
  - rewrite segments_abs. apply split_on_noslash, noslash_nil.
Qed.

Lemma merge_agree_nil rel : rfc_merge true [] rel = Url.merge [47] rel.
Proof. reflexivity. Qed.

Lemma merge_abs p rel : abs_or_empty p -> p <> [] -> exists t, Url.merge p rel = 47 :: t.
Proof.
  intros [->|(t & ->)] Hne; [congruence|]. unfold Url.merge.
  destruct (removelast (segments (47 :: t))) as [|s l]; cbn [join_segments app]; eauto.
Qed.
