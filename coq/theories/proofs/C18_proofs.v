(** C18: the advertised maximum input always fits the output buffer.
    Arithmetic of the chunk writer: [max_chunk_fit] piecewise and as a maximum, the consumed count of
    the chunk loop as a closed arithmetic function of (input length, capacity), and
    [calculate_max_input]. *)
From Coq Require Import Lia ZArith ZifyN ZifyBool.
From Hoot Require Import Base Chunk Body Request Call Flow.
From Hoot.proofs Require Import BytesLemmas C18_hex.
Open Scope N_scope.
Ltac Zify.zify_post_hook ::= Z.div_mod_to_equations.

(** ** The sizing function *)

(** Largest chunk the writer will put into [avail] bytes. *)
Definition fit (avail : N) : N := max_chunk_fit avail DEFAULT_CHUNK_SIZE.

Lemma fit_step f avail maxc best digits lowest :
  fit_loop (S f) avail maxc best digits lowest =
    if (lowest <=? maxc) && (lowest + digits + CHUNK_LINE_OVERHEAD <=? avail)
    then fit_loop f avail maxc
                  (N.min (lowest * 16 - 1) (avail - digits - CHUNK_LINE_OVERHEAD))
                  (digits + 1) (lowest * 16)
    else best.
Proof. reflexivity. Qed.

Ltac leb_lia :=
  match goal with
  | |- context [?a <=? ?b] =>
      first [ replace (a <=? b) with true by (symmetry; apply N.leb_le; lia)
            | replace (a <=? b) with false by (symmetry; apply N.leb_gt; lia) ]
  end.

Ltac fit_level := rewrite fit_step; unfold CHUNK_LINE_OVERHEAD; repeat leb_lia; cbn [andb].

Lemma fit_cases avail :
  (avail < 6 -> fit avail = 0) /\
  (6 <= avail <= 20 -> fit avail = avail - 5) /\
  (avail = 21 -> fit avail = 15) /\
  (22 <= avail <= 261 -> fit avail = avail - 6) /\
  (avail = 262 -> fit avail = 255) /\
  (263 <= avail <= 4102 -> fit avail = avail - 7) /\
  (avail = 4103 -> fit avail = 4095) /\
  (4104 <= avail -> fit avail = N.min 65535 (avail - 8)).
Proof.
  unfold fit, max_chunk_fit, DEFAULT_CHUNK_SIZE, CHUNK_LINE_OVERHEAD.
  repeat split; intros H.
  - fit_level. reflexivity.
  - fit_level. fit_level. lia.
  - fit_level. fit_level. lia.
  - fit_level. fit_level. fit_level. lia.
  - fit_level. fit_level. fit_level. lia.
  - fit_level. fit_level. fit_level. fit_level. lia.
  - fit_level. fit_level. fit_level. fit_level. lia.
  - fit_level. fit_level. fit_level. fit_level. fit_level. lia.
Qed.

(** The same facts as disjunctions, convenient for case analysis ([lia] is slow on the implications). *)
Lemma fit_cases_or avail :
  (avail < 6 /\ fit avail = 0) \/
  (6 <= avail <= 20 /\ fit avail = avail - 5) \/
  (avail = 21 /\ fit avail = 15) \/
  (22 <= avail <= 261 /\ fit avail = avail - 6) \/
  (avail = 262 /\ fit avail = 255) \/
  (263 <= avail <= 4102 /\ fit avail = avail - 7) \/
  (avail = 4103 /\ fit avail = 4095) \/
  (4104 <= avail /\ fit avail = N.min 65535 (avail - 8)).
Proof.
  destruct (fit_cases avail) as (F1 & F2 & F3 & F4 & F5 & F6 & F7 & F8).
  destruct (N.lt_ge_cases avail 6); [left; split; [lia|apply F1; lia]|right].
  destruct (N.lt_ge_cases avail 21); [left; split; [lia|apply F2; lia]|right].
  destruct (N.lt_ge_cases avail 22); [left; split; [lia|apply F3; lia]|right].
  destruct (N.lt_ge_cases avail 262); [left; split; [lia|apply F4; lia]|right].
  destruct (N.lt_ge_cases avail 263); [left; split; [lia|apply F5; lia]|right].
  destruct (N.lt_ge_cases avail 4103); [left; split; [lia|apply F6; lia]|right].
  destruct (N.lt_ge_cases avail 4104); [left; split; [lia|apply F7; lia]|right].
  split; [lia|apply F8; lia].
Qed.

Lemma hexlen_cases_or n :
  (n < 16 /\ hexlen n = 1) \/
  (16 <= n < 256 /\ hexlen n = 2) \/
  (256 <= n < 4096 /\ hexlen n = 3) \/
  (4096 <= n < 65536 /\ hexlen n = 4) \/
  (65536 <= n /\ 5 <= hexlen n).
Proof.
  destruct (hexlen_spec n) as (L1 & L2 & L3 & L4 & L5).
  destruct (N.lt_ge_cases n 16); [left; split; [lia|apply L1; lia]|right].
  destruct (N.lt_ge_cases n 256); [left; split; [lia|apply L2; lia]|right].
  destruct (N.lt_ge_cases n 4096); [left; split; [lia|apply L3; lia]|right].
  destruct (N.lt_ge_cases n 65536); [left; split; [lia|apply L4; lia]|right].
  split; [lia|apply L5; lia].
Qed.

(** From here on only the characterisations are used. *)
Opaque fit hexlen.

Ltac fit_destruct avail :=
  destruct (fit_cases_or avail) as [[? ?]|[[? ?]|[[? ?]|[[? ?]|[[? ?]|[[? ?]|[[? ?]|[? ?]]]]]]]].
Ltac hexlen_destruct c :=
  destruct (hexlen_cases_or c) as [[? ?]|[[? ?]|[[? ?]|[[? ?]|[? ?]]]]].

(** [fit avail] satisfies the space inequality (every chunk not larger than it does) ... *)
Lemma fit_sound avail c : 1 <= c <= fit avail -> c + hexlen c + 4 <= avail.
Proof. intros H. fit_destruct avail; hexlen_destruct c; lia. Qed.

(** ... and it is the largest such value up to four size digits. *)
Lemma fit_max avail c : c + hexlen c + 4 <= avail -> c <= 65535 -> c <= fit avail.
Proof. intros H Hc. fit_destruct avail; hexlen_destruct c; lia. Qed.

Lemma fit_le_65535 avail : fit avail <= 65535.
Proof. fit_destruct avail; lia. Qed.

Lemma fit_self avail : 1 <= fit avail -> fit avail + hexlen (fit avail) + 4 <= avail.
Proof. intros H. apply fit_sound. lia. Qed.

(** After a chunk limited by the space, at most one byte is left: no further chunk fits. *)
Lemma fit_rest avail :
  avail < 65544 -> 1 <= fit avail -> avail - (fit avail + hexlen (fit avail) + 4) <= 1.
Proof. intros Ha H. fit_destruct avail; hexlen_destruct (fit avail); lia. Qed.

Lemma fit_mono a b : a <= b -> fit a <= fit b.
Proof. intros H. fit_destruct a; fit_destruct b; lia. Qed.

Lemma fit_pos avail : 6 <= avail -> 1 <= fit avail.
Proof. intros H. fit_destruct avail; lia. Qed.

Lemma fit_ge avail : avail < 65544 -> avail - 8 <= fit avail.
Proof. intros H. fit_destruct avail; lia. Qed.

Lemma fit_lt_small avail : avail < 10248 -> fit avail < 10240.
Proof. intros H. fit_destruct avail; lia. Qed.

Lemma fit_ge_big avail : 10248 <= avail -> 10240 <= fit avail.
Proof. intros H. fit_destruct avail; lia. Qed.

Lemma fit_tiny avail : avail <= 1 -> fit avail = 0.
Proof. intros H. fit_destruct avail; lia. Qed.

(** ** One chunk *)

Lemma len_enc_chunk_n c input :
  c <= len input -> len (enc_chunk_n c input) = c + hexlen c + 4.
Proof.
  intros H. unfold enc_chunk_n. rewrite !len_app, len_take.
  change (len (hex_of c)) with (hexlen c). change (len CRLF) with 2. lia.
Qed.

(** [write_chunk] with the length check discharged: it never refuses a chunk it has sized. *)
Lemma write_chunk_eq input avail :
  write_chunk input avail DEFAULT_CHUNK_SIZE =
    let c := N.min (N.min (len input) DEFAULT_CHUNK_SIZE) (fit avail) in
    if c =? 0 then None else Some (c, enc_chunk_n c input).
Proof.
  unfold write_chunk. change (max_chunk_fit avail DEFAULT_CHUNK_SIZE) with (fit avail). cbv zeta.
  set (c := N.min (N.min (len input) DEFAULT_CHUNK_SIZE) (fit avail)).
  destruct (N.eqb_spec c 0) as [|Hc]; [reflexivity|].
  assert (Hle : c <= len input) by (unfold c; lia).
  rewrite (len_enc_chunk_n c input Hle).
  assert (c + hexlen c + 4 <= avail) by (apply fit_sound; unfold c in *; lia).
  destruct (N.leb_spec (c + hexlen c + 4) avail); [reflexivity|lia].
Qed.

(** ** The consumed count as a closed arithmetic function *)

(** Full chunks of [DEFAULT_CHUNK_SIZE] bytes, each costing [DEFAULT_CHUNK_OVERHEAD] more, as long as
    both input and space last; then one chunk of whatever still fits. *)
Definition consumed_n (inlen cap : N) : N :=
  let both := DEFAULT_CHUNK_SIZE + DEFAULT_CHUNK_OVERHEAD in
  let k := cap / both in
  let r := cap mod both in
  if inlen <=? k * DEFAULT_CHUNK_SIZE then inlen
  else k * DEFAULT_CHUNK_SIZE + N.min (inlen - k * DEFAULT_CHUNK_SIZE) (fit r).

Lemma consumed_n_small inlen cap :
  cap < 10248 -> consumed_n inlen cap = N.min inlen (fit cap).
Proof.
  intros H. unfold consumed_n, DEFAULT_CHUNK_SIZE, DEFAULT_CHUNK_OVERHEAD.
  change (10240 + 8) with 10248. rewrite N.div_small, N.mod_small by exact H.
  destruct (N.leb_spec inlen (0 * 10240)); lia.
Qed.

(** The loop equation satisfied by the closed form. *)
Lemma consumed_n_step inlen avail :
  consumed_n inlen avail =
    let c := N.min (N.min inlen DEFAULT_CHUNK_SIZE) (fit avail) in
    if c =? 0 then 0
    else if c <? inlen then c + consumed_n (inlen - c) (avail - (c + hexlen c + 4))
    else c.
Proof.
  cbv zeta. unfold DEFAULT_CHUNK_SIZE.
  set (c := N.min (N.min inlen 10240) (fit avail)).
  destruct (N.lt_ge_cases avail 10248) as [Hs|Hb].
  - (* the remaining space holds less than a full chunk *)
    rewrite consumed_n_small by exact Hs.
    assert (Hf : fit avail < 10240) by (apply fit_lt_small; exact Hs).
    destruct (N.eqb_spec c 0) as [Hc|Hc]; [unfold c in Hc; lia|].
    destruct (N.ltb_spec c inlen) as [Hlt|Hge]; [|unfold c in *; lia].
    assert (Ec : c = fit avail) by (unfold c in *; lia).
    rewrite consumed_n_small by lia. rewrite Ec.
    pose proof (fit_rest avail) as R. specialize (R ltac:(lia)).
    rewrite (fit_tiny (avail - (fit avail + hexlen (fit avail) + 4))) by lia. lia.
  - (* a full chunk fits *)
    assert (Hf : 10240 <= fit avail) by (apply fit_ge_big; exact Hb).
    destruct (N.le_gt_cases inlen 10240) as [Hi|Hi].
    + assert (Ec : c = inlen) by (unfold c; lia). rewrite Ec.
      unfold consumed_n, DEFAULT_CHUNK_SIZE, DEFAULT_CHUNK_OVERHEAD. change (10240 + 8) with 10248.
      destruct (N.leb_spec inlen (avail / 10248 * 10240)); [|lia].
      destruct (N.eqb_spec inlen 0); [lia|]. destruct (N.ltb_spec inlen inlen); [lia|reflexivity].
    + assert (Ec : c = 10240) by (unfold c; lia). rewrite Ec.
      destruct (N.eqb_spec 10240 0); [lia|]. destruct (N.ltb_spec 10240 inlen); [|lia].
      assert (Hh : hexlen 10240 = 4) by (apply hexlen_spec; lia). rewrite Hh.
      change (10240 + 4 + 4) with 10248.
      unfold consumed_n, DEFAULT_CHUNK_SIZE, DEFAULT_CHUNK_OVERHEAD. change (10240 + 8) with 10248.
      assert (Hk : (avail - 10248) / 10248 = avail / 10248 - 1) by lia.
      assert (Hr : (avail - 10248) mod 10248 = avail mod 10248) by lia.
      rewrite Hk, Hr.
      assert (Hk1 : 1 <= avail / 10248) by lia.
      set (k := avail / 10248) in *. set (r := avail mod 10248) in *. clearbody k r.
      destruct (N.leb_spec inlen (k * 10240)); destruct (N.leb_spec (inlen - 10240) ((k - 1) * 10240)); lia.
Qed.

(** ** The chunk loop *)

Lemma chunk_loop_S f input avail used out :
  chunk_loop (S f) input avail used out =
    match write_chunk input avail DEFAULT_CHUNK_SIZE with
    | None => (used, out)
    | Some (n, o) =>
        if n <? len input
        then chunk_loop f (drop n input) (avail - len o) (used + n) (out ++ o)
        else (used + n, out ++ o)
    end.
Proof. reflexivity. Qed.

(** The consumed count depends only on the input length and the capacity; the fuel of the model's
    loop always suffices. *)
Lemma chunk_loop_fst fuel : forall input avail used out,
  len input < N.of_nat fuel ->
  fst (chunk_loop fuel input avail used out) = used + consumed_n (len input) avail.
Proof.
  induction fuel as [|f IH]; intros input avail used out Hf; [lia|].
  rewrite chunk_loop_S, write_chunk_eq, (consumed_n_step (len input) avail). cbv zeta.
  set (c := N.min (N.min (len input) DEFAULT_CHUNK_SIZE) (fit avail)).
  destruct (N.eqb_spec c 0) as [Hc|Hc]; [cbn [fst]; lia|].
  assert (Hle : c <= len input) by (unfold c; lia).
  destruct (N.ltb_spec c (len input)) as [Hlt|Hge]; [|reflexivity].
  rewrite IH by (rewrite len_drop; lia).
  rewrite len_drop, (len_enc_chunk_n c input Hle). lia.
Qed.

Lemma chunk_loop_len fuel : forall input avail used out,
  len (snd (chunk_loop fuel input avail used out)) <= len out + avail.
Proof.
  induction fuel as [|f IH]; intros input avail used out; [cbn [chunk_loop snd]; lia|].
  rewrite chunk_loop_S, write_chunk_eq. cbv zeta.
  set (c := N.min (N.min (len input) DEFAULT_CHUNK_SIZE) (fit avail)).
  destruct (N.eqb_spec c 0) as [Hc|Hc]; [cbn [snd]; lia|].
  assert (Hle : c <= len input) by (unfold c; lia).
  assert (Hs : c + hexlen c + 4 <= avail) by (apply fit_sound; unfold c in *; lia).
  pose proof (len_enc_chunk_n c input Hle) as Hl.
  destruct (N.ltb_spec c (len input)) as [Hlt|Hge].
  - eapply N.le_trans; [apply IH|]. rewrite len_app. lia.
  - cbn [snd]. rewrite len_app. lia.
Qed.

Definition consumed (input : bytes) (cap : N) : N :=
  fst (chunk_loop (S (List.length input)) input cap 0 []).

Lemma consumed_eq input cap : consumed input cap = consumed_n (len input) cap.
Proof.
  unfold consumed. rewrite chunk_loop_fst; [lia|]. rewrite len_length. lia.
Qed.

Lemma consumed_len_only i1 i2 cap : len i1 = len i2 -> consumed i1 cap = consumed i2 cap.
Proof. intros H. rewrite !consumed_eq, H. reflexivity. Qed.

Lemma emitted_le_cap input cap :
  len (snd (chunk_loop (S (List.length input)) input cap 0 [])) <= cap.
Proof. pose proof (chunk_loop_len (S (List.length input)) input cap 0 []) as H. cbn [len] in H. lia. Qed.

(** One chunked body write with non-empty input, completely characterised as to counts. *)
Lemma writer_write_chunked ended input cap :
  input <> [] ->
  exists out,
    writer_write {| w_mode := SChunked; w_ended := ended |} input cap =
      Ok ({| w_mode := SChunked; w_ended := ended |}, consumed_n (len input) cap, out) /\
    len out <= cap /\
    out = snd (chunk_loop (S (List.length input)) input cap 0 []).
Proof.
  intros Hne. destruct input as [|x t]; [congruence|].
  unfold writer_write. cbn [w_mode].
  pose proof (consumed_eq (x :: t) cap) as Hc. unfold consumed in Hc.
  pose proof (emitted_le_cap (x :: t) cap) as Hl.
  destruct (chunk_loop (S (List.length (x :: t))) (x :: t) cap 0 []) as [used out] eqn:E.
  cbn [fst snd] in *. exists out. rewrite Hc. auto.
Qed.

(** ** [calculate_max_input] *)

Lemma calc_le n : calculate_max_input n <= n.
Proof.
  unfold calculate_max_input, DEFAULT_CHUNK_SIZE, DEFAULT_CHUNK_OVERHEAD. cbv zeta.
  change (10240 + 8) with 10248.
  destruct (N.leb_spec (n mod 10248) 8); lia.
Qed.

Lemma calc_mono n m : n <= m -> calculate_max_input n <= calculate_max_input m.
Proof.
  intros H. unfold calculate_max_input, DEFAULT_CHUNK_SIZE, DEFAULT_CHUNK_OVERHEAD. cbv zeta.
  change (10240 + 8) with 10248.
  destruct (N.leb_spec (n mod 10248) 8); destruct (N.leb_spec (m mod 10248) 8); lia.
Qed.

(** The advertised maximum is consumed completely. *)
Lemma consumed_max n : consumed_n (calculate_max_input n) n = calculate_max_input n.
Proof.
  unfold calculate_max_input, consumed_n, DEFAULT_CHUNK_SIZE, DEFAULT_CHUNK_OVERHEAD. cbv zeta.
  change (10240 + 8) with 10248.
  assert (Hr : n mod 10248 < 10248) by lia.
  set (k := n / 10248). set (r := n mod 10248) in *. clearbody k r.
  pose proof (fit_ge r ltac:(lia)) as F.
  destruct (N.leb_spec r 8); destruct (N.leb_spec (k * 10240 + 0) (k * 10240));
    destruct (N.leb_spec (k * 10240 + (r - 8)) (k * 10240)); lia.
Qed.

(** It is in fact the largest input that a single write consumes completely unless the space left
    after the full chunks is one of 21, 262, 4103 (where one byte is wasted) -- not needed for C18,
    the inequality that is needed is: *)
Lemma consumed_le_input inlen cap : consumed_n inlen cap <= inlen.
Proof.
  unfold consumed_n, DEFAULT_CHUNK_SIZE, DEFAULT_CHUNK_OVERHEAD. cbv zeta.
  destruct (N.leb_spec inlen (cap / (10240 + 8) * 10240)); lia.
Qed.

Lemma consumed_mono_input a b cap : a <= b -> consumed_n a cap <= consumed_n b cap.
Proof.
  intros H. unfold consumed_n, DEFAULT_CHUNK_SIZE, DEFAULT_CHUNK_OVERHEAD. cbv zeta.
  set (k := cap / (10240 + 8)). set (m := fit (cap mod (10240 + 8))). clearbody k m.
  destruct (N.leb_spec a (k * 10240)); destruct (N.leb_spec b (k * 10240)); lia.
Qed.

Lemma c18_fits_lemma n input :
  len input = calculate_max_input n -> 0 < len input ->
  exists out, writer_write new_chunked input n = Ok (new_chunked, len input, out) /\ len out <= n.
Proof.
  intros Hl Hpos.
  assert (Hne : input <> []) by (intros ->; cbn [len] in Hpos; lia).
  destruct (writer_write_chunked false input n Hne) as (out & Hw & Hlen & _).
  exists out. unfold new_chunked. rewrite Hw, Hl, consumed_max. auto.
Qed.

(** Same through the public entry point [call_write_body] of a call in its chunked body phase. *)
Definition chunked_body (c : call) (ended : bool) : Prop :=
  c_analyzed c = true /\ c_phase c = PBody /\ c_writer c = {| w_mode := SChunked; w_ended := ended |}.

Lemma call_write_chunked c ended input cap :
  chunked_body c ended ->
  call_write_body c input cap =
    if (match input with [] => false | _ => true end) && ended then Err BodyContentAfterFinish
    else match writer_write {| w_mode := SChunked; w_ended := ended |} input cap with
         | Ok (w, used, out) => Ok (set_writer c w, used, out)
         | Err e => Err e
         | Panic s => Panic s
         end.
Proof.
  intros (Ha & Hp & Hw).
  unfold call_write_body, analyze_request. rewrite Ha. cbn [bind].
  rewrite Hp. cbn [is_prelude is_body]. rewrite Hw. cbn [w_ended left_to_send w_mode].
  destruct ((match input with [] => false | _ => true end) && ended); [reflexivity|].
  destruct (writer_write {| w_mode := SChunked; w_ended := ended |} input cap) as [[[w u] o]|e|s];
    reflexivity.
Qed.

Lemma set_writer_same c w : c_writer c = w -> set_writer c w = c.
Proof. intros <-. destruct c; reflexivity. Qed.

Lemma c18_fits_call c n input :
  chunked_body c false ->
  len input = calculate_max_input n -> 0 < len input ->
  exists out, call_write_body c input n = Ok (c, len input, out) /\ len out <= n.
Proof.
  intros Hc Hl Hpos. rewrite (call_write_chunked c false input n Hc). rewrite andb_false_r.
  destruct (c18_fits_lemma n input Hl Hpos) as (out & Hw & Hlen).
  unfold new_chunked in Hw. rewrite Hw. exists out. split; [|exact Hlen].
  rewrite set_writer_same; [reflexivity|]. apply Hc.
Qed.

(** ** Length-delimited bodies *)

Lemma sized_write lft ended input cap :
  writer_write {| w_mode := SSized lft; w_ended := ended |} input cap =
    let n := N.min (N.min cap (len input)) lft in
    Ok ({| w_mode := SSized (lft - n); w_ended := if lft - n =? 0 then true else ended |},
        n, take n input).
Proof. reflexivity. Qed.

Lemma sized_fits lft ended input cap :
  len input <= lft -> len input = cap ->
  exists w, writer_write {| w_mode := SSized lft; w_ended := ended |} input cap = Ok (w, len input, input).
Proof.
  intros H1 H2. rewrite sized_write. cbv zeta.
  replace (N.min (N.min cap (len input)) lft) with (len input) by lia.
  rewrite take_all by lia. eauto.
Qed.

(** What [Flow::SendBody::calculate_max_input] advertises. *)
Lemma max_input_advertised f c output_len :
  as_with_body f = Ok c ->
  send_body_max_input f output_len =
    Ok (if w_is_chunked (c_writer c) then calculate_max_input output_len else output_len).
Proof. intros H. unfold send_body_max_input. rewrite H. reflexivity. Qed.
