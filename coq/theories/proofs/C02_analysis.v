(** C02, part 2: what request analysis adds to the effective headers (Host, framing header), and
    the body mode it selects. *)
From Coq Require Import Lia ZArith.
From Hoot Require Import Base Chunk Body Httparse Parser Url Request Call Flow.
From Hoot.proofs Require Import BytesLemmas C17_proofs.
Open Scope N_scope.

Lemma get_all_app l1 l2 k : get_all (l1 ++ l2) k = get_all l1 k ++ get_all l2 k.
Proof. unfold get_all. rewrite filter_app, map_app. reflexivity. Qed.

(** The effective headers after analysis: caller-added, Host if derived, framing header if added,
    then the inherited ones that are not suppressed. *)
Lemma analysed_headers c :
  am_headers (c_req (analysed_call c)) =
    am_added (c_req c) ++ host_added (c_req c) ++ framing_added (c_req c) (c_writer c) ++
    am_inherited (c_req c).
Proof.
  unfold analysed_call. cbn [c_req]. rewrite am_headers_with_added. rewrite <- app_assoc. reflexivity.
Qed.

Lemma analysed_field_values c name :
  field_values (c_req (analysed_call c)) name =
    get_all (am_added (c_req c)) (s2b name) ++ get_all (host_added (c_req c)) (s2b name) ++
    get_all (framing_added (c_req c) (c_writer c)) (s2b name) ++
    get_all (am_inherited (c_req c)) (s2b name).
Proof. unfold field_values. rewrite analysed_headers, !get_all_app. reflexivity. Qed.

Lemma field_values_split a name :
  field_values a name = get_all (am_added a) (s2b name) ++ get_all (am_inherited a) (s2b name).
Proof. unfold field_values. rewrite am_headers_split, get_all_app. reflexivity. Qed.

Lemma framing_added_no_host a w : get_all (framing_added a w) (s2b "host") = [].
Proof.
  unfold framing_added, framing_header. destruct (framing_present a); [reflexivity|].
  destruct (w_mode w); reflexivity.
Qed.

Lemma host_added_no_cl a : get_all (host_added a) (s2b "content-length") = [].
Proof.
  unfold host_added. destruct (hosts a); [|reflexivity]. destruct (u_auth _); reflexivity.
Qed.

Lemma host_added_no_te a : get_all (host_added a) (s2b "transfer-encoding") = [].
Proof.
  unfold host_added. destruct (hosts a); [|reflexivity]. destruct (u_auth _); reflexivity.
Qed.

Lemma invalid_false_parts a w s :
  invalid a w s = false ->
  (1 <? len (hosts a)) = false /\ (1 <? len (cls a)) = false /\
  existsb (fun v => negb (content_length_ok v)) (cls a) = false.
Proof.
  unfold invalid. intros H.
  repeat (apply orb_false_elim in H; destruct H as [H ?]). auto.
Qed.

(** Exactly one Host field is effective after analysis; it is the caller's if there was one,
    otherwise the host of the effective URI. *)
Lemma host_once c :
  call_invalid c = false -> u_auth (am_eff_uri (c_req c)) <> [] ->
  exists v, hosts (c_req (analysed_call c)) = [v] /\
            (hosts (c_req c) = [] -> v = uri_host (am_eff_uri (c_req c))) /\
            (hosts (c_req c) <> [] -> hosts (c_req c) = [v]).
Proof.
  intros Hi Hu. unfold hosts at 1. rewrite analysed_field_values, framing_added_no_host.
  cbn [app]. destruct (invalid_false_parts _ _ _ Hi) as (Hh & _ & _).
  apply len_le1 in Hh. unfold host_added.
  destruct Hh as [Hh|(v & Hh)]; rewrite Hh.
  - destruct (u_auth (am_eff_uri (c_req c))) as [|x y]; [congruence|].
    unfold hosts in Hh. rewrite field_values_split in Hh. apply app_eq_nil in Hh. destruct Hh as [H1 H2].
    rewrite H1, H2. exists (uri_host (am_eff_uri (c_req c))). repeat split; auto. congruence.
  - exists v. cbn [get_all filter map app]. unfold hosts in Hh. rewrite field_values_split in Hh.
    rewrite Hh. repeat split; auto. discriminate.
Qed.

(* ------------------------------------------------------------------ decimal round trip *)

Lemma dec_from_app s1 s2 x : dec_from (s1 ++ s2) x = dec_from s2 (dec_from s1 x).
Proof. unfold dec_from. apply fold_left_app. Qed.

Lemma dec_aux_value f : forall n acc,
  n < 10 ^ N.of_nat f ->
  exists ds, dec_aux f n acc = ds ++ acc /\ forall x, dec_from ds x = x * 10 ^ len ds + n.
Proof.
  induction f as [|f IH]; intros n acc Hn.
  - exists []. split; [reflexivity|]. intros x. cbn [dec_from fold_left len].
    change (10 ^ N.of_nat 0) with 1 in Hn. rewrite N.pow_0_r. lia.
  - cbn [dec_aux]. destruct (N.ltb_spec n 10) as [Hlt|Hge].
    + exists [dec_digit n]. split; [reflexivity|]. intros x.
      cbn [dec_from fold_left len]. unfold dec_step, dec_digit.
      change (N.succ 0) with 1. rewrite N.pow_1_r. lia.
    + assert (Hq : n / 10 < 10 ^ N.of_nat f).
      { apply N.div_lt_upper_bound; [lia|]. rewrite Nat2N.inj_succ, N.pow_succ_r' in Hn. exact Hn. }
      destruct (IH (n / 10) (dec_digit (n mod 10) :: acc) Hq) as (ds & Hd & Hv).
      exists (ds ++ [dec_digit (n mod 10)]). split.
      * rewrite Hd, <- app_assoc. reflexivity.
      * intros x. rewrite dec_from_app, Hv. cbn [dec_from fold_left]. unfold dec_step, dec_digit.
        rewrite len_app. cbn [len]. change (N.succ 0) with 1. rewrite N.pow_add_r, N.pow_1_r.
        pose proof (N.div_mod n 10 ltac:(lia)) as Hdm.
        pose proof (N.mod_lt n 10 ltac:(lia)) as Hm.
        set (P := 10 ^ len ds). set (q := n / 10) in *. set (r := n mod 10) in *. nia.
Qed.

Lemma pos_lt_pow2_size p : N.pos p < 2 ^ N.of_nat (Pos.size_nat p).
Proof.
  induction p as [p IH|p IH|]; cbn [Pos.size_nat]; rewrite ?Nat2N.inj_succ, ?N.pow_succ_r'.
  - change (N.pos p~1) with (2 * N.pos p + 1). lia.
  - change (N.pos p~0) with (2 * N.pos p). lia.
  - cbn. lia.
Qed.

Lemma lt_pow10_size n : n < 10 ^ N.of_nat (S (N.size_nat n)).
Proof.
  rewrite Nat2N.inj_succ, N.pow_succ_r'.
  assert (H2 : n < 2 ^ N.of_nat (N.size_nat n)).
  { destruct n as [|p]; [cbn; lia|]. apply pos_lt_pow2_size. }
  assert (H10 : 2 ^ N.of_nat (N.size_nat n) <= 10 ^ N.of_nat (N.size_nat n))
    by (apply N.pow_le_mono_l; lia).
  lia.
Qed.

Lemma dec_value_dec_of n : dec_value (dec_of n) = n.
Proof.
  unfold dec_of. destruct (dec_aux_value _ n [] (lt_pow10_size n)) as (ds & Hd & Hv).
  rewrite Hd, app_nil_r. unfold dec_value. rewrite Hv. lia.
Qed.

Lemma dec_aux_nonempty f : forall n acc, acc <> [] -> dec_aux f n acc <> [].
Proof.
  induction f as [|f IH]; intros n acc H; cbn [dec_aux]; [exact H|].
  destruct (n <? 10); [discriminate|]. apply IH. discriminate.
Qed.

Lemma dec_of_nonempty n : is_nonempty (dec_of n) = true.
Proof.
  unfold dec_of. cbn [dec_aux]. destruct (n <? 10); [reflexivity|].
  pose proof (dec_aux_nonempty (N.size_nat n) (n / 10) [dec_digit (n mod 10)] ltac:(discriminate)) as H.
  destruct (dec_aux _ _ _); [congruence|reflexivity].
Qed.

(* ------------------------------------------------------------------ framing *)

Lemma chunked_literal : chunked_value (s2b "chunked") = true.
Proof. reflexivity. Qed.

(** The body mode after analysis and the framing headers that are effective then. *)
Definition framing_agrees (a' : amended) (w' : writer) : Prop :=
  match w_mode w' with
  | SNone => cls a' = [] /\ has_chunked_te a' = false
  | SSized n => has_chunked_te a' = false /\
                exists v, cls a' = [v] /\ is_nonempty v = true /\ forallb is_digit v = true /\
                          dec_value v = n
  | SChunked => has_chunked_te a' = true
  end.

Lemma analysed_values_unchanged c name :
  get_all (host_added (c_req c)) (s2b name) = [] ->
  get_all (framing_added (c_req c) (c_writer c)) (s2b name) = [] ->
  field_values (c_req (analysed_call c)) name = field_values (c_req c) name.
Proof.
  intros H1 H2. rewrite analysed_field_values, H1, H2, field_values_split. reflexivity.
Qed.

Lemma framing_after_analysis c :
  call_invalid c = false ->
  framing_agrees (c_req (analysed_call c)) (c_writer (analysed_call c)).
Proof.
  intros Hi. unfold call_invalid in Hi.
  destruct (invalid_false_parts _ _ _ Hi) as (_ & Hc1 & Hcok).
  unfold framing_agrees. cbn [analysed_call c_writer].
  set (a := c_req c) in *. set (w := c_writer c) in *.
  destruct (framing_present a) eqn:Hf.
  - (* a framing header is effective: nothing is added *)
    assert (Hfa : framing_added a w = []) by (unfold framing_added; rewrite Hf; reflexivity).
    assert (Hcls : cls (c_req (analysed_call c)) = cls a).
    { unfold cls. apply analysed_values_unchanged; [apply host_added_no_cl|].
      fold a w. rewrite Hfa. reflexivity. }
    assert (Htes : tes (c_req (analysed_call c)) = tes a).
    { unfold tes. apply analysed_values_unchanged; [apply host_added_no_te|].
      fold a w. rewrite Hfa. reflexivity. }
    unfold has_chunked_te. rewrite Hcls, Htes. fold (has_chunked_te a).
    unfold spec_mode. unfold framing_present in Hf.
    destruct (has_chunked_te a) eqn:Hch; [reflexivity|].
    rewrite orb_false_r in Hf. apply len_le1 in Hc1.
    destruct Hc1 as [Hc1|(v & Hc1)]; rewrite Hc1 in *; [discriminate|].
    cbn [existsb] in Hf. rewrite orb_false_r in Hf. cbn [new_sized w_mode].
    split; [reflexivity|]. exists v. unfold content_length_ok in Hf.
    apply andb_prop in Hf. destruct Hf as [Hf _]. apply andb_prop in Hf. destruct Hf as [Hn Hd].
    auto.
  - (* no framing header: the constructor decides, and its header is added *)
    destruct (valid_no_framing_mode _ _ _ Hi Hf) as [Hm Hcl]. rewrite Hm.
    unfold framing_present in Hf. apply orb_false_elim in Hf. destruct Hf as [_ Hch].
    assert (Hfa : framing_added a w = framing_header w).
    { unfold framing_added, framing_present. rewrite Hcl, Hch. reflexivity. }
    unfold cls in Hcl. rewrite field_values_split in Hcl. apply app_eq_nil in Hcl.
    destruct Hcl as [Hcl1 Hcl2].
    unfold has_chunked_te, cls, tes. rewrite !analysed_field_values.
    fold a w. rewrite Hfa, host_added_no_cl, host_added_no_te, Hcl1, Hcl2. cbn [app].
    unfold has_chunked_te, tes in Hch. rewrite field_values_split in Hch.
    rewrite existsb_app in Hch. apply orb_false_elim in Hch. destruct Hch as [Hch1 Hch2].
    unfold framing_header. destruct (w_mode w) as [|n|].
    + cbn [get_all filter map app]. rewrite existsb_app, Hch1, Hch2. split; reflexivity.
    + change (get_all [(s2b "content-length", dec_of n)] (s2b "transfer-encoding")) with (@nil bytes).
      change (get_all [(s2b "content-length", dec_of n)] (s2b "content-length")) with [dec_of n].
      cbn [app]. rewrite existsb_app, Hch1, Hch2. split; [reflexivity|].
      exists (dec_of n). rewrite ?app_nil_r.
      split; [reflexivity|]. split; [apply dec_of_nonempty|]. split; [apply dec_of_digits|apply dec_value_dec_of].
    + change (get_all [(s2b "transfer-encoding", s2b "chunked")] (s2b "transfer-encoding"))
        with [s2b "chunked"].
      rewrite !existsb_app. cbn [existsb]. rewrite chunked_literal. cbn [orb]. apply orb_true_r.
Qed.

(** The three header-side conditions exclude one another, so each implication is an equivalence. *)
Lemma framing_mode_iff c :
  call_invalid c = false ->
  let a' := c_req (analysed_call c) in
  let w' := c_writer (analysed_call c) in
  (w_mode w' = SNone <-> cls a' = [] /\ has_chunked_te a' = false) /\
  (forall n, w_mode w' = SSized n <->
             has_chunked_te a' = false /\
             exists v, cls a' = [v] /\ is_nonempty v = true /\ forallb is_digit v = true /\
                       dec_value v = n) /\
  (w_mode w' = SChunked <-> has_chunked_te a' = true).
Proof.
  intros Hi. cbv zeta. pose proof (framing_after_analysis c Hi) as H. unfold framing_agrees in H.
  destruct (w_mode (c_writer (analysed_call c))) as [|m|].
  - destruct H as [H1 H2]. split; [tauto|]. split.
    + intros n. split; [discriminate|]. intros (_ & v & Hv & _). congruence.
    + split; [discriminate|congruence].
  - destruct H as (H1 & v & Hv & Hn & Hd & Hval). split.
    + split; [discriminate|]. intros [Hc _]. congruence.
    + split.
      * intros n. split.
        -- intros E. inversion E; subst. split; [exact H1|]. exists v. auto.
        -- intros (_ & v' & Hv' & _ & _ & Hval'). f_equal. congruence.
      * split; [discriminate|congruence].
  - split; [split; [discriminate|intros [_ Hc]; congruence]|]. split.
    + intros n. split; [discriminate|]. intros (Hc & _). congruence.
    + tauto.
Qed.

(** Body or no body: the mode has a body exactly when one was announced. *)
Lemma mode_has_body c :
  call_invalid c = false ->
  has_body (c_writer (analysed_call c)) = body_announced (c_req c) (c_writer c).
Proof.
  intros Hi. cbn [analysed_call c_writer]. unfold body_announced.
  destruct (framing_present (c_req c)) eqn:Hf.
  - rewrite (valid_framing_mode_has_body _ _ Hf). reflexivity.
  - destruct (valid_no_framing_mode _ _ _ Hi Hf) as [Hm _]. rewrite Hm. reflexivity.
Qed.
