(** Composition for C11: Flow<Await100>::try_read_100 calls parser::try_parse_response with zero header slots.  Both are translated;
    chained, the translated code from httparse's outcome to the flow's three fields is the model's [try_read_100]. *)
From Coq Require Import NArith Bool List String.
From Hoot Require Import Base Httparse Parser Request Call Flow GenLib Gen Gen2.
From Hoot.proofs Require Import Gen2_equiv_flow_try100 Gen2_equiv_parser.
Open Scope N_scope.

Definition gen_parse0 (input : bytes) : res (option (N * response)) :=
  gen_try_parse_response input (hp_of (fst (parse_response 0 input))) (hv_version (snd (parse_response 0 input)))
    (hv_code (snd (parse_response 0 input))) (hv_headers (snd (parse_response 0 input))).

Theorem gen_try_read_100_chain f input :
  let g := gen_try_read_100 (i_reasons f) (i_should_send_body f) (i_await_100 f) (parsed_of (gen_parse0 input)) in
  match try_read_100 f input with
  | (f', Ok n) => g = Ok (i_reasons f', i_should_send_body f', i_await_100 f', n)
  | (_, Err e) => g = Err e
  | (_, Panic _) => exists s, g = Panic s
  end.
Proof.
  unfold gen_parse0. rewrite gen_try_parse_response_eq. exact (gen_try_read_100_ok f input).
Qed.
