(** C12, part 3: the server-facing calls of [Call] and [Flow] on ARBITRARY bytes, and the
    state-advancing calls made afterwards.

    Preconditions are explicit here (holder variant, duplicate-free close reasons, reader present and
    not in the transient Trailer state); proofs/C12_inv.v restates the theorems under the general
    flow invariant [Inv] of proofs/C09_inv.v. *)
From Coq Require Import Lia ZArith.
From Hoot Require Import Base Chunk Body Httparse Parser Url Request Call Flow.
From Hoot.proofs Require Import BytesLemmas Reasons C05_stable C12_chunk C12_parsers.
Open Scope N_scope.

(* ------------------------------------------------------------------ close reasons *)

(** A duplicate-free reason list fits the array. *)
Theorem reasons_within_cap (rs : list reason) : NoDup rs -> len rs <= CLOSE_REASON_CAP.
Proof.
  intros H. apply nodup_reasons_len in H. rewrite len_length. unfold CLOSE_REASON_CAP. lia.
Qed.

(* ------------------------------------------------------------------ Call<RecvBody>::read *)

Lemma set_reader_same c r : c_reader c = Some r -> set_reader c (Some r) = c.
Proof. destruct c; cbn. intros ->. reflexivity. Qed.

Theorem call_read_safe c r w cap :
  c_reader c = Some r -> reader_ok r ->
  match call_read c w cap with
  | Panic _ => False
  | Err _ => True
  | Ok (c', i, out) =>
      i <= len w /\ len out <= cap /\ subseq out (take i w) /\
      exists r', c' = set_reader c (Some r') /\ reader_ok r'
  end.
Proof.
  intros Hr Hok. unfold call_read. rewrite Hr.
  destruct (reader_is_ended r).
  - cbn [len]. repeat split; try lia; try constructor.
    exists r. split; [symmetry; apply set_reader_same; exact Hr|exact Hok].
  - pose proof (reader_read_safe r w cap (c_stop c) Hok) as H.
    destruct (reader_read r w cap (c_stop c)) as [[[r' i] out]|e|s]; cbn [bind]; [|exact I|exact H].
    destruct H as (H1 & H2 & H3 & H4 & _). repeat split; try assumption.
    exists r'. split; [reflexivity|exact H4].
Qed.

(* ------------------------------------------------------------------ Call<RecvResponse>::try_response *)

(** The call may hold a reader (after a complete head); if so it is a between-calls reader. *)
Definition call_ok (c : call) : Prop := forall r, c_reader c = Some r -> reader_ok r.

Definition got_of (input : bytes) (first : option (N * response)) : res (option (N * response)) :=
  match first with
  | Some v => Ok (Some v)
  | None =>
      do p <- try_parse_partial_response (N.to_nat MAX_RESPONSE_HEADERS) input;
      match p with
      | Some r =>
          if is_redirection (rs_status r) && hm_contains (rs_headers r) (s2b "location")
          then Ok (Some (len input,
                         {| rs_version := rs_version r; rs_status := rs_status r;
                            rs_headers := hm_insert (rs_headers r) (s2b "connection") (s2b "close") |}))
          else Ok None
      | None => Ok None
      end
  end.

Definition finish (c : call) (got : option (N * response)) : res (call * option (N * response)) :=
  match got with
  | None => Ok (c, None)
  | Some (used, r) =>
      if rs_status r =? 100 then
        match rs_headers r with
        | [] => Ok (c, Some (used, r))
        | _ => Err HeadersWith100
        end
      else
        let cl_raw := hm_get (rs_headers r) (s2b "content-length") in
        if match cl_raw with Some v => negb (is_text v) | None => false end
        then Err BadContentLengthHeader
        else
          let m := am_method (c_req c) in
          do rd <- for_response (rs_version r =? 0) (method_eqb m HEAD) (method_eqb m CONNECT)
                                (rs_status r)
                                (lookup_text (rs_headers r) (s2b "content-length"))
                                (lookup_text (rs_headers r) (s2b "transfer-encoding"));
          Ok (set_reader c (Some rd), Some (used, r))
  end.

Lemma call_try_response_eq c input :
  call_try_response c input =
    (do first <- try_parse_response (N.to_nat MAX_RESPONSE_HEADERS) input;
     do got <- got_of input first;
     finish c got).
Proof. reflexivity. Qed.

Lemma header_defined_safe http10 cl te :
  match header_defined http10 cl te with
  | Panic _ => False
  | Err _ => True
  | Ok rd => reader_ok rd
  end.
Proof.
  unfold header_defined.
  destruct cl as [v|]; cbn [bind].
  - destruct (negb (all_digits v)); cbn [bind]; [exact I|].
    destruct (parse_dec_u64 v) as [n|]; cbn [bind]; [|exact I].
    destruct (_ && negb http10); [exact reader_ok_start|exact I].
  - destruct (_ && negb http10); [exact reader_ok_start|exact I].
Qed.

Lemma for_response_safe http10 hd cn status cl te :
  match for_response http10 hd cn status cl te with
  | Panic _ => False
  | Err _ => True
  | Ok rd => reader_ok rd
  end.
Proof.
  unfold for_response. pose proof (header_defined_safe http10 cl te) as H.
  destruct (header_defined http10 cl te) as [rd|e|s]; cbn [bind]; [|exact I|exact H].
  cbv zeta. match goal with |- context [if ?b then _ else _] => destruct b end; [exact I|exact H].
Qed.

(** Outcome of [try_response] on the call level. *)
Definition TryResponseSafe (c : call) (w : bytes) (x : res (call * option (N * response))) : Prop :=
  match x with
  | Panic _ => False
  | Err _ => True
  | Ok (c', None) => c' = c
  | Ok (c', Some (used, _)) =>
      used <= len w /\ (c' = c \/ exists rd, c' = set_reader c (Some rd) /\ reader_ok rd)
  end.

Lemma got_of_safe input first :
  (match first with Some (used, _) => used <= len input | None => True end) ->
  match got_of input first with
  | Panic _ => False
  | Err _ => True
  | Ok None => True
  | Ok (Some (used, _)) => used <= len input
  end.
Proof.
  intros Hf. unfold got_of. destruct first as [[used r]|]; [exact Hf|].
  pose proof (try_parse_partial_response_safe (N.to_nat MAX_RESPONSE_HEADERS) input) as Hp.
  destruct (try_parse_partial_response _ input) as [[r|]|e|s]; cbn [bind]; try exact I; [|exact Hp].
  destruct (_ && _); [lia|exact I].
Qed.

Lemma finish_safe c w got :
  (match got with Some (used, _) => used <= len w | None => True end) ->
  TryResponseSafe c w (finish c got).
Proof.
  intros Hg. unfold finish. destruct got as [[used r]|]; [|reflexivity].
  destruct (rs_status r =? 100).
  - destruct (rs_headers r); cbn [TryResponseSafe]; [|exact I]. split; [exact Hg|left; reflexivity].
  - cbv zeta.
    destruct (match hm_get (rs_headers r) (s2b "content-length") with
              | Some v => negb (is_text v) | None => false end); [exact I|].
    match goal with |- context [for_response ?a ?b ?c0 ?d ?e ?f] =>
      pose proof (for_response_safe a b c0 d e f) as H; destruct (for_response a b c0 d e f) as [rd|e0|s]
    end; cbn [bind TryResponseSafe]; [|exact I|exact H].
    split; [exact Hg|right; exists rd; split; [reflexivity|exact H]].
Qed.

Theorem call_try_response_safe c w : TryResponseSafe c w (call_try_response c w).
Proof.
  rewrite call_try_response_eq.
  pose proof (try_parse_response_safe (N.to_nat MAX_RESPONSE_HEADERS) w) as H1.
  destruct (try_parse_response _ w) as [first|e|s]; cbn [bind]; [|exact I|exact H1].
  assert (Hf : match first with Some (used, _) => used <= len w | None => True end).
  { destruct first as [[used r]|]; exact H1. }
  pose proof (got_of_safe w first Hf) as H2.
  destruct (got_of w first) as [got|e|s]; cbn [bind]; [|exact I|exact H2].
  apply finish_safe. destruct got as [[used r]|]; exact H2.
Qed.

Lemma try_response_call_ok c w c' o :
  call_ok c -> call_try_response c w = Ok (c', o) -> call_ok c'.
Proof.
  intros Hc E. pose proof (call_try_response_safe c w) as H. rewrite E in H. cbn [TryResponseSafe] in H.
  destruct o as [[used r]|]; [|subst; exact Hc].
  destruct H as (_ & [->|(rd & -> & Hrd)]); [exact Hc|].
  intros r0 Hr0. cbn in Hr0. inversion Hr0; subst. exact Hrd.
Qed.

(* ------------------------------------------------------------------ Await100::try_read_100 *)

(** The window holds a complete head with status 100 (as the zero-slot parser sees it). *)
Definition parses_100 (w : bytes) : Prop :=
  exists used r, try_parse_response 0 w = Ok (Some (used, r)) /\ rs_status r = 100.

(** The window makes [try_read_100] give up waiting: a complete head with another status, or a head
    with field lines (too many for zero slots). *)
Definition refusal_window (w : bytes) : Prop :=
  match try_parse_response 0 w with
  | Ok (Some (_, r)) => rs_status r <> 100
  | Err HttpParseTooManyHeaders => True
  | _ => False
  end.

Lemma refuse_ok f :
  NoDup (i_reasons f) ->
  exists f', refuse f = Ok f' /\ NoDup (i_reasons f') /\ In Not100Continue (i_reasons f') /\
             i_should_send_body f' = false /\ i_await_100 f' = false /\
             i_call f' = i_call f /\ i_holder f' = i_holder f /\
             i_status f' = i_status f /\ i_location f' = i_location f.
Proof.
  intros Hnd. unfold refuse.
  destruct (add_reason_ok (i_reasons f) Not100Continue Hnd) as (rs' & Ha & Hnd' & Hin & _).
  rewrite Ha. cbn [bind]. eexists. split; [reflexivity|]. cbn. auto 10.
Qed.

(** Refusing twice changes nothing the second time. *)
Lemma refuse_idem f :
  In Not100Continue (i_reasons f) -> i_should_send_body f = false -> i_await_100 f = false ->
  refuse f = Ok f.
Proof.
  intros Hin Hs Ha. unfold refuse, add_reason.
  apply existsb_reason in Hin. rewrite Hin. cbn [bind].
  destruct f; cbn in *; subst. reflexivity.
Qed.

(** What one [try_read_100] call guarantees. *)
Definition Try100Safe (f : inner) (w : bytes) (y : inner * res N) : Prop :=
  let '(f', x) := y in
  match x with Panic _ => False | Err _ => True | Ok n => n <= len w end /\
  NoDup (i_reasons f') /\ i_call f' = i_call f /\ i_holder f' = i_holder f /\
  i_status f' = i_status f /\ i_location f' = i_location f.

Theorem try100_safe_gen f w :
  NoDup (i_reasons f) ->
  ~ (i_should_send_body f = false /\ parses_100 w) ->
  Try100Safe f w (try_read_100 f w).
Proof.
  intros Hnd Hmis. unfold try_read_100, Try100Safe.
  pose proof (try_parse_response_safe 0 w) as Hp.
  destruct (refuse_ok f Hnd) as (fr & Hr & Hndr & _ & _ & _ & Hc & Hh & Hst & Hl).
  destruct (try_parse_response 0 w) as [[[used r]|]|e|s] eqn:E; cbn [ParseSafe] in Hp.
  - destruct (N.eqb_spec (rs_status r) 100) as [E100|_].
    + destruct (i_should_send_body f) eqn:Es.
      * cbn. auto 10.
      * exfalso. apply Hmis. split; [reflexivity|]. exists used, r. split; [exact E|exact E100].
    + rewrite Hr. split; [lia|]. auto 10.
  - split; [lia|]. auto 10.
  - destruct e; try (cbn; split; [exact I|auto 10]).
    rewrite Hr. split; [lia|]. auto 10.
  - contradiction.
Qed.

Theorem try100_safe f w :
  NoDup (i_reasons f) -> i_should_send_body f = true -> Try100Safe f w (try_read_100 f w).
Proof. intros Hnd Hs. apply try100_safe_gen; [exact Hnd|]. intros [H _]. congruence. Qed.

(** The excluded case is a real panic site: [assert!(self.inner.should_send_body)]. *)
Theorem try100_misuse f w :
  i_should_send_body f = false -> parses_100 w -> exists s, snd (try_read_100 f w) = Panic s.
Proof.
  intros Hs (used & r & E & E100). unfold try_read_100. rewrite E.
  apply N.eqb_eq in E100. rewrite E100, Hs. eexists. reflexivity.
Qed.

(** Stability: a window that refuses keeps refusing when more bytes arrive behind it. *)
Lemma refusal_stable w x :
  refusal_window w -> try_parse_response 0 (w ++ x) = try_parse_response 0 w.
Proof.
  intros H. apply try_parse_response_stable. unfold refusal_window in H.
  destruct (try_parse_response 0 w) as [[[u r]|]|e|s]; try contradiction; discriminate.
Qed.

Lemma refusal_window_app w x : refusal_window w -> refusal_window (w ++ x).
Proof. intros H. unfold refusal_window. rewrite (refusal_stable w x H). exact H. Qed.

Lemma refusal_not_100 w : refusal_window w -> ~ parses_100 w.
Proof.
  intros H (used & r & E & E100). unfold refusal_window in H. rewrite E in H. contradiction.
Qed.

(** [try_read_100] on a refusing window, from any flow. *)
Lemma try100_on_refusal f w :
  refusal_window w -> try_read_100 f w = match refuse f with
                                         | Ok f' => (f', Ok 0)
                                         | Err e => (f, Err e)
                                         | Panic s => (f, Panic s)
                                         end.
Proof.
  intros H. unfold refusal_window in H. unfold try_read_100.
  destruct (try_parse_response 0 w) as [[[u r]|]|e|s]; try contradiction.
  - destruct (N.eqb_spec (rs_status r) 100); [contradiction|reflexivity].
  - destruct e; try contradiction. reflexivity.
Qed.

(** The discipline theorem, one step: the only way [should_send_body] becomes false in Await100 is a
    refusal on some window [w] (zero bytes consumed).  The caller then re-presents [w] followed by
    whatever arrives next; every such window refuses again, returns [Ok 0] and leaves the flow
    unchanged -- so the assert can never fire. *)
Theorem try100_after_refusal f w :
  NoDup (i_reasons f) -> refusal_window w ->
  exists f', try_read_100 f w = (f', Ok 0) /\
             i_should_send_body f' = false /\ NoDup (i_reasons f') /\
             forall x, try_read_100 f' (w ++ x) = (f', Ok 0).
Proof.
  intros Hnd Hw. destruct (refuse_ok f Hnd) as (fr & Hr & Hndr & Hin & Hs & Ha & _).
  exists fr. rewrite (try100_on_refusal f w Hw), Hr. repeat split; try assumption.
  intros x. rewrite (try100_on_refusal fr (w ++ x) (refusal_window_app w x Hw)).
  rewrite (refuse_idem fr Hin Hs Ha). reflexivity.
Qed.

(** Conversely: [should_send_body] is only cleared by a refusal. *)
Theorem try100_cleared_only_by_refusal f w f' x :
  try_read_100 f w = (f', x) -> i_should_send_body f = true -> i_should_send_body f' = false ->
  refusal_window w /\ x = Ok 0.
Proof.
  intros E Hs Hs'. unfold try_read_100 in E. unfold refusal_window.
  destruct (try_parse_response 0 w) as [[[u r]|]|e|s].
  - destruct (N.eqb_spec (rs_status r) 100) as [E100|E100].
    + rewrite Hs in E. inversion E; subst. cbn in Hs'. congruence.
    + destruct (refuse f) as [fr|e|s]; inversion E; subst; try congruence. split; [exact E100|reflexivity].
  - inversion E; subst. congruence.
  - destruct e; try (inversion E; subst; cbn in Hs'; congruence).
    destruct (refuse f) as [fr|e|s]; inversion E; subst; try congruence. split; [exact I|reflexivity].
  - inversion E; subst. congruence.
Qed.

(** The re-presentation discipline as a schedule: the caller keeps a buffer of unconsumed bytes;
    each call sees the buffer followed by the newly arrived bytes [x] (any bytes, possibly none);
    the consumed count is dropped from the front.  The run stops at the first error. *)
Fixpoint run100_safe (f : inner) (buf : bytes) (arrivals : list bytes) : Prop :=
  match arrivals with
  | [] => True
  | x :: rest =>
      let w := buf ++ x in
      let '(f', r) := try_read_100 f w in
      match r with
      | Panic _ => False
      | Err _ => True
      | Ok n => n <= len w /\ NoDup (i_reasons f') /\ run100_safe f' (drop n w) rest
      end
  end.

Lemma run100_inv arrivals : forall f buf,
  NoDup (i_reasons f) ->
  (i_should_send_body f = true \/ forall x, try_read_100 f (buf ++ x) = (f, Ok 0)) ->
  run100_safe f buf arrivals.
Proof.
  induction arrivals as [|x rest IH]; intros f buf Hnd Hinv; cbn [run100_safe]; [exact I|].
  cbv zeta. destruct Hinv as [Hs|Hfix].
  - pose proof (try100_safe f (buf ++ x) Hnd Hs) as Hsafe.
    destruct (try_read_100 f (buf ++ x)) as [f' r] eqn:E. unfold Try100Safe in Hsafe.
    destruct Hsafe as (Hr & Hnd' & _).
    destruct r as [n|e|s]; [|exact I|exact Hr].
    split; [exact Hr|]. split; [exact Hnd'|]. apply IH; [exact Hnd'|].
    destruct (i_should_send_body f') eqn:Es'; [left; reflexivity|right].
    destruct (try100_cleared_only_by_refusal f (buf ++ x) f' (Ok n) E Hs Es') as [Hw Hn].
    inversion Hn; subst n. rewrite drop_0.
    destruct (try100_after_refusal f (buf ++ x) Hnd Hw) as (f'' & E2 & _ & _ & Hfix).
    rewrite E in E2. inversion E2; subst f''. exact Hfix.
  - rewrite (Hfix x). split; [lia|]. split; [exact Hnd|]. rewrite drop_0.
    apply IH; [exact Hnd|]. right. intros y. rewrite <- app_assoc. apply Hfix.
Qed.

Theorem run100_discipline f arrivals :
  NoDup (i_reasons f) -> i_should_send_body f = true -> run100_safe f [] arrivals.
Proof. intros Hnd Hs. apply run100_inv; [exact Hnd|left; exact Hs]. Qed.

(* ------------------------------------------------------------------ RecvResponse::try_response *)

Definition RecvTrySafe (f : inner) (w : bytes) (x : res (inner * N * option response)) : Prop :=
  match x with
  | Panic _ => False
  | Err _ => True
  | Ok (f', used, _) =>
      used <= len w /\ i_holder f' = HRecvResponse /\ NoDup (i_reasons f') /\
      (call_ok (i_call f) -> call_ok (i_call f')) /\
      set_reader (i_call f') None = set_reader (i_call f) None
  end.

Theorem recv_try_response_safe f w :
  i_holder f = HRecvResponse -> NoDup (i_reasons f) -> RecvTrySafe f w (recv_try_response f w).
Proof.
  intros Hh Hnd. unfold recv_try_response, as_recv_response. rewrite Hh. cbn [bind].
  pose proof (call_try_response_safe (i_call f) w) as Hs.
  destruct (call_try_response (i_call f) w) as [[c' got]|e|s] eqn:E; cbn [bind]; [|exact I|exact Hs].
  pose proof (fun H => try_response_call_ok (i_call f) w c' got H E) as Hok.
  assert (Hsame : set_reader c' None = set_reader (i_call f) None).
  { cbn [TryResponseSafe] in Hs. destruct got as [[used r]|]; [|subst; reflexivity].
    destruct Hs as (_ & [->|(rd & -> & _)]); reflexivity. }
  destruct got as [[used rsp]|]; cbn [TryResponseSafe] in Hs.
  - destruct Hs as (Hu & _).
    destruct ((rs_status rsp =? 100) && i_await_100 (set_call f c')).
    + cbn [RecvTrySafe]. cbn. auto.
    + destruct (headers_has (hm_iter (rs_headers rsp)) (s2b "connection") (s2b "close")).
      * destruct (add_reason_ok (i_reasons f) ServerConnectionClose Hnd) as (rs' & Ha & Hnd' & _).
        cbn [set_call i_reasons]. rewrite Ha. cbn [bind RecvTrySafe]. cbn. auto.
      * cbn [bind RecvTrySafe]. cbn. auto.
  - cbn [RecvTrySafe]. cbn. split; [lia|]. auto.
Qed.

(* ------------------------------------------------------------------ RecvBody::read *)

Theorem recv_body_read_safe f r w cap :
  i_holder f = HRecvBody -> c_reader (i_call f) = Some r -> reader_ok r ->
  match recv_body_read f w cap with
  | Panic _ => False
  | Err _ => True
  | Ok (f', i, out) =>
      i <= len w /\ len out <= cap /\ subseq out (take i w) /\
      exists r', f' = set_call f (set_reader (i_call f) (Some r')) /\ reader_ok r'
  end.
Proof.
  intros Hh Hr Hok. unfold recv_body_read, as_recv_body. rewrite Hh. cbn [bind].
  pose proof (call_read_safe (i_call f) r w cap Hr Hok) as H.
  destruct (call_read (i_call f) w cap) as [[[c' i] out]|e|s]; cbn [bind]; [|exact I|exact H].
  destruct H as (H1 & H2 & H3 & r' & -> & H4). repeat split; try assumption.
  exists r'. split; [reflexivity|exact H4].
Qed.

(** [stop_on_chunk_boundary] does not disturb any of this. *)
Lemma recv_body_stop_safe f r b :
  i_holder f = HRecvBody -> c_reader (i_call f) = Some r ->
  exists f', recv_body_stop f b = Ok f' /\ i_holder f' = HRecvBody /\ c_reader (i_call f') = Some r /\
             i_reasons f' = i_reasons f.
Proof.
  intros Hh Hr. unfold recv_body_stop, as_recv_body. rewrite Hh. cbn [bind].
  eexists. split; [reflexivity|]. cbn. auto.
Qed.

(** Body schedules on the flow level: reads with arbitrary windows and capacities, interleaved with
    changes of the stop flag. *)
Inductive body_op := BRead (w : bytes) (cap : N) | BStop (b : bool).

Fixpoint body_run_safe (f : inner) (ops : list body_op) : Prop :=
  match ops with
  | [] => True
  | BRead w cap :: rest =>
      match recv_body_read f w cap with
      | Panic _ => False
      | Err _ => True
      | Ok (f', i, out) =>
          i <= len w /\ len out <= cap /\ subseq out (take i w) /\ body_run_safe f' rest
      end
  | BStop b :: rest =>
      match recv_body_stop f b with
      | Ok f' => body_run_safe f' rest
      | _ => False
      end
  end.

Theorem body_run_safe_all ops : forall f r,
  i_holder f = HRecvBody -> c_reader (i_call f) = Some r -> reader_ok r -> body_run_safe f ops.
Proof.
  induction ops as [|[w cap|b] rest IH]; intros f r Hh Hr Hok; cbn [body_run_safe]; [exact I| |].
  - pose proof (recv_body_read_safe f r w cap Hh Hr Hok) as H.
    destruct (recv_body_read f w cap) as [[[f' i] out]|e|s]; [|exact I|exact H].
    destruct H as (H1 & H2 & H3 & r' & -> & H4). repeat split; try assumption.
    apply (IH _ r'); [exact Hh|reflexivity|exact H4].
  - destruct (recv_body_stop_safe f r b Hh Hr) as (f' & E & Hh' & Hr' & _). rewrite E.
    apply (IH f' r); assumption.
Qed.

(* ------------------------------------------------------------------ the state-advancing calls *)

(** Await100 -> SendBody / RecvResponse. *)
Theorem await_100_proceed_safe f :
  i_holder f = HWithBody -> c_analyzed (i_call f) = true ->
  exists t f', await_100_proceed f = Ok (t, f') /\
    ((t = TSendBody /\ i_should_send_body f = true /\ f' = set_call f (i_call f)) \/
     (t = TRecvResponse /\ i_should_send_body f = false /\ i_holder f' = HRecvResponse /\
      i_reasons f' = i_reasons f /\ c_reader (i_call f') = c_reader (i_call f))).
Proof.
  intros Hh Ha. unfold await_100_proceed. destruct (i_should_send_body f).
  - unfold analyze_request. rewrite Ha. cbn [bind]. eexists _, _. split; [reflexivity|]. left. auto.
  - rewrite Hh. eexists _, _. split; [reflexivity|]. right. cbn. auto.
Qed.

(** RecvResponse -> RecvBody / Redirect / Cleanup (or stay, when no head has been received yet). *)
Theorem recv_response_proceed_safe f :
  i_holder f = HRecvResponse -> NoDup (i_reasons f) ->
  match recv_response_proceed f with
  | Panic _ => False
  | Err _ => False
  | Ok None => c_reader (i_call f) = None
  | Ok (Some (t, f')) =>
      exists r, c_reader (i_call f) = Some r /\ c_reader (i_call f') = Some r /\
                i_holder f' = HRecvBody /\ NoDup (i_reasons f') /\
                (t = TRecvBody \/ (t = TRedirect /\ is_redirect f' = true) \/ t = TCleanup)
  end.
Proof.
  intros Hh Hnd. unfold recv_response_proceed, recv_response_can_proceed, as_recv_response.
  rewrite Hh. cbn [bind].
  destruct (c_reader (i_call f)) as [r|] eqn:Er; cbn [negb]; [|reflexivity].
  destruct (need_response_body (i_call f)).
  - cbn [set_phase c_reader]. rewrite Er.
    destruct (reader_is_close r).
    + destruct (add_reason_ok (i_reasons f) CloseDelimitedBody Hnd) as (rs' & Ha & Hnd' & _).
      rewrite Ha. cbn [bind]. exists r. cbn. auto 10.
    + cbn [bind]. exists r. cbn. auto 10.
  - cbv zeta. exists r. cbn [set_call_holder i_call i_holder i_reasons set_phase c_reader].
    repeat split; try assumption.
    destruct (is_redirect _) eqn:Ered; [right; left; split; reflexivity|right; right; reflexivity].
Qed.

(** RecvBody -> Redirect / Cleanup (or stay, while the body is incomplete). *)
Theorem recv_body_proceed_safe f r :
  i_holder f = HRecvBody -> c_reader (i_call f) = Some r ->
  match recv_body_proceed f with
  | Panic _ => False
  | Err _ => False
  | Ok None => reader_is_ended r || reader_is_close r = false
  | Ok (Some (t, f')) =>
      f' = f /\ ((t = TRedirect /\ is_redirect f = true) \/ t = TCleanup)
  end.
Proof.
  intros Hh Hr. unfold recv_body_proceed, recv_body_can_proceed, as_recv_body, reader_of.
  rewrite Hh. cbn [bind]. rewrite Hr. cbn [bind].
  destruct (reader_is_ended r || reader_is_close r); cbn [negb]; [|reflexivity].
  split; [reflexivity|]. destruct (is_redirect f); [left; auto|right; reflexivity].
Qed.

(** Redirect: [as_new_flow] on a flow whose request has not been taken yet (a second call is the
    known finding F18) and whose base URI has a scheme. *)
Lemma push_reason_small rs r : len rs < CLOSE_REASON_CAP -> push_reason rs r = Ok (rs ++ [r]).
Proof. intros H. unfold push_reason. destruct (N.leb_spec CLOSE_REASON_CAP (len rs)); [lia|reflexivity]. Qed.

Lemma flow_new_safe req : exists f, flow_new req = Ok f /\ am_unset (c_req (i_call f)) = [] /\ (List.length (i_reasons f) <= 2)%nat.
Proof.
  unfold flow_new.
  assert (H1 : exists rs1, (match rq_version req with V10 => push_reason [] Http10 | _ => Ok [] end) = Ok rs1 /\
                           (List.length rs1 <= 1)%nat).
  { destruct (rq_version req); try (exists []; split; [reflexivity|cbn; lia]).
    exists [Http10]. split; [reflexivity|cbn; lia]. }
  destruct H1 as (rs1 & -> & Hl1). cbn [bind].
  assert (H2 : exists rs2, (if headers_has (rq_headers req) (s2b "connection") (s2b "close")
                            then push_reason rs1 ClientConnectionClose else Ok rs1) = Ok rs2 /\
                           (List.length rs2 <= 2)%nat).
  { destruct (headers_has _ _ _).
    - exists (rs1 ++ [ClientConnectionClose]). split.
      + apply push_reason_small. rewrite len_length. unfold CLOSE_REASON_CAP. lia.
      + rewrite app_length. cbn. lia.
    - exists rs1. split; [reflexivity|lia]. }
  destruct H2 as (rs2 & -> & Hl2). cbn [bind].
  eexists. split; [reflexivity|]. cbn. split; [reflexivity|exact Hl2].
Qed.

Lemma am_unset_header_small a k :
  len (am_unset a) < UNSET_CAP ->
  am_unset_header a k = Ok {| am_req := am_req a; am_uri := am_uri a; am_added := am_added a;
                              am_unset := am_unset a ++ [k] |}.
Proof.
  intros H. unfold am_unset_header. destruct (N.leb_spec UNSET_CAP (len (am_unset a))); [lia|reflexivity].
Qed.

Theorem as_new_flow_safe f policy s :
  i_status f = Some s ->
  u_scheme (am_eff_uri (c_req (i_call f))) <> [] ->
  am_req (c_req (i_call f)) <> None ->
  match as_new_flow f policy with Panic _ => False | _ => True end.
Proof.
  intros Hs Hsch Hreq. unfold as_new_flow.
  destruct (i_location f) as [loc|]; [|exact I].
  destruct (negb (is_text loc)); [exact I|].
  rewrite Hs.
  destruct (u_scheme (am_eff_uri (c_req (i_call f)))) as [|sc0 sc]; [congruence|].
  destruct (resolve _ loc) as [target|]; [|exact I].
  match goal with |- context [match ?nm with Some _ => _ | None => Ok (f, None) end] => destruct nm as [nm0|] end;
    [|exact I].
  destruct (am_req (c_req (i_call f))) as [orig|]; [|congruence].
  match goal with |- context [flow_new ?q] => destruct (flow_new_safe q) as (next & En & Hun & _); rewrite En end.
  cbn [bind].
  set (a0 := am_set_uri (c_req (i_call next)) target).
  assert (Ha0 : am_unset a0 = []) by (unfold a0; cbn; exact Hun).
  assert (H1 : exists a1, (if match policy with Never => false | SameHost => can_redirect_auth_header (rq_uri orig) target end
                           then Ok a0 else am_unset_header a0 (s2b "authorization")) = Ok a1 /\
                          (List.length (am_unset a1) <= 1)%nat).
  { destruct (match policy with Never => false | SameHost => _ end).
    - exists a0. split; [reflexivity|rewrite Ha0; cbn; lia].
    - rewrite am_unset_header_small by (rewrite Ha0; cbn; unfold UNSET_CAP; lia).
      eexists. split; [reflexivity|]. cbn [am_unset]. rewrite Ha0. cbn. lia. }
  destruct H1 as (a1 & -> & Hl1). cbn [bind].
  rewrite am_unset_header_small by (rewrite len_length; unfold UNSET_CAP; lia). cbn [bind].
  rewrite am_unset_header_small
    by (cbn [am_unset]; rewrite len_length, app_length; cbn [List.length]; unfold UNSET_CAP; lia).
  cbn [bind]. exact I.
Qed.

(* ------------------------------------------------------------------ call, then proceed *)

(** After [try_read_100] (whatever it returned, including an error) [proceed] does not panic. *)
Theorem then_proceed_100 f w :
  NoDup (i_reasons f) -> i_holder f = HWithBody -> c_analyzed (i_call f) = true ->
  ~ (i_should_send_body f = false /\ parses_100 w) ->
  Try100Safe f w (try_read_100 f w) /\
  exists t f'', await_100_proceed (fst (try_read_100 f w)) = Ok (t, f'').
Proof.
  intros Hnd Hh Ha Hmis. pose proof (try100_safe_gen f w Hnd Hmis) as H. split; [exact H|].
  destruct (try_read_100 f w) as [f' x]. cbn [fst]. unfold Try100Safe in H.
  destruct H as (_ & _ & Hc & Hh' & _).
  destruct (await_100_proceed_safe f') as (t & f'' & E & _); [congruence|rewrite Hc; exact Ha|].
  eauto.
Qed.

(** After [try_response] -- success, "need more", or error -- [proceed] does not panic, and when it
    moves on to the body the reader is a between-calls reader. *)
Theorem then_proceed_response f w :
  i_holder f = HRecvResponse -> NoDup (i_reasons f) -> call_ok (i_call f) ->
  RecvTrySafe f w (recv_try_response f w) /\
  let f1 := match recv_try_response f w with Ok (f', _, _) => f' | _ => f end in
  match recv_response_proceed f1 with
  | Panic _ => False
  | Err _ => False
  | Ok None => True
  | Ok (Some (t, f2)) =>
      i_holder f2 = HRecvBody /\ NoDup (i_reasons f2) /\
      (exists r, c_reader (i_call f2) = Some r /\ reader_ok r) /\
      (t = TRecvBody \/ (t = TRedirect /\ is_redirect f2 = true) \/ t = TCleanup)
  end.
Proof.
  intros Hh Hnd Hok. pose proof (recv_try_response_safe f w Hh Hnd) as H. split; [exact H|].
  cbv zeta.
  assert (H1 : exists f1, (match recv_try_response f w with Ok (f', _, _) => f' | _ => f end) = f1 /\
                          i_holder f1 = HRecvResponse /\ NoDup (i_reasons f1) /\ call_ok (i_call f1)).
  { destruct (recv_try_response f w) as [[[f' u] o]|e|s]; cbn [RecvTrySafe] in H.
    - destruct H as (_ & H1 & H2 & H3 & _). exists f'. auto.
    - exists f. auto.
    - contradiction. }
  destruct H1 as (f1 & -> & Hh1 & Hnd1 & Hok1).
  pose proof (recv_response_proceed_safe f1 Hh1 Hnd1) as Hp.
  destruct (recv_response_proceed f1) as [[[t f2]|]|e|s]; try exact Hp; [|exact I].
  destruct Hp as (r & Hr & Hr2 & Hh2 & Hnd2 & Ht). repeat split; try assumption.
  exists r. split; [exact Hr2|apply Hok1; exact Hr].
Qed.

(** After a body read -- success or error -- [proceed] does not panic: [then_proceed_body_real] in
    proofs/C12_after_err.v (after a failed read the flow is [recv_body_after_err f w cap], the state
    the failed call really leaves; that file also has the schedules that run through errors). *)
