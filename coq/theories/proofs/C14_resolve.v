(** C14, part 3: normalisation, and the assembly: [Url.resolve] = RFC 3986 5.2 + normalisation. *)
From Coq Require Import Lia ZArith.
From Hoot Require Import Base Url.
From Hoot.proofs Require Import BytesLemmas C17_proofs C02_analysis C14_spec C14_proofs C14_rfc C14_rds.
Open Scope N_scope.

(* ------------------------------------------------------------------ decimal printing is canonical *)

Lemma dec_aux_acc f : forall n acc, dec_aux f n acc = dec_aux f n [] ++ acc.
Proof.
  induction f as [|f IH]; intros n acc; cbn [dec_aux]; [reflexivity|].
  destruct (n <? 10); [reflexivity|].
  rewrite (IH (n / 10) (dec_digit (n mod 10) :: acc)), (IH (n / 10) [dec_digit (n mod 10)]).
  rewrite <- app_assoc. reflexivity.
Qed.

Lemma dec_aux_S f n acc :
  dec_aux (S f) n acc =
    if n <? 10 then dec_digit n :: acc else dec_aux f (n / 10) (dec_digit (n mod 10) :: acc).
Proof. reflexivity. Qed.

Lemma div10_lt_pow n k : n < 10 ^ N.of_nat (S k) -> n / 10 < 10 ^ N.of_nat k.
Proof.
  intros H. apply N.div_lt_upper_bound; [lia|].
  rewrite Nat2N.inj_succ, N.pow_succ_r' in H. exact H.
Qed.

Lemma dec_aux_fuel f : forall f' n,
  n < 10 ^ N.of_nat (S f) -> n < 10 ^ N.of_nat (S f') ->
  dec_aux (S f) n [] = dec_aux (S f') n [].
Proof.
  induction f as [|f IH]; intros f' n H1 H2.
  - change (10 ^ N.of_nat 1) with 10 in H1. rewrite !dec_aux_S.
    destruct (N.ltb_spec n 10); [reflexivity|lia].
  - rewrite (dec_aux_S (S f)), (dec_aux_S f').
    destruct (N.ltb_spec n 10) as [Hlt|Hge]; [reflexivity|].
    destruct f' as [|f'].
    { change (10 ^ N.of_nat 1) with 10 in H2. lia. }
    rewrite (dec_aux_acc (S f)), (dec_aux_acc (S f')). f_equal.
    apply IH; apply div10_lt_pow; assumption.
Qed.

Lemma dec_of_small n : n < 10 -> dec_of n = [48 + n].
Proof.
  intros H. unfold dec_of. rewrite dec_aux_S. destruct (N.ltb_spec n 10); [reflexivity|lia].
Qed.

Lemma dec_of_step n : 10 <= n -> dec_of n = dec_of (n / 10) ++ [dec_digit (n mod 10)].
Proof.
  intros H. unfold dec_of at 1. pose proof (lt_pow10_size n) as Hs.
  rewrite dec_aux_S. destruct (N.ltb_spec n 10) as [Hlt|_]; [lia|].
  destruct (N.size_nat n) as [|k] eqn:Ek.
  { change (10 ^ N.of_nat 1) with 10 in Hs. lia. }
  rewrite dec_aux_acc. f_equal. unfold dec_of.
  apply dec_aux_fuel; [apply div10_lt_pow; exact Hs|apply lt_pow10_size].
Qed.

Lemma digits_value_is_dec_value p : digits_value p = dec_value p.
Proof. reflexivity. Qed.

Lemma dec_value_snoc t d : dec_value (t ++ [d]) = dec_value t * 10 + (d - 48).
Proof. unfold dec_value. rewrite dec_from_app. reflexivity. Qed.

Lemma digit_range d : is_digit d = true -> 48 <= d <= 57.
Proof.
  unfold is_digit. intros H. apply andb_prop in H. destruct H as [H1 H2].
  apply N.leb_le in H1. apply N.leb_le in H2. lia.
Qed.

(** A digit string without leading zero is the decimal rendering of its value. *)
Lemma dec_of_value_canonical t :
  forallb is_digit t = true -> match t with b :: _ => b <> 48 | [] => True end ->
  dec_of (dec_value t) = match t with [] => [48] | _ => t end.
Proof.
  induction t as [|d t' IH] using rev_ind; intros Hd Hh; [reflexivity|].
  rewrite forallb_app in Hd. apply andb_prop in Hd. destruct Hd as [Hd' Hd].
  cbn [forallb] in Hd. rewrite andb_true_r in Hd. apply digit_range in Hd.
  rewrite dec_value_snoc.
  destruct t' as [|b t''].
  - cbn [app] in *. change (dec_value []) with 0. rewrite dec_of_small by lia.
    f_equal. lia.
  - cbn [app] in Hh. specialize (IH Hd' Hh).
    assert (Hv : 1 <= dec_value (b :: t'')).
    { destruct (N.eq_dec (dec_value (b :: t'')) 0) as [E|E]; [|lia].
      rewrite E in IH. change (dec_of 0) with [48] in IH. inversion IH; congruence. }
    set (v := dec_value (b :: t'')) in *.
    rewrite dec_of_step by lia.
    replace ((v * 10 + (d - 48)) / 10) with v.
    2:{ apply (N.div_unique _ 10 v (d - 48)); lia. }
    replace ((v * 10 + (d - 48)) mod 10) with (d - 48).
    2:{ apply (N.mod_unique _ 10 v (d - 48)); lia. }
    rewrite IH. unfold dec_digit. replace (48 + (d - 48)) with d by lia. reflexivity.
Qed.

Lemma strip_zeros_value p : dec_value (strip_zeros p) = dec_value p.
Proof.
  induction p as [|b t IH]; [reflexivity|]. cbn [strip_zeros].
  destruct (N.eqb_spec b 48) as [->|_]; [|reflexivity]. rewrite IH. reflexivity.
Qed.

Lemma strip_zeros_digits p : forallb is_digit p = true -> forallb is_digit (strip_zeros p) = true.
Proof.
  induction p as [|b t IH]; [reflexivity|]. cbn [strip_zeros forallb]. intros H.
  destruct (b =? 48); [|exact H]. apply andb_prop in H. apply IH, H.
Qed.

Lemma strip_zeros_head p : match strip_zeros p with b :: _ => b <> 48 | [] => True end.
Proof.
  induction p as [|b t IH]; [exact I|]. cbn [strip_zeros].
  destruct (N.eqb_spec b 48); [exact IH|assumption].
Qed.

Lemma dec_of_canonical p :
  forallb is_digit p = true -> dec_of (digits_value p) = canonical_digits p.
Proof.
  intros H. rewrite digits_value_is_dec_value, <- strip_zeros_value. unfold canonical_digits.
  rewrite dec_of_value_canonical; [destruct (strip_zeros p); reflexivity| |apply strip_zeros_head].
  apply strip_zeros_digits; exact H.
Qed.

(* ------------------------------------------------------------------ the authority *)

Lemma parse_port_spec p :
  p <> [] ->
  parse_port p =
    if forallb is_digit p && (digits_value p <? 65536) then Some (Some (digits_value p)) else None.
Proof.
  intros Hne. unfold parse_port. destruct p as [|b t]; [congruence|].
  set (q := b :: t) in *. destruct (forallb is_digit q) eqn:Hd; cbn [andb]; [|reflexivity].
  rewrite parse_digits_spec by (unfold U64_LIMIT; lia). rewrite Hd. cbn [andb].
  change (digits_value q) with (dec_from q 0).
  destruct (N.ltb_spec (dec_from q 0) U64_LIMIT) as [H1|H1].
  - reflexivity.
  - destruct (N.ltb_spec (dec_from q 0) 65536); [unfold U64_LIMIT in H1; lia|reflexivity].
Qed.

Lemma lower_is_nil s : is_nil (lower s) = is_nil s.
Proof. destruct s; reflexivity. Qed.

(** The model's [norm_auth] against the specification's host / port normalisation. *)
Lemma norm_auth_spec scheme au :
  norm_auth scheme au =
    let '(host, after_host) := span (not_in [58]) au in
    if is_nil host then None
    else match normal_port_suffix scheme after_host with
         | None => None
         | Some port => Some (lower host ++ port)
         end.
Proof.
  unfold norm_auth. rewrite until_span, after_span.
  destruct (span (not_in [58]) au) as [host ah] eqn:E. cbn [fst snd].
  destruct (lower host) as [|h0 h1] eqn:Eh.
  { destruct host; [reflexivity|discriminate]. }
  assert (Hn : is_nil host = false) by (destruct host; [discriminate|reflexivity]).
  rewrite Hn. rewrite <- Eh. clear Eh h0 h1.
  unfold normal_port_suffix. destruct ah as [|c p].
  - rewrite app_nil_r. reflexivity.
  - destruct p as [|d p'].
    + cbn [parse_port is_nil]. rewrite app_nil_r. reflexivity.
    + cbn [is_nil]. rewrite parse_port_spec by discriminate.
      set (q := d :: p') in *.
      destruct (forallb is_digit q) eqn:Hd; cbn [andb]; [|reflexivity].
      destruct (digits_value q <? 65536); [|reflexivity].
      change (default_port scheme) with (scheme_default_port scheme).
      rewrite (dec_of_canonical q Hd).
      destruct (scheme_default_port scheme) as [dp|]; [destruct (digits_value q =? dp)|];
        rewrite ?app_nil_r; reflexivity.
Qed.

Lemma norm_agree s au path q fr :
  rfc_normalise {| x_scheme := s; x_authority := Some au; x_path := path; x_query := q;
                   x_fragment := fr |} =
  match norm_auth (lower s) au with
  | None => None
  | Some a => Some (lower s, a, mk_pq path q)
  end.
Proof.
  unfold rfc_normalise. cbn [x_authority x_scheme x_path x_query]. rewrite norm_auth_spec.
  destruct (span (not_in [58]) au) as [host ah]. destruct (is_nil host); [reflexivity|].
  destruct (normal_port_suffix (lower s) ah); [|reflexivity].
  unfold mk_pq. destruct path; reflexivity.
Qed.

Lemma norm_no_authority s path q fr :
  rfc_normalise {| x_scheme := s; x_authority := None; x_path := path; x_query := q;
                   x_fragment := fr |} = None.
Proof. reflexivity. Qed.

Lemma norm_auth_empty s : norm_auth s [] = None.
Proof. reflexivity. Qed.

(* ------------------------------------------------------------------ assembly *)

(** A model URI as RFC components (an http::Uri has no fragment), and back. *)
Definition components_of (u : uri) : components :=
  {| x_scheme := u_scheme u; x_authority := Some (u_auth u); x_path := uri_path u;
     x_query := uri_query u; x_fragment := None |}.

Definition uri_of (t : bytes * bytes * bytes) : uri :=
  let '(s, a, pq) := t in {| u_scheme := s; u_auth := a; u_pq := pq |}.

(** The base path is empty or absolute, and contains no dot segments (it is its own
    remove_dot_segments). *)
Definition base_path_ok (p : bytes) : Prop :=
  abs_or_empty p /\ rfc_remove_dot_segments p = p.

Lemma starts_slash_same p : starts_slash p = starts_with_slash p.
Proof.
  destruct p as [|b t]; [reflexivity|]. unfold starts_slash, starts_with_slash. cbn [is_prefix].
  rewrite andb_true_r. apply N.eqb_sym.
Qed.

Lemma starts_slash_abs p : starts_slash p = true -> exists t, p = 47 :: t.
Proof.
  destruct p as [|b t]; [discriminate|]. unfold starts_slash. intros H. apply N.eqb_eq in H. subst. eauto.
Qed.

Lemma lower_lower s : lower (lower s) = lower s.
Proof.
  unfold lower. rewrite map_map. apply map_ext. intros b. unfold to_lower.
  destruct (is_upper b) eqn:E; [|rewrite E; reflexivity].
  unfold is_upper in *. apply andb_prop in E. destruct E as [E1 E2].
  apply N.leb_le in E1. apply N.leb_le in E2.
  destruct (N.leb_spec 65 (b + 32)); [|lia]. destruct (N.leb_spec (b + 32) 90); [lia|]. reflexivity.
Qed.

Theorem resolve_matches_rfc base loc :
  base_path_ok (uri_path base) ->
  Url.resolve base loc = option_map uri_of (rfc_resolve (components_of base) loc).
Proof.
  intros [Habs Hdot]. rewrite resolve_eq. unfold rfc_resolve, resolve_parts, rfc_transform.
  destruct (parse_agree loc) as (Hs & Ha & Hp & Hq). rewrite Hs, Ha, Hp, Hq.
  set (r := rfc_parse loc) in *.
  destruct (rf_scheme r) as [s|].
  - (* the reference has a scheme *)
    destruct (rf_authority r) as [a|] eqn:Ea.
    + rewrite norm_agree.
      rewrite (rds_agree (rf_path r)) by (apply (parse_path_after_authority loc a); exact Ea).
      destruct (norm_auth (lower s) a); reflexivity.
    + rewrite norm_no_authority, norm_auth_empty. reflexivity.
  - destruct (rf_authority r) as [a|] eqn:Ea.
    + (* network-path reference *)
      cbn [components_of x_scheme]. rewrite norm_agree.
      rewrite (rds_agree (rf_path r)) by (apply (parse_path_after_authority loc a); exact Ea).
      destruct (norm_auth (lower (u_scheme base)) a); reflexivity.
    + destruct (rf_path r) as [|x y] eqn:Epath.
      * (* empty path: same document, possibly another query *)
        cbn [is_nil components_of x_scheme x_authority x_path x_query]. rewrite norm_agree.
        match goal with |- context [mk_pq (Url.remove_dot_segments ?p) ?q] =>
          assert (E : mk_pq (Url.remove_dot_segments p) q = mk_pq (uri_path base) q) end.
        { destruct (uri_path base) as [|b t] eqn:Eb; [reflexivity|].
          rewrite <- (rds_agree (b :: t) Habs), Hdot. reflexivity. }
        rewrite E. destruct (norm_auth (lower (u_scheme base)) (u_auth base)); reflexivity.
      * cbn [is_nil components_of x_scheme x_authority x_path x_query].
        rewrite <- starts_slash_same. rewrite <- Epath.
        destruct (starts_slash (rf_path r)) eqn:Ess.
        -- (* absolute-path reference *)
           rewrite norm_agree.
           rewrite (rds_agree (rf_path r))
             by (right; apply starts_slash_abs; exact Ess).
           destruct (norm_auth (lower (u_scheme base)) (u_auth base)); reflexivity.
        -- (* relative-path reference: merge *)
           rewrite norm_agree.
           match goal with |- context [Url.remove_dot_segments (Url.merge ?p ?rel)] =>
             assert (E : rfc_remove_dot_segments (rfc_merge true (uri_path base) (rf_path r)) =
                         Url.remove_dot_segments (Url.merge p rel)) end.
           { destruct Habs as [E0|(t & E0)]; rewrite E0.
             - rewrite merge_agree_nil. apply rds_agree. right. unfold Url.merge. cbn. eauto.
             - rewrite merge_agree_abs. apply rds_agree. right.
               apply merge_abs; [right; eauto|discriminate]. }
           rewrite E. destruct (norm_auth (lower (u_scheme base)) (u_auth base)); reflexivity.
Qed.

(** Every URI [resolve] produces is again a base the theorem applies to. *)
Lemma mk_pq_path p q : p <> [] -> (forall b, In b p -> b <> 63) -> until 63 (mk_pq p q) = p.
Proof.
  intros Hne Hq. unfold mk_pq. destruct p as [|x p]; [congruence|].
  set (P := x :: p) in *. clearbody P. clear x p Hne.
  induction P as [|b t IH]; cbn [app].
  - destruct q; reflexivity.
  - cbn [until]. destruct (N.eqb_spec b 63) as [E|_]; [exfalso; apply (Hq b); [left; reflexivity|exact E]|].
    rewrite IH by (intros c Hc; apply Hq; right; exact Hc). reflexivity.
Qed.

(* ------------------------------------------------------------------ where the bytes of the result come from *)

Lemma in_join b l : In b (join_segments l) -> b = 47 \/ exists s, In s l /\ In b s.
Proof.
  induction l as [|s l IH]; cbn [join_segments]; [contradiction|].
  intros [H|H]; [left; symmetry; exact H|]. apply in_app_or in H. destruct H as [H|H].
  - right. exists s. split; [left; reflexivity|exact H].
  - destruct (IH H) as [E|(s' & H1 & H2)]; [left; exact E|]. right. exists s'. split; [right; exact H1|exact H2].
Qed.

Lemma in_split_on s0 : forall cur x b,
  In x (split_on 47 s0 cur) -> In b x -> In b s0 \/ In b cur.
Proof.
  induction s0 as [|c t IH]; intros cur x b Hx Hb.
  - cbn [split_on] in Hx. destruct Hx as [<-|[]]. right. apply in_rev. exact Hb.
  - cbn [split_on] in Hx. destruct (c =? 47).
    + destruct Hx as [<-|Hx]; [right; apply in_rev; exact Hb|].
      destruct (IH [] x b Hx Hb) as [H|[]]. left. right. exact H.
    + destruct (IH (c :: cur) x b Hx Hb) as [H|[H|H]].
      * left. right. exact H.
      * left. left. exact H.
      * right. exact H.
Qed.

Lemma segments_cases p :
  segments p = [] /\ p = [] \/
  (exists t, p = 47 :: t /\ segments p = split_on 47 t []) \/
  segments p = split_on 47 p [].
Proof.
  destruct p as [|b t]; [left; split; reflexivity|]. right.
  destruct b as [|q]; [right; reflexivity|].
  do 6 (try (destruct q as [q|q|]; try (right; reflexivity))). left. eauto.
Qed.

Lemma in_segments p x b : In x (segments p) -> In b x -> In b p.
Proof.
  intros Hx Hb. destruct (segments_cases p) as [[E _]|[(t & -> & E)|E]]; rewrite E in Hx.
  - contradiction.
  - destruct (in_split_on _ _ _ _ Hx Hb) as [H|[]]. right. exact H.
  - destruct (in_split_on _ _ _ _ Hx Hb) as [H|[]]. exact H.
Qed.

Lemma in_tl {A} (x : A) l : In x (tl l) -> In x l.
Proof. destruct l; [contradiction|]. intros H. right. exact H. Qed.

Lemma in_rds : forall segs st x, In x (rds segs st) -> x = [] \/ In x segs \/ In x st.
Proof.
  induction segs as [|s t IH]; intros st x H.
  - cbn [rds] in H. apply in_rev in H. auto.
  - cbn [rds] in H.
    assert (K : forall st', (forall y, In y st' -> y = [] \/ In y st \/ y = s) ->
                In x (rds t st') -> x = [] \/ In x (s :: t) \/ In x st).
    { intros st' Hst' Hx. destruct (IH _ _ Hx) as [E|[E|E]]; [auto|right; left; right; exact E|].
      destruct (Hst' _ E) as [E'|[E'|E']]; [auto|auto|]. right. left. left. symmetry. exact E'. }
    destruct (is_dot s).
    + eapply K; [|exact H]. intros y Hy. destruct t; [destruct Hy as [<-|Hy]|]; auto.
    + destruct (is_dotdot s).
      * eapply K; [|exact H]. intros y Hy. destruct t; [destruct Hy as [<-|Hy]|]; auto using in_tl.
      * eapply K; [|exact H]. intros y Hy. destruct Hy as [<-|Hy]; auto.
Qed.

Lemma in_model_rds b p : In b (Url.remove_dot_segments p) -> b = 47 \/ In b p.
Proof.
  unfold Url.remove_dot_segments. destruct p as [|c t]; [contradiction|]. intros H.
  destruct (in_join _ _ H) as [E|(s & Hs & Hb)]; [left; exact E|]. right.
  destruct (in_rds _ _ _ Hs) as [->|[E|[]]]; [contradiction|]. eapply in_segments; eauto.
Qed.

Lemma in_removelast {A} (x : A) l : In x (removelast l) -> In x l.
Proof.
  induction l as [|y l IH]; [contradiction|]. cbn [removelast]. destruct l as [|z l]; [contradiction|].
  intros [H|H]; [left; exact H|right; apply IH; exact H].
Qed.

Lemma in_merge b p rel : In b (Url.merge p rel) -> b = 47 \/ In b p \/ In b rel.
Proof.
  unfold Url.merge. destruct p as [|c t].
  - intros [H|H]; [left; symmetry; exact H|auto].
  - intros H. apply in_app_or in H. destruct H as [H|[H|H]]; [|left; symmetry; exact H|auto].
    destruct (in_join _ _ H) as [E|(s & Hs & Hb)]; [left; exact E|]. right. left.
    apply in_removelast in Hs. eapply in_segments; eauto.
Qed.

Lemma until_not_in c s : ~ In c (until c s).
Proof.
  induction s as [|b t IH]; cbn [until]; [auto|]. destruct (N.eqb_spec b c) as [E|E]; [auto|].
  intros [H|H]; [congruence|auto].
Qed.

Lemma until_incl c s b : In b (until c s) -> In b s.
Proof.
  induction s as [|x t IH]; cbn [until]; [auto|]. destruct (x =? c); [contradiction|].
  intros [H|H]; [left; exact H|right; auto].
Qed.

Lemma after_incl c s q b : after c s = Some q -> In b q -> In b s.
Proof.
  revert q. induction s as [|x t IH]; intros q; cbn [after]; [discriminate|].
  destruct (x =? c); [intros H; inversion H; subst; intros; right; assumption|].
  intros H Hb. right. eapply IH; eauto.
Qed.

Lemma upq_incl t b :
  (In b (fst (until_path_or_query t)) \/ In b (snd (until_path_or_query t))) -> In b t.
Proof.
  rewrite upq_span. destruct (span (not_in [47; 63]) t) as [a r] eqn:E.
  apply span_spec in E. destruct E as (-> & _). cbn [fst snd]. intros H. apply in_or_app. exact H.
Qed.

(** The path and the query of the parsed reference are pieces of the reference without its fragment. *)
Lemma parse_ref_incl loc b :
  (In b (r_path (parse_ref loc)) \/ exists q, r_query (parse_ref loc) = Some q /\ In b q) ->
  In b (until 35 loc).
Proof.
  unfold parse_ref. set (nf := until 35 loc).
  assert (H1 : forall rest,
     (forall x, In x rest -> In x nf) ->
     (In b (r_path (let '(auth, rest2) := match rest with
                                       | 47 :: 47 :: t => let '(a, r) := until_path_or_query t in (Some a, r)
                                       | _ => (None, rest) end in
                    {| r_scheme := None; r_auth := auth; r_path := until 63 rest2; r_query := after 63 rest2 |})) \/
      exists q, r_query (let '(auth, rest2) := match rest with
                                       | 47 :: 47 :: t => let '(a, r) := until_path_or_query t in (Some a, r)
                                       | _ => (None, rest) end in
                    {| r_scheme := None; r_auth := auth; r_path := until 63 rest2; r_query := after 63 rest2 |}) = Some q /\ In b q) ->
     In b nf).
  { intros rest Hrest. rewrite model_authority_match.
    destruct (is_prefix [47; 47] rest) eqn:Hp.
    - apply is_prefix2_inv in Hp. destruct Hp as (t & ->). rewrite drop2_cons.
      pose proof (upq_incl t b) as Hu. destruct (until_path_or_query t) as [a r]. cbn [fst snd] in Hu.
      cbn [r_path r_query]. intros [H|(q & Hq & H)]; apply Hrest; right; right; apply Hu; right.
      + eapply until_incl; eauto.
      + eapply after_incl; eauto.
    - cbn [r_path r_query]. intros [H|(q & Hq & H)]; apply Hrest.
      + eapply until_incl; eauto.
      + eapply after_incl; eauto. }
  destruct (split_scheme nf) as [[s r]|] eqn:E.
  - apply split_scheme_spec in E. destruct E as (E & _).
    specialize (H1 r ltac:(intros x Hx; rewrite E; apply in_or_app; right; right; exact Hx)).
    destruct (match r with 47 :: 47 :: t => _ | _ => _ end) as [au re]. exact H1.
  - specialize (H1 nf ltac:(auto)).
    destruct (match nf with 47 :: 47 :: t => _ | _ => _ end) as [au re]. exact H1.
Qed.

Lemma in_mk_pq b p q :
  In b (mk_pq p q) -> b = 47 \/ b = 63 \/ In b p \/ exists x, q = Some x /\ In b x.
Proof.
  unfold mk_pq. intros H. apply in_app_or in H. destruct H as [H|H].
  - destruct p; [destruct H as [<-|[]]; auto|auto].
  - destruct q as [x|]; [|contradiction]. destruct H as [<-|H]; [auto|]. right. right. right. eauto.
Qed.

Local Arguments Url.remove_dot_segments : simpl never.
Local Arguments Url.merge : simpl never.

(** Bytes of the resulting path-and-query other than "/" and "?" come from the reference (without
    its fragment) or from the base. *)
Lemma resolve_pq_bytes base loc t b :
  resolve base loc = Some t -> In b (u_pq t) ->
  b = 47 \/ b = 63 \/ In b (until 35 loc) \/ In b (u_pq base).
Proof.
  rewrite resolve_eq. intros H Hb.
  assert (K : forall p q, In b (mk_pq p q) ->
     (In b p -> b = 47 \/ In b (until 35 loc) \/ In b (u_pq base)) ->
     (forall x, q = Some x -> In b x -> In b (until 35 loc) \/ In b (u_pq base)) ->
     b = 47 \/ b = 63 \/ In b (until 35 loc) \/ In b (u_pq base)).
  { intros p q Hin Hp Hq. destruct (in_mk_pq _ _ _ Hin) as [E|[E|[E|(x & Ex & E)]]]; auto.
    - destruct (Hp E) as [?|[?|?]]; auto.
    - destruct (Hq x Ex E); auto. }
  assert (Rp : In b (r_path (parse_ref loc)) -> In b (until 35 loc))
    by (intros; apply parse_ref_incl; auto).
  assert (Rq : forall x, r_query (parse_ref loc) = Some x -> In b x -> In b (until 35 loc))
    by (intros; apply parse_ref_incl; eauto).
  assert (Bp : In b (match uri_path base with [] => [47] | n :: l => n :: l end) -> b = 47 \/ In b (u_pq base)).
  { unfold uri_path. destruct (until 63 (u_pq base)) eqn:E; [intros [<-|[]]; auto|].
    intros Hx. right. rewrite <- E in Hx. eapply until_incl; eauto. }
  assert (Bq : forall x, uri_query base = Some x -> In b x -> In b (u_pq base))
    by (unfold uri_query; intros; eapply after_incl; eauto).
  unfold resolve_parts in H.
  destruct (r_scheme (parse_ref loc)).
  - destruct (norm_auth _ _); [|discriminate]. inversion H; subst; clear H. cbn [u_pq] in Hb.
    apply (K _ _ Hb).
    + intros Hx. destruct (in_model_rds _ _ Hx); auto.
    + intros x Ex Hx. left. eauto.
  - destruct (r_auth (parse_ref loc)).
    + destruct (norm_auth _ _); [|discriminate]. inversion H; subst; clear H. cbn [u_pq] in Hb.
      apply (K _ _ Hb).
      * intros Hx. destruct (in_model_rds _ _ Hx); auto.
      * intros x Ex Hx. left. eauto.
    + destruct (r_path (parse_ref loc)) as [|c y] eqn:Ep.
      * destruct (norm_auth _ _); [|discriminate]. inversion H; subst; clear H. cbn [u_pq] in Hb.
        apply (K _ _ Hb).
        -- intros Hx. destruct (in_model_rds _ _ Hx) as [?|Hx']; [auto|]. destruct (Bp Hx'); auto.
        -- intros x Ex Hx. destruct (r_query (parse_ref loc)) as [q0|] eqn:Eq0.
           ++ inversion Ex; subst. left. eauto.
           ++ right. eauto.
      * destruct (starts_slash (c :: y)).
        -- destruct (norm_auth _ _); [|discriminate]. inversion H; subst; clear H. cbn [u_pq] in Hb.
           apply (K _ _ Hb).
           ++ intros Hx. destruct (in_model_rds _ _ Hx); auto.
           ++ intros x Ex Hx. left. eauto.
        -- destruct (norm_auth _ _); [|discriminate]. inversion H; subst; clear H. cbn [u_pq] in Hb.
           apply (K _ _ Hb).
           ++ intros Hx. destruct (in_model_rds _ _ Hx) as [?|Hx']; [auto|].
              destruct (in_merge _ _ _ Hx') as [?|[Hy|Hy]]; [auto| |auto].
              destruct (Bp Hy); auto.
           ++ intros x Ex Hx. left. eauto.
Qed.

(* ------------------------------------------------------------------ the result is again a base *)

Lemma parse_ref_path_noq loc : ~ In 63 (r_path (parse_ref loc)).
Proof.
  unfold parse_ref.
  destruct (match split_scheme (until 35 loc) with Some (s, r) => (Some s, r) | None => (None, until 35 loc) end)
    as [sch rest].
  destruct (match rest with 47 :: 47 :: t => _ | _ => _ end) as [au rest2].
  cbn [r_path]. apply until_not_in.
Qed.

Lemma resolve_result_path base loc t :
  resolve base loc = Some t ->
  exists p q, u_pq t = mk_pq p q /\ abs_or_empty p /\ Url.remove_dot_segments p = p /\ ~ In 63 p.
Proof.
  rewrite resolve_eq. intros H.
  assert (Hq : forall X, ~ In 63 X -> ~ In 63 (Url.remove_dot_segments X)).
  { intros X HX Hin. destruct (in_model_rds _ _ Hin); [discriminate|auto]. }
  assert (Bp : ~ In 63 (match uri_path base with [] => [47] | n :: l => n :: l end)).
  { unfold uri_path. destruct (until 63 (u_pq base)) eqn:E.
    - intros [E'|[]]. discriminate.
    - rewrite <- E. apply until_not_in. }
  pose proof (parse_ref_path_noq loc) as Rp.
  assert (G : exists X, snd (fst (resolve_parts base (parse_ref loc))) = Url.remove_dot_segments X /\ ~ In 63 X).
  { unfold resolve_parts.
    destruct (r_scheme (parse_ref loc)); [cbn [fst snd]; eauto|].
    destruct (r_auth (parse_ref loc)); [cbn [fst snd]; eauto|].
    destruct (r_path (parse_ref loc)) as [|c y] eqn:Ep; [cbn [fst snd]; eauto|].
    destruct (starts_slash (c :: y)); cbn [fst snd]; [eauto|].
    eexists. split; [reflexivity|]. intros Hin.
    destruct (in_merge _ _ _ Hin) as [?|[?|?]]; [discriminate|auto|auto]. }
  destruct (resolve_parts base (parse_ref loc)) as [[[sch au] pa] qu]. cbn [fst snd] in G.
  destruct G as (X & -> & HX).
  destruct (norm_auth sch au); [|discriminate]. inversion H; subst; clear H. cbn [u_pq].
  exists (Url.remove_dot_segments X), qu. split; [reflexivity|].
  split; [apply model_rds_abs_or_empty|]. split; [apply model_rds_idempotent|apply Hq; exact HX].
Qed.

Lemma resolve_closed base loc t : resolve base loc = Some t -> base_path_ok (uri_path t).
Proof.
  intros H. destruct (resolve_result_path _ _ _ H) as (p & q & E & Habs & Hid & Hn).
  unfold uri_path. rewrite E. destruct p as [|c p'].
  - cbn [mk_pq app]. split; [right; unfold mk_pq; cbn; destruct q; cbn; eauto|].
    destruct q; reflexivity.
  - rewrite mk_pq_path; [|discriminate|intros b Hb ->; auto].
    split; [exact Habs|]. rewrite (rds_agree _ Habs). exact Hid.
Qed.

(** Chains: every hop is an RFC resolution, once the first URI has a clean path. *)
Definition rfc_resolve_opt (acc : option uri) (loc : bytes) : option uri :=
  match acc with
  | Some u => option_map uri_of (rfc_resolve (components_of u) loc)
  | None => None
  end.

Lemma fold_resolve_rfc locs : forall u,
  base_path_ok (uri_path u) ->
  fold_left resolve_opt locs (Some u) = fold_left rfc_resolve_opt locs (Some u).
Proof.
  induction locs as [|l t IH]; intros u Hu; [reflexivity|].
  cbn [fold_left resolve_opt rfc_resolve_opt]. rewrite <- (resolve_matches_rfc u l Hu).
  destruct (resolve u l) as [u'|] eqn:E.
  - apply IH. eapply resolve_closed; eauto.
  - clear. induction t as [|x t IH]; [reflexivity|exact IH].
Qed.

(* ------------------------------------------------------------------ properties of resolve *)

Lemma until_idem c s : until c (until c s) = until c s.
Proof.
  induction s as [|b t IH]; [reflexivity|]. cbn [until]. destruct (b =? c) eqn:E; [reflexivity|].
  cbn [until]. rewrite E, IH. reflexivity.
Qed.

(** The fragment of the Location plays no role. *)
Lemma resolve_fragment_dropped base loc : resolve base loc = resolve base (until 35 loc).
Proof.
  assert (E : parse_ref (until 35 loc) = parse_ref loc) by (unfold parse_ref; rewrite until_idem; reflexivity).
  unfold resolve. rewrite E. reflexivity.
Qed.

(** No "#" in the result unless the base already had one. *)
Lemma resolve_no_hash base loc t :
  ~ In 35 (u_pq base) -> resolve base loc = Some t -> ~ In 35 (u_pq t).
Proof.
  intros Hb H Hin. destruct (resolve_pq_bytes _ _ _ _ H Hin) as [E|[E|[E|E]]]; try discriminate.
  - exact (until_not_in 35 loc E).
  - auto.
Qed.

(** Scheme and authority of the result: those of the Location if it has them, else the base's. *)
Lemma resolve_origin base loc t :
  resolve base loc = Some t ->
  let r := rfc_parse loc in
  u_scheme t = lower (match rf_scheme r with Some s => s | None => u_scheme base end) /\
  norm_auth (u_scheme t) (match rf_authority r with Some a => a | None => u_auth base end)
    = Some (u_auth t).
Proof.
  rewrite resolve_eq. cbv zeta. destruct (parse_agree loc) as (Hs & Ha & _ & _).
  rewrite <- Hs, <- Ha. unfold resolve_parts.
  destruct (r_scheme (parse_ref loc)) as [s|].
  - destruct (r_auth (parse_ref loc)) as [a|].
    + destruct (norm_auth (lower s) a) eqn:E; [|discriminate]. intros H; inversion H; subst. auto.
    + rewrite norm_auth_empty. discriminate.
  - destruct (r_auth (parse_ref loc)) as [a|].
    + destruct (norm_auth _ a) eqn:E; [|discriminate]. intros H; inversion H; subst. auto.
    + destruct (r_path (parse_ref loc)) as [|c y].
      * destruct (norm_auth _ _) eqn:E; [|discriminate]. intros H; inversion H; subst. auto.
      * destruct (starts_slash (c :: y));
          (destruct (norm_auth _ _) eqn:E; [|discriminate]; intros H; inversion H; subst; auto).
Qed.

(** The specification's remove_dot_segments on the paths that occur (empty or absolute): the
    result has no "." / ".." segment and applying it again changes nothing. *)
Lemma rfc_rds_idempotent p :
  abs_or_empty p ->
  rfc_remove_dot_segments (rfc_remove_dot_segments p) = rfc_remove_dot_segments p.
Proof.
  intros H. rewrite (rds_agree p H). rewrite (rds_agree _ (model_rds_abs_or_empty p)).
  apply model_rds_idempotent.
Qed.

Lemma rfc_rds_no_dots p :
  abs_or_empty p -> rfc_remove_dot_segments p <> [] ->
  Forall not_dot_segment (path_segments (rfc_remove_dot_segments p)).
Proof. intros H. rewrite (rds_agree p H). apply model_rds_segments. Qed.

(* ------------------------------------------------------------------ RFC 3986 5.4: reference resolution examples *)

(** Base URI of the examples: http://a/b/c/d;p?q *)
Definition rfc54_base : components :=
  {| x_scheme := s2b "http"; x_authority := Some (s2b "a"); x_path := s2b "/b/c/d;p";
     x_query := Some (s2b "q"); x_fragment := None |}.

Definition rfc54 (reference expected : string) : bool :=
  beq_bytes (rfc_recompose (rfc_transform rfc54_base (rfc_parse (s2b reference)))) (s2b expected).

Definition rfc54_normal : list bool :=
  [ rfc54 "g:h" "g:h"; rfc54 "g" "http://a/b/c/g"; rfc54 "./g" "http://a/b/c/g";
    rfc54 "g/" "http://a/b/c/g/"; rfc54 "/g" "http://a/g"; rfc54 "//g" "http://g";
    rfc54 "?y" "http://a/b/c/d;p?y"; rfc54 "g?y" "http://a/b/c/g?y";
    rfc54 "#s" "http://a/b/c/d;p?q#s"; rfc54 "g#s" "http://a/b/c/g#s";
    rfc54 "g?y#s" "http://a/b/c/g?y#s"; rfc54 ";x" "http://a/b/c/;x";
    rfc54 "g;x" "http://a/b/c/g;x"; rfc54 "g;x?y#s" "http://a/b/c/g;x?y#s";
    rfc54 "" "http://a/b/c/d;p?q"; rfc54 "." "http://a/b/c/"; rfc54 "./" "http://a/b/c/";
    rfc54 ".." "http://a/b/"; rfc54 "../" "http://a/b/"; rfc54 "../g" "http://a/b/g";
    rfc54 "../.." "http://a/"; rfc54 "../../" "http://a/"; rfc54 "../../g" "http://a/g" ].

Definition rfc54_abnormal : list bool :=
  [ rfc54 "../../../g" "http://a/g"; rfc54 "../../../../g" "http://a/g";
    rfc54 "/./g" "http://a/g"; rfc54 "/../g" "http://a/g"; rfc54 "g." "http://a/b/c/g.";
    rfc54 ".g" "http://a/b/c/.g"; rfc54 "g.." "http://a/b/c/g.."; rfc54 "..g" "http://a/b/c/..g";
    rfc54 "./../g" "http://a/b/g"; rfc54 "./g/." "http://a/b/c/g/"; rfc54 "g/./h" "http://a/b/c/g/h";
    rfc54 "g/../h" "http://a/b/c/h"; rfc54 "g;x=1/./y" "http://a/b/c/g;x=1/y";
    rfc54 "g;x=1/../y" "http://a/b/c/y"; rfc54 "g?y/./x" "http://a/b/c/g?y/./x";
    rfc54 "g?y/../x" "http://a/b/c/g?y/../x"; rfc54 "g#s/./x" "http://a/b/c/g#s/./x";
    rfc54 "g#s/../x" "http://a/b/c/g#s/../x"; rfc54 "http:g" "http:g" ].

(** The same references through the model, against the expected target without fragment
    ([None]: not an http(s) target -- "g:h", "http:g"). *)
Definition model54_base : uri :=
  {| u_scheme := s2b "http"; u_auth := s2b "a"; u_pq := s2b "/b/c/d;p?q" |}.

Definition model54 (reference : string) (expected : option (string * string)) : bool :=
  match resolve model54_base (s2b reference), expected with
  | Some u, Some (a, pq) =>
      beq_bytes (u_scheme u) (s2b "http") && beq_bytes (u_auth u) (s2b a) && beq_bytes (u_pq u) (s2b pq)
  | None, None => true
  | _, _ => false
  end.

Local Open Scope string_scope.
Definition model54_all : list bool :=
  [ model54 "g:h" None; model54 "g" (Some ("a", "/b/c/g")); model54 "./g" (Some ("a", "/b/c/g"));
    model54 "g/" (Some ("a", "/b/c/g/")); model54 "/g" (Some ("a", "/g")); model54 "//g" (Some ("g", "/"));
    model54 "?y" (Some ("a", "/b/c/d;p?y")); model54 "g?y" (Some ("a", "/b/c/g?y"));
    model54 "#s" (Some ("a", "/b/c/d;p?q")); model54 "g#s" (Some ("a", "/b/c/g"));
    model54 "g?y#s" (Some ("a", "/b/c/g?y")); model54 ";x" (Some ("a", "/b/c/;x"));
    model54 "g;x" (Some ("a", "/b/c/g;x")); model54 "g;x?y#s" (Some ("a", "/b/c/g;x?y"));
    model54 "" (Some ("a", "/b/c/d;p?q")); model54 "." (Some ("a", "/b/c/")); model54 "./" (Some ("a", "/b/c/"));
    model54 ".." (Some ("a", "/b/")); model54 "../" (Some ("a", "/b/")); model54 "../g" (Some ("a", "/b/g"));
    model54 "../.." (Some ("a", "/")); model54 "../../" (Some ("a", "/")); model54 "../../g" (Some ("a", "/g"));
    model54 "../../../g" (Some ("a", "/g")); model54 "../../../../g" (Some ("a", "/g"));
    model54 "/./g" (Some ("a", "/g")); model54 "/../g" (Some ("a", "/g")); model54 "g." (Some ("a", "/b/c/g."));
    model54 ".g" (Some ("a", "/b/c/.g")); model54 "g.." (Some ("a", "/b/c/g..")); model54 "..g" (Some ("a", "/b/c/..g"));
    model54 "./../g" (Some ("a", "/b/g")); model54 "./g/." (Some ("a", "/b/c/g/")); model54 "g/./h" (Some ("a", "/b/c/g/h"));
    model54 "g/../h" (Some ("a", "/b/c/h")); model54 "g;x=1/./y" (Some ("a", "/b/c/g;x=1/y"));
    model54 "g;x=1/../y" (Some ("a", "/b/c/y")); model54 "g?y/./x" (Some ("a", "/b/c/g?y/./x"));
    model54 "g?y/../x" (Some ("a", "/b/c/g?y/../x")); model54 "g#s/./x" (Some ("a", "/b/c/g"));
    model54 "g#s/../x" (Some ("a", "/b/c/g")); model54 "http:g" None ].

(* ------------------------------------------------------------------ statements as exported *)

Lemma model_rds_properties p :
  Url.remove_dot_segments (Url.remove_dot_segments p) = Url.remove_dot_segments p /\
  (Url.remove_dot_segments p = [] \/ exists t, Url.remove_dot_segments p = 47 :: t) /\
  (Url.remove_dot_segments p <> [] ->
   Forall (fun s => s <> [46] /\ s <> [46; 46]) (path_segments (Url.remove_dot_segments p))).
Proof.
  split; [apply model_rds_idempotent|]. split; [apply model_rds_abs_or_empty|].
  apply model_rds_segments.
Qed.

Lemma rfc_rds_properties p :
  p = [] \/ (exists t, p = 47 :: t) ->
  rfc_remove_dot_segments (rfc_remove_dot_segments p) = rfc_remove_dot_segments p /\
  (rfc_remove_dot_segments p <> [] ->
   Forall (fun s => s <> [46] /\ s <> [46; 46]) (path_segments (rfc_remove_dot_segments p))).
Proof. intros H. split; [apply rfc_rds_idempotent; exact H|apply rfc_rds_no_dots; exact H]. Qed.

Lemma merge_agree t rel :
  rfc_merge true (47 :: t) rel = Url.merge (47 :: t) rel /\ rfc_merge true [] rel = Url.merge [47] rel.
Proof. split; [apply merge_agree_abs|apply merge_agree_nil]. Qed.
