(** C01 (part 4): the receiving half.  RecvResponse (C05 / C11 late 100), the successor (C06),
    RecvBody (C07 / C08), Redirect / Cleanup: every allowed operation preserves [Sim]. *)
From Coq Require Import Lia ZArith List.
From Hoot Require Import Base Chunk Body Httparse Parser Url Request Call Flow Script.
From Hoot.proofs Require Import BytesLemmas Reasons C17_proofs C02_proofs C18_proofs C03_proofs C04_proofs
                                C05_spec C20_proofs C05_proofs C07_spec C07_proofs C07_call C08_proofs
                                C11_proofs C01_defs C01_start C01_send.
Open Scope N_scope.

(* ------------------------------------------------------------------ windows on the stream *)

Lemma stream_drop_off x : drop (x_off x) (x_stream x) = x_h100 x ++ x_H x ++ x_wire x ++ x_rest x.
Proof. unfold x_stream, x_off. apply drop_app_exact. Qed.

Lemma stream_drop_h100 x :
  drop (x_off x + len (x_h100 x)) (x_stream x) = x_H x ++ x_wire x ++ x_rest x.
Proof. rewrite <- drop_drop, stream_drop_off. apply drop_app_exact. Qed.

Lemma stream_drop_base x i :
  drop (x_base x + i) (x_stream x) = drop i (x_wire x ++ x_rest x).
Proof.
  replace (x_base x + i) with ((x_off x + len (x_h100 x)) + (len (x_H x) + i)) by (unfold x_base; lia).
  rewrite <- drop_drop, stream_drop_h100.
  rewrite <- drop_drop, drop_app_exact. reflexivity.
Qed.

(* ------------------------------------------------------------------ RecvResponse *)

Definition rflow (x : exch) (c : bool) (w : writer) : inner := snd (flow_of x (PResp c w)).

Lemma recv_none_canon x c w input :
  call_try_response (cl x PRecvResponse w None false) input = Ok (cl x PRecvResponse w None false, None) ->
  recv_try_response (rflow x c w) input = Ok (rflow x c w, 0, None).
Proof.
  intros H. unfold rflow. cbn [flow_of snd]. unfold recv_try_response, as_recv_response, mk.
  cbn [i_holder i_call bind]. rewrite H. reflexivity.
Qed.

Lemma deliver_canon x p w rd stop used :
  deliver (cl x p w rd stop) used (x_rsp x) =
    match x_framing x with
    | Ok rd0 => Ok (set_reader (cl x p w rd stop) (Some rd0), Some (used, x_rsp x))
    | Err e => Err e
    | Panic s => Panic s
    end.
Proof.
  unfold deliver, x_framing.
  change (am_method (c_req (cl x p w rd stop))) with (rq_method (x_req x)). cbv zeta.
  destruct (match hm_get (rs_headers (x_rsp x)) (s2b "content-length") with
            | Some v => negb (is_text v) | None => false end); [reflexivity|].
  destruct (for_response _ _ _ _ _ _); reflexivity.
Qed.

Lemma status_not_100 x : WfX x -> (rs_status (x_rsp x) =? 100) = false.
Proof. intros (_ & _ & _ & _ & _ & _ & _ & Hs & _). apply N.eqb_neq. exact Hs. Qed.

(** The final head, complete in the window. *)
Lemma recv_head_canon x c w more :
  WfX x -> aw_at x c = x_awfin x ->
  recv_try_response (rflow x c w) (x_H x ++ more) =
    Ok (snd (flow_of x (PGot w)), len (x_H x), Some (x_rsp x)).
Proof.
  intros HW Haw. pose proof HW as (_ & _ & _ & _ & _ & _ & Hwf & Hs & Hn & Hfr & _).
  unfold rflow. cbn [flow_of snd]. unfold recv_try_response, as_recv_response, mk.
  cbn [i_holder i_call bind]. unfold x_H.
  rewrite (try_response_complete _ (x_head x) more Hwf Hs Hn). fold (x_rsp x).
  rewrite deliver_canon, Hfr. cbn [bind set_call i_await_100].
  rewrite (status_not_100 x HW). cbn [andb i_reasons i_call i_holder i_should_send_body].
  fold (x_scl x). unfold x_rs1, x_loc, x_status, x_rsp.
  destruct (x_scl x).
  - rewrite (add_reason_nodup _ _ (x_rs0_nodup x)). cbn [bind]. rewrite Haw. reflexivity.
  - cbn [bind]. rewrite Haw. reflexivity.
Qed.

Lemma not_known_100 h p : rh_status h = 100 -> ~ KnownClass h p.
Proof. intros Hs [Hr _]. rewrite Hs in Hr. vm_compute in Hr. discriminate. Qed.

Lemma take_strict_prefix {A} m (l : list A) : m < len l -> exists y, y <> [] /\ l = take m l ++ y.
Proof.
  intros H. exists (drop m l). split; [|symmetry; apply take_drop].
  intros E. apply (f_equal len) in E. rewrite len_drop in E. cbn [len] in E. lia.
Qed.

Lemma pres_try_response x s a :
  WfX x -> Sim x s a -> allowed x s OTryResponse ->
  Sim x (fst (step s OTryResponse)) (astep s a OTryResponse).
Proof.
  intros HW (p & Hobj & HB & Hok) (_ & Hpend & Hf10).
  destruct p as [| |ph|c|c w|c w|w|w rd stop|t w rd stop]; cbn [flow_of fst snd] in Hobj.
  all: try (destruct (term_tag _ _ _ _ _ _ _ Hok) as [-> | ->]).
  all: rewrite (step_try_response s _ _ Hobj), (astep_try_response s a _ _ Hobj).
  all: try (cbn [fst]; keep_pos Hobj HB Hok).
  - (* RecvResponse, no head yet *)
    unfold do_try_response.
    destruct Hok as (Hhd & Hbd & Hrn). pose proof Hrn as (Hr1 & Hr2 & Ht & Hc & Hc100).
    pose proof HB as (Hst & Hbody & Harr).
    pose proof HW as (_ & _ & _ & _ & _ & H100 & Hwf & Hs & Hn & _).
    change (mk x PRecvResponse w None false HRecvResponse (x_rs0 x) (aw_at x c) None None)
      with (rflow x c w).
    set (m := s_arrived s - s_consumed s).
    assert (Hwin : window s = take m (drop (s_consumed s) (x_stream x))).
    { unfold window, m. rewrite Hst. reflexivity. }
    assert (Hcase : (c = false /\ x_h100 x <> []) \/
                    (s_consumed s = x_off x + len (x_h100 x) /\ aw_at x c = x_awfin x)).
    { destruct c.
      - right. split; [exact Hc|]. specialize (Hc100 eq_refl). unfold aw_at, x_awfin.
        destruct (x_h100 x); [congruence|]. cbn [negb]. reflexivity.
      - destruct (x_h100 x) as [|b0 t0] eqn:E100.
        + right. split; [rewrite Hc; reflexivity|]. unfold aw_at, x_awfin. rewrite E100. reflexivity.
        + left. split; [reflexivity|discriminate]. }
    destruct Hcase as [[-> Hne]|[Hcons Haw]].
    + (* the interim 100 is still ahead *)
      destruct H100 as [E|(Ha & h1 & Hwf1 & Hst1 & Hb1 & E)]; [congruence|].
      rewrite Hc, N.add_0_r, stream_drop_off in Hwin.
      destruct (N.lt_ge_cases m (len (x_h100 x))) as [Hlt|Hge].
      * (* a strict prefix of the 100 head: need more data *)
        rewrite take_app_le in Hwin by lia.
        destruct (take_strict_prefix m (x_h100 x) Hlt) as (y & Hy & Hsplit).
        assert (Hcall : call_try_response (cl x PRecvResponse w None false) (window s) =
                        Ok (cl x PRecvResponse w None false, None)).
        { rewrite Hwin. apply (try_response_prefix _ h1 (take m (x_h100 x)) y Hwf1).
          - unfold bare in Hb1. rewrite Hb1. cbn. lia.
          - rewrite <- E. exact Hsplit.
          - exact Hy.
          - apply not_known_100. exact Hst1. }
        rewrite (recv_none_canon x false w _ Hcall). cbn [fst].
        exists (PResp false w). split; [reflexivity|]. split; [apply (base_ext x s); auto|].
        cbn [pos_ok]. split; [exact Hhd|]. split; [exact Hbd|].
        unfold RespNone. cbn [add_consumed with_flow with_obj s_consumed]. rewrite N.add_0_r. auto.
      * (* the whole 100 head: skipped (C11, late 100) *)
        rewrite take_app_ge in Hwin by lia. rewrite Hwin, E.
        assert (Hawt : i_await_100 (rflow x false w) = true).
        { unfold rflow. cbn [flow_of snd mk i_await_100]. rewrite aw_at_false. exact Ha. }
        rewrite (recv_late_100 (rflow x false w) h1 _ Hwf1 Hst1 Hb1 eq_refl Hawt). cbn [fst].
        exists (PResp true w). split.
        { cbn [add_consumed with_flow with_obj s_obj flow_of fst snd]. unfold rflow, set_await, mk, aw_at.
          cbn [flow_of snd mk i_call i_holder i_reasons i_should_send_body i_status i_location negb].
          rewrite Bool.andb_false_r. reflexivity. }
        split; [apply (base_ext x s); auto|].
        cbn [pos_ok]. split; [exact Hhd|]. split; [exact Hbd|].
        unfold RespNone. cbn [add_consumed with_flow with_obj s_consumed]. rewrite Hc, <- E, N.add_0_r.
        repeat split; auto.
    + (* positioned at the final head *)
      rewrite Hcons, stream_drop_h100 in Hwin.
      destruct (N.lt_ge_cases m (len (x_H x))) as [Hlt|Hge].
      * rewrite take_app_le in Hwin by lia.
        destruct (take_strict_prefix m (x_H x) Hlt) as (y & Hy & Hsplit).
        assert (Hcall : call_try_response (cl x PRecvResponse w None false) (window s) =
                        Ok (cl x PRecvResponse w None false, None)).
        { rewrite Hwin. apply (try_response_prefix _ (x_head x) (take m (x_H x)) y Hwf Hn Hsplit Hy).
          intros Hk. apply Hf10. exists y. rewrite Hwin. auto. }
        rewrite (recv_none_canon x c w _ Hcall). cbn [fst].
        exists (PResp c w). split; [reflexivity|]. split; [apply (base_ext x s); auto|].
        cbn [pos_ok]. split; [exact Hhd|]. split; [exact Hbd|].
        unfold RespNone. cbn [add_consumed with_flow with_obj s_consumed]. rewrite N.add_0_r. auto.
      * rewrite take_app_ge in Hwin by lia. rewrite Hwin.
        rewrite (recv_head_canon x c w _ HW Haw). cbn [fst].
        exists (PGot w). split; [reflexivity|]. split; [apply (base_ext x s); auto|].
        cbn [pos_ok set_resp a_head a_body a_resp a_rbody a_term].
        cbn [add_consumed with_flow with_obj s_consumed s_sent].
        split; [exact Hhd|]. split; [exact Hbd|]. rewrite Hr1. split; [reflexivity|].
        split; [exact Hr2|]. split; [exact Ht|]. rewrite Hcons. unfold x_base. reflexivity.
  - (* a response has been handed back: excluded by the caller discipline *)
    exfalso. unfold head_pending in Hpend. rewrite Hobj in Hpend.
    unfold recv_response_can_proceed, as_recv_response, mk in Hpend. cbn in Hpend. discriminate.
Qed.

(* ------------------------------------------------------------------ the body reader versus the stream *)

Lemma header_defined_chunked h cl te st : header_defined h cl te = Ok (RChunked st) -> st = DSize.
Proof.
  unfold header_defined. destruct cl as [v|]; cbn [bind].
  - destruct (negb (all_digits v)); cbn [bind]; [discriminate|].
    destruct (parse_dec_u64 v); cbn [bind]; [|discriminate].
    destruct (_ && _); intros H; inversion H; reflexivity.
  - destruct (_ && _); intros H; inversion H; reflexivity.
Qed.

Lemma for_response_chunked h10 hd cn status cl te st :
  for_response h10 hd cn status cl te = Ok (RChunked st) -> st = DSize.
Proof.
  unfold for_response. destruct (header_defined h10 cl te) as [r| |] eqn:E; cbn [bind]; try discriminate.
  match goal with |- (if ?b then _ else _) = _ -> _ => destruct b end; intros H; inversion H; subst.
  eapply header_defined_chunked. exact E.
Qed.

Lemma framing_chunked_start x st : x_framing x = Ok (RChunked st) -> st = DSize.
Proof.
  unfold x_framing. cbv zeta.
  destruct (match hm_get _ _ with Some v => negb (is_text v) | None => false end); [discriminate|].
  apply for_response_chunked.
Qed.

Lemma rd_rel_start x : WfX x -> RdRel x (x_rd0 x) 0 [].
Proof.
  intros (_ & _ & _ & _ & _ & _ & _ & _ & _ & Hfr & Hw). unfold wire_ok in Hw.
  destruct (x_rd0 x) as [|n|st|] eqn:E; cbn [RdRel].
  - auto.
  - exists n. rewrite take_0. auto.
  - pose proof (framing_chunked_start x st Hfr) as ->.
    split; [exact E|]. destruct Hw as (Hwire & Hv & Hl).
    exists [], (x_wire x), (map ck_data (cd_chunks (x_coding x))).
    split; [reflexivity|]. split; [reflexivity|]. split; [rewrite Hwire; apply rel_start; assumption|reflexivity].
  - split; [exact E|]. rewrite take_0. split; [lia|reflexivity].
Qed.

Lemma call_read_frame c win cap c' j o :
  call_read c win cap = Ok (c', j, o) -> exists r', c' = set_reader c (Some r').
Proof.
  unfold call_read. destruct (c_reader c) as [r|] eqn:Er; [|discriminate].
  destruct (reader_is_ended r).
  - intros H. inversion H; subst. exists r. destruct c'; cbn in *; subst; reflexivity.
  - destruct (reader_read r win cap (c_stop c)) as [[[r' i'] o']| |]; cbn [bind]; try discriminate.
    intros H. inversion H; subst. eauto.
Qed.

Lemma take_in_window {A} n m i (wire rest : list A) :
  n <= len (take m (drop i (wire ++ rest))) -> n <= len wire - i -> i <= len wire ->
  take i wire ++ take n (take m (drop i (wire ++ rest))) = take (i + n) wire.
Proof.
  intros Hn Hl Hi. rewrite len_take in Hn. rewrite take_take. replace (N.min n m) with n by lia.
  rewrite drop_app_le by exact Hi. rewrite take_app_le by (rewrite len_drop; lia).
  symmetry. apply take_add.
Qed.

(** One read, any window size [m], any output space. *)
Lemma read_step x w rd stop i out m cap :
  WfX x -> RdRel x rd i out ->
  exists rd' j o,
    call_read (cl x PRecvBody w (Some rd) stop) (take m (drop i (x_wire x ++ x_rest x))) cap =
      Ok (cl x PRecvBody w (Some rd') stop, j, o) /\
    RdRel x rd' (i + j) (out ++ o).
Proof.
  intros HW Hrel. pose proof HW as (_ & _ & _ & _ & _ & _ & _ & _ & _ & _ & Hw). unfold wire_ok in Hw.
  set (win := take m (drop i (x_wire x ++ x_rest x))).
  destruct rd as [|lft|st|]; cbn [RdRel] in Hrel.
  - exists RNoBody, 0, []. split; [reflexivity|]. rewrite N.add_0_r, app_nil_r. exact Hrel.
  - destruct Hrel as (n & E0 & Hsum & Hout). rewrite E0 in Hw.
    rewrite (read_length (cl x PRecvBody w (Some (RLength lft)) stop) lft win cap eq_refl). cbv zeta.
    set (n' := N.min (N.min (len win) cap) lft).
    exists (RLength (lft - n')), n', (take n' win). split; [reflexivity|].
    cbn [RdRel]. exists n. split; [exact E0|]. split; [unfold n'; lia|].
    rewrite Hout. apply take_in_window; unfold n'; fold win; lia.
  - destruct Hrel as (E0 & C & R & ds & Hwire & Hi & Hrel & Hpay).
    assert (Hwin : win = take m (R ++ x_rest x)).
    { unfold win. rewrite Hwire, Hi, <- app_assoc, drop_app_exact. reflexivity. }
    destruct (step_call (cl x PRecvBody w (Some (RChunked st)) stop) st R ds (x_rest x) m cap eq_refl Hrel)
      as (c' & st' & C' & R' & o & ds' & Hcall & Hrd' & _ & HR & _ & Hcat & _ & Hrel' & _).
    rewrite <- Hwin in Hcall.
    destruct (call_read_frame _ _ _ _ _ _ Hcall) as (r' & Hc'). subst c'.
    cbn [set_reader c_reader cl] in Hrd'. inversion Hrd'; subst r'.
    exists (RChunked st'), (len C'), o. split; [exact Hcall|].
    cbn [RdRel]. split; [exact E0|]. exists (C ++ C'), R', ds'.
    split; [rewrite Hwire, HR, app_assoc; reflexivity|]. split; [rewrite len_app; lia|].
    split; [exact Hrel'|]. rewrite Hpay, Hcat, app_assoc. reflexivity.
  - destruct Hrel as (E0 & Hi & Hout). rewrite E0 in Hw.
    rewrite (read_close (cl x PRecvBody w (Some RClose) stop) win cap eq_refl). cbv zeta.
    set (n' := N.min (len win) cap).
    assert (Hn' : n' <= len (x_wire x) - i).
    { unfold n', win. rewrite Hw, app_nil_r, len_take, len_drop. lia. }
    exists RClose, n', (take n' win). split; [reflexivity|].
    cbn [RdRel]. split; [exact E0|]. split; [lia|].
    rewrite Hout. apply take_in_window; unfold n'; fold win; lia.
Qed.

Lemma pres_read x s a cap :
  WfX x -> Sim x s a -> Sim x (fst (step s (ORead cap))) (astep s a (ORead cap)).
Proof.
  intros HW (p & Hobj & HB & Hok).
  destruct p as [| |ph|c|c w|c w|w|w rd stop|t w rd stop]; cbn [flow_of fst snd] in Hobj.
  all: try (destruct (term_tag _ _ _ _ _ _ _ Hok) as [-> | ->]).
  all: rewrite (step_read s _ _ cap Hobj), (astep_read s a _ _ cap Hobj).
  all: try (cbn [fst]; keep_pos Hobj HB Hok).
  destruct Hok as (Hhd & Hbd & (Hresp & i & Hcons & Hrel) & Ht). pose proof HB as (Hst & _ & _).
  unfold do_read, recv_body_read, as_recv_body, mk. cbn [i_holder i_call bind].
  assert (Hwin : window s = take (s_arrived s - s_consumed s) (drop i (x_wire x ++ x_rest x))).
  { unfold window. rewrite Hst, Hcons, stream_drop_base. reflexivity. }
  rewrite Hwin.
  destruct (read_step x w rd stop i (a_rbody a) (s_arrived s - s_consumed s) cap HW Hrel)
    as (rd' & j & o & Hcall & Hrel').
  rewrite Hcall. cbn [bind fst].
  exists (PRecv w rd' stop). split; [reflexivity|]. split; [apply (base_ext x s); auto|].
  cbn [pos_ok]. split; [exact Hhd|]. split; [exact Hbd|]. split; [|exact Ht].
  split; [exact Hresp|]. exists (i + j). split; [|exact Hrel'].
  cbn [add_consumed with_flow with_obj s_consumed]. rewrite Hcons. lia.
Qed.

Lemma pres_stop x s a b :
  WfX x -> Sim x s a -> Sim x (fst (step s (OStop b))) (astep s a (OStop b)).
Proof.
  intros HW (p & Hobj & HB & Hok).
  assert (Ea : astep s a (OStop b) = a) by (apply astep_other; exact I). rewrite Ea. clear Ea.
  destruct p as [| |ph|c|c w|c w|w|w rd stop|t w rd stop]; cbn [flow_of fst snd] in Hobj.
  all: try (destruct (term_tag _ _ _ _ _ _ _ Hok) as [-> | ->]).
  all: rewrite (step_stop s _ _ b Hobj).
  all: try (cbn [fst]; keep_pos Hobj HB Hok).
  unfold recv_body_stop, as_recv_body, mk. cbn [i_holder i_call bind upd fst].
  exists (PRecv w rd b). split; [reflexivity|]. split; [apply (base_ext x s); auto|exact Hok].
Qed.

(* ------------------------------------------------------------------ proceed while receiving *)

Lemma recv_response_proceed_pending x c w :
  recv_response_proceed (snd (flow_of x (PResp c w))) = Ok None.
Proof. reflexivity. Qed.

Definition needs_body (rd : reader) : bool :=
  match rd with RNoBody => false | RLength n => negb (n =? 0) | _ => true end.

Lemma recv_response_proceed_got x w :
  recv_response_proceed (snd (flow_of x (PGot w))) =
    Ok (Some (if needs_body (x_rd0 x) then flow_of x (PRecv w (x_rd0 x) false)
              else flow_of x (PTerm (if x_redirect x then TRedirect else TCleanup) w (x_rd0 x) false))).
Proof.
  cbn [flow_of snd]. unfold recv_response_proceed, recv_response_can_proceed, as_recv_response, mk.
  cbn [i_holder i_call bind c_reader cl negb set_phase]. unfold need_response_body. cbn [c_reader cl].
  unfold x_rs2, x_cdl.
  destruct (x_rd0 x) as [|n|st|] eqn:E; cbn [needs_body reader_is_close].
  - unfold set_call_holder, is_redirect, x_redirect. cbn [i_status i_call]. reflexivity.
  - destruct (n =? 0); cbn [negb bind]; [|reflexivity].
    unfold set_call_holder, is_redirect, x_redirect. cbn [i_status i_call]. reflexivity.
  - reflexivity.
  - rewrite (add_reason_nodup _ _ (x_rs1_nodup x)). reflexivity.
Qed.

Lemma recv_body_proceed_canon x w rd stop :
  recv_body_proceed (snd (flow_of x (PRecv w rd stop))) =
    if reader_is_ended rd || reader_is_close rd
    then Ok (Some (flow_of x (PTerm (if x_redirect x then TRedirect else TCleanup) w rd stop)))
    else Ok None.
Proof.
  cbn [flow_of snd]. unfold recv_body_proceed, recv_body_can_proceed, as_recv_body, reader_of, mk.
  cbn [i_holder i_call bind c_reader cl].
  destruct (reader_is_ended rd || reader_is_close rd); cbn [negb]; reflexivity.
Qed.

Lemma needs_body_ended rd : needs_body rd = false -> reader_is_ended rd = true.
Proof. destruct rd; cbn; try discriminate; auto. intros H. apply Bool.negb_false_iff in H. exact H. Qed.

Lemma pres_proceed_recv x s a p :
  WfX x -> s_obj s = ObFlow (fst (flow_of x p)) (snd (flow_of x p)) -> Base x s -> pos_ok x p s a ->
  match p with PResp _ _ | PGot _ | PRecv _ _ _ | PTerm _ _ _ _ => True | _ => False end ->
  Sim x (fst (step s OProceed)) (astep s a OProceed).
Proof.
  intros HW Hobj HB Hok Hp. rewrite astep_proceed. rewrite (step_proceed s _ _ Hobj).
  destruct p as [| |ph|c|c w|c w|w|w rd stop|t w rd stop]; try contradiction; cbn [flow_of fst snd] in *.
  - (* RecvResponse, head pending: not ready *)
    destruct Hok as (Hhd & Hbd & Hrn). pose proof Hrn as (_ & _ & Ht & _). rewrite Ht.
    cbn [do_proceed].
    change (mk x PRecvResponse w None false HRecvResponse (x_rs0 x) (aw_at x c) None None)
      with (snd (flow_of x (PResp c w))).
    rewrite recv_response_proceed_pending. cbn [fst]. rewrite Hobj. cbn [term_of].
    rewrite <- Ht, set_term_same. exists (PResp c w). split; [exact Hobj|]. split; [exact HB|].
    cbn [pos_ok]. auto.
  - (* RecvResponse, head returned *)
    destruct Hok as (Hhd & Hbd & Hresp & Hrb & Ht & Hcons). rewrite Ht. cbn [do_proceed].
    change (mk x PRecvResponse w (Some (x_rd0 x)) false HRecvResponse (x_rs1 x) (x_awfin x)
               (Some (x_status x)) (x_loc x)) with (snd (flow_of x (PGot w))).
    rewrite recv_response_proceed_got.
    assert (Hrec : forall s' a', s_consumed s' = s_consumed s -> a_resp a' = a_resp a ->
                                 a_rbody a' = a_rbody a -> Received x s' a' (x_rd0 x)).
    { intros s' a' E1 E2 E3. split; [rewrite E2; exact Hresp|]. exists 0.
      split; [rewrite E1, Hcons; lia|]. rewrite E3, Hrb. apply rd_rel_start. exact HW. }
    destruct (needs_body (x_rd0 x)) eqn:En.
    + cbn [flow_of fst with_flow with_obj s_obj term_of]. rewrite <- Ht, set_term_same.
      exists (PRecv w (x_rd0 x) false). split; [reflexivity|]. split; [apply (base_ext x s); auto|].
      cbn [pos_ok]. split; [exact Hhd|]. split; [exact Hbd|]. split; [apply Hrec; reflexivity|exact Ht].
    + exists (PTerm (if x_redirect x then TRedirect else TCleanup) w (x_rd0 x) false).
      split; [reflexivity|]. split; [apply (base_ext x s); auto|].
      cbn [pos_ok]. split; [exact Hhd|]. split; [exact Hbd|]. split; [apply Hrec; reflexivity|].
      split; [left; apply needs_body_ended; exact En|].
      cbn [flow_of fst snd with_flow with_obj s_obj set_term a_term].
      destruct (x_redirect x); cbn [term_of]; auto.
  - (* RecvBody *)
    destruct Hok as (Hhd & Hbd & Hrec & Ht). rewrite Ht. cbn [do_proceed].
    change (mk x PRecvBody w (Some rd) stop HRecvBody (x_rs2 x) (x_awfin x) (Some (x_status x)) (x_loc x))
      with (snd (flow_of x (PRecv w rd stop))).
    rewrite recv_body_proceed_canon.
    destruct (reader_is_ended rd || reader_is_close rd) eqn:Ee.
    + exists (PTerm (if x_redirect x then TRedirect else TCleanup) w rd stop).
      split; [reflexivity|]. split; [apply (base_ext x s); auto|].
      cbn [pos_ok]. split; [exact Hhd|]. split; [exact Hbd|]. split; [exact Hrec|].
      split.
      { apply Bool.orb_true_iff in Ee. destruct Ee as [Ee|Ee]; [left; exact Ee|right].
        destruct rd; try discriminate. reflexivity. }
      cbn [flow_of fst snd with_flow with_obj s_obj set_term a_term].
      destruct (x_redirect x); cbn [term_of]; auto.
    + cbn [fst]. rewrite Hobj. cbn [term_of]. rewrite <- Ht, set_term_same.
      exists (PRecv w rd stop). split; [exact Hobj|]. split; [exact HB|]. cbn [pos_ok]. auto.
  - (* Redirect / Cleanup *)
    pose proof Hok as (Hhd & Hbd & Hrec & Hend & Ht & Htag). rewrite Ht.
    destruct Htag as [[-> Hred]| ->]; cbn [do_proceed fst].
    + rewrite <- Ht, set_term_same.
      exists (PTerm TCleanup w rd stop). split; [reflexivity|]. split; [apply (base_ext x s); auto|].
      cbn [pos_ok]. split; [exact Hhd|]. split; [exact Hbd|]. split; [exact Hrec|]. auto.
    + rewrite <- Ht, set_term_same.
      exists (PTerm TCleanup w rd stop). split; [exact Hobj|]. split; [exact HB|exact Hok].
Qed.
