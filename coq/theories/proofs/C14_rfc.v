(** C14: [Url.resolve] (the model of the url crate) equals the RFC 3986 5.2 transcription of
    C14_spec.v followed by normalisation.  Part 1: parsing a reference. *)
From Coq Require Import Lia ZArith.
From Hoot Require Import Base Url.
From Hoot.proofs Require Import BytesLemmas C14_spec C14_proofs.
Open Scope N_scope.

(* ------------------------------------------------------------------ span *)

Lemma span_spec p s a r :
  span p s = (a, r) ->
  s = a ++ r /\ forallb p a = true /\ match r with [] => True | b :: _ => p b = false end.
Proof.
  revert a r. induction s as [|b t IH]; intros a r H; cbn [span] in H.
  - inversion H; subst. repeat split.
  - destruct (p b) eqn:Hb.
    + destruct (span p t) as [a' r'] eqn:E. inversion H; subst; clear H.
      destruct (IH _ _ eq_refl) as (H1 & H2 & H3). subst t. cbn [app forallb]. rewrite Hb, H2. auto.
    + inversion H; subst. cbn [app forallb]. rewrite Hb. auto.
Qed.

Lemma span_unique p a r :
  forallb p a = true -> match r with [] => True | b :: _ => p b = false end ->
  span p (a ++ r) = (a, r).
Proof.
  induction a as [|x a IH]; intros Ha Hr.
  - cbn [app]. destruct r as [|b t]; [reflexivity|]. cbn [span]. rewrite Hr. reflexivity.
  - cbn [forallb] in Ha. apply andb_prop in Ha. destruct Ha as [Hx Ha].
    cbn [app span]. rewrite Hx, (IH Ha Hr). reflexivity.
Qed.

Lemma span_ext p q s : (forall b, In b s -> p b = q b) -> span p s = span q s.
Proof.
  induction s as [|b t IH]; intros H; [reflexivity|]. cbn [span].
  rewrite <- (H b (or_introl eq_refl)). rewrite IH by (intros x Hx; apply H; right; exact Hx).
  reflexivity.
Qed.

Lemma span_fst_snd p s : span p s = (fst (span p s), snd (span p s)).
Proof. destruct (span p s); reflexivity. Qed.

Lemma not_in_1 c b : not_in [c] b = negb (b =? c).
Proof. unfold not_in. cbn [existsb]. rewrite orb_false_r. reflexivity. Qed.

Lemma until_span c s : until c s = fst (span (not_in [c]) s).
Proof.
  induction s as [|b t IH]; [reflexivity|]. cbn [until span]. rewrite not_in_1.
  destruct (b =? c); cbn [negb]; [reflexivity|].
  rewrite IH. destruct (span (not_in [c]) t); reflexivity.
Qed.

Lemma after_span c s :
  after c s = match snd (span (not_in [c]) s) with [] => None | _ :: t => Some t end.
Proof.
  induction s as [|b t IH]; [reflexivity|]. cbn [after span]. rewrite not_in_1.
  destruct (b =? c); cbn [negb]; [reflexivity|].
  rewrite IH. destruct (span (not_in [c]) t); reflexivity.
Qed.

Lemma upq_span s : until_path_or_query s = span (not_in [47; 63]) s.
Proof.
  induction s as [|b t IH]; [reflexivity|]. cbn [until_path_or_query span].
  unfold not_in at 1. cbn [existsb]. rewrite orb_false_r.
  destruct ((b =? 47) || (b =? 63)); cbn [negb]; [reflexivity|]. rewrite IH. reflexivity.
Qed.

(* ------------------------------------------------------------------ strings without '#' *)

Definition nohash (s : bytes) : Prop := forall b, In b s -> b <> 35.

Lemma nohash_until s : nohash (until 35 s).
Proof.
  induction s as [|b t IH]; intros x Hx; cbn [until] in Hx; [contradiction|].
  destruct (N.eqb_spec b 35) as [E|E]; [contradiction|].
  destruct Hx as [<-|Hx]; [exact E|apply IH; exact Hx].
Qed.

Lemma nohash_app_r a r : nohash (a ++ r) -> nohash r.
Proof. intros H b Hb. apply H. apply in_or_app. right. exact Hb. Qed.

Lemma nohash_tail b t : nohash (b :: t) -> nohash t.
Proof. intros H x Hx. apply H. right. exact Hx. Qed.

Lemma nohash_span_snd p s : nohash s -> nohash (snd (span p s)).
Proof.
  intros H. destruct (span p s) as [a r] eqn:E. apply span_spec in E. destruct E as (E & _).
  subst s. cbn [snd]. eapply nohash_app_r; eauto.
Qed.

Lemma nohash_span_all s : nohash s -> span (not_in [35]) s = (s, []).
Proof.
  intros H. rewrite <- (app_nil_r s) at 1. apply span_unique; [|exact I].
  apply forallb_forall. intros b Hb. rewrite not_in_1. apply negb_true_iff. apply N.eqb_neq. apply H, Hb.
Qed.

Lemma until35_cons b t : b <> 35 -> until 35 (b :: t) = b :: until 35 t.
Proof. intros H. cbn [until]. destruct (N.eqb_spec b 35); [contradiction|reflexivity]. Qed.

Lemma until35_hash t : until 35 (35 :: t) = [].
Proof. reflexivity. Qed.

(** Scanning with a predicate that stops at '#' commutes with cutting the fragment off. *)
Lemma span_until35 p s :
  p 35 = false -> span p (until 35 s) = (fst (span p s), until 35 (snd (span p s))).
Proof.
  intros Hp. induction s as [|b t IH]; [reflexivity|].
  destruct (N.eqb_spec b 35) as [E|E].
  - subst b. rewrite until35_hash. cbn [span]. rewrite Hp. reflexivity.
  - rewrite (until35_cons _ _ E). cbn [span]. destruct (p b) eqn:Hb.
    + rewrite IH. destruct (span p t) as [a r]. reflexivity.
    + cbn [fst snd]. rewrite (until35_cons _ _ E). reflexivity.
Qed.

Lemma is_prefix1_until35 c s : c <> 35 -> is_prefix [c] (until 35 s) = is_prefix [c] s.
Proof.
  intros Hc. destruct s as [|b t]; [reflexivity|].
  destruct (N.eqb_spec b 35) as [E|E].
  - subst b. rewrite until35_hash. cbn [is_prefix]. destruct (N.eqb_spec c 35); [contradiction|reflexivity].
  - rewrite (until35_cons _ _ E). reflexivity.
Qed.

Lemma is_prefix1_inv c s : is_prefix [c] s = true -> exists t, s = c :: t.
Proof.
  destruct s as [|b t]; cbn [is_prefix]; [discriminate|]. rewrite andb_true_r.
  intros H. apply N.eqb_eq in H. subst. eauto.
Qed.

Lemma drop1_cons {A} (b : A) t : drop 1 (b :: t) = t.
Proof. rewrite drop_cons_pos by lia. apply drop_0. Qed.

Lemma drop2_cons {A} (a b : A) t : drop 2 (a :: b :: t) = t.
Proof. rewrite drop_cons_pos by lia. change (2 - 1) with 1. apply drop1_cons. Qed.

(* ------------------------------------------------------------------ the stages commute with until 35 *)

Lemma take_scheme_until35 s :
  take_scheme (until 35 s) = (fst (take_scheme s), until 35 (snd (take_scheme s))).
Proof.
  unfold take_scheme. rewrite span_until35 by reflexivity.
  destruct (span (not_in [58; 47; 63; 35]) s) as [cand rest]. cbn [fst snd].
  rewrite is_prefix1_until35 by discriminate.
  destruct (is_prefix [58] rest) eqn:Hp; cbn [andb]; [|reflexivity].
  destruct (valid_scheme cand); [|reflexivity].
  apply is_prefix1_inv in Hp. destruct Hp as (t & ->).
  rewrite until35_cons by discriminate. rewrite !drop1_cons. reflexivity.
Qed.

Lemma is_prefix2_inv a b s : is_prefix [a; b] s = true -> exists t, s = a :: b :: t.
Proof.
  destruct s as [|x [|y t]]; cbn [is_prefix]; try discriminate.
  - rewrite andb_false_r. discriminate.
  - rewrite andb_true_r. intros H. apply andb_prop in H. destruct H as [H1 H2].
    apply N.eqb_eq in H1. apply N.eqb_eq in H2. subst. eauto.
Qed.

Lemma is_prefix_slashes_until35 s : is_prefix [47; 47] (until 35 s) = is_prefix [47; 47] s.
Proof.
  destruct s as [|x t]; [reflexivity|].
  destruct (N.eqb_spec x 35) as [E|E]; [subst; reflexivity|].
  rewrite (until35_cons _ _ E). cbn [is_prefix]. destruct (47 =? x); [|reflexivity]. cbn [andb].
  apply (is_prefix1_until35 47 t). discriminate.
Qed.

Lemma take_authority_until35 s :
  take_authority (until 35 s) = (fst (take_authority s), until 35 (snd (take_authority s))).
Proof.
  unfold take_authority. rewrite is_prefix_slashes_until35.
  destruct (is_prefix [47; 47] s) eqn:Hp; [|reflexivity].
  apply is_prefix2_inv in Hp. destruct Hp as (t & ->).
  rewrite !until35_cons by discriminate. rewrite !drop2_cons.
  rewrite span_until35 by reflexivity.
  destruct (span (not_in [47; 63; 35]) t) as [a r]. reflexivity.
Qed.

Lemma take_path_until35 s :
  take_path (until 35 s) = (fst (take_path s), until 35 (snd (take_path s))).
Proof. unfold take_path. apply span_until35. reflexivity. Qed.

Lemma take_query_until35 s :
  fst (take_query (until 35 s)) = fst (take_query s).
Proof.
  unfold take_query. rewrite is_prefix1_until35 by discriminate.
  destruct (is_prefix [63] s) eqn:Hp; [|reflexivity].
  apply is_prefix1_inv in Hp. destruct Hp as (t & ->).
  rewrite until35_cons by discriminate. rewrite !drop1_cons.
  rewrite span_until35 by reflexivity.
  destruct (span (not_in [35]) t) as [a r]. reflexivity.
Qed.

(** The first four components, as the stages compute them. *)
Definition stages4 (s : bytes) : option bytes * option bytes * bytes * option bytes :=
  let '(sc, s1) := take_scheme s in
  let '(au, s2) := take_authority s1 in
  let '(pa, s3) := take_path s2 in
  (sc, au, pa, fst (take_query s3)).

Lemma rfc_parse_stages s :
  (rf_scheme (rfc_parse s), rf_authority (rfc_parse s), rf_path (rfc_parse s), rf_query (rfc_parse s))
  = stages4 s.
Proof.
  unfold rfc_parse, stages4.
  destruct (take_scheme s) as [sc s1]. destruct (take_authority s1) as [au s2].
  destruct (take_path s2) as [pa s3]. destruct (take_query s3) as [qu s4]. reflexivity.
Qed.

Lemma stages4_until35 s : stages4 (until 35 s) = stages4 s.
Proof.
  unfold stages4. rewrite take_scheme_until35.
  destruct (take_scheme s) as [sc s1]. cbn [fst snd].
  rewrite take_authority_until35. destruct (take_authority s1) as [au s2]. cbn [fst snd].
  rewrite take_path_until35. destruct (take_path s2) as [pa s3]. cbn [fst snd].
  rewrite take_query_until35. reflexivity.
Qed.

(* ------------------------------------------------------------------ the model's parser, stage by stage *)

Lemma scheme_char_same b : is_scheme_char b = scheme_char b.
Proof. reflexivity. Qed.

Lemma scheme_char_not_delim b : scheme_char b = true -> not_in [58; 47; 63; 35] b = true.
Proof.
  intros H. unfold not_in. cbn [existsb]. rewrite orb_false_r. apply negb_true_iff.
  destruct (N.eqb_spec b 58) as [->|_]; [vm_compute in H; discriminate|].
  destruct (N.eqb_spec b 47) as [->|_]; [vm_compute in H; discriminate|].
  destruct (N.eqb_spec b 63) as [->|_]; [vm_compute in H; discriminate|].
  destruct (N.eqb_spec b 35) as [->|_]; [vm_compute in H; discriminate|]. reflexivity.
Qed.

Lemma valid_scheme_iff a :
  valid_scheme a = true <->
  forallb is_scheme_char a = true /\ match a with c :: _ => is_alpha c = true | [] => False end.
Proof.
  unfold valid_scheme. destruct a as [|c t].
  - split; [discriminate|]. intros [_ []].
  - cbn [forallb]. split.
    + intros H. apply andb_prop in H. destruct H as [H1 H2]. rewrite (alpha_scheme_char _ H1).
      split; [exact H2|exact H1].
    + intros [H1 H2]. apply andb_prop in H1. destruct H1 as [_ H1]. rewrite H2. exact H1.
Qed.

Lemma model_scheme_stage s :
  match split_scheme s with Some (a, r) => (Some a, r) | None => (None, s) end = take_scheme s.
Proof.
  unfold take_scheme.
  destruct (span (not_in [58; 47; 63; 35]) s) as [cand rest] eqn:E.
  destruct (span_spec _ _ _ _ E) as (Hs & Hc & Hr).
  destruct (is_prefix [58] rest && valid_scheme cand) eqn:Hv.
  - apply andb_prop in Hv. destruct Hv as [Hp Hv]. apply is_prefix1_inv in Hp. destruct Hp as (t & ->).
    rewrite drop1_cons. apply valid_scheme_iff in Hv. destruct Hv as [Hv1 Hv2].
    assert (H : split_scheme s = Some (cand, t)) by (apply split_scheme_spec; auto).
    rewrite H. reflexivity.
  - destruct (split_scheme s) as [[a r]|] eqn:H; [|reflexivity].
    exfalso. apply split_scheme_spec in H. destruct H as (Hs' & Ha1 & Ha2).
    assert (E' : span (not_in [58; 47; 63; 35]) (a ++ 58 :: r) = (a, 58 :: r)).
    { apply span_unique; [|reflexivity]. apply forallb_forall. intros b Hb.
      apply scheme_char_not_delim. rewrite <- scheme_char_same.
      revert Hb. apply forallb_forall. exact Ha1. }
    rewrite <- Hs', E in E'. inversion E'; subst cand rest.
    assert (Hv' : valid_scheme a = true) by (apply valid_scheme_iff; auto).
    rewrite Hv' in Hv. vm_compute in Hv. discriminate.
Qed.

Lemma model_authority_match (rest : bytes) :
  match rest with
  | 47 :: 47 :: t => let '(a, r) := until_path_or_query t in (Some a, r)
  | _ => (None, rest)
  end =
  if is_prefix [47; 47] rest
  then let '(a, r) := until_path_or_query (drop 2 rest) in (Some a, r)
  else (None, rest).
Proof.
  destruct rest as [|x t]; [reflexivity|].
  destruct x as [|p]; [reflexivity|].
  do 6 (destruct p as [p|p|]; try reflexivity).
  destruct t as [|y t]; [reflexivity|].
  destruct y as [|p]; [reflexivity|].
  do 6 (try (destruct p as [p|p|]; try reflexivity)).
  rewrite drop2_cons. reflexivity.
Qed.

Lemma not_in_drop_hash cs s :
  nohash s -> span (not_in (cs ++ [35])) s = span (not_in cs) s.
Proof.
  intros H. apply span_ext. intros b Hb. unfold not_in. rewrite existsb_app. cbn [existsb].
  rewrite orb_false_r. destruct (N.eqb_spec b 35) as [E|_]; [exfalso; eapply H; eauto|].
  rewrite orb_false_r. reflexivity.
Qed.

Lemma model_authority_stage rest :
  nohash rest ->
  match rest with
  | 47 :: 47 :: t => let '(a, r) := until_path_or_query t in (Some a, r)
  | _ => (None, rest)
  end = take_authority rest.
Proof.
  intros H. rewrite model_authority_match. unfold take_authority.
  destruct (is_prefix [47; 47] rest) eqn:Hp; [|reflexivity].
  apply is_prefix2_inv in Hp. destruct Hp as (t & ->). rewrite drop2_cons.
  rewrite upq_span. change [47; 63; 35] with ([47; 63] ++ [35]).
  rewrite not_in_drop_hash by (apply nohash_tail in H; apply nohash_tail in H; exact H).
  reflexivity.
Qed.

Lemma model_path_query_stage s :
  nohash s ->
  until 63 s = fst (take_path s) /\ after 63 s = fst (take_query (snd (take_path s))).
Proof.
  intros H. unfold take_path. change [63; 35] with ([63] ++ [35]).
  rewrite (not_in_drop_hash [63] s H). split; [apply until_span|].
  rewrite after_span. pose proof (nohash_span_snd (not_in [63]) s H) as Hn.
  destruct (span (not_in [63]) s) as [a r] eqn:E. cbn [snd] in *.
  apply span_spec in E. destruct E as (_ & _ & Hr).
  unfold take_query. destruct r as [|b t]; [reflexivity|].
  rewrite not_in_1 in Hr. apply negb_false_iff in Hr. apply N.eqb_eq in Hr. subst b.
  cbn [is_prefix]. rewrite N.eqb_refl. cbn [andb]. rewrite drop1_cons.
  rewrite (nohash_span_all t (nohash_tail _ _ Hn)). reflexivity.
Qed.

Lemma model_stages loc :
  (r_scheme (parse_ref loc), r_auth (parse_ref loc), r_path (parse_ref loc), r_query (parse_ref loc))
  = stages4 (until 35 loc).
Proof.
  unfold parse_ref, stages4. pose proof (nohash_until loc) as Hn.
  set (nf := until 35 loc) in *.
  pose proof (model_scheme_stage nf) as H1.
  assert (Hn1 : nohash (snd (take_scheme nf))).
  { unfold take_scheme. destruct (span _ nf) as [cand rest] eqn:E.
    destruct (is_prefix [58] rest && valid_scheme cand) eqn:Hv; [|exact Hn].
    apply andb_prop in Hv. destruct Hv as [Hp _]. apply is_prefix1_inv in Hp. destruct Hp as (t & ->).
    rewrite drop1_cons. cbn [snd]. apply span_spec in E. destruct E as (E & _). rewrite E in Hn.
    apply nohash_app_r in Hn. apply nohash_tail in Hn. exact Hn. }
  destruct (take_scheme nf) as [sc s1]. cbn [snd] in Hn1.
  replace (match split_scheme nf with Some (s, r) => (Some s, r) | None => (None, nf) end) with (sc, s1).
  pose proof (model_authority_stage s1 Hn1) as H2. rewrite H2.
  assert (Hn2 : nohash (snd (take_authority s1))).
  { unfold take_authority. destruct (is_prefix [47; 47] s1) eqn:Hp; [|exact Hn1].
    apply is_prefix2_inv in Hp. destruct Hp as (t & ->). rewrite drop2_cons.
    pose proof (nohash_span_snd (not_in [47; 63; 35]) t
                  (nohash_tail _ _ (nohash_tail _ _ Hn1))) as Hx.
    destruct (span _ t) as [a r]. exact Hx. }
  destruct (take_authority s1) as [au s2]. cbn [snd] in Hn2.
  destruct (model_path_query_stage s2 Hn2) as [H3 H4].
  cbn [r_scheme r_auth r_path r_query]. rewrite H3, H4.
  destruct (take_path s2) as [pa s3]. reflexivity.
Qed.

(** The model's parser and the appendix-B transcription agree on every byte string. *)
Lemma parse_agree loc :
  r_scheme (parse_ref loc) = rf_scheme (rfc_parse loc) /\
  r_auth (parse_ref loc) = rf_authority (rfc_parse loc) /\
  r_path (parse_ref loc) = rf_path (rfc_parse loc) /\
  r_query (parse_ref loc) = rf_query (rfc_parse loc).
Proof.
  pose proof (model_stages loc) as H1. rewrite stages4_until35, <- rfc_parse_stages in H1.
  inversion H1. auto.
Qed.

(** The fragment plays no role in the first four components. *)
Lemma rfc_parse_fragment_irrelevant loc :
  let a := rfc_parse loc in let b := rfc_parse (until 35 loc) in
  rf_scheme a = rf_scheme b /\ rf_authority a = rf_authority b /\ rf_path a = rf_path b /\
  rf_query a = rf_query b.
Proof.
  cbv zeta. pose proof (rfc_parse_stages loc) as H1. pose proof (rfc_parse_stages (until 35 loc)) as H2.
  rewrite stages4_until35 in H2. rewrite <- H1 in H2. inversion H2. auto.
Qed.

(** With an authority the path is empty or begins with "/". *)
Lemma parse_path_after_authority loc a :
  rf_authority (rfc_parse loc) = Some a ->
  rf_path (rfc_parse loc) = [] \/ exists t, rf_path (rfc_parse loc) = 47 :: t.
Proof.
  unfold rfc_parse. destruct (take_scheme loc) as [sc s1].
  unfold take_authority. destruct (is_prefix [47; 47] s1); [|
    destruct (take_path s1) as [pa s3]; destruct (take_query s3) as [qu s4]; discriminate].
  destruct (span (not_in [47; 63; 35]) (drop 2 s1)) as [au s2] eqn:E.
  apply span_spec in E. destruct E as (_ & _ & Hr).
  destruct (take_path s2) as [pa s3] eqn:Ep. destruct (take_query s3) as [qu s4].
  cbn [rf_authority rf_path]. intros _.
  unfold take_path in Ep. destruct s2 as [|b t]; [inversion Ep; auto|].
  cbn [span] in Ep. destruct (not_in [63; 35] b) eqn:Hb.
  - destruct (span (not_in [63; 35]) t) as [a' r']. inversion Ep; subst. right.
    unfold not_in in Hr, Hb. cbn [existsb] in Hr, Hb. rewrite orb_false_r in Hr, Hb.
    apply negb_false_iff in Hr. apply negb_true_iff in Hb.
    destruct (N.eqb_spec b 47) as [->|_]; [eauto|]. cbn [orb] in Hr. rewrite Hr in Hb. discriminate.
  - inversion Ep; auto.
Qed.
