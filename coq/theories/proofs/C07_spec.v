(** C07 specification: valid chunked codings as data, independent of the decoder, the relation
    between decoder states and grammar positions, and read schedules.  Definitions only. *)
From Coq Require Import Lia ZArith.
From Hoot Require Import Base Chunk.
Open Scope N_scope.

(** ** Codings as data *)

(** A chunk is its size line (without the CRLF) and its data. *)
Record chunk := { ck_line : bytes; ck_data : bytes }.

(** A coding: the chunks, the last-chunk line (value zero), the trailer field lines. *)
Record coding := { cd_chunks : list chunk; cd_last : bytes; cd_trailers : list bytes }.

Definition enc_chunk (c : chunk) : bytes := ck_line c ++ CRLF ++ ck_data c ++ CRLF.
Definition enc_trailers (ts : list bytes) : bytes := concat (map (fun t => t ++ CRLF) ts) ++ CRLF.
Definition enc_end (last : bytes) (ts : list bytes) : bytes := last ++ CRLF ++ enc_trailers ts.

(** The bytes on the wire: for each chunk  line CRLF data CRLF, then  last CRLF, then each
    trailer CRLF, then the final CRLF. *)
Definition enc (c : coding) : bytes :=
  concat (map enc_chunk (cd_chunks c)) ++ enc_end (cd_last c) (cd_trailers c).

Definition payload (c : coding) : bytes := concat (map ck_data (cd_chunks c)).

(** ** Validity *)

Definition cr_free (l : bytes) : Prop := Forall (fun b => b <> 13) l.

(** 0-9, A-F, a-f and their values. *)
Definition is_hex (b : N) : bool :=
  ((48 <=? b) && (b <=? 57)) || ((65 <=? b) && (b <=? 70)) || ((97 <=? b) && (b <=? 102)).
Definition hex_digit_val (b : N) : N :=
  if b <=? 57 then b - 48 else if b <=? 70 then b - 55 else b - 87.
Definition hex_acc (acc b : N) : N := acc * 16 + hex_digit_val b.
(** Most significant digit first; leading zeros are harmless. *)
Definition hex_value (s : bytes) : N := fold_left hex_acc s 0.

(** Space or horizontal tab. *)
Definition is_blank (b : N) : bool := (b =? 32) || (b =? 9).

(** [size_line line n]: [line] is  hexdigits ++ blanks ++ ([] | ';' :: anything)  with at least one
    hex digit, the digits denote [n], and [n < 2^64].  Everything before the ';' is below 128 by
    construction (hex digits and blanks are); the extension after ';' is unconstrained here
    (CR-freeness of the whole line is required separately). *)
Definition size_line (line : bytes) (n : N) : Prop :=
  exists hex ws ext,
    line = hex ++ ws ++ ext /\
    hex <> [] /\ forallb is_hex hex = true /\
    forallb is_blank ws = true /\
    (ext = [] \/ exists e, ext = 59 :: e) /\
    hex_value hex = n /\ n < U64_LIMIT.

Definition valid_chunk (c : chunk) : Prop :=
  cr_free (ck_line c) /\ size_line (ck_line c) (len (ck_data c)) /\ 0 < len (ck_data c).

Definition valid_trailer (t : bytes) : Prop := t <> [] /\ cr_free t.

Definition valid (c : coding) : Prop :=
  Forall valid_chunk (cd_chunks c) /\
  cr_free (cd_last c) /\ size_line (cd_last c) 0 /\
  Forall valid_trailer (cd_trailers c).

(** The known finding F17, as an explicit named premise: the decoder rejects size lines longer
    than [SANITY_CHECK] = 20 bytes although the grammar allows them (leading zeros, extensions). *)
Definition line_limit_F17 (c : coding) : Prop :=
  Forall (fun ck => len (ck_line ck) <= SANITY_CHECK) (cd_chunks c) /\
  len (cd_last c) <= SANITY_CHECK.

(** ** Grammar positions

    A position in a coding is the pair (remaining coding bytes [R], remaining chunk datas [ds]);
    the remaining payload is [concat ds].  The head of [ds] may be a chunk partly delivered. *)

(** [R] starts at a trailer line or at the final CRLF. *)
Inductive EndPos : bytes -> Prop :=
| EP_end : EndPos CRLF
| EP_trailer t R : t <> [] -> cr_free t -> EndPos R -> EndPos (t ++ CRLF ++ R).

(** [R] starts at a chunk size line or at the last-chunk line. *)
Inductive SizePos : bytes -> list bytes -> Prop :=
| SP_last line R :
    cr_free line -> size_line line 0 -> len line <= SANITY_CHECK -> EndPos R ->
    SizePos (line ++ CRLF ++ R) []
| SP_chunk line d R ds :
    cr_free line -> size_line line (len d) -> len line <= SANITY_CHECK -> 0 < len d ->
    SizePos R ds ->
    SizePos (line ++ CRLF ++ d ++ CRLF ++ R) (d :: ds).

(** Decoder state versus grammar position.  Between calls the state is never [DTrailer]. *)
Definition rel (st : dechunker) (R : bytes) (ds : list bytes) : Prop :=
  match st with
  | DSize => SizePos R ds
  | DChunk n => exists d R' ds', R = d ++ CRLF ++ R' /\ ds = d :: ds' /\ n = len d /\ 0 < n /\ SizePos R' ds'
  | DCrLf => exists R', R = CRLF ++ R' /\ SizePos R' ds
  | DEnding => EndPos R /\ ds = []
  | DTrailer => False
  | DEnded => R = [] /\ ds = []
  end.

(** How many bytes of the chunk at the current position are still undelivered (0 when the position
    is not inside or in front of a chunk). *)
Definition budget (st : dechunker) (ds : list bytes) : N :=
  match st with
  | DSize | DChunk _ => len (hd [] ds)
  | _ => 0
  end.

(** [Shrink ds ds']: [ds'] is obtained from [ds] by removing bytes from the front (whole pieces
    and/or a prefix of one piece). *)
Inductive Shrink : list bytes -> list bytes -> Prop :=
| Sh_refl ds : Shrink ds ds
| Sh_cut d1 d2 tl ds' : Shrink (d2 :: tl) ds' -> Shrink ((d1 ++ d2) :: tl) ds'
| Sh_drop d tl ds' : Shrink tl ds' -> Shrink (d :: tl) ds'.

(** ** Schedules

    Each read sees the first [k] unconsumed bytes of the stream (whatever has arrived; unconsumed
    bytes are presented again), offers [cap] bytes of output space and chooses the [stop] flag.
    A failing read (Err or Panic) makes the whole run fail. *)
Record ctrace := { t_st : dechunker; t_consumed : N; t_out : bytes }.

Definition cstart : ctrace := {| t_st := DSize; t_consumed := 0; t_out := [] |}.

Definition cstep (stream : bytes) (t : ctrace) (o : N * N * bool) : res ctrace :=
  let '(k, cap, stop) := o in
  let win := take k (drop (t_consumed t) stream) in
  do x <- read_chunked (t_st t) win cap stop;
  let '(st', i, out) := x in
  Ok {| t_st := st'; t_consumed := t_consumed t + i; t_out := t_out t ++ out |}.

Fixpoint crun (stream : bytes) (t : ctrace) (sched : list (N * N * bool)) : res ctrace :=
  match sched with
  | [] => Ok t
  | o :: s => do t' <- cstep stream t o; crun stream t' s
  end.
