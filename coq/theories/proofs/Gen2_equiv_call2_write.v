(** (src/client/call.rs) [Call<WithBody>::consume_direct_write], [Call<WithBody>::write] (the part after the request analysis,
    with the prelude writing abstracted to its result) and [Call<RecvBody>::read], translated from the Rust sources on every run
    (theories/Gen2.v: [gen_call_direct_write], [gen_call_write_body], [gen_call_read]; the fields of [self.state] the function
    touches are arguments and results), agree with the hand-written model (theories/Call.v: [call_direct_write],
    [call_write_body], [call_read]).

    The three functions are thin wrappers around the body writer / body reader, for which Gen2_equiv_body.v and
    Gen2_equiv_reader_chunked.v prove the correspondence ([wr_rel], [dw_rel], [rd_rel]); the side conditions
    [sized_fits] / [limit_fits] of those theorems are inherited unchanged (see the header of Gen2_equiv_body.v).

    Proof style: unfold both wrappers, replace the generated queries by the model's with the proved equalities, take the
    callee's correspondence as a premise and destruct the callee's two results, then split every remaining conditional of
    either side (contradictory combinations are pruned by linear arithmetic) and close the leaves by computation.  No
    sub-term of the generated code is mentioned literally. *)
From Coq Require Import NArith ZArith Bool List Lia ZifyBool ZifyN.
From Hoot Require Import Base Chunk Body Httparse Parser Url Request Call GenLib Gen Gen2.
From Hoot.proofs Require Import BytesLemmas Gen2_equiv_rel Gen2_equiv_writer Gen2_transport_write.
Open Scope N_scope.

(* ------------------------------------------------------------------ relations *)

(** [consume_direct_write]: the writer of the model's new call is the generated new writer. *)
Definition cdw_rel (g : res (smode * bool * unit)) (m : res call) : Prop :=
  match g, m with
  | Ok (m', e', _), Ok c' => m' = w_mode (c_writer c') /\ e' = w_ended (c_writer c')
  | Err e1, Err e2 => e1 = e2
  | Panic _, Panic _ => True
  | _, _ => False
  end.

(** [write]: new writer, input consumed, bytes written (the output buffer starts empty with [cap] bytes of room). *)
Definition cwb_rel (cap : N) (g : res (smode * bool * N * bytes * (N * N))) (m : res (call * N * bytes)) : Prop :=
  match g, m with
  | Ok (m', e', avail', out', (used, olen)), Ok (c', used2, bs) =>
      m' = w_mode (c_writer c') /\ e' = w_ended (c_writer c') /\ used = used2 /\ out' = bs /\ olen = len bs /\
      avail' = cap - len bs
  | Err e1, Err e2 => e1 = e2
  | Panic _, Panic _ => True
  | _, _ => False
  end.

(** [read]: new reader, counts, the destination buffer holds the model's output followed by its old contents. *)
(* ------------------------------------------------------------------ helpers *)

(** the model tests the input for emptiness by its shape, the code by its length *)
Lemma nonempty_len (input : bytes) : (match input with [] => false | _ :: _ => true end) = negb (len input =? 0).
Proof.
  destruct input as [|x t]; [reflexivity|]. rewrite len_cons. symmetry. apply negb_true_iff, N.eqb_neq. lia.
Qed.

(** the projections of the model's records, to be computed away at the leaves *)
Ltac call_proj :=
  cbn [bind set_writer set_reader set_phase c_req c_analyzed c_phase c_writer c_reader c_skip c_stop w_mode w_ended
       andb orb negb fst snd app] in *.

(* ------------------------------------------------------------------ 1. consume_direct_write *)

Theorem gen_call_direct_write_equiv : forall c amount,
  cdw_rel (gen_call_direct_write (w_mode (c_writer c)) (w_ended (c_writer c)) amount) (call_direct_write c amount).
Proof.
  intros [req an ph [m e] rd sk st] amount. call_proj.
  unfold gen_call_direct_write, call_direct_write. cbv zeta. call_proj.
  rewrite ?gen_bw_left_to_send_eq. unfold left_to_send. call_proj.
  pose proof (gen_bw_direct_equiv m e amount) as HD.
  destruct (gen_bw_consume_direct_write m e amount) as [[[m1 e1] u1]|e1|s1];
    destruct (writer_direct {| w_mode := m; w_ended := e |} amount) as [w2|e2|s2];
    cbn [dw_rel] in HD; try contradiction;
    destruct m as [|lft|]; repeat split_if; call_proj; cbn [cdw_rel]; call_proj;
    try reflexivity; try exact I; try exact HD; try discriminate.
Qed.

(* ------------------------------------------------------------------ 2. write *)

(** What [call_write_body] does once the request has been analysed. *)
Definition call_write_after_analysis (c1 : call) (input : bytes) (cap : N) : res (call * N * bytes) :=
  if is_prelude (c_phase c1) then
    do r <- try_write_prelude (c_req c1) (c_phase c1) cap;
    Ok (set_phase c1 (fst r), 0, snd r)
  else if is_body (c_phase c1) then
    if (match input with [] => false | _ => true end) && w_ended (c_writer c1)
    then Err BodyContentAfterFinish
    else if match left_to_send (c_writer c1) with Some l => l <? len input | None => false end
    then Err BodyLargerThanContentLength
    else
      do r <- writer_write (c_writer c1) input cap;
      let '(w, used, out) := r in Ok (set_writer c1 w, used, out)
  else Ok (c1, 0, []).

Lemma call_write_body_unfold : forall c input cap,
  call_write_body c input cap = do c1 <- analyze_request c; call_write_after_analysis c1 input cap.
Proof. reflexivity. Qed.

(** Past the prelude: the body phase goes through the guards to the body writer, the later phases write nothing. *)
Theorem gen_call_write_body_equiv : forall c1 input cap,
  is_prelude (c_phase c1) = false ->
  sized_fits (w_mode (c_writer c1)) cap input ->
  cwb_rel cap
    (gen_call_write_body (w_mode (c_writer c1)) (w_ended (c_writer c1)) false (is_body (c_phase c1)) (Ok tt) input cap [])
    (call_write_after_analysis c1 input cap).
Proof.
  intros [req an ph [m e] rd sk st] input cap Hpre Hfit. call_proj.
  (* the ended flag is split first: the guards combine it with arithmetic tests, and the linear-arithmetic tactic (whose
     post-processing hook is set globally by Gen_equiv_body.v) does not decide such mixtures with a boolean unknown *)
  destruct e;
    unfold gen_call_write_body, call_write_after_analysis; cbv zeta; call_proj;
    rewrite Hpre, nonempty_len, ?gen_bw_is_ended_eq, ?gen_bw_left_to_send_eq; unfold left_to_send; call_proj;
    match goal with
    | |- context [writer_write {| w_mode := m; w_ended := ?e |} input cap] =>
        pose proof (gen_bw_write_equiv m e input cap [] Hfit) as HW;
        destruct (gen_bw_write m e input cap []) as [[[[[m1 e1] a1] o1] u1]|e1|s1];
        destruct (writer_write {| w_mode := m; w_ended := e |} input cap) as [[[w2 u2] b2]|e2|s2]
    end;
    cbn [wr_rel] in HW; try contradiction;
    destruct (is_body ph); destruct m as [|lft|]; repeat split_if; call_proj; cbn [cwb_rel]; call_proj;
    try reflexivity; try exact I; try discriminate;
    try (destruct HW as (-> & -> & -> & -> & -> & Hle); leaf; fail);
    leaf.
Qed.

(** Still in the prelude (and the prelude writer, abstracted to its result, succeeded without output): the writer is
    untouched and no input is consumed. *)
Theorem gen_call_write_body_prelude : forall m e is_body_ input cap,
  gen_call_write_body m e true is_body_ (Ok tt) input cap [] = Ok (m, e, cap, [], (0, 0)).
Proof. intros. reflexivity. Qed.

Print Assumptions nonempty_len.
Print Assumptions gen_call_direct_write_equiv.
Print Assumptions call_write_body_unfold.
Print Assumptions gen_call_write_body_equiv.
Print Assumptions gen_call_write_body_prelude.
