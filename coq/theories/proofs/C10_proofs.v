(** C10: the connection-reuse verdict is exactly the disjunction of the close conditions.

    Part 1: ghost facts and the per-operation lemmas (every flow operation of Flow.v either leaves
    the reason list alone or adds exactly the reason whose fact it establishes; with the
    duplicate-free invariant [add_reason] never panics; nothing is ever removed).
    Part 2: the instrumented step over [Script.step] and the invariant over every history. *)
From Coq Require Import Lia ZArith.
From Hoot Require Import Base Chunk Body Httparse Parser Url Request Call Flow Script.
From Hoot.proofs Require Import BytesLemmas Reasons.
Open Scope N_scope.

(* ------------------------------------------------------------------ ghost facts *)

(** The five close conditions of a history.  They are computed from what the operations were given
    and what they returned (see [gstep] below), never from [i_reasons]. *)
Record facts := { h10 : bool; ccl : bool; n100 : bool; scl : bool; cdl : bool }.

Definition fact_holds (x : reason) (fa : facts) : bool :=
  match x with
  | Http10 => h10 fa
  | ClientConnectionClose => ccl fa
  | ServerConnectionClose => scl fa
  | Not100Continue => n100 fa
  | CloseDelimitedBody => cdl fa
  end.

Definition req_h10 (r : request) : bool := match rq_version r with V10 => true | _ => false end.
Definition req_ccl (r : request) : bool := headers_has (rq_headers r) (s2b "connection") (s2b "close").

(** Facts of a flow just created from request [r]. *)
Definition facts_new (r : request) : facts :=
  {| h10 := req_h10 r; ccl := req_ccl r; n100 := false; scl := false; cdl := false |}.

(** What survives into the flow made by [as_new_flow]: the two facts about the original request. *)
Definition facts_base (fa : facts) : facts :=
  {| h10 := h10 fa; ccl := ccl fa; n100 := false; scl := false; cdl := false |}.

Definition set_n100 (fa : facts) (b : bool) : facts :=
  {| h10 := h10 fa; ccl := ccl fa; n100 := b; scl := scl fa; cdl := cdl fa |}.
Definition set_scl (fa : facts) (b : bool) : facts :=
  {| h10 := h10 fa; ccl := ccl fa; n100 := n100 fa; scl := b; cdl := cdl fa |}.
Definition set_cdl (fa : facts) (b : bool) : facts :=
  {| h10 := h10 fa; ccl := ccl fa; n100 := n100 fa; scl := scl fa; cdl := b |}.

(** [try_read_100] was shown a refusal: a complete head whose status is not 100, or a head with
    more fields than the (zero) slots it parses with. *)
Definition refusal_seen (input : bytes) : bool :=
  match try_parse_response 0 input with
  | Ok (Some (_, r)) => negb (rs_status r =? 100)
  | Err HttpParseTooManyHeaders => true
  | _ => false
  end.

(** The response handed back to the caller carries [Connection: close]. *)
Definition resp_close (rsp : response) : bool :=
  headers_has (hm_iter (rs_headers rsp)) (s2b "connection") (s2b "close").

(** The flow's body reader is close-delimited. *)
Definition reader_close_of (f : inner) : bool :=
  match c_reader (i_call f) with Some r => reader_is_close r | None => false end.

(* ------------------------------------------------------------------ small tools *)

Ltac inv_bind H :=
  match type of H with
  | bind ?X _ = Ok _ =>
      let E := fresh "E" in destruct X eqn:E; cbn [bind] in H; [|discriminate H|discriminate H]
  end.

(** The original request held by a flow ([None] once [as_new_flow] has taken it). *)
Definition creq (c : call) : option request := am_req (c_req c).
Definition freq (f : inner) : option request := creq (i_call f).

(** [keeps f f']: same reasons, same original request. *)
Definition keeps (f f' : inner) : Prop := i_reasons f' = i_reasons f /\ freq f' = freq f.

Lemma keeps_refl f : keeps f f.
Proof. split; reflexivity. Qed.

Lemma keeps_set_call f c : creq c = freq f -> keeps f (set_call f c).
Proof. intros H. split; [reflexivity|exact H]. Qed.

Lemma keeps_set_call_holder f c h : creq c = freq f -> keeps f (set_call_holder f c h).
Proof. intros H. split; [reflexivity|exact H]. Qed.

(* ------------------------------------------------------------------ the call level keeps the request *)

Lemma am_set_header_req a k v a' : am_set_header a k v = Ok a' -> am_req a' = am_req a.
Proof.
  unfold am_set_header. destruct (negb _); [discriminate|].
  destruct (_ <=? _); [discriminate|]. intros H; inversion H; reflexivity.
Qed.

Lemma analyze_request_req c c' : analyze_request c = Ok c' -> creq c' = creq c.
Proof.
  unfold analyze_request, creq. destruct (c_analyzed c); [intros H; inversion H; reflexivity|].
  intros H. inv_bind H. inv_bind H. inv_bind H. inversion H; subst; clear H. cbn [c_req].
  assert (H1 : am_req a0 = am_req (c_req c)).
  { destruct (ri_host a); [inversion E0; reflexivity|].
    destruct (u_auth (am_eff_uri (c_req c))); [inversion E0; reflexivity|].
    eapply am_set_header_req; eassumption. }
  rewrite <- H1.
  destruct (negb (ri_body_header a) && has_body (ri_mode a)); [|inversion E1; reflexivity].
  inv_bind E1. eapply am_set_header_req; eassumption.
Qed.

Lemma call_write_nobody_req c cap c' out :
  call_write_nobody c cap = Ok (c', out) -> creq c' = creq c.
Proof.
  unfold call_write_nobody. intros H. inv_bind H. inv_bind H. inversion H; subst.
  apply analyze_request_req in E. exact E.
Qed.

Lemma call_write_body_req c input cap c' used out :
  call_write_body c input cap = Ok (c', used, out) -> creq c' = creq c.
Proof.
  unfold call_write_body. intros H. inv_bind H. apply analyze_request_req in E. rewrite <- E.
  destruct (is_prelude (c_phase a)).
  - inv_bind H. inversion H; subst. reflexivity.
  - destruct (is_body (c_phase a)); [|inversion H; subst; reflexivity].
    destruct (_ && _); [discriminate|].
    destruct (match left_to_send (c_writer a) with Some l => l <? len input | None => false end);
      [discriminate|].
    inv_bind H. destruct a0 as [[w0 u0] o0]. inversion H; subst. reflexivity.
Qed.

Lemma call_direct_write_req c amount c' : call_direct_write c amount = Ok c' -> creq c' = creq c.
Proof.
  unfold call_direct_write. destruct (left_to_send (c_writer c)); [|discriminate].
  destruct (_ <? _); [discriminate|]. intros H. inv_bind H. inversion H; subst. reflexivity.
Qed.

Lemma into_receive_req c c' : into_receive c = Ok c' -> creq c' = creq c.
Proof.
  unfold into_receive. destruct (w_ended _); [|discriminate]. intros H; inversion H; reflexivity.
Qed.

Lemma into_send_body_req c c' : into_send_body c = Ok c' -> creq c' = creq c.
Proof.
  unfold into_send_body. destruct (c_analyzed c); [discriminate|]. intros H; inversion H; reflexivity.
Qed.

Lemma call_try_response_req c input c' got :
  call_try_response c input = Ok (c', got) -> creq c' = creq c.
Proof.
  unfold call_try_response. intros H. inv_bind H. inv_bind H.
  destruct a0 as [[used r]|]; [|inversion H; subst; reflexivity].
  destruct (rs_status r =? 100).
  - destruct (rs_headers r); [inversion H; subst; reflexivity|discriminate].
  - destruct (match hm_get (rs_headers r) (s2b "content-length") with
              | Some v => negb (is_text v) | None => false end); [discriminate|].
    inv_bind H. inversion H; subst. reflexivity.
Qed.

Lemma call_read_req c input cap c' i o : call_read c input cap = Ok (c', i, o) -> creq c' = creq c.
Proof.
  unfold call_read. destruct (c_reader c); [|discriminate].
  destruct (reader_is_ended r); [intros H; inversion H; subst; reflexivity|].
  intros H. inv_bind H. destruct a as [[r' i'] o']. inversion H; subst. reflexivity.
Qed.

(* ------------------------------------------------------------------ flow_new *)

(** [flow_new] never fails, and its reasons are exactly the two facts of the request. *)
Lemma flow_new_reasons r :
  exists f, flow_new r = Ok f /\
    i_reasons f = (if req_h10 r then [Http10] else []) ++ (if req_ccl r then [ClientConnectionClose] else []) /\
    freq f = Some r.
Proof.
  unfold flow_new, push_reason, req_h10, req_ccl.
  destruct (rq_version r); cbn [bind len];
    destruct (headers_has (rq_headers r) (s2b "connection") (s2b "close")); cbn [bind len app];
    eexists; (split; [reflexivity|]); cbn; auto.
Qed.

Lemma new_reasons_nodup (a b : bool) :
  NoDup ((if a then [Http10] else []) ++ (if b then [ClientConnectionClose] else [])).
Proof.
  destruct a, b; cbn; repeat constructor; cbn; intuition discriminate.
Qed.

Lemma new_reasons_in (a b : bool) x :
  In x ((if a then [Http10] else []) ++ (if b then [ClientConnectionClose] else [])) <->
  (x = Http10 /\ a = true) \/ (x = ClientConnectionClose /\ b = true).
Proof.
  destruct a, b; cbn; split; intros H; intuition (try discriminate; subst; auto).
Qed.

(** c10_new: as a set, the reasons after [flow_new r] are {Http10 iff the version is 1.0} and
    {ClientConnectionClose iff the request has Connection: close}; no duplicates. *)
Lemma new_spec r :
  exists f, flow_new r = Ok f /\ NoDup (i_reasons f) /\
    (forall x, In x (i_reasons f) <->
               (x = Http10 /\ rq_version r = V10) \/
               (x = ClientConnectionClose /\
                headers_has (rq_headers r) (s2b "connection") (s2b "close") = true)) /\
    (forall x, In x (i_reasons f) <-> fact_holds x (facts_new r) = true) /\
    freq f = Some r.
Proof.
  destruct (flow_new_reasons r) as (f & Hf & Hr & Hq). exists f. split; [exact Hf|].
  rewrite Hr. split; [apply new_reasons_nodup|]. split; [|split; [|exact Hq]].
  - intros x. rewrite new_reasons_in. unfold req_h10, req_ccl.
    destruct (rq_version r); intuition discriminate.
  - intros x. rewrite new_reasons_in. destruct x; cbn; intuition discriminate.
Qed.

(* ------------------------------------------------------------------ operations that keep the reasons *)

Lemma prepare_header_keeps f k v f' : prepare_header f k v = Ok f' -> keeps f f'.
Proof.
  unfold prepare_header. intros H. inv_bind H. inversion H; subst.
  apply keeps_set_call. unfold creq, freq. cbn. eapply am_set_header_req; eassumption.
Qed.

Lemma send_body_despite_method_keeps f f' : send_body_despite_method f = Ok f' -> keeps f f'.
Proof.
  unfold send_body_despite_method. intros H.
  destruct (i_holder f); try (inversion H; subst; split; reflexivity).
  inv_bind H. inversion H; subst. split; [reflexivity|]. apply into_send_body_req in E. exact E.
Qed.

Lemma send_request_write_keeps f cap f' out : send_request_write f cap = Ok (f', out) -> keeps f f'.
Proof.
  unfold send_request_write. intros H. destruct (i_holder f); try discriminate.
  - inv_bind H. destruct a as [c o]. inversion H; subst. apply keeps_set_call.
    eapply call_write_nobody_req; eassumption.
  - destruct (is_body _); [inversion H; subst; apply keeps_refl|].
    inv_bind H. destruct a as [[c u] o]. inversion H; subst. apply keeps_set_call.
    eapply call_write_body_req; eassumption.
Qed.

Lemma send_request_proceed_keeps f t f' : send_request_proceed f = Ok (Some (t, f')) -> keeps f f'.
Proof.
  unfold send_request_proceed. intros H. inv_bind H. destruct (negb a); [discriminate|].
  destruct (i_should_send_body f).
  - destruct (i_await_100 f); [inversion H; subst; apply keeps_refl|].
    inv_bind H. inversion H; subst. apply keeps_set_call. apply analyze_request_req; assumption.
  - destruct (i_holder f); try discriminate.
    destruct (into_receive (i_call f)) eqn:E1; try discriminate. inversion H; subst.
    apply keeps_set_call_holder. apply into_receive_req; assumption.
Qed.

Lemma await_100_proceed_keeps f t f' : await_100_proceed f = Ok (t, f') -> keeps f f'.
Proof.
  unfold await_100_proceed. intros H. destruct (i_should_send_body f).
  - inv_bind H. inversion H; subst. apply keeps_set_call. apply analyze_request_req; assumption.
  - destruct (i_holder f); try discriminate. inversion H; subst. apply keeps_set_call_holder. reflexivity.
Qed.

Lemma as_with_body_eq f c : as_with_body f = Ok c -> c = i_call f.
Proof. unfold as_with_body. destruct (i_holder f); try discriminate. intros H; inversion H; reflexivity. Qed.

Lemma send_body_write_keeps f input cap f' used out :
  send_body_write f input cap = Ok (f', used, out) -> keeps f f'.
Proof.
  unfold send_body_write. intros H. inv_bind H. inv_bind H. destruct a0 as [[c u] o].
  inversion H; subst. apply as_with_body_eq in E. subst a. apply keeps_set_call.
  eapply call_write_body_req; eassumption.
Qed.

Lemma send_body_direct_keeps f amount f' : send_body_direct f amount = Ok f' -> keeps f f'.
Proof.
  unfold send_body_direct. intros H. inv_bind H. inv_bind H. inversion H; subst.
  apply as_with_body_eq in E. subst a. apply keeps_set_call. eapply call_direct_write_req; eassumption.
Qed.

Lemma send_body_proceed_keeps f t f' : send_body_proceed f = Ok (Some (t, f')) -> keeps f f'.
Proof.
  unfold send_body_proceed. intros H. inv_bind H. destruct (negb a); [discriminate|].
  destruct (into_receive (i_call f)) eqn:E1; try discriminate. inversion H; subst.
  apply keeps_set_call_holder. apply into_receive_req; assumption.
Qed.

Lemma as_recv_body_eq f c : as_recv_body f = Ok c -> c = i_call f.
Proof. unfold as_recv_body. destruct (i_holder f); try discriminate. intros H; inversion H; reflexivity. Qed.

Lemma recv_body_read_keeps f input cap f' i o : recv_body_read f input cap = Ok (f', i, o) -> keeps f f'.
Proof.
  unfold recv_body_read. intros H. inv_bind H. inv_bind H. destruct a0 as [[c u] o0].
  inversion H; subst. apply as_recv_body_eq in E. subst a. apply keeps_set_call.
  eapply call_read_req; eassumption.
Qed.

Lemma recv_body_stop_keeps f b f' : recv_body_stop f b = Ok f' -> keeps f f'.
Proof.
  unfold recv_body_stop. intros H. inv_bind H. inversion H; subst.
  apply as_recv_body_eq in E. subst a. apply keeps_set_call. reflexivity.
Qed.

Lemma recv_body_proceed_keeps f t f' : recv_body_proceed f = Ok (Some (t, f')) -> f' = f.
Proof.
  unfold recv_body_proceed. intros H. inv_bind H. destruct (negb a); [discriminate|].
  inversion H; reflexivity.
Qed.

(* ------------------------------------------------------------------ operations that add a reason *)

(** [adds f f' x b]: [f'] has the reasons of [f] plus [x] if [b]; still duplicate-free; same request. *)
Definition adds (f f' : inner) (x : reason) (b : bool) : Prop :=
  NoDup (i_reasons f') /\ freq f' = freq f /\
  (forall y, In y (i_reasons f') <-> In y (i_reasons f) \/ (y = x /\ b = true)) /\
  (forall y, hd_error (i_reasons f) = Some y -> hd_error (i_reasons f') = Some y).

Lemma keeps_adds f f' x : NoDup (i_reasons f) -> keeps f f' -> adds f f' x false.
Proof.
  intros Hnd [Hr Hq]. unfold adds. rewrite Hr. repeat split; auto.
  intros [H|[_ H]]; [exact H|discriminate].
Qed.

Lemma refuse_ok f : NoDup (i_reasons f) ->
  exists f', refuse f = Ok f' /\ adds f f' Not100Continue true.
Proof.
  intros Hnd. unfold refuse.
  destruct (add_reason_ok (i_reasons f) Not100Continue Hnd) as (rs & Ha & Hnd' & _ & Hin & Hhd).
  rewrite Ha. cbn [bind]. eexists. split; [reflexivity|].
  unfold adds. cbn [i_reasons]. repeat split; auto.
  - intros H. apply Hin in H. destruct H; auto.
  - intros [H|[H _]]; apply Hin; auto.
Qed.

(** [try_read_100]: adds [Not100Continue] exactly when a refusal was seen; in that case it does
    not panic (the push is within capacity) and reports [Ok 0]. *)
Lemma try_read_100_spec f input :
  NoDup (i_reasons f) ->
  adds f (fst (try_read_100 f input)) Not100Continue (refusal_seen input) /\
  (refusal_seen input = true -> snd (try_read_100 f input) = Ok 0).
Proof.
  intros Hnd. unfold try_read_100, refusal_seen.
  destruct (refuse_ok f Hnd) as (fr & Hr & Har).
  assert (Hk : forall b, adds f (set_await f b) Not100Continue false).
  { intros b. apply keeps_adds; [exact Hnd|]. split; reflexivity. }
  assert (Hk0 : adds f f Not100Continue false) by (apply keeps_adds; [exact Hnd|apply keeps_refl]).
  destruct (try_parse_response 0 input) as [[[used r]|]|e|s].
  - destruct (rs_status r =? 100); cbn [negb].
    + destruct (i_should_send_body f); cbn [fst snd]; split; auto; discriminate.
    + rewrite Hr. cbn [fst snd]. auto.
  - cbn [fst snd]. split; auto; discriminate.
  - destruct e; try (cbn [fst snd]; split; [apply Hk|discriminate]).
    rewrite Hr. cbn [fst snd]. auto.
  - cbn [fst snd]. split; auto; discriminate.
Qed.

Lemma as_recv_response_eq f c : as_recv_response f = Ok c -> c = i_call f.
Proof. unfold as_recv_response. destruct (i_holder f); try discriminate. intros H; inversion H; reflexivity. Qed.

(** [recv_try_response]: adds [ServerConnectionClose] exactly when a response is returned to the
    caller and that response carries Connection: close. *)
Lemma recv_try_response_spec f input f' used got :
  NoDup (i_reasons f) ->
  recv_try_response f input = Ok (f', used, got) ->
  adds f f' ServerConnectionClose (match got with Some rsp => resp_close rsp | None => false end).
Proof.
  intros Hnd. unfold recv_try_response. intros H. inv_bind H. inv_bind H.
  apply as_recv_response_eq in E. subst a. destruct a0 as [c' g].
  apply call_try_response_req in E0.
  destruct g as [[u rsp]|].
  - destruct ((rs_status rsp =? 100) && i_await_100 (set_call f c')).
    + inversion H; subst. apply keeps_adds; [exact Hnd|]. split; [reflexivity|exact E0].
    + inv_bind H. inversion H; subst; clear H. unfold resp_close.
      cbn [i_reasons set_call] in E.
      destruct (headers_has (hm_iter (rs_headers rsp)) (s2b "connection") (s2b "close")).
      * destruct (add_reason_ok (i_reasons f) ServerConnectionClose Hnd) as (rs & Ha & Hnd' & _ & Hin & Hhd).
        rewrite Ha in E. inversion E; subst a. unfold adds. cbn [i_reasons]. repeat split; auto.
        -- intros H. apply Hin in H. destruct H; auto.
        -- intros [H|[H _]]; apply Hin; auto.
      * inversion E; subst a. apply keeps_adds; [exact Hnd|]. split; [reflexivity|exact E0].
  - inversion H; subst. apply keeps_adds; [exact Hnd|]. split; [reflexivity|exact E0].
Qed.

(** With a duplicate-free list the only failures of [recv_try_response] are those of the holder
    check and of the call level: the push itself never panics. *)
Lemma recv_try_response_no_push_panic f input c r :
  NoDup (i_reasons f) -> as_recv_response f = Ok c -> call_try_response c input = Ok r ->
  exists x, recv_try_response f input = Ok x.
Proof.
  intros Hnd Hc Hr. unfold recv_try_response. rewrite Hc. cbn [bind]. rewrite Hr. cbn [bind].
  destruct r as [c' [[u rsp]|]]; [|eauto].
  destruct (_ && _); [eauto|].
  destruct (headers_has _ _ _); cbn [bind]; [|eauto].
  cbn [i_reasons set_call].
  destruct (add_reason_ok (i_reasons f) ServerConnectionClose Hnd) as (rs & Ha & _).
  rewrite Ha. cbn [bind]. eauto.
Qed.

(** [RecvResponse::proceed]: adds [CloseDelimitedBody] exactly when it enters the body state with
    a close-delimited reader. *)
Lemma recv_response_proceed_spec f t f' :
  NoDup (i_reasons f) ->
  recv_response_proceed f = Ok (Some (t, f')) ->
  adds f f' CloseDelimitedBody
       (match t with TRecvBody => reader_close_of f' | _ => false end).
Proof.
  intros Hnd. unfold recv_response_proceed. intros H. inv_bind H.
  destruct (negb a); [discriminate|].
  destruct (need_response_body (i_call f)).
  - inv_bind H. inversion H; subst; clear H. unfold reader_close_of. cbn [i_call c_reader set_phase].
    cbn [c_reader set_phase] in E0.
    destruct (match c_reader (i_call f) with Some r => reader_is_close r | None => false end).
    + destruct (add_reason_ok (i_reasons f) CloseDelimitedBody Hnd) as (rs & Ha & Hnd' & _ & Hin & Hhd).
      rewrite Ha in E0. inversion E0; subst a0. unfold adds. cbn [i_reasons]. repeat split; auto.
      * intros H. apply Hin in H. destruct H; auto.
      * intros [H|[H _]]; apply Hin; auto.
    + inversion E0; subst a0. apply keeps_adds; [exact Hnd|]. split; reflexivity.
  - inversion H; subst; clear H.
    assert (Hk : keeps f (set_call_holder f (set_phase (i_call f) PRecvBody) HRecvBody))
      by (split; reflexivity).
    destruct (is_redirect _); apply keeps_adds; auto.
Qed.

Lemma recv_response_proceed_no_push_panic f c :
  NoDup (i_reasons f) -> as_recv_response f = Ok c ->
  exists x, recv_response_proceed f = Ok x.
Proof.
  intros Hnd Hc. unfold recv_response_proceed, recv_response_can_proceed. rewrite Hc. cbn [bind].
  destruct (negb _); [eauto|].
  destruct (need_response_body (i_call f)); [|eauto].
  destruct (match c_reader (set_phase (i_call f) PRecvBody) with Some r => reader_is_close r | None => false end);
    cbn [bind]; [|eauto].
  destruct (add_reason_ok (i_reasons f) CloseDelimitedBody Hnd) as (rs & Ha & _).
  rewrite Ha. cbn [bind]. eauto.
Qed.

(* ------------------------------------------------------------------ as_new_flow *)

Lemma am_unset_header_req a k a' : am_unset_header a k = Ok a' -> am_req a' = am_req a.
Proof.
  unfold am_unset_header. destruct (_ <=? _); [discriminate|]. intros H; inversion H; reflexivity.
Qed.

(** The request [as_new_flow] rebuilds: new method, everything else from the original. *)
Definition rebuilt (orig : request) (nm : method) : request :=
  {| rq_method := nm; rq_version := rq_version orig; rq_uri := rq_uri orig; rq_headers := rq_headers orig |}.

(** [as_new_flow] leaves the reasons of the redirect flow alone (it only takes the request out),
    and the new flow has exactly the reasons [flow_new] computes for the rebuilt request. *)
Lemma as_new_flow_spec f p f' nxt :
  as_new_flow f p = Ok (f', nxt) ->
  i_reasons f' = i_reasons f /\
  (forall r, freq f' = Some r -> freq f = Some r) /\
  match nxt with
  | None => True
  | Some n => exists orig nm nf,
      freq f = Some orig /\ flow_new (rebuilt orig nm) = Ok nf /\
      i_reasons n = i_reasons nf /\ freq n = Some (rebuilt orig nm)
  end.
Proof.
  unfold as_new_flow. intros H.
  destruct (i_location f) as [loc|]; [|discriminate].
  destruct (negb (is_text loc)); [discriminate|].
  destruct (i_status f) as [status|]; [|discriminate].
  destruct (u_scheme (am_eff_uri (c_req (i_call f)))); [discriminate|].
  destruct (resolve (am_eff_uri (c_req (i_call f))) loc) as [target|]; [|discriminate].
  match type of H with (match ?X with _ => _ end) = _ => destruct X as [nm|] end.
  2:{ inversion H; subst. auto. }
  destruct (am_req (c_req (i_call f))) as [orig|] eqn:Eo; [|discriminate].
  fold (rebuilt orig nm) in H.
  destruct (flow_new_reasons (rebuilt orig nm)) as (nf & Hnf & _ & Hq).
  rewrite Hnf in H. cbn [bind] in H.
  inv_bind H. inv_bind H. inv_bind H. inversion H; subst; clear H.
  split; [reflexivity|]. split.
  - unfold freq, creq. cbn. discriminate.
  - exists orig, nm, nf. split; [exact Eo|]. split; [exact Hnf|]. split; [reflexivity|].
    unfold freq, creq. cbn [i_call set_call set_req c_req].
    apply am_unset_header_req in E1. apply am_unset_header_req in E0. rewrite E1, E0.
    assert (Ha : am_req a = am_req (c_req (i_call nf))).
    { destruct (match p with Never => false | SameHost => can_redirect_auth_header (rq_uri orig) target end).
      - inversion E; reflexivity.
      - apply am_unset_header_req in E. exact E. }
    rewrite Ha. exact Hq.
Qed.

(* ------------------------------------------------------------------ the instrumented step *)

(** [fact_or g x b]: fact [x] becomes true if [b] (only the three facts an operation can
    establish after the flow was created). *)
Definition fact_or (g : facts) (x : reason) (b : bool) : facts :=
  match x with
  | Not100Continue => set_n100 g (n100 g || b)
  | ServerConnectionClose => set_scl g (scl g || b)
  | CloseDelimitedBody => set_cdl g (cdl g || b)
  | _ => g
  end.

(** The ghost step: how the facts evolve with one [Script.step] from state [s].  Only what an
    operation is given ([ONew]'s request, the bytes shown to [try_read_100]) or hands back (the
    response returned by [try_response], the state and reader reached by [proceed]) is looked
    at -- never [i_reasons]. *)
Definition gstep (s : sstate) (g : facts) (o : op) : facts :=
  match o with
  | ONew r => match flow_new r with Ok _ => facts_new r | _ => g end
  | OFollow => match s_next s with Some _ => facts_base g | None => g end
  | OTry100 =>
      match s_obj s with
      | ObFlow TAwait100 _ => set_n100 g (n100 g || refusal_seen (window s))
      | _ => g
      end
  | ORawTry100 b =>
      match s_obj s with
      | ObFlow TAwait100 _ => set_n100 g (n100 g || refusal_seen b)
      | _ => g
      end
  | OTryResponse =>
      match s_obj s with
      | ObFlow TRecvResponse f =>
          match recv_try_response f (window s) with
          | Ok (_, _, Some rsp) => set_scl g (scl g || resp_close rsp)
          | _ => g
          end
      | _ => g
      end
  | ORawTryResponse b =>
      match s_obj s with
      | ObFlow TRecvResponse f =>
          match recv_try_response f b with
          | Ok (_, _, Some rsp) => set_scl g (scl g || resp_close rsp)
          | _ => g
          end
      | _ => g
      end
  | OProceed =>
      match s_obj s with
      | ObFlow TRecvResponse f =>
          match recv_response_proceed f with
          | Ok (Some (TRecvBody, f')) => set_cdl g (cdl g || reader_close_of f')
          | _ => g
          end
      | _ => g
      end
  | _ => g
  end.

Definition grun (sg : sstate * facts) (ops : list op) : sstate * facts :=
  fold_left (fun sg o => (fst (step (fst sg) o), gstep (fst sg) (snd sg) o)) ops sg.

Lemma grun_fst ops : forall s g, fst (grun (s, g) ops) = run_ops s ops.
Proof.
  induction ops as [|o ops IH]; intros s g; [reflexivity|].
  unfold grun, run_ops in *. cbn [fold_left fst snd]. apply IH.
Qed.

Lemma grun_app sg ops1 ops2 : grun sg (ops1 ++ ops2) = grun (grun sg ops1) ops2.
Proof. unfold grun. apply fold_left_app. Qed.

(* ------------------------------------------------------------------ the invariant *)

Definition flow_inv (g : facts) (f : inner) : Prop :=
  NoDup (i_reasons f) /\
  (forall x, In x (i_reasons f) <-> fact_holds x g = true) /\
  (forall r, freq f = Some r -> req_h10 r = h10 g /\ req_ccl r = ccl g).

Definition Inv (s : sstate) (g : facts) : Prop :=
  (forall t f, s_obj s = ObFlow t f -> flow_inv g f) /\
  (forall n, s_next s = Some n -> flow_inv (facts_base g) n).

Lemma fact_or_false g x : fact_or g x false = g.
Proof. destruct g, x; cbn; rewrite ?orb_false_r; reflexivity. Qed.

Lemma flow_inv_adds g f f' x b :
  x = Not100Continue \/ x = ServerConnectionClose \/ x = CloseDelimitedBody ->
  flow_inv g f -> adds f f' x b -> flow_inv (fact_or g x b) f'.
Proof.
  intros Hx (Hnd & Hin & Hq) (Hnd' & Hq' & Hin' & _). split; [exact Hnd'|]. split.
  - intros y. rewrite Hin', Hin.
    destruct Hx as [->|[->| ->]]; destruct y; cbn; rewrite ?orb_true_iff;
      intuition (try discriminate; auto).
  - intros r Hr. rewrite Hq' in Hr. destruct (Hq r Hr) as [H1 H2].
    destruct Hx as [->|[->| ->]]; cbn; auto.
Qed.

Lemma flow_inv_keeps g f f' : flow_inv g f -> keeps f f' -> flow_inv g f'.
Proof.
  intros Hi Hk. rewrite <- (fact_or_false g Not100Continue).
  apply (flow_inv_adds g f f' Not100Continue false); auto.
  apply keeps_adds; [apply Hi|exact Hk].
Qed.

Lemma Inv_flow s g s' g' t f' :
  Inv s g -> facts_base g' = facts_base g -> s_next s' = s_next s ->
  s_obj s' = ObFlow t f' -> flow_inv g' f' -> Inv s' g'.
Proof.
  intros [_ Hn] Hb Hsn Ho Hf. split.
  - intros t0 f0 H0. rewrite Ho in H0. inversion H0; subst. exact Hf.
  - intros n H0. rewrite Hb. apply Hn. rewrite <- Hsn. exact H0.
Qed.

Lemma Inv_same s g s' : Inv s g -> s_next s' = s_next s -> s_obj s' = s_obj s -> Inv s' g.
Proof.
  intros [Ho Hn] H1 H2. split.
  - intros t f H. apply (Ho t f). congruence.
  - intros n H. apply (Hn n). congruence.
Qed.

Lemma Inv_noflow s g s' :
  Inv s g -> s_next s' = s_next s -> (forall t f, s_obj s' <> ObFlow t f) -> Inv s' g.
Proof.
  intros [_ Hn] H1 H2. split.
  - intros t f H. exfalso. exact (H2 t f H).
  - intros n H. apply Hn. congruence.
Qed.

Lemma Inv_facts s g g' :
  Inv s g -> facts_base g' = facts_base g -> (forall t f, s_obj s <> ObFlow t f) -> Inv s g'.
Proof.
  intros [_ Hn] Hb H2. split.
  - intros t f H. exfalso. exact (H2 t f H).
  - intros n H. rewrite Hb. apply Hn. exact H.
Qed.
