(** C05 / C20: the specification side, written independently of the parser.

    A head is described by a record; [render_*] writes it out per RFC 9112:
      status-line  = "HTTP/1." DIGIT SP 3DIGIT [ SP reason-phrase ] CRLF
      request-line = method SP request-target SP "HTTP/1." DIGIT CRLF
      field-line   = field-name ":" OWS field-value OWS CRLF
      head         = start-line *( field-line ) CRLF
    [wf_*] says which records are well-formed heads.  Definitions only (no lemmas). *)
From Hoot Require Import Base Httparse.
Open Scope N_scope.

(** A field line: name, optional white space, value, optional white space. *)
Record field := { f_name : bytes; f_ows1 : bytes; f_value : bytes; f_ows2 : bytes }.

Record resp_head := {
  rh_version : N;                (* 0 or 1: HTTP/1.0, HTTP/1.1 *)
  rh_status : N;                 (* 100 .. 999 *)
  rh_reason : option bytes;      (* None: "HTTP/1.1 200" CRLF; Some r: "HTTP/1.1 200 " r CRLF *)
  rh_fields : list field
}.

Record req_head := {
  qh_method : bytes;
  qh_target : bytes;
  qh_version : N;
  qh_fields : list field
}.

Definition render_field (f : field) : bytes :=
  f_name f ++ [58] ++ f_ows1 f ++ f_value f ++ f_ows2 f ++ CRLF.

(** All field lines, without the final blank line. *)
Definition render_lines (fs : list field) : bytes := flat_map render_field fs.

Definition status_digits (s : N) : bytes := [48 + s / 100; 48 + (s / 10) mod 10; 48 + s mod 10].

Definition http_version (v : N) : bytes := s2b "HTTP/1." ++ [48 + v].

Definition render_status_line (h : resp_head) : bytes :=
  http_version (rh_version h) ++ [32] ++ status_digits (rh_status h) ++
  (match rh_reason h with None => [] | Some r => 32 :: r end) ++ CRLF.

Definition render_response_head (h : resp_head) : bytes :=
  render_status_line h ++ render_lines (rh_fields h) ++ CRLF.

Definition render_request_line (h : req_head) : bytes :=
  qh_method h ++ [32] ++ qh_target h ++ [32] ++ http_version (qh_version h) ++ CRLF.

Definition render_request_head (h : req_head) : bytes :=
  render_request_line h ++ render_lines (qh_fields h) ++ CRLF.

(** Neither the first nor the last byte is SP / HTAB (the empty string qualifies). *)
Definition no_edge_ws (v : bytes) : bool :=
  match v with [] => true | c :: _ => negb (is_sp_tab c) end &&
  match rev v with [] => true | c :: _ => negb (is_sp_tab c) end.

Definition wf_field (f : field) : Prop :=
  f_name f <> [] /\
  forallb is_name_token (f_name f) = true /\
  (len (f_name f) <=? MAX_HEADER_NAME_LEN) = true /\     (* the http crate's limit on names *)
  forallb is_sp_tab (f_ows1 f) = true /\
  forallb is_value_token (f_value f) = true /\
  no_edge_ws (f_value f) = true /\
  forallb is_sp_tab (f_ows2 f) = true.

Definition wf_version (v : N) : Prop := v = 0 \/ v = 1.

Definition wf_resp_head (h : resp_head) : Prop :=
  wf_version (rh_version h) /\
  100 <= rh_status h <= 999 /\
  (match rh_reason h with None => True | Some r => forallb is_reason_byte r = true end) /\
  Forall wf_field (rh_fields h).

(** Method: httparse accepts any run of bytes in 0x21..0x7e here; the wrapper (http::Method)
    additionally wants the bytes to be in its method character table: [wf_method_http]. *)
Definition wf_req_head (h : req_head) : Prop :=
  qh_method h <> [] /\
  forallb (fun b => is_method_token b && negb (b =? 32)) (qh_method h) = true /\
  qh_target h <> [] /\
  forallb is_uri_token (qh_target h) = true /\
  wf_version (qh_version h) /\
  Forall wf_field (qh_fields h).

(** What a parser is expected to report for a field: name, value without the surrounding OWS. *)
Definition field_header (f : field) : header := (f_name f, f_value f).
Definition headers_of (fs : list field) : list header := map field_header fs.

(** The fields of [fs] whose lines lie completely within the first [n] bytes of [render_lines fs]. *)
Fixpoint fields_within (fs : list field) (n : N) : list field :=
  match fs with
  | [] => []
  | f :: t => if len (render_field f) <=? n
              then f :: fields_within t (n - len (render_field f))
              else []
  end.

(** For a prefix [p] of a rendered response head [h]: the fields whose lines are complete in [p]. *)
Definition complete_fields (h : resp_head) (p : bytes) : list field :=
  fields_within (rh_fields h) (len p - len (render_status_line h)).
