(** C06: the two header-value predicates of the specification (proofs/C06_spec.v) are equivalent to
    the model's: [cl_numeric]/[dec_value] versus [all_digits]/[parse_dec_u64], and
    [declares_chunked] versus [te_has_chunked]. *)
From Coq Require Import Lia ZArith.
From Hoot Require Import Base Chunk Body.
From Hoot.proofs Require Import BytesLemmas C06_spec.
Open Scope N_scope.

(** ** Content-Length *)

Lemma is_digit_DIGIT b : is_digit b = true <-> is_DIGIT b.
Proof.
  unfold is_digit, is_DIGIT. rewrite Bool.andb_true_iff, !N.leb_le. tauto.
Qed.

Lemma all_digits_Forall v : all_digits v = true <-> Forall is_DIGIT v.
Proof.
  unfold all_digits. rewrite forallb_forall, Forall_forall.
  split; intros H x Hx; apply is_digit_DIGIT; apply H; exact Hx.
Qed.

Definition dstep (acc b : N) : N := acc * 10 + (b - 48).

Lemma dstep_mono s : forall acc, acc <= fold_left dstep s acc.
Proof.
  induction s as [|b s IH]; intros acc; cbn [fold_left]; [lia|].
  specialize (IH (dstep acc b)). unfold dstep in *. lia.
Qed.

Lemma parse_digits_dec s : forall acc,
  acc < U64_LIMIT -> Forall is_DIGIT s ->
  parse_digits 10 decval s acc =
    if fold_left dstep s acc <? U64_LIMIT then Some (fold_left dstep s acc) else None.
Proof.
  induction s as [|b s IH]; intros acc Hacc Hd; cbn [parse_digits fold_left].
  - destruct (N.ltb_spec acc U64_LIMIT); [reflexivity|lia].
  - inversion Hd as [|? ? Hb Hs]; subst.
    unfold decval. rewrite (proj2 (is_digit_DIGIT b) Hb). cbv zeta.
    change (acc * 10 + (b - 48)) with (dstep acc b).
    destruct (N.ltb_spec (dstep acc b) U64_LIMIT) as [Hlt|Hge].
    + apply IH; assumption.
    + pose proof (dstep_mono s (dstep acc b)) as Hm.
      destruct (N.ltb_spec (fold_left dstep s (dstep acc b)) U64_LIMIT); [lia|reflexivity].
Qed.

Lemma dec_value_fold v : dec_value v = fold_left dstep v 0.
Proof. reflexivity. Qed.

Lemma two_64_limit : TWO_64 = U64_LIMIT.
Proof. reflexivity. Qed.

Lemma two_64_pow : TWO_64 = 2 ^ 64.
Proof. reflexivity. Qed.

(** The lemma DESIGN section 7 promised: on digit strings [u64::from_str] is [dec_value] with the
    emptiness and the range check. *)
Lemma parse_dec_u64_spec v n :
  all_digits v = true ->
  (parse_dec_u64 v = Some n <-> v <> [] /\ dec_value v = n /\ n < TWO_64).
Proof.
  intros Hd. apply all_digits_Forall in Hd. rewrite two_64_limit.
  destruct v as [|b t].
  - cbn [parse_dec_u64]. split; [discriminate|]. intros [H _]. congruence.
  - unfold parse_dec_u64. rewrite parse_digits_dec by (unfold U64_LIMIT; try lia; assumption).
    rewrite <- dec_value_fold.
    destruct (N.ltb_spec (dec_value (b :: t)) U64_LIMIT) as [Hlt|Hge].
    + split.
      * intros H. inversion H; subst. split; [discriminate|]. split; [reflexivity|assumption].
      * intros (_ & <- & _). reflexivity.
    + split; [discriminate|]. intros (_ & <- & H). lia.
Qed.

(** The model's check of a Content-Length value ([header_defined], first part). *)
Definition cl_check (v : bytes) : res (option N) :=
  if negb (all_digits v) then Err BadContentLengthHeader else
  match parse_dec_u64 v with
  | None => Err BadContentLengthHeader
  | Some n => Ok (Some n)
  end.

Lemma cl_check_spec v :
  (cl_numeric v /\ cl_check v = Ok (Some (dec_value v))) \/
  (~ cl_numeric v /\ cl_check v = Err BadContentLengthHeader).
Proof.
  unfold cl_check. destruct (all_digits v) eqn:Hd; cbn [negb].
  - destruct (parse_dec_u64 v) as [n|] eqn:Hp.
    + apply (parse_dec_u64_spec v n Hd) in Hp. destruct Hp as (Hne & <- & Hlt).
      left. split; [|reflexivity]. split; [exact Hne|]. split; [apply all_digits_Forall; exact Hd|exact Hlt].
    + right. split; [|reflexivity]. intros (Hne & _ & Hlt).
      assert (parse_dec_u64 v = Some (dec_value v)) as E by (apply parse_dec_u64_spec; auto).
      congruence.
  - right. split; [|reflexivity]. intros (_ & HF & _). apply all_digits_Forall in HF. congruence.
Qed.

Lemma cl_numeric_dec v : cl_numeric v \/ ~ cl_numeric v.
Proof. destruct (cl_check_spec v) as [[H _]|[H _]]; auto. Qed.

Lemma cl_check_ok v : cl_numeric v -> cl_check v = Ok (Some (dec_value v)).
Proof. intros H. destruct (cl_check_spec v) as [[_ E]|[Hn _]]; [exact E|contradiction]. Qed.

Lemma cl_check_bad v : ~ cl_numeric v -> cl_check v = Err BadContentLengthHeader.
Proof. intros H. destruct (cl_check_spec v) as [[Hn _]|[_ E]]; [contradiction|exact E]. Qed.

(** ** Splitting on a separator *)

Fixpoint pieces (sep : N) (s : bytes) : list bytes :=
  match s with
  | [] => [[]]
  | b :: t =>
      if b =? sep then [] :: pieces sep t
      else match pieces sep t with
           | h :: r => (b :: h) :: r
           | [] => [[b]]
           end
  end.

Lemma pieces_nonempty sep s : pieces sep s <> [].
Proof.
  destruct s as [|b t]; cbn [pieces]; [discriminate|].
  destruct (b =? sep); [discriminate|]. destruct (pieces sep t); discriminate.
Qed.

Lemma split_on_pieces sep s : forall cur,
  split_on sep s cur =
    match pieces sep s with h :: r => (rev cur ++ h) :: r | [] => [rev cur] end.
Proof.
  induction s as [|b t IH]; intros cur; cbn [split_on pieces].
  - rewrite app_nil_r. reflexivity.
  - destruct (b =? sep).
    + rewrite app_nil_r. rewrite IH. cbn [rev app].
      destruct (pieces sep t) as [|h r] eqn:E; [exfalso; exact (pieces_nonempty sep t E)|reflexivity].
    + rewrite IH. destruct (pieces sep t) as [|h r] eqn:E; [exfalso; exact (pieces_nonempty sep t E)|].
      cbn [rev]. rewrite <- app_assoc. reflexivity.
Qed.

Lemma split_on_nil_pieces sep s : split_on sep s [] = pieces sep s.
Proof.
  rewrite split_on_pieces. destruct (pieces sep s) as [|h r] eqn:E; [exfalso; exact (pieces_nonempty sep s E)|].
  reflexivity.
Qed.

Lemma pieces_single sep e : ~ In sep e -> pieces sep e = [e].
Proof.
  induction e as [|b t IH]; intros Hn; cbn [pieces]; [reflexivity|].
  destruct (N.eqb_spec b sep) as [->|_]; [exfalso; apply Hn; left; reflexivity|].
  rewrite IH by (intros H; apply Hn; right; exact H). reflexivity.
Qed.

Lemma pieces_app sep a q : pieces sep (a ++ sep :: q) = pieces sep a ++ pieces sep q.
Proof.
  induction a as [|b a IH]; cbn [app pieces].
  - rewrite N.eqb_refl. reflexivity.
  - destruct (b =? sep).
    + rewrite IH. reflexivity.
    + rewrite IH. destruct (pieces sep a) as [|h r] eqn:E; [exfalso; exact (pieces_nonempty sep a E)|].
      reflexivity.
Qed.

(** Every piece, with where it sits. *)
Definition piece_at (sep : N) (s e : bytes) : Prop :=
  ~ In sep e /\
  exists pre post, s = pre ++ e ++ post /\
                   (pre = [] \/ exists p, pre = p ++ [sep]) /\
                   (post = [] \/ exists q, post = sep :: q).

Lemma pieces_shape sep s :
  match pieces sep s with
  | [] => False
  | h :: r =>
      ~ In sep h /\ (s = h \/ exists q, s = h ++ sep :: q) /\
      forall e, In e r ->
        ~ In sep e /\ exists p post, s = (p ++ [sep]) ++ e ++ post /\ (post = [] \/ exists q, post = sep :: q)
  end.
Proof.
  induction s as [|b t IH]; cbn [pieces].
  - split; [intros []|]. split; [left; reflexivity|]. intros e [].
  - destruct (pieces sep t) as [|h r] eqn:E; [contradiction|].
    destruct IH as (Hh & Ht & Hr).
    destruct (N.eqb_spec b sep) as [->|Hb].
    + split; [intros []|]. split; [right; exists t; reflexivity|].
      intros e [<-|He].
      * split; [exact Hh|]. exists []. destruct Ht as [->|(q & ->)].
        -- exists []. split; [rewrite app_nil_r; reflexivity|left; reflexivity].
        -- exists (sep :: q). split; [reflexivity|right; exists q; reflexivity].
      * destruct (Hr e He) as (Hn & p & post & -> & Hpost). split; [exact Hn|].
        exists (sep :: p), post. split; [reflexivity|exact Hpost].
    + split; [intros [H|H]; [congruence|contradiction]|].
      split.
      * destruct Ht as [->|(q & ->)]; [left; reflexivity|right; exists q; reflexivity].
      * intros e He. destruct (Hr e He) as (Hn & p & post & -> & Hpost). split; [exact Hn|].
        exists (b :: p), post. split; [reflexivity|exact Hpost].
Qed.

Lemma in_pieces_iff sep s e : In e (pieces sep s) <-> piece_at sep s e.
Proof.
  split.
  - intros Hin. pose proof (pieces_shape sep s) as Hs.
    destruct (pieces sep s) as [|h r]; [contradiction|]. destruct Hs as (Hh & Ht & Hr).
    destruct Hin as [<-|He].
    + split; [exact Hh|]. exists []. destruct Ht as [->|(q & ->)].
      * exists []. split; [rewrite app_nil_r; reflexivity|]. split; left; reflexivity.
      * exists (sep :: q). split; [reflexivity|]. split; [left; reflexivity|right; exists q; reflexivity].
    + destruct (Hr e He) as (Hn & p & post & -> & Hpost). split; [exact Hn|].
      exists (p ++ [sep]), post. split; [reflexivity|]. split; [right; exists p; reflexivity|exact Hpost].
  - intros (Hn & pre & post & -> & Hpre & Hpost).
    assert (Htail : In e (pieces sep (e ++ post))).
    { destruct Hpost as [->|(q & ->)].
      - rewrite app_nil_r, pieces_single by exact Hn. left; reflexivity.
      - rewrite pieces_app, pieces_single by exact Hn. left; reflexivity. }
    destruct Hpre as [->|(p & ->)]; [exact Htail|].
    rewrite <- app_assoc. cbn [app]. rewrite pieces_app. apply in_or_app. right. exact Htail.
Qed.

(** ** trim *)

Lemma trim_start_split e :
  exists l, e = l ++ trim_start e /\ forallb is_ascii_ws l = true.
Proof.
  induction e as [|b t IH]; cbn [trim_start].
  - exists []. split; reflexivity.
  - destruct (is_ascii_ws b) eqn:Hb.
    + destruct IH as (l & Hl & Hw). exists (b :: l). split; [cbn [app]; congruence|].
      cbn [forallb]. rewrite Hb, Hw. reflexivity.
    + exists []. split; reflexivity.
Qed.

Lemma forallb_rev_true {A} (p : A -> bool) l : forallb p l = true -> forallb p (rev l) = true.
Proof.
  rewrite !forallb_forall. intros H x Hx. apply H. apply in_rev. exact Hx.
Qed.

Lemma trim_split e :
  exists l r, e = l ++ trim e ++ r /\ forallb is_ascii_ws l = true /\ forallb is_ascii_ws r = true.
Proof.
  destruct (trim_start_split e) as (l & Hl & Hwl).
  destruct (trim_start_split (rev (trim_start e))) as (l' & Hl' & Hwl').
  exists l, (rev l'). split; [|split; [exact Hwl|apply forallb_rev_true; exact Hwl']].
  unfold trim, trim_end. rewrite Hl at 1. f_equal.
  rewrite <- (rev_involutive (trim_start e)) at 1. rewrite Hl' at 1. rewrite rev_app_distr. reflexivity.
Qed.

Lemma trim_start_all_ws w x :
  forallb is_ascii_ws w = true -> trim_start (w ++ x) = trim_start x.
Proof.
  induction w as [|b w IH]; cbn [app forallb trim_start]; [reflexivity|].
  intros H. apply andb_prop in H. destruct H as [Hb Hw]. rewrite Hb. apply IH. exact Hw.
Qed.

Lemma trim_core l core r a z mid :
  core = a :: mid ++ [z] -> is_ascii_ws a = false -> is_ascii_ws z = false ->
  forallb is_ascii_ws l = true -> forallb is_ascii_ws r = true ->
  trim (l ++ core ++ r) = core.
Proof.
  intros Hc Ha Hz Hl Hr. unfold trim, trim_end.
  rewrite trim_start_all_ws by exact Hl.
  assert (E1 : trim_start (core ++ r) = core ++ r).
  { rewrite Hc. cbn [app trim_start]. rewrite Ha. reflexivity. }
  rewrite E1. rewrite rev_app_distr.
  rewrite trim_start_all_ws by (apply forallb_rev_true; exact Hr).
  assert (E2 : trim_start (rev core) = rev core).
  { rewrite Hc. cbn [rev]. rewrite rev_app_distr. cbn [rev app trim_start]. rewrite Hz. reflexivity. }
  rewrite E2. apply rev_involutive.
Qed.

(** ** Case-insensitive comparison *)

Definition is_lower_letter (y : N) : Prop := 97 <= y /\ y <= 122.

Lemma cmp_byte_ci x y :
  is_lower_letter y -> ((x <? 128) && (to_lower x =? y) = true <-> ci_byte x y).
Proof.
  intros [Hy1 Hy2]. unfold ci_byte, to_lower, is_upper.
  rewrite Bool.andb_true_iff, N.ltb_lt, N.eqb_eq.
  destruct (N.leb_spec 65 x); destruct (N.leb_spec x 90); cbn [andb]; lia.
Qed.

Lemma cmp_lower_ci a : forall l,
  Forall is_lower_letter l -> (cmp_lower a l = true <-> ci_equal a l).
Proof.
  unfold ci_equal. induction a as [|x a IH]; intros l Hl; destruct l as [|y l]; cbn [cmp_lower].
  - split; [constructor|reflexivity].
  - split; [discriminate|]. intros H; inversion H.
  - split; [discriminate|]. intros H; inversion H.
  - inversion Hl as [|? ? Hy Hl']; subst.
    rewrite Bool.andb_true_iff, (cmp_byte_ci x y Hy), (IH l Hl'). split.
    + intros [H1 H2]. constructor; assumption.
    + intros H. inversion H; subst. split; assumption.
Qed.

Lemma chunked_letters : Forall is_lower_letter (s2b "chunked").
Proof. repeat constructor; vm_compute; discriminate. Qed.

(** A string equal to "chunked" up to case: seven bytes, the first and the last not white space. *)
Lemma ci_chunked_shape core :
  ci_equal core (s2b "chunked") ->
  exists a mid z, core = a :: mid ++ [z] /\ is_ascii_ws a = false /\ is_ascii_ws z = false.
Proof.
  unfold ci_equal. intros H.
  inversion H as [|a ? r1 ? Ha H1]; subst. inversion H1 as [|b ? r2 ? _ H2]; subst.
  inversion H2 as [|c ? r3 ? _ H3]; subst. inversion H3 as [|d ? r4 ? _ H4]; subst.
  inversion H4 as [|e ? r5 ? _ H5]; subst. inversion H5 as [|f ? r6 ? _ H6]; subst.
  inversion H6 as [|z ? r7 ? Hz H7]; subst. inversion H7; subst.
  exists a, [b; c; d; e; f], z. split; [reflexivity|].
  unfold ci_byte in Ha, Hz. change (N_of_ascii "c") with 99 in Ha. change (N_of_ascii "d") with 100 in Hz.
  assert (Ea : a = 99 \/ a = 67) by lia. assert (Ez : z = 100 \/ z = 68) by lia.
  split; [destruct Ea as [->| ->]; reflexivity|destruct Ez as [->| ->]; reflexivity].
Qed.

Lemma ows_is_ws l : Forall is_OWS l -> forallb is_ascii_ws l = true.
Proof.
  intros H. apply forallb_forall. rewrite Forall_forall in H. intros x Hx.
  destruct (H x Hx) as [->| ->]; reflexivity.
Qed.

Lemma ws_plain_ows l : forallb is_ascii_ws l = true -> plain l -> Forall is_OWS l.
Proof.
  unfold plain. rewrite forallb_forall, !Forall_forall. intros Hw Hp x Hx.
  specialize (Hw x Hx). specialize (Hp x Hx). unfold is_ascii_ws in Hw. unfold is_OWS.
  apply Bool.orb_true_iff in Hw. destruct Hw as [Hw|Hw].
  - apply Bool.andb_true_iff in Hw. destruct Hw as [H1 H2]. apply N.leb_le in H1, H2. lia.
  - apply N.eqb_eq in Hw. lia.
Qed.

Lemma plain_app a b : plain (a ++ b) <-> plain a /\ plain b.
Proof. unfold plain. apply Forall_app. Qed.

(** ** "declares chunked" *)

Lemma chunked_element_cmp e :
  is_chunked_element e -> cmp_lower (trim e) (s2b "chunked") = true.
Proof.
  intros (l & core & r & -> & Hl & Hr & Hc).
  destruct (ci_chunked_shape core Hc) as (a & mid & z & Hshape & Ha & Hz).
  rewrite (trim_core l core r a z mid Hshape Ha Hz (ows_is_ws l Hl) (ows_is_ws r Hr)).
  apply cmp_lower_ci; [exact chunked_letters|exact Hc].
Qed.

Lemma cmp_chunked_element e :
  plain e -> cmp_lower (trim e) (s2b "chunked") = true -> is_chunked_element e.
Proof.
  intros Hp Hc. destruct (trim_split e) as (l & r & He & Hl & Hr).
  rewrite He in Hp. apply plain_app in Hp. destruct Hp as [Hpl Hp]. apply plain_app in Hp. destruct Hp as [_ Hpr].
  exists l, (trim e), r. split; [exact He|]. split; [apply ws_plain_ows; assumption|].
  split; [apply ws_plain_ows; assumption|]. apply cmp_lower_ci; [exact chunked_letters|exact Hc].
Qed.

Lemma list_element_pieces v e : list_element v e <-> In e (split_on 44 v []).
Proof. rewrite split_on_nil_pieces, in_pieces_iff. unfold list_element, piece_at, COMMA. reflexivity. Qed.

(** The model's test is the specification's, on every value free of LF, VT, FF, CR (every text value). *)
Theorem te_has_chunked_spec v : plain v -> (te_has_chunked v = true <-> declares_chunked v).
Proof.
  intros Hp. unfold te_has_chunked, declares_chunked. rewrite existsb_exists. split.
  - intros (e & Hin & Hc). exists e. split; [apply list_element_pieces; exact Hin|].
    apply cmp_chunked_element; [|exact Hc].
    apply list_element_pieces in Hin. destruct Hin as (_ & pre & post & -> & _).
    apply plain_app in Hp. destruct Hp as [_ Hp]. apply plain_app in Hp. tauto.
  - intros (e & Hle & Hce). exists e. split; [apply list_element_pieces; exact Hle|].
    apply chunked_element_cmp. exact Hce.
Qed.

(** Without the premise only one direction holds (the model also strips LF, VT, FF, CR). *)
Lemma declares_chunked_model v : declares_chunked v -> te_has_chunked v = true.
Proof.
  intros (e & Hle & Hce). unfold te_has_chunked. rewrite existsb_exists.
  exists e. split; [apply list_element_pieces; exact Hle|apply chunked_element_cmp; exact Hce].
Qed.

Lemma text_plain v : is_text v = true -> plain v.
Proof.
  unfold is_text, plain. rewrite forallb_forall, Forall_forall. intros H x Hx [H1 H2].
  specialize (H x Hx). unfold is_visible_ascii in H.
  apply Bool.orb_true_iff in H. destruct H as [H|H].
  - apply Bool.andb_true_iff in H. destruct H as [H _]. apply N.leb_le in H. lia.
  - apply N.eqb_eq in H. lia.
Qed.

Lemma declares_chunked_dec v : plain v -> declares_chunked v \/ ~ declares_chunked v.
Proof.
  intros Hp. destruct (te_has_chunked v) eqn:E.
  - left. apply te_has_chunked_spec; assumption.
  - right. intros H. apply (te_has_chunked_spec v Hp) in H. congruence.
Qed.
