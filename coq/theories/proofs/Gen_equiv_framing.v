(** (the body-framing decision table of src/body.rs) The function [BodyReader::for_response], translated from the Rust
    source by tools/rs2coq.py on every run (theories/Gen.v; what it obtains from header parsing -- the framing the headers
    define, and whether a content-length / transfer-encoding header is present -- is a parameter of the translation), is the
    decision the hand-written model makes, for ALL methods, status codes and header values. *)
From Coq Require Import NArith ZArith Bool List Btauto Lia ZifyBool ZifyN.
From Hoot Require Import Base Body Url Request Gen.
Open Scope N_scope.

Definition present (o : option bytes) : bool := match o with Some _ => true | None => false end.

Lemma gen_for_response_eq http10 m st cl te :
  for_response http10 (method_eqb m HEAD) (method_eqb m CONNECT) st cl te =
  match header_defined http10 cl te with
  | Ok hd => Ok (gen_for_response http10 m st hd (present cl) (present te))
  | Err e => Err e
  | Panic s => Panic s
  end.
Proof.
  unfold for_response, gen_for_response, bind.
  destruct (header_defined http10 cl te) as [hd|e|s]; [|reflexivity|reflexivity].
  cbv zeta.
  assert (Hp : (match cl, te with None, None => false | _, _ => true end) = (present cl || present te)%bool)
    by (destruct cl, te; reflexivity).
  rewrite Hp.
  first
    [ match goal with
      | |- (if ?a then _ else _) = Ok (if ?b then _ else _) =>
          assert (Hab : a = b) by btauto; rewrite Hab; destruct b; reflexivity
      end
    | (* shape-independent: every method, every comparison on the status, both presence flags *)
      destruct m; cbn [method_eqb orb andb negb];
      repeat (try reflexivity; try lia;
              match goal with
              | |- context [if ?c then _ else _] => destruct c eqn:?
              | |- context [present ?x] => destruct (present x) eqn:?
              end);
      try reflexivity; lia ].
Qed.
