(** Part of Gen_equiv_frag (see there), the fragments C07 exports; split so that a change of one fragment disturbs only the property it belongs to. *)
From Coq Require Import NArith ZArith Bool List Lia ZifyBool ZifyN.
From Hoot Require Import Base Chunk Body Url Request Call Gen.
Open Scope N_scope.

Ltac frag := intros; cbv beta delta [gen_sized_write_n gen_chunk_to_write gen_read_limit_n gen_read_unlimit_n gen_chunk_read_n
                                      gen_size_len_end gen_write_overshoot gen_write_after_finish gen_direct_overshoot];
             repeat match goal with |- context [if ?c then _ else _] => destruct c eqn:? end; try reflexivity; lia.

Lemma gen_chunk_read_n_spec s d l : gen_chunk_read_n s d l = N.min (N.min s d) l.             Proof. frag. Qed.

Lemma gen_size_len_end_spec b m i :
  gen_size_len_end b m i = N.min (if b then m else SANITY_CHECK + 1) i.
Proof. unfold SANITY_CHECK. frag. Qed.

Lemma read_data_gen lft src room :
  exists r, read_data lft src room = Ok r /\
            sr_in r = gen_chunk_read_n (len src) room lft /\
            sr_out r = take (gen_chunk_read_n (len src) room lft) src /\
            sr_st r = (if lft - gen_chunk_read_n (len src) room lft =? 0 then DCrLf
                       else DChunk (lft - gen_chunk_read_n (len src) room lft)).
Proof. unfold read_data. rewrite ?gen_chunk_read_n_spec. eexists. split; [reflexivity|]. cbn. auto. Qed.

Lemma read_size_gen src i :
  find_crlf src = Some i -> (SANITY_CHECK <? i) = false ->
  let mm := position (fun c => c =? 59) (take META_WINDOW src) in
  let raw := take (gen_size_len_end (match mm with Some _ => true | None => false end)
                                    (match mm with Some m => m | None => 0 end) i) src in
  read_size src =
  if negb (forallb (fun c => c <? 128) raw) then Err ChunkLenNotAscii else
  match parse_hex_usize (trim raw) with
  | None => Err ChunkLenNotANumber
  | Some n => Ok {| sr_st := if n =? 0 then DEnding else DChunk n; sr_in := i + 2; sr_out := []; sr_more := true |}
  end.
Proof.
  intros Hf Hs. cbv zeta. unfold read_size. rewrite Hf, Hs. rewrite ?gen_size_len_end_spec.
  destruct (position (fun c => c =? 59) (take META_WINDOW src)); reflexivity.
Qed.
