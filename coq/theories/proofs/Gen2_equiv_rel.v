(** Shared part of Gen2_equiv_writer.v / Gen2_equiv_reader.v: tactics, relations, side conditions. *)
(** (src/body.rs, whole functions) The functions translated from the Rust sources by tools/rs2coq2.py (theories/Gen2.v,
    regenerated on every run) agree with the hand-written model (theories/Body.v): the queries of BodyReader and BodyWriter,
    BodyWriter::write / finish / write_chunk / consume_direct_write and the non-chunked half of BodyReader::read.
    (The chunked reader is in Gen2_equiv_reader_chunked.v.)

    Proof style: unfold both sides, normalise lengths with the len/take/drop lemmas, split every conditional of both sides
    (contradictory combinations are pruned by linear arithmetic as soon as they arise) and close the leaves by
    reflexivity / lia.  Nothing mentions a sub-term of the generated code literally, so an arithmetically equivalent
    rewrite of the Rust function is accepted.

    One deviation from "for all arguments": the Rust code converts the remaining declared length (a u64) to a buffer length with
    [left.min(usize::MAX as u64) as usize]; the model does not cap it.  The two agree whenever one of: the declared length,
    the input length, the output room is below 2^64 (all three are, for the Rust types); see [sized_fits] / [limit_fits]. *)
From Coq Require Import NArith ZArith Bool List Lia ZifyBool ZifyN.
From Hoot Require Import Base Chunk Body GenLib Gen Gen2.
From Hoot.proofs Require Import BytesLemmas.
Open Scope N_scope.

(* ------------------------------------------------------------------ tactics *)

(** lengths of literal lists and of take/drop/app as arithmetic *)
Ltac norm_len :=
  unfold TERMINATOR, CRLF, DEFAULT_CHUNK_SIZE in *;
  rewrite ?len_app, ?len_take, ?len_drop, ?len_cons, ?len_nil in *.

Ltac arith := solve [ lia | norm_len; lia | cbn [len] in *; lia | norm_len; cbn [len] in *; lia ].

(** split one conditional (of either side); a contradictory combination is closed at once *)
Ltac split_if :=
  match goal with
  | |- context [if ?c then _ else _] => destruct c eqn:?; try (exfalso; arith)
  end.

Lemma take_eq {A} n m (l : list A) : n = m -> take n l = take m l.
Proof. intros ->. reflexivity. Qed.
Lemma drop_eq {A} n m (l : list A) : n = m -> drop n l = drop m l.
Proof. intros ->. reflexivity. Qed.

(** leaves: equalities between numbers, between [take]s / [drop]s at provably equal counts, between lists built from them *)
Ltac list_eq :=
  rewrite ?app_nil_r, <- ?app_assoc;
  repeat match goal with
         | |- ?x = ?x => reflexivity
         | |- ?a ++ _ = ?a ++ _ => apply f_equal
         | |- _ :: _ = _ :: _ => apply f_equal2; [reflexivity || arith|]
         | |- take _ ?l = take _ ?l => apply take_eq; arith
         | |- drop _ ?l = drop _ ?l => apply drop_eq; arith
         end.
Ltac leaf :=
  cbn [w_mode w_ended andb orb negb fst snd];
  repeat match goal with |- _ /\ _ => split end;
  try reflexivity; try exact I; try arith;
  try (apply f_equal; arith);
  try (list_eq; fail).

(* ------------------------------------------------------------------ relations *)

Definition U64_LIMIT : N := 18446744073709551616.

(** Generated writer call versus the model's: same new mode and ended flag, same count, the model's bytes are appended to what
    had been written and taken off the available space (and they fit); a panic corresponds to a panic; no errors. *)
Definition wr_rel (avail : N) (out0 : bytes) (g : res (smode * bool * N * bytes * N)) (m : res (writer * N * bytes)) : Prop :=
  match g, m with
  | Ok (m', e', avail', out', used), Ok (w', used2, bs) =>
      m' = w_mode w' /\ e' = w_ended w' /\ used = used2 /\ out' = out0 ++ bs /\ avail' = avail - len bs /\ len bs <= avail
  | Panic _, Panic _ => True
  | _, _ => False
  end.

Definition dw_rel (g : res (smode * bool * unit)) (m : res writer) : Prop :=
  match g, m with
  | Ok (m', e', _), Ok w' => m' = w_mode w' /\ e' = w_ended w'
  | Err e1, Err e2 => e1 = e2
  | Panic _, Panic _ => True
  | _, _ => False
  end.

(** Generated reader call versus the model's: same new reader, same counts, the destination buffer holds the model's output
    followed by its old contents. *)
Definition rd_rel (dst : bytes) (g : res (reader * bytes * (N * N))) (m : res (reader * N * bytes)) : Prop :=
  match g, m with
  | Ok (r1, dst1, (i1, o1)), Ok (r2, i2, out2) => r1 = r2 /\ i1 = i2 /\ o1 = len out2 /\ dst1 = out2 ++ drop (len out2) dst
  | Err e1, Err e2 => e1 = e2
  | Panic _, Panic _ => True
  | _, _ => False
  end.

(** The u64 -> usize conversion is the identity on the value that matters (see the header). *)
Definition sized_fits (m : smode) (avail : N) (input : bytes) : Prop :=
  match m with
  | SSized l => l < U64_LIMIT \/ avail < U64_LIMIT \/ len input < U64_LIMIT
  | _ => True
  end.

Definition limit_fits (r : reader) (src dst : bytes) : Prop :=
  match r with
  | RLength l => l < U64_LIMIT \/ len src < U64_LIMIT \/ len dst < U64_LIMIT
  | _ => True
  end.

Definition smode_u64 (m : smode) : Prop := match m with SSized l => l < U64_LIMIT | _ => True end.
Definition reader_u64 (r : reader) : Prop := match r with RLength l => l < U64_LIMIT | _ => True end.

Lemma smode_u64_fits m avail input : smode_u64 m -> sized_fits m avail input.
Proof. destruct m; cbn; auto. Qed.
Lemma reader_u64_fits r src dst : reader_u64 r -> limit_fits r src dst.
Proof. destruct r; cbn; auto. Qed.
Lemma huge_bytes : exists b : bytes, len b = U64_LIMIT.
Proof. exists (repeat 0 (N.to_nat U64_LIMIT)). rewrite len_length, repeat_length, N2Nat.id. reflexivity. Qed.

Lemma rd_rel_forward dst g m :
  rd_rel dst g m -> rd_rel dst (bind g (fun '(self, buf, part) => Ok (self, buf, part))) m.
Proof. destruct g as [[[r b] p]|?|?]; cbn [bind]; exact (fun H => H). Qed.

Print Assumptions take_eq.
Print Assumptions rd_rel_forward.
Print Assumptions drop_eq.
Print Assumptions smode_u64_fits.
Print Assumptions reader_u64_fits.
Print Assumptions huge_bytes.
