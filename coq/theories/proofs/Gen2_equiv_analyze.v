(** (request analysis, src/client/amended.rs [AmendedRequest::analyze]) The function translated from the Rust source by
    tools/rs2coq2.py (theories/Gen2.v [gen_analyze], regenerated on every run; the two header accessors of the Rust struct
    are function arguments) equals the hand-written model (theories/Request.v [analyze]) for ALL requests, wanted body
    modes and values of the skip flag: same body mode, same two flags, same error (the order of the checks is the same
    on both sides, so even the error variant agrees on inputs which violate several checks; neither side panics).

    The proof is written to survive harmless rewrites of the Rust code.  Both sides are unfolded; the generated
    sub-functions are rewritten to the model's; "some transfer-encoding value is chunked" is recognised on both sides by
    the comparison function it mentions and folded to one boolean; the header lists are generalised and split in the
    three shapes (none, one, several values); counts become arithmetic over an unknown tail length; what is left is a
    tree of [if]/[match] on both sides which is walked by splitting on the leftmost atom of an innermost scrutinee. *)
From Coq Require Import NArith ZArith Bool List Btauto Lia ZifyBool ZifyN.
From Hoot Require Import Base Chunk Body Url Request GenLib Gen Gen2.
From Hoot.proofs Require Import BytesLemmas Gen_equiv_ext Gen2_equiv_cmp.
Open Scope N_scope.

(** ** Statement vocabulary *)

(** [HeaderMap::get] is the first value of [HeaderMap::get_all]. *)
Definition first_of (l : list bytes) : option bytes := match l with h :: _ => Some h | [] => None end.

(** The three components of [RequestInfo] the generated function returns. *)
Definition lift_info (r : res request_info) : res (writer * bool * bool) :=
  match r with
  | Ok ri => Ok (ri_mode ri, ri_host ri, ri_body_header ri)
  | Err e => Err e
  | Panic s => Panic s
  end.

(** The model's [analyze] with the header lookup abstracted ([ga k] for [get_all (am_headers a) k]). *)
Definition analyze_with (v : version) (m : method) (ga : bytes -> list bytes) (wanted : writer) (skip_check : bool)
  : res request_info :=
  do _ <- verify_version m v;
  if 1 <? len (ga (s2b "host")) then Err TooManyHostHeaders else
  if 1 <? len (ga (s2b "content-length")) then Err TooManyContentLengthHeaders else
  do req_host <-
     match ga (s2b "host") with
     | h :: _ => if is_text h then Ok true else Err BadHostHeader
     | [] => Ok false
     end;
  do content_length <-
     match ga (s2b "content-length") with
     | h :: _ =>
         if is_text h && all_digits h then
           match parse_dec_u64 h with Some n => Ok (Some n) | None => Err BadContentLengthHeader end
         else Err BadContentLengthHeader
     | [] => Ok None
     end;
  let has_chunked :=
      existsb (fun v => is_text v && cmp_lower v (s2b "chunked")) (ga (s2b "transfer-encoding")) in
  let '(mode, body_header) :=
      if has_chunked then (new_chunked, true)
      else match content_length with
           | Some n => (new_sized n, true)
           | None => (wanted, false)
           end in
  do _ <-
     (if skip_check then Ok tt
      else
        let need := need_request_body m in
        let has := has_body mode in
        if negb need && has then Err MethodForbidsBody
        else if need && negb has then Err MethodRequiresBody
        else Ok tt);
  Ok {| ri_mode := mode; ri_host := req_host; ri_body_header := body_header |}.

Lemma analyze_with_eq : forall a wanted skip,
  analyze a wanted skip = analyze_with (am_version a) (am_method a) (get_all (am_headers a)) wanted skip.
Proof. reflexivity. Qed.

(** ** Generic tactics *)

Ltac leaf := first [ reflexivity | discriminate | congruence | exfalso; lia | exfalso; congruence ].

(** Decided boolean connectives, and the leftmost atom of a boolean combination (more connectives than the framing
    proofs need: a rewrite may fold two tests into one comparison of booleans). *)
Ltac bsimpl := cbn [andb orb negb xorb implb Bool.eqb]; cbv beta iota.

Ltac atom_of' x :=
  lazymatch x with
  | negb ?y => atom_of' y
  | andb ?y _ => atom_of' y
  | orb ?y _ => atom_of' y
  | xorb ?y _ => atom_of' y
  | implb ?y _ => atom_of' y
  | Bool.eqb ?y _ => atom_of' y
  | _ => x
  end.

(** One comparison of numbers, decided by arithmetic when the context decides it. *)
Ltac split_cmp :=
  match goal with
  | |- context [N.eqb ?a ?b] => destruct (N.eqb_spec a b)
  | |- context [N.leb ?a ?b] => destruct (N.leb_spec a b)
  | |- context [N.ltb ?a ?b] => destruct (N.ltb_spec a b)
  end; try (exfalso; lia).

(** One scrutinee of either side which does not itself contain a [match] (innermost first), split on its leftmost
    atom; so [if negb c then a else b] and [if c then b else a], or [if a && negb b ..] and [if b || negb a ..], meet. *)
Ltac split_scrutinee :=
  match goal with
  | |- context [match ?x with _ => _ end] =>
      lazymatch x with
      | context [match _ with _ => _ end] => fail
      | _ => let a := atom_of' x in destruct a eqn:?
      end
  end.

(** ** 0. "some transfer-encoding value is chunked" *)

Definition te_chunked (l : list bytes) : bool :=
  existsb (fun v => is_text v && cmp_lower v (s2b "chunked")) l.

(** Whatever way the code spells it: an [existsb] of a predicate which is the comparison on text values, over the
    values, ... *)
Lemma te_chunked_plain (f : bytes -> bool) l :
  (forall v, f v = is_text v && cmp_lower v (s2b "chunked")) -> existsb f l = te_chunked l.
Proof. intros H. unfold te_chunked. apply existsb_ext_all. exact H. Qed.

(** ... or over the values which are text ([filter_map] of [to_str]). *)
Lemma te_chunked_filter_map (f : bytes -> bool) (g : bytes -> option bytes) l :
  (forall v, g v = hv_to_str v) ->
  (forall v, f v = cmp_lower v (s2b "chunked")) ->
  existsb f (opt_filter_map g l) = te_chunked l.
Proof.
  intros Hg Hf. unfold te_chunked.
  induction l as [|x t IH]; [reflexivity|].
  cbn [opt_filter_map existsb]. rewrite Hg. unfold hv_to_str.
  destruct (is_text x); cbn [existsb andb orb]; rewrite IH; [rewrite Hf|]; reflexivity.
Qed.

(** ... or "not all values are not chunked". *)
Lemma forallb_as_existsb {A} (f : A -> bool) l : forallb f l = negb (existsb (fun v => negb (f v)) l).
Proof.
  induction l as [|x t IH]; [reflexivity|]. cbn [forallb existsb]. rewrite IH.
  destruct (f x); reflexivity.
Qed.

Ltac mentions_cmp f :=
  lazymatch f with
  | context [gen_compare_lowercase_ascii] => idtac
  | context [cmp_lower] => idtac
  end.

Ltac te_side :=
  intros; cbv beta; unfold hv_to_str;
  repeat (bsimpl; rewrite ?gen_compare_lowercase_ascii_eq; try reflexivity; split_scrutinee);
  bsimpl; rewrite ?gen_compare_lowercase_ascii_eq;
  first [ reflexivity | btauto ].

Ltac fold_te_chunked :=
  repeat match goal with
         | |- context [forallb ?f ?l] => mentions_cmp f; rewrite (forallb_as_existsb f l)
         end;
  repeat match goal with
         | |- context [existsb ?f (opt_filter_map ?g ?l)] =>
             mentions_cmp f; rewrite (te_chunked_filter_map f g l) by te_side
         | |- context [existsb ?f ?l] =>
             mentions_cmp f; rewrite (te_chunked_plain f l) by te_side
         end.

(** ** 1. Small normalisations *)

(** "all bytes are digits", however the closure is written. *)
Ltac fold_all_digits :=
  repeat match goal with
         | |- context [forallb ?f ?x] => progress change (forallb f x) with (all_digits x)
         end.

(** [has_body] of a constructed writer. *)
Ltac eval_has_body :=
  repeat match goal with
         | |- context [has_body ?w] =>
             let r := eval cbv [has_body new_chunked new_sized new_none w_mode] in (has_body w) in
             lazymatch r with true => idtac | false => idtac end;
             change (has_body w) with r
         end.

(** Lengths of lists of known shape, over an unknown tail length. *)
Ltac len_shapes :=
  rewrite ?len_cons, ?len_nil;
  repeat match goal with
         | |- context [@len ?A ?t] => is_var t; let k := fresh "k" in generalize (@len A t); intros k
         end.

(** Split every header list of the goal into: no value, one value, several values. *)
Ltac split_lists ga :=
  repeat match goal with
         | |- context [ga ?k] =>
             let l := fresh "l" in
             generalize (ga k); intros l;
             destruct l as [|? [|? ?]]
         end.

(** Walk the decision trees of both sides. *)
Ltac walk :=
  repeat (bsimpl; fold_all_digits; eval_has_body;
          try leaf;
          first [ split_cmp | split_scrutinee ]);
  leaf.

(** ** 2. analyze *)

Lemma gen_analyze_with_eq : forall v m (ga : bytes -> list bytes) wanted skip,
  gen_analyze v m ga (fun n => first_of (ga n)) wanted skip = lift_info (analyze_with v m ga wanted skip).
Proof.
  intros v m ga wanted skip.
  unfold gen_analyze, analyze_with, lift_info, bind, first_of, hv_to_str, opt_filter, opt_bind.
  cbv beta zeta.
  rewrite ?gen_verify_version_eq, ?gen_need_request_body_eq.
  destruct (verify_version m v) as [u|e|s]; cbv beta iota; try reflexivity.
  fold_te_chunked.
  repeat match goal with
         | |- context [te_chunked ?l] => let tc := fresh "tc" in generalize (te_chunked l); intros tc
         end.
  repeat match goal with
         | |- context [need_request_body ?x] =>
             let need := fresh "need" in generalize (need_request_body x); intros need
         end.
  split_lists ga; len_shapes; walk.
Qed.

Theorem gen_analyze_eq : forall a wanted skip,
  gen_analyze (am_version a) (am_method a) (get_all (am_headers a))
              (fun n => first_of (get_all (am_headers a) n)) wanted skip
  = lift_info (analyze a wanted skip).
Proof. intros a wanted skip. rewrite analyze_with_eq. apply gen_analyze_with_eq. Qed.

(** The equality is not vacuous: each outcome is reached (both sides evaluated). *)
Definition mk_req (m : method) (hs : list header) : amended :=
  am_new {| rq_method := m; rq_version := V11;
            rq_uri := {| u_scheme := []; u_auth := []; u_pq := [47] |}; rq_headers := hs |}.

Example gen_analyze_nonvacuous :
  let run a w sk := gen_analyze (am_version a) (am_method a) (get_all (am_headers a))
                                (fun n => first_of (get_all (am_headers a) n)) w sk in
  run (mk_req POST [(s2b "host", s2b "a.b"); (s2b "content-length", s2b "12")]) new_none false
    = Ok (new_sized 12, true, true) /\
  run (mk_req POST [(s2b "transfer-encoding", s2b "Chunked"); (s2b "content-length", s2b "12")]) new_none false
    = Ok (new_chunked, false, true) /\
  run (mk_req GET [(s2b "host", s2b "a.b")]) new_none false = Ok (new_none, true, false) /\
  run (mk_req GET [(s2b "content-length", s2b "1")]) new_none false = Err MethodForbidsBody /\
  run (mk_req GET [(s2b "content-length", s2b "1")]) new_none true = Ok (new_sized 1, false, true) /\
  run (mk_req POST []) new_none false = Err MethodRequiresBody /\
  run (mk_req POST [(s2b "host", s2b "a"); (s2b "host", s2b "b"); (s2b "content-length", s2b "x")]) new_none false
    = Err TooManyHostHeaders /\
  run (mk_req POST [(s2b "host", [200]); (s2b "content-length", s2b "x")]) new_none false = Err BadHostHeader /\
  run (mk_req POST [(s2b "content-length", s2b "+1")]) new_none false = Err BadContentLengthHeader /\
  run (mk_req POST [(s2b "content-length", s2b "18446744073709551616")]) new_none false = Err BadContentLengthHeader /\
  run (mk_req PUT [(s2b "content-length", s2b "1"); (s2b "content-length", s2b "1")]) new_none false
    = Err TooManyContentLengthHeaders.
Proof. vm_compute. repeat split. Qed.

Print Assumptions analyze_with_eq.
Print Assumptions te_chunked_plain.
Print Assumptions te_chunked_filter_map.
Print Assumptions forallb_as_existsb.
Print Assumptions gen_analyze_with_eq.
Print Assumptions gen_analyze_eq.
Print Assumptions gen_analyze_nonvacuous.
