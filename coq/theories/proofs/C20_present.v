(** C20: "the partial response parser never reports a field that is not completely present in its input", read
    literally and for ARBITRARY input bytes: for every field it reports, the input contains -- as one contiguous
    block -- a complete field line  name ":" OWS value OWS (CR)LF  with that name (up to case) and that value.

    [field_line] is written with the RFC byte classes of proofs/C05_rfc_bytes.v; the only liberties are the ones the
    code under test takes: a bare LF is accepted as line end, and the value is whatever remains after stripping
    the trailing white space. *)
From Coq Require Import Lia ZArith Permutation.
From Hoot Require Import Base Httparse Parser.
From Hoot.proofs Require Import BytesLemmas C05_stable C05_spec C05_roundtrip C20_proofs C05_hmap C05_rfc_bytes C20_more.
Open Scope N_scope.

(** [l] is a complete field line for the field [hd] = (name, value). *)
Definition field_line (hd : header) (l : bytes) : Prop :=
  exists ws1 ws2 eol,
    l = fst hd ++ [58] ++ ws1 ++ snd hd ++ ws2 ++ eol /\
    fst hd <> [] /\ forallb rfc_tchar (fst hd) = true /\
    forallb rfc_ows_byte ws1 = true /\ forallb rfc_field_content_byte (snd hd) = true /\
    forallb rfc_ows_byte ws2 = true /\ (eol = [13; 10] \/ eol = [10]).

(** ** Every stage parser returns a suffix of its input *)

Definition suffixing {A} (p : bytes -> pres A) : Prop :=
  forall b a r, p b = Done a r -> exists l, b = l ++ r.

Lemma suffixing_pbind {A B} (p : bytes -> pres A) (f : A -> bytes -> pres B) :
  suffixing p -> (forall a, suffixing (f a)) -> suffixing (fun b => pbind (p b) f).
Proof.
  intros Hp Hf b a r H. destruct (p b) as [a' r'| |e] eqn:E; cbn [pbind] in H; try discriminate.
  destruct (Hp _ _ _ E) as [l1 H1]. destruct (Hf a' _ _ _ H) as [l2 H2].
  exists (l1 ++ l2). rewrite <- app_assoc, <- H2. exact H1.
Qed.

Lemma suffixing_ret {A} (a : A) : suffixing (fun r => Done a r).
Proof. intros b a' r H. inversion H; subst. exists []. reflexivity. Qed.

Lemma suffixing_skip_empty_lines : suffixing skip_empty_lines.
Proof.
  assert (H : forall b, (forall a r, skip_empty_lines b = Done a r -> exists l, b = l ++ r) /\
                        (forall c a r, skip_empty_lines (c :: b) = Done a r -> exists l, c :: b = l ++ r)).
  { induction b as [|d t [IH1 IH2]].
    - split; [intros a r H; discriminate|]. intros c a r H. cbn [skip_empty_lines] in H.
      destruct (c =? 13); [discriminate|]. destruct (c =? 10); [discriminate|].
      inversion H; subst. exists []. reflexivity.
    - split; [intros a r H; exact (IH2 d a r H)|]. intros c a r H.
      cbn [skip_empty_lines] in H. fold (skip_empty_lines t) in H.
      destruct (c =? 13).
      + destruct (d =? 10); [|discriminate]. destruct (IH1 a r H) as [l Hl]. exists (c :: d :: l). rewrite Hl. reflexivity.
      + destruct (c =? 10).
        * change (skip_empty_lines (d :: t) = Done a r) in H.
          destruct (IH2 d a r H) as [l Hl]. exists (c :: l). rewrite Hl. reflexivity.
        * inversion H; subst. exists []. reflexivity. }
  intros b. apply (H b).
Qed.

Lemma suffixing_expect_lit e lit : suffixing (expect_lit e lit).
Proof.
  induction lit as [|c lit IH]; intros b a r H; cbn [expect_lit] in H.
  - inversion H; subst. exists []. reflexivity.
  - destruct b as [|y b]; [discriminate|]. destruct (c =? y); [|discriminate].
    destruct (IH b a r H) as [l Hl]. exists (y :: l). rewrite Hl. reflexivity.
Qed.

Lemma suffixing_parse_version : suffixing parse_version.
Proof.
  unfold parse_version. apply (suffixing_pbind (expect_lit EVersion [72; 84; 84; 80; 47; 49; 46])).
  - apply suffixing_expect_lit.
  - intros _ [|d r'] a r H; [discriminate|].
    destruct (d =? 48); [inversion H; subst; exists [d]; reflexivity|].
    destruct (d =? 49); [inversion H; subst; exists [d]; reflexivity|discriminate].
Qed.

Lemma suffixing_expect_byte e c : suffixing (expect_byte e c).
Proof. intros b a r H. apply expect_byte_done in H. exists [c]. exact H. Qed.

Lemma suffixing_digit e : suffixing (digit e).
Proof.
  intros [|y b] a r H; cbn [digit] in H; [discriminate|]. destruct (is_digit y); [|discriminate].
  inversion H; subst. exists [y]. reflexivity.
Qed.

Lemma suffixing_parse_code : suffixing parse_code.
Proof.
  unfold parse_code.
  apply (suffixing_pbind (digit EStatus)); [apply suffixing_digit|intros h].
  apply (suffixing_pbind (digit EStatus)); [apply suffixing_digit|intros t].
  apply (suffixing_pbind (digit EStatus)); [apply suffixing_digit|intros o].
  apply suffixing_ret.
Qed.

Lemma suffixing_parse_reason : suffixing parse_reason.
Proof.
  intros b. induction b as [|c t IH]; intros a r H; cbn [parse_reason] in H; [discriminate|].
  destruct (c =? 13).
  { apply expect_byte_done in H. exists [c; 10]. rewrite H. reflexivity. }
  destruct (c =? 10); [inversion H; subst; exists [c]; reflexivity|].
  destruct (is_reason_byte c); [|discriminate].
  destruct (IH a r H) as [l Hl]. exists (c :: l). rewrite Hl. reflexivity.
Qed.

Lemma suffixing_parse_after_code : suffixing parse_after_code.
Proof.
  intros [|c t] a r H; cbn [parse_after_code] in H; [discriminate|].
  destruct (c =? 32).
  { destruct (suffixing_parse_reason t a r H) as [l Hl]. exists (c :: l). rewrite Hl. reflexivity. }
  destruct (c =? 13).
  { apply expect_byte_done in H. exists [c; 10]. rewrite H. reflexivity. }
  destruct (c =? 10); [inversion H; subst; exists [c]; reflexivity|discriminate].
Qed.

Lemma suffixing_resp_line : suffixing resp_line.
Proof.
  unfold resp_line. apply (suffixing_pbind skip_empty_lines); [apply suffixing_skip_empty_lines|intros _].
  apply (suffixing_pbind parse_version); [apply suffixing_parse_version|intros ver].
  apply (suffixing_pbind (expect_byte EVersion 32)); [apply suffixing_expect_byte|intros _].
  apply (suffixing_pbind parse_code); [apply suffixing_parse_code|intros code].
  apply (suffixing_pbind parse_after_code); [apply suffixing_parse_after_code|intros _].
  apply suffixing_ret.
Qed.

(** ** The shape of what one iteration of the header loop consumes *)

Lemma span_forallb p b a r : span p b = (a, r) -> forallb p a = true.
Proof.
  revert a r. induction b as [|c t IH]; intros a r E; cbn [span] in E.
  - inversion E; reflexivity.
  - destruct (p c) eqn:Ec.
    + destruct (span p t) as [a' r'] eqn:Et. inversion E; subst. cbn [forallb]. rewrite Ec. eapply IH. reflexivity.
    + inversion E; reflexivity.
Qed.

Lemma drop_while_split p l : exists a, l = a ++ drop_while p l /\ forallb p a = true.
Proof.
  induction l as [|c t IH]; cbn [drop_while]; [exists []; split; reflexivity|].
  destruct (p c) eqn:Ec; [|exists []; split; reflexivity].
  destruct IH as (a & Ha & Hp). exists (c :: a). cbn [app forallb]. rewrite Ec, Hp. split; [f_equal; exact Ha|reflexivity].
Qed.

Lemma rtrim_split v : exists ws, v = rtrim_sp_tab v ++ ws /\ forallb is_sp_tab ws = true.
Proof.
  unfold rtrim_sp_tab. destruct (drop_while_split is_sp_tab (rev v)) as (a & Ha & Hp).
  exists (rev a). split; [|apply forallb_rev; exact Hp].
  rewrite <- rev_app_distr, <- Ha, rev_involutive. reflexivity.
Qed.

Lemma value_eol_shape b u r : value_eol b = Done u r -> b = [13; 10] ++ r \/ b = [10] ++ r.
Proof.
  destruct b as [|c t]; cbn [value_eol]; [discriminate|].
  destruct (N.eqb_spec c 13) as [->|_].
  - intros H. apply expect_byte_done in H. left. rewrite H. reflexivity.
  - destruct (N.eqb_spec c 10) as [->|_]; [|discriminate]. intros H; inversion H; subst. right. reflexivity.
Qed.

Lemma line_value_shape name r1 hd r :
  line_value name r1 = Done (Some hd) r ->
  exists ws1 ws2 eol,
    r1 = ws1 ++ snd hd ++ ws2 ++ eol ++ r /\ fst hd = name /\
    forallb is_sp_tab ws1 = true /\ forallb is_value_token (snd hd) = true /\ forallb is_sp_tab ws2 = true /\
    (eol = [13; 10] \/ eol = [10]).
Proof.
  unfold line_value. destruct (drop_while_split is_sp_tab r1) as (ws1 & Hr1 & Hws1).
  destruct (drop_while is_sp_tab r1) as [|c t]; [discriminate|].
  destruct (span is_value_token (c :: t)) as [v r3] eqn:Es.
  pose proof (span_eq _ _ _ _ Es) as Hv. pose proof (span_forallb _ _ _ _ Es) as Hvt.
  destruct (value_eol r3) as [[] r4| |e] eqn:Ev; cbn [pbind]; try discriminate.
  intros H; inversion H; subst hd r4. cbn [fst snd].
  destruct (rtrim_split v) as (ws2 & Hv2 & Hws2).
  assert (Heol : exists eol, r3 = eol ++ r /\ (eol = [13; 10] \/ eol = [10])).
  { destruct (value_eol_shape _ _ _ Ev) as [H1|H1]; eexists; split; try exact H1; auto. }
  destruct Heol as (eol & Hr3 & Heol).
  exists ws1, ws2, eol. split; [|split; [reflexivity|]].
  - rewrite Hr1, Hv, Hr3. rewrite Hv2 at 1. rewrite <- !app_assoc. reflexivity.
  - rewrite Hv2, forallb_app in Hvt. apply andb_prop in Hvt. destruct Hvt as [Hvt _]. auto.
Qed.

Lemma parse_line_shape b hd r :
  parse_line b = Done (Some hd) r -> exists l, b = l ++ r /\ field_line hd l.
Proof.
  destruct b as [|c t]; [discriminate|].
  destruct (c =? 13) eqn:E13.
  { unfold parse_line. rewrite E13.
    destruct (expect_byte ENewLine 10 t) as [[] r1| |e]; cbn [pbind]; discriminate. }
  destruct (c =? 10) eqn:E10.
  { unfold parse_line. rewrite E13, E10. discriminate. }
  destruct (is_name_token c) eqn:En.
  2:{ unfold parse_line. rewrite E13, E10, En. discriminate. }
  rewrite parse_line_name by assumption.
  destruct (span is_name_token (c :: t)) as [name r0] eqn:Es. cbn [fst snd].
  pose proof (span_eq _ _ _ _ Es) as Hb. pose proof (span_forallb _ _ _ _ Es) as Hn.
  assert (Hne : name <> []).
  { cbn [span] in Es. rewrite En in Es. destruct (span is_name_token t). inversion Es. discriminate. }
  destruct (expect_byte EHeaderName 58 r0) as [[] r1| |e] eqn:Ee; cbn [pbind]; try discriminate.
  apply expect_byte_done in Ee. intros H.
  destruct (line_value_shape name r1 hd r H) as (ws1 & ws2 & eol & Hr1 & Hname & Hws1 & Hval & Hws2 & Heol).
  exists (name ++ [58] ++ ws1 ++ snd hd ++ ws2 ++ eol). split.
  - rewrite Hb, Ee, Hr1. rewrite <- !app_assoc. reflexivity.
  - exists ws1, ws2, eol. rewrite Hname.
    rewrite <- (forallb_ext_eq _ _ _ name_token_is_tchar).
    rewrite <- (forallb_ext_eq _ _ _ value_token_is_field_content).
    change rfc_ows_byte with is_sp_tab. repeat split; assumption.
Qed.

Lemma headers_loop_lines : forall f slots b hs o,
  headers_loop f slots b = (hs, o) ->
  exists lines rest, b = concat lines ++ rest /\ Forall2 field_line hs lines.
Proof.
  induction f as [|f IH]; intros slots b hs o H; cbn [headers_loop] in H.
  - inversion H; subst. exists [], b. split; [reflexivity|constructor].
  - destruct (parse_line b) as [[h|] r| |e] eqn:El;
      try (inversion H; subst; exists [], b; split; [reflexivity|constructor]).
    destruct slots as [|k]; [inversion H; subst; exists [], b; split; [reflexivity|constructor]|].
    destruct (headers_loop f k r) as [hs' o'] eqn:Eh. inversion H; subst.
    destruct (IH k r hs' o Eh) as (lines & rest & Hr & Hf).
    destruct (parse_line_shape b h r El) as (l & Hb & Hl).
    exists (l :: lines), rest. split; [|constructor; assumption].
    cbn [concat]. rewrite <- app_assoc, <- Hr. exact Hb.
Qed.

(** ** The partial parser *)

Theorem partial_lines_present slots b r :
  try_parse_partial_response slots b = Ok (Some r) ->
  exists hs pre lines post,
    rs_headers r = hm_of_list (until_empty_value hs) /\
    b = pre ++ concat lines ++ post /\ Forall2 field_line hs lines.
Proof.
  intros H. destruct (partial_wrapper_some slots b r H) as (ver & c & _ & _ & _ & _ & Hh).
  rewrite parse_response_headers in Hh.
  destruct (resp_line b) as [a b4| |e] eqn:El.
  - destruct (suffixing_resp_line b a b4 El) as [pre Hpre].
    destruct (parse_headers slots b4) as [hs o] eqn:Ep. unfold parse_headers in Ep.
    destruct (headers_loop_lines _ _ _ _ _ Ep) as (lines & rest & Hb4 & Hf).
    exists hs, pre, lines, rest. cbn [fst] in Hh. split; [exact Hh|]. split; [|exact Hf].
    rewrite Hpre, Hb4. reflexivity.
  - exists [], b, [], []. split; [exact Hh|]. split; [cbn [concat app]; rewrite app_nil_r; reflexivity|constructor].
  - exists [], b, [], []. split; [exact Hh|]. split; [cbn [concat app]; rewrite app_nil_r; reflexivity|constructor].
Qed.

Lemma until_empty_value_incl hs x : In x (until_empty_value hs) -> In x hs.
Proof.
  induction hs as [|h t IH]; cbn [until_empty_value]; [intros []|].
  destruct (snd h); [intros []|]. intros [H|H]; [left; exact H|right; apply IH; exact H].
Qed.

Lemma Forall2_In_concat {A} (R : A -> bytes -> Prop) hs lines h :
  Forall2 R hs lines -> In h hs -> exists l a c, R h l /\ concat lines = a ++ l ++ c.
Proof.
  intros HF. induction HF as [|x l xs ls Hx _ IH]; intros Hin; [destruct Hin|].
  destruct Hin as [<-|Hin].
  - exists l, [], (concat ls). split; [exact Hx|reflexivity].
  - destruct (IH Hin) as (l' & a & c & Hr & Hc). exists l', (l ++ a), c. split; [exact Hr|].
    cbn [concat]. rewrite Hc, <- app_assoc. reflexivity.
Qed.

(** For ARBITRARY input [b]: every field (k, v) the partial parser reports is completely present in [b] -- [b]
    contains a complete field line whose name is [k] up to case and whose value is [v]. *)
Theorem partial_field_present slots b r k v :
  try_parse_partial_response slots b = Ok (Some r) -> In (k, v) (hm_iter (rs_headers r)) ->
  exists name l pre post, k = lower name /\ b = pre ++ l ++ post /\ field_line (name, v) l.
Proof.
  intros H Hin. destruct (partial_lines_present slots b r H) as (hs & pre & lines & post & Hh & Hb & Hf).
  rewrite Hh in Hin.
  apply (Permutation_in _ (hm_iter_of_list_perm (until_empty_value hs))) in Hin.
  apply in_map_iff in Hin. destruct Hin as ([name v'] & Hn & Hin). unfold norm_header in Hn. cbn [fst snd] in Hn.
  inversion Hn; subst k v'. apply until_empty_value_incl in Hin.
  destruct (Forall2_In_concat _ _ _ _ Hf Hin) as (l & a & c & Hl & Hc).
  exists name, l, (pre ++ a), (c ++ post). split; [reflexivity|]. split; [|exact Hl].
  rewrite Hb, Hc. rewrite <- !app_assoc. reflexivity.
Qed.
