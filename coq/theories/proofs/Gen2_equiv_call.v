(** [Call<RecvResponse>::try_response] (src/client/call.rs), translated from the source on every run (theories/Gen2.v,
    [gen_call_try_response]: the two parsers' results are values, [self.state.reader] is the one field it writes), equals the model's
    [call_try_response]: the complete head or the partial-redirect work-around with its synthetic Connection: close, the 100 special
    case, the Content-Length text test, and the framing decision recorded in the reader. *)
From Coq Require Import Lia.
From Hoot Require Import Base Chunk Body Httparse Parser Url Request Call Flow GenLib Gen Gen2.
From Hoot.proofs Require Import Gen2_equiv_framing.
Open Scope N_scope.

Definition lift_try (r : res (call * option (N * response))) : res (option reader * option (N * response)) :=
  match r with Ok (c', got) => Ok (c_reader c', got) | Err e => Err e | Panic s => Panic s end.

(** What follows the choice of (consumed, response) is the same on both paths. *)
Definition after_head (c : call) (used : N) (r : response) : res (call * option (N * response)) :=
  if rs_status r =? 100 then
    match rs_headers r with [] => Ok (c, Some (used, r)) | _ => Err HeadersWith100 end
  else
    if match hm_get (rs_headers r) (s2b "content-length") with Some v => negb (is_text v) | None => false end
    then Err BadContentLengthHeader
    else
      let m := am_method (c_req c) in
      do rd <- for_response (rs_version r =? 0) (method_eqb m HEAD) (method_eqb m CONNECT) (rs_status r)
                            (lookup_text (rs_headers r) (s2b "content-length"))
                            (lookup_text (rs_headers r) (s2b "transfer-encoding"));
      Ok (set_reader c (Some rd), Some (used, r)).

Lemma gen_after_head c used r :
  (let http10 := resp_is_http10 r in
   let status := resp_status r in
   if N.eqb status 100 then
     if resp_headers_nonempty r then Err HeadersWith100 else Ok (c_reader c, Some (used, r))
   else
     match resp_get_content_length r with
     | Some header =>
         if match hv_to_str header with Some _ => false | None => true end then Err BadContentLengthHeader
         else bind (gen_br_for_response http10 (am_method (c_req c)) status (resp_text_lookup r))
                   (fun v => Ok (Some v, Some (used, r)))
     | None => bind (gen_br_for_response http10 (am_method (c_req c)) status (resp_text_lookup r))
                    (fun v => Ok (Some v, Some (used, r)))
     end)
  = lift_try (after_head c used r).
Proof.
  cbv zeta. unfold after_head, resp_is_http10, resp_status, resp_headers_nonempty, resp_get_content_length, resp_text_lookup, hv_to_str.
  rewrite gen_br_for_response_eq.
  destruct (rs_status r =? 100).
  - destruct (rs_headers r); reflexivity.
  - destruct (hm_get (rs_headers r) (s2b "content-length")) as [v|].
    + destruct (is_text v); cbn [negb]; [|reflexivity].
      destruct (for_response _ _ _ _ _ _); reflexivity.
    + destruct (for_response _ _ _ _ _ _); reflexivity.
Qed.

Theorem gen_call_try_response_eq c input :
  gen_call_try_response (c_reader c) (am_method (c_req c)) input
    (try_parse_response (N.to_nat MAX_RESPONSE_HEADERS) input)
    (try_parse_partial_response (N.to_nat MAX_RESPONSE_HEADERS) input)
  = lift_try (call_try_response c input).
Proof.
  unfold call_try_response, gen_call_try_response.
  destruct (try_parse_response (N.to_nat MAX_RESPONSE_HEADERS) input) as [[[used r]|]|e|s]; cbn [bind]; try reflexivity.
  - exact (gen_after_head c used r).
  - destruct (try_parse_partial_response (N.to_nat MAX_RESPONSE_HEADERS) input) as [[r|]|e|s]; cbn [bind]; try reflexivity.
    unfold resp_is_redirection, resp_has_location.
    destruct (is_redirection (rs_status r) && hm_contains (rs_headers r) (s2b "location")); cbn [bind]; [|reflexivity].
    exact (gen_after_head c (len input) (resp_insert_close r)).
Qed.
Print Assumptions gen_after_head.
Print Assumptions gen_call_try_response_eq.
