(** C02: the request head on the wire is well-formed and faithful to the request.
    Part 1: the line-atomic, resumable head writer equals the greedy whole-line writer over
    [head_lines]. Part 2 (C02_analysis.v): what analysis adds (Host, framing). *)
From Coq Require Import Lia ZArith.
From Hoot Require Import Base Chunk Body Httparse Parser Url Request Call Flow.
From Hoot.proofs Require Import BytesLemmas C17_proofs.
Open Scope N_scope.

(* ------------------------------------------------------------------ specification *)

(** One header field on its own CRLF-terminated line. *)
Definition field_line (h : header) : bytes := fst h ++ [58; 32] ++ snd h ++ CRLF.

(** Append [x] to the last element of a list of lines. *)
Fixpoint glue_last (ls : list bytes) (x : bytes) : list bytes :=
  match ls with
  | [] => []
  | l :: t => match t with [] => [l ++ x] | _ => l :: glue_last t x end
  end.

(** The lines of the request head as the writer emits them: request line, one line per effective
    header; the terminating empty line is glued to the last line (it is never emitted alone). *)
Definition head_lines (a : amended) : list bytes :=
  glue_last (prelude_line a :: map field_line (am_headers a)) CRLF.

Definition render_request_head (a : amended) : bytes := concat (head_lines a).

(** Greedy whole-line writer: how many of the lines [ls] fit, in order, into [avail] bytes. *)
Fixpoint greedy (ls : list bytes) (avail : N) : N :=
  match ls with
  | [] => 0
  | l :: t => if len l <=? avail then N.succ (greedy t (avail - len l)) else 0
  end.

(** Lines already emitted, as a function of the phase ([n] = number of lines). *)
Definition k_of (n : N) (p : phase) : N :=
  match p with
  | PLine => 0
  | PHeaders i => i + 1
  | _ => n
  end.

Definition phase_of (n k : N) : phase :=
  if k =? 0 then PLine else if k =? n then PBody else PHeaders (k - 1).

(** Phases of a call that is sending its head; [PHeaders i] always has a line left to write. *)
Definition wf_phase (count : N) (p : phase) : Prop :=
  match p with
  | PLine | PBody => True
  | PHeaders i => i < count
  | _ => False
  end.

Definition next_line (ls : list bytes) (k : N) : option bytes :=
  match drop k ls with l :: _ => Some l | [] => None end.

(* ------------------------------------------------------------------ greedy *)

Lemma greedy_le (ls : list bytes) : forall avail, greedy ls avail <= len ls.
Proof.
  induction ls as [|l t IH]; intros avail; cbn [greedy len]; [lia|].
  destruct (len l <=? avail); [specialize (IH (avail - len l)); lia|lia].
Qed.

Lemma concat_cons (l : bytes) (t : list bytes) : concat (l :: t) = l ++ concat t.
Proof. reflexivity. Qed.

Lemma take_succ_cons {A} n (x : A) l : take (N.succ n) (x :: l) = x :: take n l.
Proof. rewrite take_cons_pos by lia. f_equal. f_equal. lia. Qed.

Lemma greedy_fits (ls : list bytes) : forall avail, len (concat (take (greedy ls avail) ls)) <= avail.
Proof.
  induction ls as [|l t IH]; intros avail; cbn [greedy]; [cbn; lia|].
  destruct (N.leb_spec (len l) avail) as [H|H].
  - rewrite take_succ_cons. rewrite concat_cons, len_app. specialize (IH (avail - len l)). lia.
  - rewrite take_0. cbn. lia.
Qed.

Lemma greedy_next (ls : list bytes) : forall avail,
  greedy ls avail < len ls -> avail < len (concat (take (greedy ls avail + 1) ls)).
Proof.
  induction ls as [|l t IH]; intros avail; cbn [greedy len]; [lia|].
  destruct (N.leb_spec (len l) avail) as [H|H]; intros Hlt.
  - replace (N.succ (greedy t (avail - len l)) + 1) with (N.succ (greedy t (avail - len l) + 1)) by lia.
    rewrite take_succ_cons, concat_cons, len_app.
    specialize (IH (avail - len l)). lia.
  - change (0 + 1) with (N.succ 0). rewrite take_succ_cons, take_0, concat_cons, len_app. cbn [concat len]. lia.
Qed.

(** The three facts determine the count: [greedy] is THE largest prefix of whole lines that fits. *)
Lemma len_concat_take_mono (ls : list bytes) : forall i j,
  i <= j -> len (concat (take i ls)) <= len (concat (take j ls)).
Proof.
  induction ls as [|l t IH]; intros i j Hij; [cbn; lia|].
  destruct (N.eq_dec i 0) as [->|Hi]; [rewrite take_0; cbn; lia|].
  rewrite (take_cons_pos i), (take_cons_pos j) by lia. rewrite !concat_cons, !len_app.
  specialize (IH (i - 1) (j - 1)). lia.
Qed.

Lemma greedy_unique (ls : list bytes) avail j :
  j <= len ls -> len (concat (take j ls)) <= avail ->
  (j < len ls -> avail < len (concat (take (j + 1) ls))) ->
  j = greedy ls avail.
Proof.
  intros Hj Hfit Hnext.
  pose proof (greedy_le ls avail) as Gle. pose proof (greedy_fits ls avail) as Gfit.
  pose proof (greedy_next ls avail) as Gnext.
  destruct (N.lt_trichotomy j (greedy ls avail)) as [H|[H|H]]; [|exact H|].
  - pose proof (len_concat_take_mono ls (j + 1) (greedy ls avail)). lia.
  - pose proof (len_concat_take_mono ls (greedy ls avail + 1) j). lia.
Qed.

Lemma greedy_zero_iff (ls : list bytes) avail :
  greedy ls avail = 0 <-> match ls with [] => True | l :: _ => avail < len l end.
Proof.
  destruct ls as [|l t]; cbn [greedy]; [tauto|].
  destruct (N.leb_spec (len l) avail); split; intros; lia.
Qed.

Lemma greedy_pos_nonempty (ls : list bytes) avail :
  0 < greedy ls avail -> (forall l, In l ls -> l <> []) ->
  concat (take (greedy ls avail) ls) <> [].
Proof.
  destruct ls as [|l t]; cbn [greedy]; [lia|].
  destruct (len l <=? avail); [|lia]. intros _ Hne.
  rewrite take_succ_cons, concat_cons. specialize (Hne l (or_introl eq_refl)).
  destruct l; [congruence|discriminate].
Qed.

(* ------------------------------------------------------------------ header lines *)

(** The lines [write_headers] walks over. *)
Fixpoint lines_of (hs : list header) (index last_index : N) : list bytes :=
  match hs with
  | [] => []
  | h :: t => header_line h (index =? last_index) :: lines_of t (N.succ index) last_index
  end.

Lemma write_headers_spec hs : forall index last avail out,
  write_headers hs index last avail out =
    (index + greedy (lines_of hs index last) avail,
     out ++ concat (take (greedy (lines_of hs index last) avail) (lines_of hs index last))).
Proof.
  induction hs as [|h t IH]; intros index last avail out; cbn [write_headers lines_of greedy].
  - rewrite app_nil_r. f_equal. lia.
  - cbv zeta. destruct (len (header_line h (index =? last)) <=? avail).
    + rewrite IH. rewrite take_succ_cons, concat_cons. rewrite <- app_assoc. f_equal. lia.
    + rewrite take_0. cbn [concat]. rewrite app_nil_r. f_equal. lia.
Qed.

Lemma len_lines_of hs : forall index last, len (lines_of hs index last) = len hs.
Proof. induction hs as [|h t IH]; intros; cbn [lines_of len]; [reflexivity|]. rewrite IH. reflexivity. Qed.

Lemma lines_of_drop hs : forall i index last,
  lines_of (drop i hs) (index + i) last = drop i (lines_of hs index last).
Proof.
  induction hs as [|h t IH]; intros i index last; [reflexivity|].
  destruct (N.eq_dec i 0) as [->|Hi].
  - rewrite !drop_0. rewrite N.add_0_r. reflexivity.
  - cbn [lines_of]. rewrite !drop_cons_pos by lia. rewrite <- IH. f_equal. lia.
Qed.

Lemma lines_of_nonempty hs : forall index last l, In l (lines_of hs index last) -> l <> [].
Proof.
  induction hs as [|h t IH]; intros index last l; cbn [lines_of In]; [tauto|].
  intros [H|H]; [|eapply IH; exact H]. subst l. unfold header_line.
  destruct (fst h); discriminate.
Qed.

Lemma lines_of_glue hs : forall index last,
  last + 1 = index + len hs ->
  lines_of hs index last = glue_last (map field_line hs) CRLF.
Proof.
  induction hs as [|h t IH]; intros index last Hl; [reflexivity|].
  cbn [lines_of map glue_last]. rewrite len_cons in Hl.
  destruct t as [|h2 t2].
  - cbn [len] in Hl. destruct (N.eqb_spec index last) as [_|Hne]; [|lia].
    cbn [lines_of map]. unfold header_line, field_line. rewrite <- !app_assoc. reflexivity.
  - rewrite len_cons in Hl. destruct (N.eqb_spec index last) as [He|_]; [lia|].
    rewrite (IH (N.succ index) last) by (rewrite len_cons; lia).
    cbn [map]. unfold header_line, field_line. rewrite app_nil_r. reflexivity.
Qed.

Lemma head_lines_eq a :
  am_headers a <> [] ->
  head_lines a = prelude_line a :: lines_of (am_headers a) 0 (len (am_headers a) - 1).
Proof.
  intros Hne. unfold head_lines.
  destruct (am_headers a) as [|h t] eqn:E; [congruence|].
  change (glue_last (prelude_line a :: map field_line (h :: t)) CRLF)
    with (prelude_line a :: glue_last (map field_line (h :: t)) CRLF).
  f_equal. symmetry. apply lines_of_glue. rewrite len_cons. lia.
Qed.

Lemma len_head_lines a : am_headers a <> [] -> len (head_lines a) = len (am_headers a) + 1.
Proof. intros H. rewrite head_lines_eq by exact H. rewrite len_cons, len_lines_of. reflexivity. Qed.

Lemma prelude_line_pos a : 0 < len (prelude_line a).
Proof.
  unfold prelude_line. rewrite len_app. rewrite (len_app [32]). cbn [len]. lia.
Qed.

(* ------------------------------------------------------------------ try_write_prelude *)

Lemma phase_of_wf n k : 0 < n -> k <= n -> wf_phase (n - 1) (phase_of n k).
Proof.
  intros Hn Hk. unfold phase_of. destruct (N.eqb_spec k 0); [exact I|].
  destruct (N.eqb_spec k n); [exact I|]. cbn [wf_phase]. lia.
Qed.

Lemma k_of_phase_of n k : 0 < n -> k <= n -> k_of n (phase_of n k) = k.
Proof.
  intros Hn Hk. unfold phase_of. destruct (N.eqb_spec k 0); [cbn; lia|].
  destruct (N.eqb_spec k n); cbn [k_of]; lia.
Qed.

Lemma k_of_le n p : wf_phase (n - 1) p -> 0 < n -> k_of n p <= n.
Proof. destruct p; cbn [wf_phase k_of]; lia. Qed.

(** One call of the head writer, completely characterised. *)
Lemma twp_spec a p cap :
  am_headers a <> [] -> wf_phase (len (am_headers a)) p ->
  let L := head_lines a in
  let n := len L in
  let k := k_of n p in
  let j := greedy (drop k L) cap in
  try_write_prelude a p cap =
    if (j =? 0) && (k <? n) then Err OutputOverflow
    else Ok (phase_of n (k + j), concat (take j (drop k L))).
Proof.
  intros Hne Hwf. cbv zeta.
  rewrite (len_head_lines a Hne). rewrite (head_lines_eq a Hne).
  set (hs := am_headers a) in *. set (count := len hs) in *.
  assert (Hc : 0 < count).
  { destruct hs as [|h t]; [congruence|]. unfold count. rewrite len_cons. lia. }
  set (hl := lines_of hs 0 (count - 1)).
  unfold try_write_prelude. fold hs. fold count.
  destruct (N.eqb_spec count 0) as [E|_]; [lia|].
  destruct p as [|i| | |]; cbn [wf_phase] in Hwf; try contradiction; cbn [k_of].
  - (* request line not written yet *)
    rewrite !drop_0. cbn [greedy].
    destruct (N.leb_spec (len (prelude_line a)) cap) as [Hfit|Hfit].
    + rewrite write_headers_spec. fold hl.
      set (g := greedy hl (cap - len (prelude_line a))).
      destruct (N.eqb_spec (N.succ g) 0) as [E|_]; [lia|]. cbn [andb].
      rewrite take_succ_cons, concat_cons.
      assert (Hout : exists b t, prelude_line a ++ concat (take g hl) = b :: t).
      { pose proof (prelude_line_pos a) as Hp. destruct (prelude_line a); [cbn in Hp; lia|].
        cbn [app]. eauto. }
      destruct Hout as (b & t & ->).
      f_equal. f_equal. unfold phase_of.
      destruct (N.eqb_spec (0 + N.succ g) 0) as [E|_]; [lia|].
      destruct (N.eqb_spec (0 + g) count); destruct (N.eqb_spec (0 + N.succ g) (count + 1)); try lia;
        [reflexivity|f_equal; lia].
    + cbn [N.eqb andb]. destruct (N.ltb_spec 0 (count + 1)); [reflexivity|lia].
  - (* i header lines written *)
    rewrite drop_cons_pos by lia. replace (i + 1 - 1) with i by lia.
    rewrite write_headers_spec.
    replace (lines_of (drop i hs) i (count - 1)) with (drop i hl)
      by (unfold hl; rewrite <- lines_of_drop; reflexivity).
    set (g := greedy (drop i hl) cap). cbn [app].
    destruct (N.ltb_spec (i + 1) (count + 1)) as [_|H]; [|lia]. rewrite andb_true_r.
    destruct (N.eqb_spec g 0) as [Eg|Eg].
    + rewrite Eg, take_0. cbn [concat]. rewrite N.add_0_r.
      destruct (N.eqb_spec i count); [lia|]. reflexivity.
    + assert (Hne' : concat (take g (drop i hl)) <> []).
      { apply greedy_pos_nonempty; [lia|]. unfold hl. rewrite <- (lines_of_drop hs i 0).
        apply lines_of_nonempty. }
      destruct (concat (take g (drop i hl))) as [|b t] eqn:Eo; [congruence|].
      f_equal. f_equal. unfold phase_of.
      destruct (N.eqb_spec (i + 1 + g) 0) as [E|_]; [lia|].
      destruct (N.eqb_spec (i + g) count); destruct (N.eqb_spec (i + 1 + g) (count + 1)); try lia;
        [reflexivity|f_equal; lia].
  - (* head complete *)
    rewrite drop_all by (rewrite len_cons; unfold hl; rewrite len_lines_of; fold count; lia).
    cbn [greedy N.eqb andb]. destruct (N.ltb_spec (count + 1) (count + 1)); [lia|].
    cbn [andb]. rewrite take_0. cbn [concat]. f_equal. f_equal. unfold phase_of.
    destruct (N.eqb_spec (count + 1 + 0) 0); [lia|].
    destruct (N.eqb_spec (count + 1 + 0) (count + 1)); [reflexivity|lia].
Qed.

(* ------------------------------------------------------------------ calls *)

(** [call_head a c k]: the call [c] is sending the head of the analysed request [a] and [k] of its
    lines are out. Either the call has been analysed (its request is [a]), or it is fresh, analysis
    will accept it and turn its request into [a] on the next write (then [k = 0]). *)
Definition call_head (a : amended) (c : call) (k : N) : Prop :=
  (c_analyzed c = true /\ c_req c = a /\ wf_phase (len (am_headers a)) (c_phase c) /\
   k = k_of (len (head_lines a)) (c_phase c))
  \/
  (fresh c /\ call_invalid c = false /\ sendable c /\ a = c_req (analysed_call c) /\ k = 0).

Lemma call_head_analyze a c k :
  call_head a c k ->
  exists c1, analyze_request c = Ok c1 /\ c_analyzed c1 = true /\ c_req c1 = a /\
             c_phase c1 = c_phase c /\
             wf_phase (len (am_headers a)) (c_phase c) /\ k = k_of (len (head_lines a)) (c_phase c).
Proof.
  intros [(Ha & Hr & Hw & Hk)|((Ha & Hp) & Hi & (Hu & Hl & Hv) & Hr & Hk)].
  - exists c. rewrite analysed_call_fix by exact Ha. repeat split; auto.
  - exists (analysed_call c). rewrite (analyze_request_valid c Ha Hi Hl Hv).
    repeat split; auto. + rewrite Hp. exact I. + rewrite Hp. exact Hk.
Qed.

Lemma analyze_request_phase c c1 : analyze_request c = Ok c1 -> c_phase c1 = c_phase c.
Proof.
  unfold analyze_request. destruct (c_analyzed c); [intros H; inversion H; reflexivity|].
  destruct (analyze _ _ _) as [info| |]; cbn [bind]; try discriminate.
  match goal with |- (do a1 <- ?X; _) = _ -> _ => destruct X as [a1| |] end; cbn [bind]; try discriminate.
  match goal with |- (do a2 <- ?X; _) = _ -> _ => destruct X as [a2| |] end; cbn [bind]; try discriminate.
  intros H. inversion H. reflexivity.
Qed.

(** In the head phases the with-body writer with an empty input is the without-body writer. *)
Lemma write_body_prelude c cap :
  is_prelude (c_phase c) = true ->
  call_write_body c [] cap =
    match call_write_nobody c cap with
    | Ok (c', o) => Ok (c', 0, o)
    | Err e => Err e
    | Panic s => Panic s
    end.
Proof.
  intros Hp. unfold call_write_body, call_write_nobody.
  destruct (analyze_request c) as [c1| |] eqn:E; cbn [bind]; try reflexivity.
  rewrite (analyze_request_phase _ _ E), Hp.
  destruct (try_write_prelude _ _ _) as [r| |]; reflexivity.
Qed.

Lemma head_bounds a c k :
  am_headers a <> [] -> call_head a c k -> k <= len (head_lines a) /\ 0 < len (head_lines a).
Proof.
  intros Hne H. destruct (call_head_analyze _ _ _ H) as (c1 & _ & _ & _ & _ & Hw & Hk).
  pose proof (len_head_lines a Hne) as Hn. subst k. split; [|lia].
  apply k_of_le; [|lia]. replace (len (head_lines a) - 1) with (len (am_headers a)) by lia. exact Hw.
Qed.

(** One call of [Call<WithoutBody>::write] while the head is being sent. *)
Lemma nobody_step a c k cap :
  am_headers a <> [] -> call_head a c k ->
  let L := head_lines a in
  let j := greedy (drop k L) cap in
  if (j =? 0) && (k <? len L) then call_write_nobody c cap = Err OutputOverflow
  else exists c', call_write_nobody c cap = Ok (c', concat (take j (drop k L))) /\
                  call_head a c' (k + j).
Proof.
  intros Hne H. cbv zeta. pose proof (head_bounds a c k Hne H) as [Hkn Hn].
  destruct (call_head_analyze _ _ _ H) as (c1 & Han & Ha1 & Hr1 & Hp1 & Hw & Hk).
  unfold call_write_nobody. rewrite Han. cbn [bind]. rewrite Hr1, Hp1.
  pose proof (twp_spec a (c_phase c) cap Hne Hw) as Ht. cbv zeta in Ht. rewrite <- Hk in Ht.
  rewrite Ht. clear Ht.
  set (j := greedy (drop k (head_lines a)) cap).
  destruct ((j =? 0) && (k <? len (head_lines a))); [reflexivity|].
  cbn [bind fst snd]. eexists. split; [reflexivity|].
  assert (Hj : k + j <= len (head_lines a)).
  { pose proof (greedy_le (drop k (head_lines a)) cap) as G. fold j in G. rewrite len_drop in G. lia. }
  left. cbn [set_phase c_analyzed c_req c_phase]. repeat split; auto.
  - pose proof (len_head_lines a Hne) as Hl.
    replace (len (am_headers a)) with (len (head_lines a) - 1) by lia.
    apply phase_of_wf; assumption.
  - symmetry. apply k_of_phase_of; assumption.
Qed.

Lemma set_phase_same c p : c_phase c = p -> set_phase c p = c.
Proof. intros <-. destruct c; reflexivity. Qed.

Lemma set_call_same f : set_call f (i_call f) = f.
Proof. destruct f; reflexivity. Qed.

(* ------------------------------------------------------------------ flows *)

Definition flow_head (a : amended) (f : inner) (k : N) : Prop :=
  (i_holder f = HWithoutBody \/ i_holder f = HWithBody) /\ call_head a (i_call f) k.

Lemma call_head_body_phase a c k :
  am_headers a <> [] -> call_head a c k ->
  (is_body (c_phase c) = true -> k = len (head_lines a)) /\
  (is_body (c_phase c) = false -> is_prelude (c_phase c) = true /\ k < len (head_lines a)).
Proof.
  intros Hne H. destruct (call_head_analyze _ _ _ H) as (c1 & _ & _ & _ & _ & Hw & Hk).
  pose proof (len_head_lines a Hne) as Hl.
  destruct (c_phase c); cbn [wf_phase is_body is_prelude k_of] in *; try contradiction;
    split; intros; try discriminate; try (split; [reflexivity|]); lia.
Qed.

(** One call of [Flow<SendRequest>::write]. *)
Lemma flow_step a f k cap :
  am_headers a <> [] -> flow_head a f k ->
  let L := head_lines a in
  let j := greedy (drop k L) cap in
  if (j =? 0) && (k <? len L) then send_request_write f cap = Err OutputOverflow
  else exists f', send_request_write f cap = Ok (f', concat (take j (drop k L))) /\
                  flow_head a f' (k + j).
Proof.
  intros Hne [Hh H]. cbv zeta.
  pose proof (nobody_step a (i_call f) k cap Hne H) as Hs. cbv zeta in Hs.
  pose proof (call_head_body_phase a (i_call f) k Hne H) as [Hb Hnb].
  unfold send_request_write. destruct Hh as [Hh|Hh]; rewrite Hh.
  - destruct ((greedy (drop k (head_lines a)) cap =? 0) && (k <? len (head_lines a))).
    + rewrite Hs. reflexivity.
    + destruct Hs as (c' & Hs & Hc'). rewrite Hs. cbn [bind fst snd].
      eexists. split; [reflexivity|]. split; [cbn [set_call i_holder]; auto|exact Hc'].
  - destruct (is_body (c_phase (i_call f))) eqn:Eb.
    + specialize (Hb eq_refl). subst k.
      rewrite drop_all by lia. cbn [greedy]. rewrite N.ltb_irrefl. cbn [N.eqb andb].
      rewrite take_0. cbn [concat]. exists f. split; [reflexivity|].
      rewrite N.add_0_r. split; auto.
    + destruct (Hnb eq_refl) as [Hpre _]. rewrite (write_body_prelude _ _ Hpre).
      destruct ((greedy (drop k (head_lines a)) cap =? 0) && (k <? len (head_lines a))).
      * rewrite Hs. reflexivity.
      * destruct Hs as (c' & Hs & Hc'). rewrite Hs. cbn [bind].
        eexists. split; [reflexivity|]. split; [cbn [set_call i_holder]; auto|exact Hc'].
Qed.

Lemma flow_can_proceed a f k :
  am_headers a <> [] -> flow_head a f k ->
  send_request_can_proceed f = Ok (k =? len (head_lines a)).
Proof.
  intros Hne [Hh H].
  pose proof (call_head_body_phase a (i_call f) k Hne H) as [Hb Hnb].
  unfold send_request_can_proceed.
  destruct (is_body (c_phase (i_call f))) eqn:Eb.
  - rewrite (Hb eq_refl), N.eqb_refl.
    destruct Hh as [Hh|Hh]; rewrite Hh; [|reflexivity].
    destruct (c_phase (i_call f)); try discriminate. reflexivity.
  - destruct (Hnb eq_refl) as [Hpre Hlt].
    destruct (N.eqb_spec k (len (head_lines a))); [lia|].
    destruct Hh as [Hh|Hh]; rewrite Hh; [rewrite Hpre|]; reflexivity.
Qed.

(** Once the head is complete a write emits nothing and returns the very same flow. *)
Lemma flow_complete_fix a f cap :
  am_headers a <> [] -> flow_head a f (len (head_lines a)) ->
  send_request_write f cap = Ok (f, []).
Proof.
  intros Hne [Hh H].
  destruct H as [(Ha & Hr & Hw & Hk)|(_ & _ & _ & _ & Hk)];
    [|pose proof (len_head_lines a Hne); lia].
  pose proof (len_head_lines a Hne) as Hl.
  assert (Hp : c_phase (i_call f) = PBody).
  { destruct (c_phase (i_call f)); cbn [wf_phase k_of] in *; try contradiction; try lia. reflexivity. }
  unfold send_request_write. destruct Hh as [Hh|Hh]; rewrite Hh; [|rewrite Hp; reflexivity].
  unfold call_write_nobody. rewrite analysed_call_fix by exact Ha. cbn [bind]. rewrite Hp.
  cbn [try_write_prelude bind fst snd]. rewrite set_phase_same by exact Hp. rewrite set_call_same. reflexivity.
Qed.

(** Histories of writes with any capacities (trace type from C17_proofs). *)
Definition head_inv (a : amended) (t : fwtrace) : Prop :=
  exists k, flow_head a (fw_flow t) k /\ fw_out t = concat (take k (head_lines a)).

Lemma head_inv_step a t cap : am_headers a <> [] -> head_inv a t -> head_inv a (fwstep t cap).
Proof.
  intros Hne (k & Hf & Ho). unfold fwstep.
  pose proof (flow_step a (fw_flow t) k cap Hne Hf) as Hs. cbv zeta in Hs.
  destruct ((greedy (drop k (head_lines a)) cap =? 0) && (k <? len (head_lines a))).
  - rewrite Hs. exists k. auto.
  - destruct Hs as (f' & Hs & Hf'). rewrite Hs. eexists. cbn [fw_flow fw_out]. split; [exact Hf'|].
    rewrite Ho, take_add, concat_app. reflexivity.
Qed.

Lemma head_inv_run a caps : am_headers a <> [] ->
  forall t, head_inv a t -> head_inv a (fold_left fwstep caps t).
Proof.
  intros Hne. induction caps as [|cap caps IH]; intros t H; cbn [fold_left]; [exact H|].
  apply IH. apply head_inv_step; assumption.
Qed.

Lemma head_prefix a f caps :
  am_headers a <> [] -> flow_head a f 0 ->
  exists k, flow_head a (fw_flow (fwrun f caps)) k /\
            fw_out (fwrun f caps) = concat (take k (head_lines a)).
Proof.
  intros Hne H. apply (head_inv_run a caps Hne). exists 0. split; [exact H|].
  rewrite take_0. reflexivity.
Qed.

Lemma overflow_iff a f k cap :
  am_headers a <> [] -> flow_head a f k ->
  (send_request_write f cap = Err OutputOverflow <->
   exists l, next_line (head_lines a) k = Some l /\ cap < len l).
Proof.
  intros Hne Hf. pose proof (flow_step a f k cap Hne Hf) as Hs. cbv zeta in Hs.
  unfold next_line.
  destruct ((greedy (drop k (head_lines a)) cap =? 0) && (k <? len (head_lines a))) eqn:E.
  - split; [intros _|intros _; exact Hs].
    apply andb_prop in E. destruct E as [E1 E2]. apply N.eqb_eq in E1. apply N.ltb_lt in E2.
    apply greedy_zero_iff in E1.
    destruct (drop k (head_lines a)) as [|l rest] eqn:Ed.
    + apply (f_equal len) in Ed. rewrite len_drop in Ed. cbn [len] in Ed. lia.
    + eauto.
  - destruct Hs as (f' & Hs & _). split; [intros H; congruence|].
    intros (l & Hl & Hc). exfalso.
    destruct (drop k (head_lines a)) as [|l' rest] eqn:Ed; [discriminate|]. inversion Hl; subst l'.
    apply andb_false_iff in E. destruct E as [E|E].
    + apply N.eqb_neq in E. apply E. apply greedy_zero_iff. exact Hc.
    + apply N.ltb_ge in E. rewrite drop_all in Ed by exact E. discriminate.
Qed.

Lemma complete_iff a f k :
  am_headers a <> [] -> flow_head a f k ->
  (send_request_can_proceed f = Ok true <-> k = len (head_lines a)) /\
  (k = len (head_lines a) <-> concat (take k (head_lines a)) = render_request_head a).
Proof.
  intros Hne Hf. rewrite (flow_can_proceed a f k Hne Hf). split.
  - destruct (N.eqb_spec k (len (head_lines a))); split; intros; try congruence.
  - destruct Hf as [_ Hc]. pose proof (head_bounds a _ k Hne Hc) as [Hk Hn].
    unfold render_request_head. split.
    + intros ->. rewrite take_all by lia. reflexivity.
    + intros He. apply (f_equal len) in He.
      destruct (N.eq_dec k (len (head_lines a))) as [|Hneq]; [assumption|exfalso].
      (* a strict prefix of the lines is strictly shorter: every line is non-empty *)
      rewrite <- (take_drop k (head_lines a)) in He at 2. rewrite concat_app, len_app in He.
      destruct (drop k (head_lines a)) as [|l rest] eqn:Ed.
      * apply (f_equal len) in Ed. rewrite len_drop in Ed. cbn [len] in Ed. lia.
      * assert (Hin : In l (head_lines a)).
        { rewrite <- (take_drop k (head_lines a)). apply in_or_app. right. rewrite Ed. left. reflexivity. }
        rewrite (head_lines_eq a Hne) in Hin. destruct Hin as [Hin|Hin].
        -- subst l. pose proof (prelude_line_pos a). rewrite concat_cons, len_app in He. lia.
        -- apply lines_of_nonempty in Hin. rewrite concat_cons, len_app in He.
           destruct l; [congruence|]. rewrite len_cons in He. lia.
Qed.

(** A fresh flow that analysis accepts is at line 0 of the head of its analysed request. *)
Lemma fresh_flow_head f :
  fresh_flow f -> call_invalid (i_call f) = false -> sendable (i_call f) ->
  flow_head (c_req (analysed_call (i_call f))) f 0.
Proof. intros [Hf Hh] Hi Hs. split; [exact Hh|]. right. auto. Qed.

Lemma fresh_flow_headers_nonempty f :
  sendable (i_call f) -> am_headers (c_req (analysed_call (i_call f))) <> [].
Proof. intros (Hu & _). apply analysed_headers_nonempty. exact Hu. Qed.

(** Gluing the empty line to the last line does not change the byte string. *)
Lemma concat_glue_last (ls : list bytes) x : ls <> [] -> concat (glue_last ls x) = concat ls ++ x.
Proof.
  induction ls as [|l t IH]; intros Hne; [congruence|].
  destruct t as [|l2 t2].
  - cbn [glue_last concat]. rewrite !app_nil_r. reflexivity.
  - change (glue_last (l :: l2 :: t2) x) with (l :: glue_last (l2 :: t2) x).
    rewrite !concat_cons. rewrite (concat_cons l2 t2) in IH. rewrite IH by discriminate.
    rewrite <- !app_assoc. reflexivity.
Qed.

Lemma render_flat a :
  render_request_head a = prelude_line a ++ concat (map field_line (am_headers a)) ++ CRLF.
Proof.
  unfold render_request_head, head_lines. rewrite concat_glue_last by discriminate.
  rewrite concat_cons, <- app_assoc. reflexivity.
Qed.
