(** C12, part 1: the body readers on ARBITRARY bytes.

    Nothing here assumes a well-formed coding: [w] is any byte list, [cap] any capacity, [stop]
    any flag.  "Never [Panic]" covers three things at once, because in the model
      - every Rust panic site is a [Panic] value,
      - the two fuelled loops of the decoder return [Panic] when the fuel runs out, so a proof that
        [Panic] is unreachable contains the termination argument of the corresponding Rust loop
        (same guard, same body): no hang;
      - there is no other outcome constructor ([res] = Ok | Err | Panic).
    The counts part (consumed <= offered, produced <= space, produced is an in-order copy of consumed
    bytes) is the "no desynchronisation" clause. *)
From Coq Require Import Lia ZArith.
From Hoot Require Import Base Chunk Body.
From Hoot.proofs Require Import BytesLemmas.
Open Scope N_scope.

(** ** Subsequences: "every produced byte is a copy of a consumed byte, in order". *)
Inductive subseq {A : Type} : list A -> list A -> Prop :=
| subseq_nil : forall l, subseq [] l
| subseq_take : forall x a l, subseq a l -> subseq (x :: a) (x :: l)
| subseq_skip : forall x a l, subseq a l -> subseq a (x :: l).

Lemma subseq_refl {A} (l : list A) : subseq l l.
Proof. induction l; constructor; assumption. Qed.

Lemma subseq_app {A} (a l : list A) : subseq a l -> forall b m, subseq b m -> subseq (a ++ b) (l ++ m).
Proof.
  induction 1 as [l|x a l _ IH|x a l _ IH]; intros b m Hb; cbn [app].
  - induction l as [|y l IHl]; cbn [app]; [exact Hb|]. apply subseq_skip. exact IHl.
  - apply subseq_take. apply IH. exact Hb.
  - apply subseq_skip. apply IH. exact Hb.
Qed.

Lemma subseq_length {A} (a l : list A) : subseq a l -> (List.length a <= List.length l)%nat.
Proof. induction 1; cbn [List.length]; lia. Qed.

Lemma subseq_len {A} (a l : list A) : subseq a l -> len a <= len l.
Proof. intros H. apply subseq_length in H. rewrite !len_length. lia. Qed.

Lemma subseq_in {A} (a l : list A) : subseq a l -> forall x, In x a -> In x l.
Proof.
  induction 1 as [l|y a l _ IH|y a l _ IH]; intros x Hx.
  - destruct Hx.
  - destruct Hx as [->|Hx]; [left; reflexivity|right; apply IH; exact Hx].
  - right. apply IH. exact Hx.
Qed.

(** Composition along the input: what was produced from the first [i] bytes, followed by what was
    produced from the next [j] bytes. *)
Lemma subseq_take_add {A} (a b s : list A) i j :
  subseq a (take i s) -> subseq b (take j (drop i s)) -> subseq (a ++ b) (take (i + j) s).
Proof. intros Ha Hb. rewrite take_add. apply subseq_app; assumption. Qed.

(** ** find_crlf on arbitrary bytes *)
Lemma find_crlf_aux_bound b : forall i j, find_crlf_aux b i = Some j -> i <= j /\ j + 2 <= i + len b.
Proof.
  induction b as [|c t IH]; intros i j H; cbn [find_crlf_aux] in H; [discriminate|].
  rewrite len_cons.
  destruct (c =? 13).
  - destruct t as [|d t']; [discriminate|].
    destruct (d =? 10); [|discriminate]. inversion H; subst. rewrite len_cons. lia.
  - apply IH in H. lia.
Qed.

Lemma find_crlf_bound b j : find_crlf b = Some j -> j + 2 <= len b.
Proof. intros H. apply find_crlf_aux_bound in H. lia. Qed.

(** ** One transition of the decoder *)

(** States in which the decoder can be left between two calls: everything except [DTrailer], which
    only exists inside [parse_input] (entered from [DEnding] and left again on the same bytes). *)
Definition dech_ok (d : dechunker) : Prop := d <> DTrailer.

(** Inside the loop [DTrailer] is only entered when a non-empty line is in front. *)
Definition tr_ok (d : dechunker) (src : bytes) : Prop :=
  d = DTrailer -> exists i, find_crlf src = Some i /\ i <> 0.

Lemma dech_ok_tr_ok d src : dech_ok d -> tr_ok d src.
Proof. intros H E. contradiction. Qed.

(** Termination measure of the inner loop. *)
Definition mu12 (d : dechunker) (k : N) : N := 2 * k + match d with DTrailer => 0 | _ => 1 end.

Definition StepSafe (d : dechunker) (src : bytes) (room : N) (r : stepres) : Prop :=
  sr_in r <= len src /\
  len (sr_out r) <= room /\
  subseq (sr_out r) (take (sr_in r) src) /\
  (sr_more r = true ->
     tr_ok (sr_st r) (drop (sr_in r) src) /\ mu12 (sr_st r) (len src - sr_in r) < mu12 d (len src)) /\
  (sr_more r = false -> dech_ok (sr_st r)).

Lemma StepSafe_intro d src room st i o m :
  i <= len src -> len o <= room -> subseq o (take i src) ->
  (m = true -> tr_ok st (drop i src) /\ mu12 st (len src - i) < mu12 d (len src)) ->
  (m = false -> dech_ok st) ->
  StepSafe d src room {| sr_st := st; sr_in := i; sr_out := o; sr_more := m |}.
Proof. intros. unfold StepSafe. cbn [sr_in sr_out sr_more sr_st]. auto. Qed.

Ltac no_more := let E := fresh in intros E; discriminate E.
Ltac ok_state := intros _; unfold dech_ok; discriminate.
Ltac not_trailer := let E := fresh in intros E; discriminate E.

Lemma step_size_safe src room :
  match read_size src with
  | Panic _ => False
  | Err _ => True
  | Ok r => StepSafe DSize src room r
  end.
Proof.
  unfold read_size. destruct (find_crlf src) as [i|] eqn:Ef.
  - apply find_crlf_bound in Ef.
    destruct (SANITY_CHECK <? i); [exact I|].
    cbv zeta.
    destruct (negb (forallb (fun c => c <? 128) _)); [exact I|].
    destruct (parse_hex_usize _) as [n|]; [|exact I].
    apply StepSafe_intro; [lia|cbn [len]; lia|constructor| |no_more].
    intros _. split.
    + unfold tr_ok. destruct (n =? 0); not_trailer.
    + unfold mu12. destruct (n =? 0); lia.
  - apply StepSafe_intro; [lia|cbn [len]; lia|constructor|no_more|ok_state].
Qed.

Lemma step_data_safe lft src room :
  match read_data lft src room with
  | Panic _ => False
  | Err _ => True
  | Ok r => StepSafe (DChunk lft) src room r
  end.
Proof.
  unfold read_data. cbv zeta.
  set (t := N.min (N.min (len src) room) lft).
  apply StepSafe_intro.
  - lia.
  - rewrite len_take. lia.
  - apply subseq_refl.
  - intros Hm. split.
    + unfold tr_ok. destruct (lft - t =? 0); not_trailer.
    + destruct (N.ltb_spec 0 t); [|discriminate]. unfold mu12. destruct (lft - t =? 0); lia.
  - intros _. unfold dech_ok. destruct (lft - t =? 0); discriminate.
Qed.

Lemma step_crlf_safe src room :
  match expect_crlf src with
  | Panic _ => False
  | Err _ => True
  | Ok r => StepSafe DCrLf src room r
  end.
Proof.
  unfold expect_crlf. destruct (find_crlf src) as [i|] eqn:Ef.
  - apply find_crlf_bound in Ef. destruct (0 <? i); [exact I|].
    apply StepSafe_intro; [lia|cbn [len]; lia|constructor|no_more|ok_state].
  - apply StepSafe_intro; [lia|cbn [len]; lia|constructor|no_more|ok_state].
Qed.

Lemma step_ending_safe src room :
  match trailer_or_ended src with
  | Panic _ => False
  | Err _ => True
  | Ok r => StepSafe DEnding src room r
  end.
Proof.
  unfold trailer_or_ended. destruct (find_crlf src) as [i|] eqn:Ef.
  - pose proof (find_crlf_bound _ _ Ef) as Hb.
    destruct (N.eqb_spec i 0) as [->|Hi].
    + apply StepSafe_intro; [lia|cbn [len]; lia|constructor| |no_more].
      intros _. split; [unfold tr_ok; not_trailer|unfold mu12; lia].
    + apply StepSafe_intro; [lia|cbn [len]; lia|constructor| |no_more].
      intros _. split; [|unfold mu12; lia].
      intros _. rewrite drop_0. exists i. split; assumption.
  - apply StepSafe_intro; [lia|cbn [len]; lia|constructor|no_more|ok_state].
Qed.

(** The [assert!(i > 0)] site: unreachable because [DTrailer] is only entered on a non-empty line. *)
Lemma step_trailer_safe src room :
  tr_ok DTrailer src ->
  match trailer src with
  | Panic _ => False
  | Err _ => True
  | Ok r => StepSafe DTrailer src room r
  end.
Proof.
  intros Ht. destruct (Ht eq_refl) as (i & Ef & Hi).
  unfold trailer. rewrite Ef. pose proof (find_crlf_bound _ _ Ef) as Hb.
  destruct (N.eqb_spec i 0) as [->|_]; [congruence|].
  apply StepSafe_intro; [lia|cbn [len]; lia|constructor| |no_more].
  intros _. split; [unfold tr_ok; not_trailer|unfold mu12; lia].
Qed.

Lemma step_ended_safe src room :
  StepSafe DEnded src room {| sr_st := DEnded; sr_in := 0; sr_out := []; sr_more := false |}.
Proof. apply StepSafe_intro; [lia|cbn [len]; lia|constructor|no_more|ok_state]. Qed.

Lemma dech_step_safe d src room :
  tr_ok d src ->
  match dech_step d src room with
  | Panic _ => False
  | Err _ => True
  | Ok r => StepSafe d src room r
  end.
Proof.
  intros Ht. destruct d as [|lft| | | |]; cbn [dech_step].
  - apply step_size_safe.
  - apply step_data_safe.
  - apply step_crlf_safe.
  - apply step_ending_safe.
  - apply step_trailer_safe. exact Ht.
  - apply step_ended_safe.
Qed.

(** ** The inner loop ([Dechunker::parse_input]) *)

(** What a successful call reports, relative to its input [src] and output space [room]. *)
Definition Counts (src : bytes) (room : N) (k : N) (o : bytes) : Prop :=
  k <= len src /\ len o <= room /\ subseq o (take k src).

Lemma parse_loop_safe : forall fuel d src room used out,
  tr_ok d src -> mu12 d (len src) < N.of_nat fuel ->
  match parse_input_loop fuel d src room used out with
  | Panic _ => False
  | Err _ => True
  | Ok (d', used', out') =>
      exists k o, used' = used + k /\ out' = out ++ o /\ Counts src room k o /\ dech_ok d'
  end.
Proof.
  induction fuel as [|f IH]; intros d src room used out Ht Hmu; [lia|].
  cbn [parse_input_loop].
  pose proof (dech_step_safe d src room Ht) as Hs.
  destruct (dech_step d src room) as [r|e|s]; cbn [bind]; [|exact I|exact Hs].
  destruct Hs as (Hin & Hout & Hsub & Hmore & Hstop).
  destruct (sr_more r) eqn:Em.
  - destruct (Hmore eq_refl) as (Ht' & Hdec).
    specialize (IH (sr_st r) (drop (sr_in r) src) (room - len (sr_out r))
                   (used + sr_in r) (out ++ sr_out r) Ht').
    rewrite len_drop in IH. specialize (IH ltac:(lia)).
    destruct (parse_input_loop f _ _ _ _ _) as [[[d' used'] out']|e|s]; [|exact I|exact IH].
    destruct IH as (k & o & Hu & Ho & (Hk & Hlo & Hso) & Hd).
    exists (sr_in r + k), (sr_out r ++ o). split; [lia|]. split; [rewrite Ho, app_assoc; reflexivity|].
    split; [|exact Hd]. rewrite len_drop in Hk. split; [lia|]. split.
    + rewrite len_app. lia.
    + apply subseq_take_add; assumption.
  - exists (sr_in r), (sr_out r). split; [reflexivity|]. split; [reflexivity|].
    split; [|apply Hstop; reflexivity]. split; [exact Hin|]. split; assumption.
Qed.

Lemma parse_input_safe d src room :
  dech_ok d ->
  match parse_input d src room with
  | Panic _ => False
  | Err _ => True
  | Ok (d', k, o) => Counts src room k o /\ dech_ok d'
  end.
Proof.
  intros Hd. unfold parse_input.
  pose proof (parse_loop_safe (2 * List.length src + 3) d src room 0 [] (dech_ok_tr_ok d src Hd)) as H.
  assert (Hf : mu12 d (len src) < N.of_nat (2 * List.length src + 3)).
  { unfold mu12. rewrite len_length. destruct d; lia. }
  specialize (H Hf).
  destruct (parse_input_loop _ _ _ _ _ _) as [[[d' k] o]|e|s]; [|exact I|exact H].
  destruct H as (k' & o' & Hk & Ho & Hc & Hd'). cbn [app] in Ho. rewrite N.add_0_l in Hk. subst.
  split; assumption.
Qed.

(** ** The outer loop ([BodyReader::read_chunked]) *)
Lemma read_loop_safe stop : forall fuel d src room used out,
  dech_ok d -> len src < N.of_nat fuel ->
  match read_chunked_loop fuel d src room stop used out with
  | Panic _ => False
  | Err _ => True
  | Ok (d', used', out') =>
      exists k o, used' = used + k /\ out' = out ++ o /\ Counts src room k o /\ dech_ok d'
  end.
Proof.
  induction fuel as [|f IH]; intros d src room used out Hd Hf; [lia|].
  cbn [read_chunked_loop].
  pose proof (parse_input_safe d src room Hd) as Hp.
  destruct (parse_input d src room) as [[[d' i] o]|e|s]; cbn [bind]; [|exact I|exact Hp].
  destruct Hp as ((Hi & Hlo & Hso) & Hd').
  assert (Hdone : exists k o0, used + i = used + k /\ out ++ o = out ++ o0 /\ Counts src room k o0 /\ dech_ok d').
  { exists i, o. repeat split; assumption. }
  destruct (N.eqb_spec i 0) as [Hi0|Hi0]; cbn [orb]; [exact Hdone|].
  destruct ((len (drop i src) =? 0) || (room - len o =? 0)); [exact Hdone|].
  destruct (dech_is_ended d'); [exact Hdone|].
  destruct (stop && is_on_chunk_boundary d'); [exact Hdone|].
  clear Hdone.
  specialize (IH d' (drop i src) (room - len o) (used + i) (out ++ o) Hd').
  rewrite len_drop in IH. specialize (IH ltac:(lia)).
  destruct (read_chunked_loop f _ _ _ _ _ _) as [[[d'' used'] out']|e|s]; [|exact I|exact IH].
  destruct IH as (k & o2 & Hu & Ho & (Hk & Hlo2 & Hso2) & Hd'').
  exists (i + k), (o ++ o2). split; [lia|]. split; [rewrite Ho, app_assoc; reflexivity|].
  split; [|exact Hd'']. rewrite len_drop in Hk. split; [lia|]. split.
  - rewrite len_app. lia.
  - apply subseq_take_add; assumption.
Qed.

Theorem read_chunked_safe d src room stop :
  dech_ok d ->
  match read_chunked d src room stop with
  | Panic _ => False
  | Err _ => True
  | Ok (d', k, o) => Counts src room k o /\ dech_ok d'
  end.
Proof.
  intros Hd. unfold read_chunked.
  pose proof (read_loop_safe stop (List.length src + 1) d src room 0 [] Hd) as H.
  assert (Hf : len src < N.of_nat (List.length src + 1)) by (rewrite len_length; lia).
  specialize (H Hf).
  destruct (read_chunked_loop _ _ _ _ _ _ _) as [[[d' k] o]|e|s]; [|exact I|exact H].
  destruct H as (k' & o' & Hk & Ho & Hc & Hd'). cbn [app] in Ho. rewrite N.add_0_l in Hk. subst.
  split; assumption.
Qed.

(** ** All four readers *)

(** A reader that can exist between two calls. *)
Definition reader_ok (r : reader) : Prop :=
  match r with RChunked d => dech_ok d | _ => True end.

(** Outcome of one read: no panic (hence termination); an error is allowed; on success the counts
    are within bounds, the output is an in-order copy of consumed bytes, the framing is unchanged (a
    length reader counts down by what it consumed) and the new reader is again a between-calls
    reader, so the statement can be iterated. *)
Theorem reader_read_safe r w cap stop :
  reader_ok r ->
  match reader_read r w cap stop with
  | Panic _ => False
  | Err _ => True
  | Ok (r', i, out) =>
      i <= len w /\ len out <= cap /\ subseq out (take i w) /\ reader_ok r' /\
      match r, r' with
      | RNoBody, RNoBody | RClose, RClose | RChunked _, RChunked _ => True
      | RLength a, RLength b => b = a - i
      | _, _ => False
      end
  end.
Proof.
  intros Hr. destruct r as [|lft|d|]; cbn [reader_read].
  - cbn [len]. repeat split; try lia. constructor.
  - set (n := N.min (N.min (len w) cap) lft).
    repeat split; try lia.
    + rewrite len_take. lia.
    + apply subseq_refl.
  - pose proof (read_chunked_safe d w cap stop Hr) as H.
    destruct (read_chunked d w cap stop) as [[[d' i] o]|e|s]; cbn [bind]; [|exact I|exact H].
    destruct H as ((Hi & Ho & Hs) & Hd). repeat split; assumption.
  - set (n := N.min (len w) cap).
    repeat split; try lia.
    + rewrite len_take. lia.
    + apply subseq_refl.
Qed.

(** Length- and close-delimited readers: exactly the first [i] offered bytes. *)
Theorem read_length_exact lft w cap stop :
  exists i, reader_read (RLength lft) w cap stop = Ok (RLength (lft - i), i, take i w) /\
            i <= len w /\ i <= cap /\ i <= lft /\ len (take i w) = i.
Proof.
  exists (N.min (N.min (len w) cap) lft). cbn [reader_read]. split; [reflexivity|].
  rewrite len_take. lia.
Qed.

Theorem read_close_exact w cap stop :
  exists i, reader_read RClose w cap stop = Ok (RClose, i, take i w) /\
            i <= len w /\ i <= cap /\ len (take i w) = i.
Proof.
  exists (N.min (len w) cap). cbn [reader_read]. split; [reflexivity|].
  rewrite len_take. lia.
Qed.

Theorem read_nobody_exact w cap stop : reader_read RNoBody w cap stop = Ok (RNoBody, 0, []).
Proof. reflexivity. Qed.

(** ** Schedules: any number of reads, arbitrary window / capacity / stop flag each time. *)
Fixpoint sched_safe (r : reader) (sched : list (bytes * N * bool)) : Prop :=
  match sched with
  | [] => True
  | (w, cap, stop) :: rest =>
      match reader_read r w cap stop with
      | Panic _ => False
      | Err _ => True                        (* the exchange is over at the first error *)
      | Ok (r', i, out) =>
          i <= len w /\ len out <= cap /\ subseq out (take i w) /\ reader_ok r' /\
          sched_safe r' rest
      end
  end.

Theorem sched_safe_all sched : forall r, reader_ok r -> sched_safe r sched.
Proof.
  induction sched as [|[[w cap] stop] rest IH]; intros r Hr; cbn [sched_safe]; [exact I|].
  pose proof (reader_read_safe r w cap stop Hr) as H.
  destruct (reader_read r w cap stop) as [[[r' i] out]|e|s]; [|exact I|exact H].
  destruct H as (Hi & Ho & Hs & Hr' & _). repeat split; try assumption. apply IH. exact Hr'.
Qed.

(** Reachability of between-calls states: the start state is one. *)
Lemma reader_ok_start : reader_ok (RChunked DSize).
Proof. cbn. unfold dech_ok. discriminate. Qed.

(** The precondition cannot be dropped: in [DTrailer] an empty line would hit [assert!(i > 0)].
    (Kept as a remark about the model; the state never survives a call, by the theorems above.) *)
Lemma trailer_state_would_panic :
  exists s, reader_read (RChunked DTrailer) [13; 10] 10 false = Panic s.
Proof. eexists. vm_compute. reflexivity. Qed.
