(** C14: consequences of [loc_in_grammar] (C14_grammar.v) for the model's resolution: a Location
    of the grammar is text, all its bytes are URI bytes, and resolving it against a well-formed
    URI gives a well-formed request target (no SP, no control byte, no backslash, no non-ASCII). *)
From Coq Require Import Lia ZArith List.
From Hoot Require Import Base Chunk Body Httparse Parser Url Request Call Flow.
From Hoot.proofs Require Import BytesLemmas C17_proofs C02_proofs C02_analysis.
From Hoot.proofs Require Import C14_proofs C14_spec C14_grammar C14_rfc C14_rds C14_resolve C14_more.
Open Scope N_scope.

(* ------------------------------------------------------------------ bytes *)

Lemma g_hexdig_plain b : g_hexdig b = true -> g_plain b = true.
Proof.
  unfold g_hexdig, g_plain, g_unreserved, is_alpha, is_upper, is_lower.
  intros H. apply orb_true_iff in H. destruct H as [H|H].
  - apply orb_true_iff in H. destruct H as [H|H].
    + rewrite H. rewrite !orb_true_r. reflexivity.
    + apply andb_true_iff in H. destruct H as [H1 H2]. apply N.leb_le in H1, H2.
      replace ((65 <=? b) && (b <=? 90)) with true
        by (symmetry; apply andb_true_iff; split; apply N.leb_le; lia).
      reflexivity.
  - apply andb_true_iff in H. destruct H as [H1 H2]. apply N.leb_le in H1, H2.
    replace ((97 <=? b) && (b <=? 122)) with true
      by (symmetry; apply andb_true_iff; split; apply N.leb_le; lia).
    rewrite !orb_true_r. reflexivity.
Qed.

Lemma g_plain_uri_byte b : g_plain b = true -> g_uri_byte b = true.
Proof. intros H. unfold g_uri_byte. rewrite H. reflexivity. Qed.

Lemma g_chars_bytes_len : forall n s, (List.length s <= n)%nat ->
  g_chars s = true -> forall b, In b s -> g_uri_byte b = true.
Proof.
  induction n as [|n IH]; intros s Hn H b Hb.
  - destruct s; [contradiction|cbn in Hn; lia].
  - destruct s as [|c t]; [contradiction|]. cbn [g_chars] in H. cbn [List.length] in Hn.
    destruct (N.eqb_spec c 37) as [E|E].
    + destruct t as [|h1 [|h2 t']]; try discriminate.
      apply andb_true_iff in H. destruct H as [H H3]. apply andb_true_iff in H. destruct H as [H1 H2].
      destruct Hb as [<-|[<-|[<-|Hb]]].
      * subst c. reflexivity.
      * apply g_plain_uri_byte, g_hexdig_plain, H1.
      * apply g_plain_uri_byte, g_hexdig_plain, H2.
      * apply (IH t'); [cbn [List.length] in Hn; lia|exact H3|exact Hb].
    + apply andb_true_iff in H. destruct H as [H1 H2].
      destruct Hb as [<-|Hb]; [apply g_plain_uri_byte, H1|].
      apply (IH t); [lia|exact H2|exact Hb].
Qed.

Lemma g_chars_bytes s : g_chars s = true -> forall b, In b s -> g_uri_byte b = true.
Proof. apply (g_chars_bytes_len (List.length s)). lia. Qed.

(** What a URI byte is not: SP, a control byte, DEL, a non-ASCII byte, nor any of the bytes
    RFC 3986 excludes from URIs (double quote, "#" inside a component, "<", ">", "[", "\", "]",
    "^", "`", "{", "|", "}"). *)
Lemma g_uri_byte_range b :
  g_uri_byte b = true ->
  33 <= b <= 126 /\
  ~ In b [34; 35; 60; 62; 91; 92; 93; 94; 96; 123; 124; 125].
Proof.
  unfold g_uri_byte, g_plain, g_unreserved, g_sub_delim, is_alpha, is_upper, is_lower, is_digit.
  cbn [existsb In].
  rewrite !orb_true_iff, !andb_true_iff, !N.leb_le, !N.eqb_eq.
  intros H. split; [lia|]. intros K. lia.
Qed.

Lemma g_uri_byte_visible b : g_uri_byte b = true -> is_visible_ascii b = true.
Proof.
  intros H. apply g_uri_byte_range in H. destruct H as [H _]. unfold is_visible_ascii.
  apply orb_true_iff. left. apply andb_true_iff. split; [apply N.leb_le|apply N.ltb_lt]; lia.
Qed.

(* ------------------------------------------------------------------ a Location of the grammar *)

Lemma g_ref_part_until loc : g_ref_part loc = until 35 loc.
Proof. unfold g_ref_part. symmetry. apply until_span. Qed.

Lemma in_grammar_parts loc :
  loc_in_grammar loc = true ->
  g_chars (g_ref_part loc) = true /\
  (forall f, g_fragment_part loc = Some f -> g_chars f = true) /\
  g_shape (g_ref_part loc) = true.
Proof.
  unfold loc_in_grammar. intros H. apply andb_true_iff in H. destruct H as [H H3].
  apply andb_true_iff in H. destruct H as [H1 H2].
  split; [exact H1|]. split; [|exact H3].
  intros f E. rewrite E in H2. exact H2.
Qed.

(** Every byte of the reference (the Location without its fragment) is a URI byte. *)
Lemma in_grammar_ref_bytes loc b :
  loc_in_grammar loc = true -> In b (until 35 loc) -> g_uri_byte b = true.
Proof.
  intros H Hb. destruct (in_grammar_parts _ H) as (H1 & _ & _).
  rewrite <- g_ref_part_until in Hb. eapply g_chars_bytes; eauto.
Qed.

Lemma loc_split loc :
  loc = g_ref_part loc ++ match g_fragment_part loc with Some f => 35 :: f | None => [] end.
Proof.
  unfold g_ref_part, g_fragment_part.
  destruct (span (not_in [35]) loc) as [a r] eqn:E. cbn [fst snd].
  destruct (span_spec _ _ _ _ E) as (H1 & _ & H3).
  destruct r as [|c f]; [exact H1|].
  rewrite not_in_1 in H3. apply negb_false_iff in H3. apply N.eqb_eq in H3. subst c. exact H1.
Qed.

(** A Location of the grammar is text: the "not text" error branch cannot be taken. *)
Lemma in_grammar_text loc : loc_in_grammar loc = true -> is_text loc = true.
Proof.
  intros H. destruct (in_grammar_parts _ H) as (H1 & H2 & _).
  unfold is_text. rewrite (loc_split loc). rewrite forallb_app. apply andb_true_iff. split.
  - apply forallb_forall. intros b Hb. apply g_uri_byte_visible. eapply g_chars_bytes; eauto.
  - destruct (g_fragment_part loc) as [f|]; [|reflexivity].
    cbn [forallb]. apply andb_true_iff. split; [reflexivity|].
    apply forallb_forall. intros b Hb. apply g_uri_byte_visible.
    eapply g_chars_bytes; [apply H2; reflexivity|exact Hb].
Qed.

(* ------------------------------------------------------------------ well-formed targets *)

(** A path-and-query made of URI bytes only. *)
Definition pq_wellformed (u : uri) : Prop := forall b, In b (u_pq u) -> g_uri_byte b = true.

Lemma resolve_wellformed base loc t :
  loc_in_grammar loc = true -> pq_wellformed base -> resolve base loc = Some t -> pq_wellformed t.
Proof.
  intros Hg Hb Hr b Hin.
  destruct (resolve_pq_bytes _ _ _ _ Hr Hin) as [E|[E|[E|E]]].
  - subst b. reflexivity.
  - subst b. reflexivity.
  - eapply in_grammar_ref_bytes; eauto.
  - apply Hb. exact E.
Qed.

Lemma pq_wellformed_no_sp_ctl u b :
  pq_wellformed u -> In b (u_pq u) ->
  33 <= b <= 126 /\ b <> 32 /\ b <> 9 /\ b <> 13 /\ b <> 10 /\ b <> 92 /\ b <> 35.
Proof.
  intros H Hin. destruct (g_uri_byte_range b (H b Hin)) as [R N]. cbn [In] in N.
  repeat split; try lia; intros E; apply N; subst b; tauto.
Qed.

(** Flow level: the target of the request line of the next hop. *)
Lemma as_new_flow_wellformed f p f' next loc :
  as_new_flow f p = Ok (f', Some next) -> i_location f = Some loc ->
  loc_in_grammar loc = true -> pq_wellformed (cur_uri f) -> pq_wellformed (cur_uri next).
Proof.
  intros H Hl Hg Hb.
  destruct (as_new_flow_uri _ _ _ _ H) as (loc' & target & Hl' & Hr & Hu).
  assert (loc' = loc) by congruence. subst loc'. rewrite Hu.
  eapply resolve_wellformed; eauto.
Qed.

(** Along a chain whose Locations are all in the grammar, well-formedness of the first URI is
    inherited by every hop. *)
Lemma chain_wellformed f locs fin :
  redirect_chain f locs fin -> Forall (fun l => loc_in_grammar l = true) locs ->
  pq_wellformed (cur_uri f) -> pq_wellformed (cur_uri fin).
Proof.
  induction 1 as [f f' Hs|f f1 f1' p loc next locs fin Hs Hl Ha _ IH]; intros HF Hb.
  - rewrite (flow_steps_cur_uri _ _ Hs). exact Hb.
  - inversion HF; subst. apply IH; [assumption|].
    eapply as_new_flow_wellformed; eauto. rewrite (flow_steps_cur_uri _ _ Hs). exact Hb.
Qed.
