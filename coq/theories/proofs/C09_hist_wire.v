(** C09 (part 6): the two parser-level tests used by the history facts of proofs/C09_hist.v
    ([decided], [sees_100]), read on the wire for well-formed heads (grammar of C05_spec):
    - [try_read_100] decides exactly from the decision point on: the status line and the complete
      line after it (C11's [decision_point]);
    - [try_response] "sees a 100" exactly when the complete head has status 100 and no field line. *)
From Coq Require Import Lia ZArith.
From Hoot Require Import Base Chunk Body Httparse Parser Url Request Call Flow Script.
From Hoot.proofs Require Import BytesLemmas Reasons C05_spec C05_roundtrip C20_proofs C10_proofs C10_wire C09_hist.
From Hoot.proofs Require C11_proofs.
Open Scope N_scope.

Theorem decided_exact h rest n :
  wf_resp_head h ->
  decided (take n (render_response_head h ++ rest)) = (C11_proofs.decision_point h <=? n).
Proof.
  intros Hwf. unfold decided. destruct (N.leb_spec (C11_proofs.decision_point h) n) as [Hge|Hlt].
  - rewrite C11_proofs.window_after_decision by exact Hge.
    unfold C11_proofs.first_line, next_line, C11_proofs.after_first_line.
    destruct (rh_fields h) as [|fd fs] eqn:Ef; cbn [nth_error].
    + assert (Hw : forall t, render_status_line h ++ CRLF ++ t = render_response_head h ++ t).
      { intros t. unfold render_response_head. rewrite Ef. cbn [render_lines flat_map app].
        rewrite <- !app_assoc. reflexivity. }
      rewrite Hw. rewrite C11_proofs.parse0_bare by assumption. reflexivity.
    + rewrite (C11_proofs.parse0_field h fd fs _ Hwf Ef). reflexivity.
  - rewrite (parse0_before_decision h rest n Hwf Hlt). reflexivity.
Qed.

Lemma hm_append_nonempty m k v : hm_append m k v <> [].
Proof. destruct m as [|[k' vs] t]; cbn [hm_append]; [discriminate|]. destruct (beq_bytes k k'); discriminate. Qed.

Lemma hm_fold_nonempty l : forall m, m <> [] ->
  fold_left (fun m h => hm_append m (lower (fst h)) (snd h)) l m <> [].
Proof.
  induction l as [|x l IH]; intros m Hm; cbn [fold_left]; [exact Hm|].
  apply IH. apply hm_append_nonempty.
Qed.

Lemma hm_of_list_nil l : hm_of_list l = [] <-> l = [].
Proof.
  split; [|intros ->; reflexivity]. destruct l as [|x l]; [reflexivity|].
  unfold hm_of_list. cbn [fold_left]. intros H. exfalso.
  exact (hm_fold_nonempty l _ (hm_append_nonempty _ _ _) H).
Qed.

Theorem sees_100_complete h rest :
  wf_resp_head h -> (List.length (rh_fields h) <= 128)%nat ->
  sees_100 (render_response_head h ++ rest) = (rh_status h =? 100) && is_nil (rh_fields h).
Proof.
  intros Hwf Hn. unfold sees_100.
  rewrite (response_complete (N.to_nat MAX_RESPONSE_HEADERS) h rest Hwf Hn).
  change (rs_status (response_of h)) with (rh_status h). f_equal.
  unfold response_of. cbn [rs_headers].
  destruct (rh_fields h) as [|fd fs]; [reflexivity|].
  destruct (hm_of_list (headers_of (fd :: fs))) eqn:E; [|reflexivity].
  apply hm_of_list_nil in E. discriminate.
Qed.
