(** The successor-state decisions of src/client/flow.rs (the five [proceed] functions that branch), translated from the source on every
    run as decision skeletons (theories/Gen2.v, [gen_next_*]: flags -> option tag * list reason), agree with the model's flow:
    whenever the model's [proceed] succeeds, the state it moves to (or "stays") is the one the translated decision yields from the
    model's own flags, and the close reasons it adds on the way are the ones the translated code adds. *)
From Coq Require Import Lia.
From Hoot Require Import Base Chunk Body Httparse Parser Url Request Call Flow GenLib Gen Gen2.
Open Scope N_scope.

(** Adding the reasons of a list in order, each at most once ([add_close_reason]). *)
Fixpoint add_all (rs : list reason) (l : list reason) : res (list reason) :=
  match l with
  | [] => Ok rs
  | r :: t => do rs' <- add_reason rs r; add_all rs' t
  end.

Definition close_flag (f : inner) : bool :=
  match c_reader (i_call f) with Some r => reader_is_close r | None => false end.

(** The translated decisions as tables: proved by evaluating the generated (closed, boolean) functions on every combination of
    flags, hence independent of how the source nests or orders its tests. *)
Lemma gen_next_send_request_table cp ssb aw :
  gen_next_send_request cp ssb aw =
  (if negb cp then None else Some (if ssb then (if aw then TAwait100 else TSendBody) else TRecvResponse), []).
Proof. destruct cp, ssb, aw; reflexivity. Qed.
Lemma gen_next_await_100_table ssb : gen_next_await_100 ssb = (Some (if ssb then TSendBody else TRecvResponse), []).
Proof. destruct ssb; reflexivity. Qed.
Lemma gen_next_send_body_table cp : gen_next_send_body cp = (if negb cp then None else Some TRecvResponse, []).
Proof. destruct cp; reflexivity. Qed.
Lemma gen_next_recv_response_table cp nb cd ir :
  gen_next_recv_response cp nb cd ir =
  if negb cp then (None, [])
  else if nb then (Some TRecvBody, if cd then [CloseDelimitedBody] else [])
  else (Some (if ir then TRedirect else TCleanup), []).
Proof. destruct cp, nb, cd, ir; reflexivity. Qed.
Lemma gen_next_recv_body_table cp ir :
  gen_next_recv_body cp ir = (if negb cp then None else Some (if ir then TRedirect else TCleanup), []).
Proof. destruct cp, ir; reflexivity. Qed.

Lemma gen_next_send_request_ok f r :
  send_request_proceed f = Ok r ->
  exists cp, send_request_can_proceed f = Ok cp /\
             fst (gen_next_send_request cp (i_should_send_body f) (i_await_100 f)) = option_map fst r /\
             snd (gen_next_send_request cp (i_should_send_body f) (i_await_100 f)) = [].
Proof.
  unfold send_request_proceed.
  destruct (send_request_can_proceed f) as [cp|e|s]; cbn [bind]; try discriminate.
  intros H. exists cp. split; [reflexivity|]. rewrite gen_next_send_request_table.
  destruct cp; cbn [negb] in *.
  - destruct (i_should_send_body f).
    + destruct (i_await_100 f).
      * inversion H; subst; split; reflexivity.
      * destruct (analyze_request (i_call f)); cbn [bind] in H; try discriminate. inversion H; subst; split; reflexivity.
    + destruct (i_holder f); try discriminate.
      destruct (into_receive (i_call f)); try discriminate. inversion H; subst; split; reflexivity.
  - inversion H; subst; split; reflexivity.
Qed.

Lemma gen_next_await_100_ok f t f' :
  await_100_proceed f = Ok (t, f') ->
  gen_next_await_100 (i_should_send_body f) = (Some t, []).
Proof.
  rewrite gen_next_await_100_table. unfold await_100_proceed.
  destruct (i_should_send_body f).
  - destruct (analyze_request (i_call f)); cbn [bind]; try discriminate. intros H; inversion H; subst; reflexivity.
  - destruct (i_holder f); try discriminate. intros H; inversion H; subst; reflexivity.
Qed.

Lemma gen_next_send_body_ok f r :
  send_body_proceed f = Ok r ->
  exists cp, send_body_can_proceed f = Ok cp /\ gen_next_send_body cp = (option_map fst r, []).
Proof.
  unfold send_body_proceed.
  destruct (send_body_can_proceed f) as [cp|e|s]; cbn [bind]; try discriminate.
  intros H. exists cp. split; [reflexivity|]. rewrite gen_next_send_body_table.
  destruct cp; cbn [negb] in *.
  - destruct (into_receive (i_call f)); try discriminate. inversion H; subst; reflexivity.
  - inversion H; subst; reflexivity.
Qed.

Lemma is_redirect_set_call_holder f c h : is_redirect (set_call_holder f c h) = is_redirect f.
Proof. reflexivity. Qed.

Lemma gen_next_recv_response_ok f r :
  recv_response_proceed f = Ok r ->
  exists cp, recv_response_can_proceed f = Ok cp /\
    let g := gen_next_recv_response cp (need_response_body (i_call f)) (close_flag f) (is_redirect f) in
    fst g = option_map fst r /\
    match r with
    | Some (_, f') => add_all (i_reasons f) (snd g) = Ok (i_reasons f')
    | None => snd g = []
    end.
Proof.
  unfold recv_response_proceed, close_flag.
  destruct (recv_response_can_proceed f) as [cp|e|s]; cbn [bind]; try discriminate.
  intros H. exists cp. split; [reflexivity|]. cbv zeta. rewrite gen_next_recv_response_table.
  destruct cp; cbn [negb] in *.
  - destruct (need_response_body (i_call f)).
    + cbn [set_phase c_reader] in H.
      destruct (match c_reader (i_call f) with Some r0 => reader_is_close r0 | None => false end).
      * destruct (add_reason (i_reasons f) CloseDelimitedBody) as [rs|e|s] eqn:Ha; cbn [bind] in H; try discriminate.
        inversion H; subst. cbn [fst snd option_map add_all i_reasons]. rewrite Ha. cbn [bind]. split; reflexivity.
      * cbn [bind] in H. inversion H; subst. split; reflexivity.
    + inversion H; subst. rewrite is_redirect_set_call_holder.
      destruct (is_redirect f); split; reflexivity.
  - inversion H; subst. split; reflexivity.
Qed.

Lemma gen_next_recv_body_ok f r :
  recv_body_proceed f = Ok r ->
  exists cp, recv_body_can_proceed f = Ok cp /\ gen_next_recv_body cp (is_redirect f) = (option_map fst r, []).
Proof.
  unfold recv_body_proceed.
  destruct (recv_body_can_proceed f) as [cp|e|s]; cbn [bind]; try discriminate.
  intros H. exists cp. split; [reflexivity|]. rewrite gen_next_recv_body_table.
  destruct cp; cbn [negb] in *.
  - inversion H; subst. destruct (is_redirect f); reflexivity.
  - inversion H; subst. reflexivity.
Qed.

Print Assumptions gen_next_send_request_table.
Print Assumptions gen_next_await_100_table.
Print Assumptions gen_next_send_body_table.
Print Assumptions gen_next_recv_response_table.
Print Assumptions gen_next_recv_body_table.
Print Assumptions gen_next_send_request_ok.
Print Assumptions gen_next_await_100_ok.
Print Assumptions gen_next_send_body_ok.
Print Assumptions gen_next_recv_response_ok.
Print Assumptions gen_next_recv_body_ok.

