(** C15: redirect method rewriting follows the documented table. *)
From Coq Require Import Lia ZArith.
From Hoot Require Import Base Chunk Body Parser Url Request Call Flow.
From Hoot.proofs Require Import BytesLemmas Reasons C06_proofs.
Open Scope N_scope.

(** The table of the statement: [None] = the redirect is not followed. *)
Definition redirect_method (status : N) (m : method) : option method :=
  if (status =? 307) || (status =? 308) then
    match m with
    | POST | PUT | PATCH | DELETE => None
    | _ => Some m
    end
  else
    match m with
    | HEAD => Some HEAD
    | GET => Some GET
    | _ => Some GET
    end.

Definition all_methods := [GET; HEAD; POST; PUT; DELETE; CONNECT; OPTIONS; TRACE; PATCH].

Lemma all_methods_complete m : In m all_methods.
Proof. destruct m; cbn; auto 10. Qed.

(** The model's method selection (the expression inside [as_new_flow]). *)
Definition model_new_method (status : N) (m : method) : option method :=
  if is_retaining status then
    if need_request_body m then None
    else if method_eqb m DELETE then None
    else Some m
  else
    match m with GET | HEAD => Some m | _ => Some GET end.

Lemma model_new_method_table status m : model_new_method status m = redirect_method status m.
Proof.
  unfold model_new_method, redirect_method, is_retaining.
  destruct ((status =? 307) || (status =? 308)); destruct m; reflexivity.
Qed.

(** [flow_new] cannot fail: at most two pushes onto an empty list. *)
Lemma flow_new_ok r : exists f, flow_new r = Ok f /\
  c_req (i_call f) = am_new r /\ i_status f = None /\ i_location f = None /\
  i_holder f = (if need_request_body (rq_method r) then HWithBody else HWithoutBody).
Proof.
  unfold flow_new, push_reason.
  destruct (rq_version r); cbn [bind len];
    destruct (headers_has (rq_headers r) (s2b "connection") (s2b "close")); cbn [bind len app];
    eexists; (split; [reflexivity|]); cbn; auto.
Qed.

(** What [as_new_flow] does with the method, for every status and every method. *)
Lemma as_new_flow_method f p loc status orig target :
  i_location f = Some loc -> is_text loc = true -> i_status f = Some status ->
  am_req (c_req (i_call f)) = Some orig ->
  u_scheme (am_eff_uri (c_req (i_call f))) <> [] ->
  resolve (am_eff_uri (c_req (i_call f))) loc = Some target ->
  match redirect_method status (rq_method orig) with
  | None => as_new_flow f p = Ok (f, None)
  | Some nm =>
      exists f' nxt, as_new_flow f p = Ok (f', Some nxt) /\
                     am_method (c_req (i_call nxt)) = nm /\
                     am_eff_uri (c_req (i_call nxt)) = target /\
                     am_version (c_req (i_call nxt)) = rq_version orig
  end.
Proof.
  intros Hl Ht Hs Hr Hsch Hres.
  rewrite <- model_new_method_table.
  unfold as_new_flow. rewrite Hl, Ht. cbn [negb]. rewrite Hs.
  destruct (u_scheme (am_eff_uri (c_req (i_call f)))) eqn:Es; [congruence|]. rewrite Hres.
  assert (Hm : am_method (c_req (i_call f)) = rq_method orig).
  { unfold am_method, am_request. rewrite Hr. reflexivity. }
  rewrite Hm. fold (model_new_method status (rq_method orig)).
  destruct (model_new_method status (rq_method orig)) as [nm|] eqn:En; [|reflexivity].
  rewrite Hr.
  set (req := {| rq_method := nm; rq_version := rq_version orig; rq_uri := rq_uri orig; rq_headers := rq_headers orig |}).
  destruct (flow_new_ok req) as (nf & Hnf & Hreq & _).
  rewrite Hnf. cbn [bind]. rewrite Hreq.
  unfold am_unset_header, am_set_uri, am_new. cbn [am_unset am_req am_uri am_added len].
  destruct (match p with Never => false | SameHost => can_redirect_auth_header (rq_uri orig) target end);
    cbn [bind len app]; do 2 eexists; (split; [reflexivity|]); cbn; auto.
Qed.

(** The redirect state is entered exactly for 3xx other than 304, on both paths into it, and it
    reports the status that was received. *)
Lemma enter_after_head f r status :
  i_holder f = HRecvResponse -> c_reader (i_call f) = Some r -> i_status f = Some status ->
  NoDup (i_reasons f) -> expects_body r = false ->
  exists f', recv_response_proceed f =
             Ok (Some (if is_redirect_status status then TRedirect else TCleanup, f')) /\
             i_status f' = Some status.
Proof.
  intros Hh Hr Hs Hnd He.
  destruct (successor_state f r status Hh Hr Hs Hnd) as (f' & Hp & _ & _ & Hs').
  unfold successor in Hp. rewrite He in Hp. eauto.
Qed.

Lemma enter_after_body f status b :
  i_status f = Some status -> recv_body_can_proceed f = Ok b ->
  recv_body_proceed f =
    if b then Ok (Some (if is_redirect_status status then TRedirect else TCleanup, f)) else Ok None.
Proof.
  intros Hs Hc. unfold recv_body_proceed. rewrite Hc. cbn [bind].
  destruct b; cbn [negb]; [|reflexivity]. rewrite (is_redirect_spec f status Hs). reflexivity.
Qed.

Lemma status_recorded f input f' used rsp :
  recv_try_response f input = Ok (f', used, Some rsp) -> i_status f' = Some (rs_status rsp).
Proof.
  unfold recv_try_response. intros H.
  destruct (as_recv_response f) as [c|e|s]; cbn [bind] in H; try discriminate.
  destruct (call_try_response c input) as [[c' got]|e|s]; cbn [bind] in H; try discriminate.
  destruct got as [[u r0]|]; [|discriminate].
  destruct ((rs_status r0 =? 100) && i_await_100 (set_call f c')); [discriminate|].
  match type of H with (bind ?X _ = _) => destruct X as [rs|e|s] end; cbn [bind] in H; try discriminate.
  inversion H; subst. reflexivity.
Qed.
