(** C07, part 7: framing bytes need no output room.

    The CRLF after chunk data, the size line of the last-chunk, trailer lines and the final CRLF
    produce no output, so a read whose output buffer is EMPTY (cap = 0) must still consume them.
    The liveness statements of C07_proofs.v ([step_progress], [run_reaches_end]) assume [1 <= cap];
    here the same is shown without that premise for every state that is not inside chunk data, and
    the tail of a coding (everything after the last data byte) is shown to drain under reads with no
    output room at all. *)
From Coq Require Import Lia ZArith.
From Hoot Require Import Base Chunk Body.
From Hoot.proofs Require Import BytesLemmas C07_spec C07_sizeline C07_sim C07_proofs C07_more.
Open Scope N_scope.

(** ** The loops never decrease the consumed count *)

Lemma parse_loop_mono : forall fuel st src room used acc st' u o,
  parse_input_loop fuel st src room used acc = Ok (st', u, o) -> used <= u.
Proof.
  induction fuel as [|f IH]; intros st src room used acc st' u o H; cbn [parse_input_loop] in H.
  - discriminate H.
  - destruct (dech_step st src room) as [r| |]; cbn [bind] in H; try discriminate H.
    destruct (sr_more r).
    + apply IH in H. lia.
    + inversion H; subst. lia.
Qed.

Lemma read_loop_mono : forall fuel st src room stop used acc st' u o,
  read_chunked_loop fuel st src room stop used acc = Ok (st', u, o) -> used <= u.
Proof.
  induction fuel as [|f IH]; intros st src room stop used acc st' u o H; cbn [read_chunked_loop] in H.
  - discriminate H.
  - destruct (parse_input st src room) as [[[d' i] o1]| |]; cbn [bind] in H; try discriminate H.
    destruct ((i =? 0) || (len (drop i src) =? 0) || (room - len o1 =? 0)).
    { inversion H; subst. lia. }
    destruct (dech_is_ended d').
    { inversion H; subst. lia. }
    destruct (stop && is_on_chunk_boundary d').
    { inversion H; subst. lia. }
    apply IH in H. lia.
Qed.

(** ** Outside chunk data a transition does not look at the output room *)

Definition not_in_data (st : dechunker) : Prop := forall n, st <> DChunk n.

Lemma dech_step_room st src room room' :
  not_in_data st -> dech_step st src room = dech_step st src room'.
Proof. intros Hn. destruct st; try reflexivity. exfalso. eapply Hn. reflexivity. Qed.

(** ** The inner loop: progress without output room *)

Lemma parse_loop_progress rest : forall fuel st k R ds room used acc st' u o,
  pre st k R ds -> len R <= k -> st <> DEnded -> not_in_data st ->
  parse_input_loop fuel st (take k (R ++ rest)) room used acc = Ok (st', u, o) ->
  used + 1 <= u.
Proof.
  induction fuel as [|f IH]; intros st k R ds room used acc st' u o Hpre Hk Hne Hnd H;
    cbn [parse_input_loop] in H; [discriminate H|].
  destruct (step_sim rest st k R ds 1 Hpre) as (r & C1 & R1 & ds1 & Heq & Hok).
  rewrite (dech_step_room st _ room 1 Hnd) in H. rewrite Heq in H. cbn [bind] in H.
  destruct Hok as (HR & HC & Hin & _ & _ & Hpre1 & _ & _ & _ & _ & _ & _ & Hprog).
  assert (H1 : 1 <= 1) by lia.
  destruct (Hprog Hk H1 Hne) as [Hp|(Hp1 & Hp2 & _)].
  - destruct (sr_more r).
    + apply parse_loop_mono in H. lia.
    + inversion H; subst. lia.
  - rewrite Hp2 in H.
    assert (Hwin : drop (sr_in r) (take k (R ++ rest)) = take (k - sr_in r) (R1 ++ rest)).
    { rewrite HR, <- HC. apply window_next. lia. }
    rewrite Hwin in H.
    apply IH with (ds := ds1) in H.
    + lia.
    + exact Hpre1.
    + rewrite HR, len_app in Hk. lia.
    + rewrite Hp1. discriminate.
    + rewrite Hp1. intros n. discriminate.
Qed.

Lemma parse_input_progress rest st k R ds room st' i o :
  rel st R ds -> len R <= k -> st <> DEnded -> not_in_data st ->
  parse_input st (take k (R ++ rest)) room = Ok (st', i, o) ->
  1 <= i.
Proof.
  intros Hrel Hk Hne Hnd H. unfold parse_input in H.
  eapply parse_loop_progress in H; eauto using rel_pre; lia.
Qed.

(** ** One read: progress without output room *)

(** With the remaining coding visible, a read in a state that is neither ended nor inside chunk data
    consumes at least one byte, whatever the output room (zero included) and the stop flag. *)
Lemma step_progress_no_room st R ds rest k cap stop st' i out :
  rel st R ds -> len R <= k -> dech_is_ended st = false -> (forall n, st <> DChunk n) ->
  read_chunked st (take k (R ++ rest)) cap stop = Ok (st', i, out) ->
  1 <= i.
Proof.
  intros Hrel Hk He Hnd H. unfold read_chunked in H.
  rewrite Nat.add_1_r in H. cbn [read_chunked_loop] in H.
  destruct (parse_input st (take k (R ++ rest)) cap) as [[[d1 i1] o1]| |] eqn:Hp; cbn [bind] in H;
    try discriminate H.
  assert (Hi : 1 <= i1).
  { eapply parse_input_progress; eauto. intros E; rewrite E in He; discriminate He. }
  rewrite N.add_0_l in H.
  destruct ((i1 =? 0) || (len (drop i1 (take k (R ++ rest))) =? 0) || (cap - len o1 =? 0)).
  { inversion H; subst. exact Hi. }
  destruct (dech_is_ended d1).
  { inversion H; subst. exact Hi. }
  destruct (stop && is_on_chunk_boundary d1).
  { inversion H; subst. exact Hi. }
  apply read_loop_mono in H. lia.
Qed.

(** ** Draining the tail of a coding

    From here on no payload is left: the relation holds with [ds = []], i.e. the decoder stands at
    the CRLF after the last data chunk, at the last-chunk size line, at a trailer line or the final
    CRLF, or has ended. *)

(** With no payload left the decoder is not inside chunk data. *)
Lemma rel_nil_not_in_data st R : rel st R [] -> forall n, st <> DChunk n.
Proof.
  intros Hrel n ->. cbn [rel] in Hrel. destruct Hrel as (d & R' & ds' & _ & E & _). discriminate E.
Qed.

Lemma shrink_nil ds' : Shrink [] ds' -> ds' = [].
Proof. intros H. inversion H. reflexivity. Qed.

(** A related position whose remaining payload is empty has no remaining pieces at all. *)
Lemma sizepos_pieces R ds : SizePos R ds -> concat ds = [] -> ds = [].
Proof.
  intros H Hc. destruct H as [|line d R0 ds0 _ _ _ Hd _]; [reflexivity|].
  cbn [concat] in Hc. apply app_eq_nil in Hc. destruct Hc as [-> _]. cbn [len] in Hd. lia.
Qed.

Lemma rel_no_payload st R ds : rel st R ds -> concat ds = [] -> ds = [].
Proof.
  destruct st; cbn [rel]; intros H Hc.
  - eapply sizepos_pieces; eassumption.
  - destruct H as (d & R' & ds' & _ & -> & -> & Hpos & _). cbn [concat] in Hc.
    apply app_eq_nil in Hc. destruct Hc as [-> _]. cbn [len] in Hpos. lia.
  - destruct H as (R' & _ & H). eapply sizepos_pieces; eassumption.
  - tauto.
  - contradiction.
  - tauto.
Qed.

Lemma window_line (line R0 rest : bytes) k :
  len line + 2 <= k ->
  drop (len line + 2) (take k (line ++ CRLF ++ R0 ++ rest)) = take (k - (len line + 2)) (R0 ++ rest).
Proof.
  intros Hk. pose proof (window_next (line ++ CRLF) R0 rest k) as W.
  rewrite len_app, len_CRLF in W. rewrite <- W by assumption.
  rewrite <- !app_assoc. reflexivity.
Qed.

(** States from which, with the rest of the coding visible, one [parse_input] runs to the end. *)
Definition late (st : dechunker) : Prop := st = DSize \/ st = DEnding \/ st = DTrailer \/ st = DEnded.

Lemma parse_loop_drain rest : forall fuel st k R room used acc st' u o,
  pre st k R [] -> len R <= k -> late st ->
  parse_input_loop fuel st (take k (R ++ rest)) room used acc = Ok (st', u, o) ->
  st' = DEnded.
Proof.
  induction fuel as [|f IH]; intros st k R room used acc st' u o Hpre Hk Hl H;
    cbn [parse_input_loop] in H; [discriminate H|].
  destruct Hl as [->|[->|[->| ->]]]; cbn [dech_step pre rel] in *.
  - (* size line of the last-chunk *)
    inversion Hpre as [line R0 Hcr Hsl Hsan HE E1 E2|]; subst.
    rewrite !len_app, len_CRLF in Hk.
    replace ((line ++ CRLF ++ R0) ++ rest) with (line ++ CRLF ++ (R0 ++ rest)) in H
      by (rewrite <- !app_assoc; reflexivity).
    rewrite (read_size_ok line 0) in H by (try assumption; lia).
    cbn [N.eqb bind sr_more sr_st sr_in sr_out] in H.
    rewrite window_line in H by lia.
    eapply IH in H; [exact H| |lia|right; left; reflexivity].
    cbn [pre rel]. split; [assumption|reflexivity].
  - (* trailer line or final CRLF *)
    destruct Hpre as [HE _]. unfold trailer_or_ended in H.
    inversion HE as [E|t R0 Hne Hcr HE0 E]; subst.
    + change (CRLF ++ rest) with ([] ++ CRLF ++ ([] ++ rest)) in H.
      rewrite find_crlf_window in H by apply cr_free_nil.
      change (len CRLF) with 2 in Hk. cbn [len] in H.
      destruct (N.leb_spec (0 + 2) k) as [_|?]; [|lia].
      cbn [N.eqb bind sr_more sr_st sr_in sr_out] in H.
      change 2 with (len (@nil N) + 2) in H at 1. rewrite window_line in H by (cbn [len]; lia).
      eapply IH in H; [exact H| |cbn [len]; lia|right; right; right; reflexivity].
      cbn [pre rel]. split; reflexivity.
    + rewrite !len_app, len_CRLF in Hk.
      replace ((t ++ CRLF ++ R0) ++ rest) with (t ++ CRLF ++ (R0 ++ rest)) in H
        by (rewrite <- !app_assoc; reflexivity).
      rewrite find_crlf_window in H by assumption.
      pose proof (len_pos_of_ne t Hne) as Hpos.
      destruct (N.leb_spec (len t + 2) k) as [_|?]; [|lia].
      destruct (N.eqb_spec (len t) 0) as [?|_]; [lia|].
      cbn [bind sr_more sr_st sr_in sr_out] in H. rewrite drop_0 in H.
      replace (t ++ CRLF ++ R0 ++ rest) with ((t ++ CRLF ++ R0) ++ rest) in H
        by (rewrite <- !app_assoc; reflexivity).
      eapply IH in H; [exact H| |rewrite !len_app, len_CRLF; lia|right; right; left; reflexivity].
      cbn [pre]. exists t, R0. repeat split; try assumption. lia.
  - (* inside a trailer line *)
    destruct Hpre as (t & R0 & -> & Hne & Hcr & HE & Ht & _). unfold trailer in H.
    rewrite !len_app, len_CRLF in Hk.
    replace ((t ++ CRLF ++ R0) ++ rest) with (t ++ CRLF ++ (R0 ++ rest)) in H
      by (rewrite <- !app_assoc; reflexivity).
    rewrite find_crlf_window in H by assumption.
    pose proof (len_pos_of_ne t Hne) as Hpos.
    destruct (N.leb_spec (len t + 2) k) as [_|?]; [|lia].
    destruct (N.eqb_spec (len t) 0) as [?|_]; [lia|].
    cbn [bind sr_more sr_st sr_in sr_out] in H.
    rewrite window_line in H by lia.
    eapply IH in H; [exact H| |lia|right; left; reflexivity].
    cbn [pre rel]. split; [assumption|reflexivity].
  - (* ended *)
    cbn [bind sr_more sr_st] in H. inversion H. reflexivity.
Qed.

(** One [parse_input] at the last-chunk line, a trailer line or the final CRLF, with the rest of the
    coding visible: consumes all of it and ends, whatever the output room. *)
Lemma parse_input_drain rest st k R room :
  rel st R [] -> len R <= k -> st = DSize \/ st = DEnding \/ st = DEnded ->
  parse_input st (take k (R ++ rest)) room = Ok (DEnded, len R, []).
Proof.
  intros Hrel Hk Hst.
  destruct (parse_input_sim rest st k R [] room Hrel) as (st' & C & R' & o & ds' & Heq & Hok).
  destruct Hok as (HR & _ & Hcat & _ & Hrel' & _).
  assert (Hs : st' = DEnded).
  { unfold parse_input in Heq. eapply parse_loop_drain in Heq; [exact Heq| |exact Hk|].
    - apply rel_pre. exact Hrel.
    - unfold late. tauto. }
  subst st'. cbn [rel] in Hrel'. destruct Hrel' as [-> _].
  cbn [concat] in Hcat. symmetry in Hcat. apply app_eq_nil in Hcat. destruct Hcat as [-> _].
  rewrite app_nil_r in HR. subst C. exact Heq.
Qed.

Lemma read_loop_drain rest fuel st k R cap stop used acc st' u o :
  rel st R [] -> len R <= k -> st = DSize \/ st = DEnding \/ st = DEnded ->
  read_chunked_loop fuel st (take k (R ++ rest)) cap stop used acc = Ok (st', u, o) ->
  st' = DEnded.
Proof.
  intros Hrel Hk Hst H. destruct fuel as [|f]; cbn [read_chunked_loop] in H; [discriminate H|].
  rewrite (parse_input_drain rest st k R cap Hrel Hk Hst) in H. cbn [bind] in H.
  destruct ((len R =? 0) || (len (drop (len R) (take k (R ++ rest))) =? 0) || (cap - len (@nil N) =? 0)).
  - inversion H. reflexivity.
  - cbn [dech_is_ended] in H. inversion H. reflexivity.
Qed.

(** The CRLF after the last data chunk: one [parse_input] consumes exactly it. *)
Lemma parse_input_crlf rest k R0 room :
  2 <= k -> parse_input DCrLf (take k ((CRLF ++ R0) ++ rest)) room = Ok (DSize, 2, []).
Proof.
  intros Hk. unfold parse_input.
  replace (2 * List.length (take k ((CRLF ++ R0) ++ rest)) + 3)%nat
    with (S (2 * List.length (take k ((CRLF ++ R0) ++ rest)) + 2))%nat by lia.
  cbn [parse_input_loop dech_step]. unfold expect_crlf.
  replace ((CRLF ++ R0) ++ rest) with ([] ++ CRLF ++ (R0 ++ rest)) by (rewrite <- app_assoc; reflexivity).
  rewrite find_crlf_window by apply cr_free_nil. cbn [len].
  destruct (N.leb_spec (0 + 2) k) as [_|?]; [|lia].
  reflexivity.
Qed.

Lemma read_crlf_state rest k R cap stop st' i o :
  rel DCrLf R [] -> len R <= k ->
  read_chunked DCrLf (take k (R ++ rest)) cap stop = Ok (st', i, o) ->
  st' = DSize \/ st' = DEnded.
Proof.
  intros Hrel Hk H. cbn [rel] in Hrel. destruct Hrel as (R0 & -> & HS).
  rewrite len_app, len_CRLF in Hk.
  unfold read_chunked in H. rewrite Nat.add_1_r in H. cbn [read_chunked_loop] in H.
  rewrite parse_input_crlf in H by lia. cbn [bind] in H.
  destruct ((2 =? 0) || (len (drop 2 (take k ((CRLF ++ R0) ++ rest))) =? 0) || (cap - len (@nil N) =? 0)).
  { inversion H. left; reflexivity. }
  cbn [dech_is_ended] in H.
  destruct (stop && is_on_chunk_boundary DSize).
  { inversion H. left; reflexivity. }
  pose proof (window_next CRLF R0 rest k) as W. change (len CRLF) with 2 in W.
  rewrite W in H by lia.
  right. eapply read_loop_drain in H; [exact H|exact HS|lia|left; reflexivity].
Qed.

(** ** Schedules *)

(** A schedule item whose window shows at least [n] unconsumed bytes (any output room, zero
    included; any stop flag). *)
Definition sees (n : N) (o : N * N * bool) : Prop := let '(k, _, _) := o in n <= k.

Lemma sees_le n m o : m <= n -> sees n o -> sees m o.
Proof. destruct o as [[k cap] stop]. unfold sees. lia. Qed.

(** One read of such a schedule in the tail of a coding. *)
Lemma cstep_drain stream rest t R k cap stop :
  rel (t_st t) R [] -> drop (t_consumed t) stream = R ++ rest -> len R <= k ->
  exists t' C R',
    cstep stream t (k, cap, stop) = Ok t' /\ R = C ++ R' /\
    t_consumed t' = t_consumed t + len C /\ t_out t' = t_out t /\
    rel (t_st t') R' [] /\ drop (t_consumed t') stream = R' ++ rest /\
    (dech_is_ended (t_st t) = false -> 1 <= len C) /\
    (t_st t <> DCrLf -> t_st t' = DEnded) /\
    (t_st t' = DSize \/ t_st t' = DEnding \/ t_st t' = DEnded).
Proof.
  intros Hrel Hdrop Hk.
  destruct (read_chunked_sim rest (t_st t) k R [] cap stop Hrel)
    as (st' & C & R' & out & ds' & Heq & HR & HC & Hcat & Hcap & Hrel' & Hsh & _ & _).
  apply shrink_nil in Hsh. subst ds'.
  cbn [concat] in Hcat. rewrite app_nil_r in Hcat. subst out.
  unfold cstep. rewrite Hdrop, Heq. cbn [bind].
  eexists; exists C, R'. split; [reflexivity|]. cbn [t_st t_consumed t_out].
  split; [assumption|]. split; [reflexivity|]. split; [apply app_nil_r|]. split; [assumption|].
  split.
  { rewrite <- drop_drop, Hdrop, HR, <- app_assoc. apply drop_app_exact. }
  split.
  { intros He. eapply step_progress_no_room; [exact Hrel|exact Hk|exact He| |exact Heq].
    eapply rel_nil_not_in_data. exact Hrel. }
  assert (Hlate : t_st t <> DCrLf -> st' = DEnded).
  { intros Hne. unfold read_chunked in Heq.
    eapply read_loop_drain in Heq; [exact Heq|exact Hrel|exact Hk|].
    destruct (t_st t) eqn:Es; try tauto.
    - exfalso. eapply rel_nil_not_in_data; [exact Hrel|reflexivity].
    - cbn [rel] in Hrel. contradiction. }
  split; [exact Hlate|].
  destruct (t_st t) eqn:Es.
  - right; right. apply Hlate. discriminate.
  - exfalso. eapply rel_nil_not_in_data; [exact Hrel|reflexivity].
  - eapply read_crlf_state in Heq; [tauto|exact Hrel|exact Hk].
  - right; right. apply Hlate. discriminate.
  - cbn [rel] in Hrel. contradiction.
  - right; right. apply Hlate. discriminate.
Qed.

(** Any schedule of reads that see the rest of the coding, of length at least [len R], drains it:
    the decoder ends, exactly [len R] bytes are consumed (no byte of [rest]), nothing is output.
    No assumption on the output room of any read: all of them may offer none. *)
Lemma drain_no_room stream rest : forall sched t R,
  rel (t_st t) R [] -> drop (t_consumed t) stream = R ++ rest ->
  Forall (sees (len R)) sched -> len R <= len sched ->
  exists t', crun stream t sched = Ok t' /\
    dech_is_ended (t_st t') = true /\ t_consumed t' = t_consumed t + len R /\ t_out t' = t_out t.
Proof.
  induction sched as [|[[k cap] stop] s IH]; intros t R Hrel Hdrop Hall Hn; cbn [crun].
  - exists t. cbn [len] in Hn. assert (H0 : len R = 0) by lia.
    rewrite (rel_done _ _ _ Hrel H0). rewrite H0. cbn [dech_is_ended].
    split; [reflexivity|]. split; [reflexivity|]. split; [lia|reflexivity].
  - inversion Hall as [|? ? Hvis Hall']; subst. unfold sees in Hvis.
    destruct (cstep_drain stream rest t R k cap stop Hrel Hdrop Hvis)
      as (t1 & C & R1 & Heq & HR & Hc & Ho & Hrel1 & Hdrop1 & Hprog & _).
    rewrite Heq. cbn [bind].
    assert (HlenR : len R = len C + len R1) by (rewrite HR, len_app; reflexivity).
    destruct (IH t1 R1 Hrel1 Hdrop1) as (t' & Hrun & He & Hc' & Ho').
    + eapply Forall_impl; [|exact Hall']. intros o. apply sees_le. lia.
    + rewrite len_cons in Hn.
      destruct (dech_is_ended (t_st t)) eqn:Hend.
      * apply (rel_ended_iff _ _ _ Hrel) in Hend. rewrite Hend in HlenR. cbn [len] in HlenR. lia.
      * specialize (Hprog eq_refl). lia.
    + exists t'. split; [exact Hrun|]. split; [exact He|]. split; [lia|congruence].
Qed.

(** The sharp bound: two such reads always suffice (the first may stop after the CRLF that follows the
    last data chunk, the second runs through the last-chunk line, the trailers and the final CRLF),
    and one suffices unless the decoder stands at that CRLF. *)
Lemma drain_no_room_two_reads stream rest sched t R :
  rel (t_st t) R [] -> drop (t_consumed t) stream = R ++ rest ->
  Forall (sees (len R)) sched ->
  (if dechunker_eqb (t_st t) DCrLf then 2 else 1) <= len sched ->
  exists t', crun stream t sched = Ok t' /\
    dech_is_ended (t_st t') = true /\ t_consumed t' = t_consumed t + len R /\ t_out t' = t_out t.
Proof.
  intros Hrel Hdrop Hall Hn.
  assert (Hone : forall s t0 R0, rel (t_st t0) R0 [] -> drop (t_consumed t0) stream = R0 ++ rest ->
            Forall (sees (len R0)) s -> 1 <= len s -> t_st t0 <> DCrLf ->
            exists t', crun stream t0 s = Ok t' /\
              dech_is_ended (t_st t') = true /\ t_consumed t' = t_consumed t0 + len R0 /\ t_out t' = t_out t0).
  { intros s t0 R0 Hrel0 Hdrop0 Hall0 Hn0 Hne. destruct s as [|[[k cap] stop] s]; [cbn [len] in Hn0; lia|].
    inversion Hall0 as [|? ? Hvis Hall']; subst. unfold sees in Hvis. cbn [crun].
    destruct (cstep_drain stream rest t0 R0 k cap stop Hrel0 Hdrop0 Hvis)
      as (t1 & C & R1 & Heq & HR & Hc & Ho & Hrel1 & Hdrop1 & _ & Hend & _).
    rewrite Heq. cbn [bind]. specialize (Hend Hne).
    assert (HR1 : R1 = []).
    { rewrite Hend in Hrel1. cbn [rel] in Hrel1. tauto. }
    subst R1. rewrite app_nil_r in HR. subst C.
    destruct (drain_no_room stream rest s t1 [] Hrel1 Hdrop1) as (t' & Hrun & He & Hc' & Ho').
    - apply Forall_forall. intros [[k' cap'] stop'] _. unfold sees. cbn [len]. lia.
    - cbn [len]. lia.
    - exists t'. split; [exact Hrun|]. split; [exact He|]. cbn [len] in Hc'. split; [lia|congruence]. }
  destruct (dechunker_eqb (t_st t) DCrLf) eqn:Hc.
  - destruct sched as [|[[k cap] stop] s]; [cbn [len] in Hn; lia|].
    inversion Hall as [|? ? Hvis Hall']; subst. unfold sees in Hvis. cbn [crun].
    destruct (cstep_drain stream rest t R k cap stop Hrel Hdrop Hvis)
      as (t1 & C & R1 & Heq & HR & Hc1 & Ho & Hrel1 & Hdrop1 & _ & _ & Hst1).
    rewrite Heq. cbn [bind].
    assert (HlenR : len R = len C + len R1) by (rewrite HR, len_app; reflexivity).
    destruct (Hone s t1 R1 Hrel1 Hdrop1) as (t' & Hrun & He & Hc' & Ho').
    + eapply Forall_impl; [|exact Hall']. intros o. apply sees_le. lia.
    + rewrite len_cons in Hn. lia.
    + intros E. rewrite E in Hst1. destruct Hst1 as [?|[?|?]]; discriminate.
    + exists t'. split; [exact Hrun|]. split; [exact He|]. split; [lia|congruence].
  - apply Hone; try assumption. intros E. rewrite E in Hc. discriminate Hc.
Qed.

(** ** The same after any history over a coding: once the whole payload has been delivered, reads
    that see the rest of the coding finish it without output room. *)
Lemma run_drain_no_room c rest sched1 t sched2 :
  valid c -> line_limit_F17 c ->
  crun (enc c ++ rest) cstart sched1 = Ok t -> t_out t = payload c ->
  Forall (sees (len (enc c) - t_consumed t)) sched2 ->
  2 <= len sched2 ->
  exists t', crun (enc c ++ rest) t sched2 = Ok t' /\
    dech_is_ended (t_st t') = true /\ t_consumed t' = len (enc c) /\ t_out t' = payload c.
Proof.
  intros Hv Hl Hrun Hout Hall Hn.
  destruct (inv_run c rest sched1 cstart (inv_start c Hv Hl)) as (t0 & Heq & Hinv).
  rewrite Hrun in Heq. inversion Heq; subst t0.
  destruct Hinv as (D & R & ds & Henc & HD & Hpay & Hrel & _).
  assert (Hds : ds = []).
  { eapply rel_no_payload; [exact Hrel|]. rewrite Hout in Hpay.
    rewrite <- (app_nil_r (payload c)) in Hpay at 1. apply app_inv_head in Hpay. auto. }
  subst ds.
  assert (HlenR : len (enc c) = t_consumed t + len R) by (rewrite Henc, len_app; lia).
  destruct (drain_no_room_two_reads (enc c ++ rest) rest sched2 t R Hrel) as (t' & Hrun' & He & Hc & Ho).
  - rewrite Henc, <- HD, <- app_assoc. apply drop_app_exact.
  - replace (len R) with (len (enc c) - t_consumed t) by lia. exact Hall.
  - destruct (dechunker_eqb (t_st t) DCrLf); lia.
  - exists t'. split; [exact Hrun'|]. split; [exact He|]. split; [lia|congruence].
Qed.
