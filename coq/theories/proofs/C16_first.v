(** C16, strengthening (review 3), continued.
    Part 4: the emitted head, split into lines the way a recipient (and the Python oracle) does it --
            at CRLF, each field line at the first ": " --, starts with exactly the added headers.
            [split_crlf] / [split_colon] are written from RFC 9112 section 2.1 / 5 (lines end with CRLF,
            a field line is name ":" OWS value), they do not use the model's renderer.
    Part 5: adding a header equal to an original one appends it all the same (no de-duplication). *)
From Coq Require Import Lia ZArith ZifyBool List.
From Hoot Require Import Base Chunk Body Httparse Parser Url Request Call Flow Script.
From Hoot.proofs Require Import BytesLemmas C17_proofs C02_proofs C02_analysis C13_proofs C13_examples C16_more.
Open Scope N_scope.

(* ------------------------------------------------------------------ part 4: splitting the head *)

Definition cons_head (x : N) (ls : list bytes) : list bytes :=
  match ls with l :: r => (x :: l) :: r | [] => [[x]] end.

(** Split a byte string at every CRLF, left to right ([bytes.split(b"\r\n")]). *)
Fixpoint split_crlf (b : bytes) : list bytes :=
  match b with
  | [] => [[]]
  | x :: t =>
      match t with
      | y :: t' => if (x =? 13) && (y =? 10) then [] :: split_crlf t' else cons_head x (split_crlf t)
      | [] => [[x]]
      end
  end.

(** Split a line at the first ": " ([line.split(b": ", 1)]). *)
Fixpoint split_colon (l : bytes) : option (bytes * bytes) :=
  match l with
  | [] => None
  | x :: t =>
      match t with
      | y :: t' =>
          if (x =? 58) && (y =? 32) then Some ([], t')
          else match split_colon t with Some (k, v) => Some (x :: k, v) | None => None end
      | [] => None
      end
  end.

(** The first [n] lines after the request line, each split into name and value. *)
Definition first_fields (n : N) (head : bytes) : list (option header) :=
  map split_colon (take n (tl (split_crlf head))).

Definition not_cr (b : N) : bool := negb (b =? 13).
Definition not_colon (b : N) : bool := negb (b =? 58).

Lemma split_crlf_cons2 x y t :
  split_crlf (x :: y :: t) =
    if (x =? 13) && (y =? 10) then [] :: split_crlf t else cons_head x (split_crlf (y :: t)).
Proof. reflexivity. Qed.

Lemma split_colon_cons2 x y t :
  split_colon (x :: y :: t) =
    if (x =? 58) && (y =? 32) then Some ([], t)
    else match split_colon (y :: t) with Some (k, v) => Some (x :: k, v) | None => None end.
Proof. reflexivity. Qed.

Lemma split_crlf_line l : forall rest,
  forallb not_cr l = true -> split_crlf (l ++ CRLF ++ rest) = l :: split_crlf rest.
Proof.
  induction l as [|x l IH]; intros rest H.
  - reflexivity.
  - cbn [forallb] in H. apply andb_prop in H. destruct H as [Hx Hl].
    unfold not_cr in Hx. apply negb_true_iff in Hx.
    rewrite <- app_comm_cons. destruct (l ++ CRLF ++ rest) as [|y t] eqn:E.
    + destruct l; discriminate E.
    + rewrite split_crlf_cons2, Hx. cbn [andb]. rewrite <- E, IH by exact Hl. reflexivity.
Qed.

Lemma split_colon_field k : forall v,
  forallb not_colon k = true -> split_colon (k ++ [58; 32] ++ v) = Some (k, v).
Proof.
  induction k as [|x k IH]; intros v H.
  - reflexivity.
  - cbn [forallb] in H. apply andb_prop in H. destruct H as [Hx Hk].
    unfold not_colon in Hx. apply negb_true_iff in Hx.
    rewrite <- app_comm_cons. destruct (k ++ [58; 32] ++ v) as [|y t] eqn:E.
    + destruct k; discriminate E.
    + rewrite split_colon_cons2, Hx. cbn [andb]. rewrite <- E, IH by exact Hk. reflexivity.
Qed.

(* bytes of valid names and values *)

Lemma name_char_lower b :
  is_http_name_char b = true -> not_cr (to_lower b) = true /\ not_colon (to_lower b) = true.
Proof.
  unfold is_http_name_char, is_digit, is_alpha, is_lower, to_lower, not_cr, not_colon, is_upper.
  intros H. destruct ((65 <=? b) && (b <=? 90)) eqn:E; split; lia.
Qed.

Lemma value_byte_not_cr b : is_http_value_byte b = true -> not_cr b = true.
Proof. unfold is_http_value_byte, not_cr. intros H. lia. Qed.

Lemma forallb_map_imp {A B} (p : A -> bool) (q : B -> bool) (g : A -> B) l :
  (forall x, p x = true -> q (g x) = true) -> forallb p l = true -> forallb q (map g l) = true.
Proof.
  intros Hpq. induction l as [|x l IH]; intros H; [reflexivity|].
  cbn [forallb map] in *. apply andb_prop in H. destruct H as [H1 H2].
  rewrite (Hpq x H1), (IH H2). reflexivity.
Qed.

Lemma forallb_imp {A} (p q : A -> bool) l :
  (forall x, p x = true -> q x = true) -> forallb p l = true -> forallb q l = true.
Proof.
  intros Hpq. induction l as [|x l IH]; intros H; [reflexivity|].
  cbn [forallb] in *. apply andb_prop in H. destruct H as [H1 H2].
  rewrite (Hpq x H1), (IH H2). reflexivity.
Qed.

Lemma valid_name_chars k : valid_header_name k = true -> forallb is_http_name_char k = true.
Proof.
  unfold valid_header_name. destruct k as [|x k]; [discriminate|].
  intros H. apply andb_prop in H. apply H.
Qed.

(** A field line without its CRLF. *)
Definition field_body (h : header) : bytes := fst h ++ [58; 32] ++ snd h.

Lemma field_line_body h : field_line h = field_body h ++ CRLF.
Proof. unfold field_line, field_body. rewrite <- !app_assoc. reflexivity. Qed.

Lemma valid_field_body kv :
  valid_kv kv = true ->
  forallb not_cr (field_body (lower_kv kv)) = true /\
  split_colon (field_body (lower_kv kv)) = Some (lower_kv kv).
Proof.
  unfold valid_kv. intros H. apply andb_prop in H. destruct H as [Hk Hv].
  apply valid_name_chars in Hk. unfold field_body, lower_kv. cbn [fst snd]. split.
  - rewrite !forallb_app. unfold lower.
    rewrite (forallb_map_imp is_http_name_char not_cr to_lower (fst kv)); [|intros x Hx; apply name_char_lower; exact Hx|exact Hk].
    unfold valid_header_value in Hv.
    rewrite (forallb_imp is_http_value_byte not_cr (snd kv) value_byte_not_cr Hv). reflexivity.
  - apply split_colon_field. unfold lower.
    apply (forallb_map_imp is_http_name_char not_colon to_lower (fst kv)); [|exact Hk].
    intros x Hx. apply name_char_lower. exact Hx.
Qed.

Lemma split_fields hs : forall rest,
  forallb (fun h => forallb not_cr (field_body h)) hs = true ->
  split_crlf (concat (map field_line hs) ++ rest) = map field_body hs ++ split_crlf rest.
Proof.
  induction hs as [|h t IH]; intros rest H; [reflexivity|].
  cbn [forallb] in H. apply andb_prop in H. destruct H as [H1 H2].
  cbn [map]. rewrite concat_cons, field_line_body, <- !app_assoc.
  rewrite split_crlf_line by exact H1. rewrite IH by exact H2. reflexivity.
Qed.

(** The request line without its CRLF. *)
Definition prelude_body (a : amended) : bytes :=
  method_name (am_method a) ++ [32] ++
  (match u_pq (am_eff_uri a) with [] => [47] | p => p end) ++ [32] ++
  version_name (am_version a).

Lemma prelude_line_body a : prelude_line a = prelude_body a ++ CRLF.
Proof. unfold prelude_line, prelude_body. rewrite <- !app_assoc. reflexivity. Qed.

Lemma prelude_body_not_cr a :
  forallb not_cr (u_pq (am_eff_uri a)) = true -> forallb not_cr (prelude_body a) = true.
Proof.
  intros H. unfold prelude_body. rewrite !forallb_app.
  assert (Hm : forallb not_cr (method_name (am_method a)) = true) by (destruct (am_method a); reflexivity).
  assert (Hv : forallb not_cr (version_name (am_version a)) = true) by (destruct (am_version a); reflexivity).
  rewrite Hm, Hv. destruct (u_pq (am_eff_uri a)) as [|x p]; [reflexivity|]. rewrite H. reflexivity.
Qed.

Lemma len_map16 {A B} (g : A -> B) l : len (map g l) = len l.
Proof. induction l as [|x l IH]; [reflexivity|]. cbn [map]. rewrite !len_cons, IH. reflexivity. Qed.

Lemma first_fields_head a kvs rest :
  forallb not_cr (u_pq (am_eff_uri a)) = true -> forallb valid_kv kvs = true ->
  first_fields (len kvs) (prelude_line a ++ concat (map field_line (map lower_kv kvs)) ++ rest) =
    map (fun kv => Some (lower_kv kv)) kvs.
Proof.
  intros Hp Hv. unfold first_fields.
  rewrite prelude_line_body, <- app_assoc.
  rewrite split_crlf_line by (apply prelude_body_not_cr; exact Hp).
  assert (Hb : forallb (fun h => forallb not_cr (field_body h)) (map lower_kv kvs) = true).
  { clear - Hv. induction kvs as [|kv t IH]; [reflexivity|].
    cbn [forallb map] in *. apply andb_prop in Hv. destruct Hv as [H1 H2].
    rewrite (proj1 (valid_field_body kv H1)), (IH H2). reflexivity. }
  rewrite split_fields by exact Hb. cbn [tl].
  replace (len kvs) with (len (map field_body (map lower_kv kvs))) by (rewrite !len_map16; reflexivity).
  rewrite take_app_exact.
  clear - Hv. induction kvs as [|kv t IH]; [reflexivity|].
  cbn [forallb map] in *. apply andb_prop in Hv. destruct Hv as [H1 H2].
  rewrite (proj2 (valid_field_body kv H1)), (IH H2). reflexivity.
Qed.

(** Flow level: whenever one write emitted the whole head of a flow that had no added headers
    before the [header] calls [kvs], the first [len kvs] field lines are exactly those headers. *)
Lemma c16_added_first_lemma f kvs f' g cap head :
  fresh_flow f -> am_added (req_of f) = [] -> prepare_headers f kvs = Ok f' ->
  call_invalid (i_call f') = false -> sendable (i_call f') ->
  send_request_write f' cap = Ok (g, head) -> send_request_can_proceed g = Ok true ->
  forallb not_cr (u_pq (am_eff_uri (req_of f))) = true ->
  first_fields (len kvs) head = map (fun kv => Some (lower_kv kv)) kvs.
Proof.
  intros Hf Ha Hp Hi Hs Hw Hcp Hcr.
  pose proof (c16_wire_bytes_lemma f kvs f' [cap] Hf Hp Hi Hs) as H. cbv zeta in H.
  unfold fwrun in H. cbn [fold_left] in H. unfold fwstep in H. cbn [fw_flow fw_out] in H.
  rewrite Hw in H. cbn [fw_flow fw_out app] in H.
  destruct H as (_ & Hiff & Hr). apply Hiff in Hcp. rewrite Hcp, Hr, Ha. cbn [app].
  apply first_fields_head; [exact Hcr|].
  apply prepare_headers_inv in Hp. apply Hp.
Qed.

(** Script level: a Prepare flow of any history that has no added headers yet (in particular the
    flow right after [ONew] or [OFollow], lemma [script_follow]). *)
Lemma c16_added_first_script_lemma ops f kvs f' cap :
  s_obj (run_ops s_init ops) = ObFlow TPrepare f -> am_added (req_of f) = [] ->
  prepare_headers f kvs = Ok f' -> call_invalid (i_call f') = false -> sendable (i_call f') ->
  len (head_of f') <= cap ->
  forallb not_cr (u_pq (am_eff_uri (req_of f))) = true ->
  exists head,
    heads (run_obs (run_ops s_init ops) (header_ops kvs ++ [OProceed; OWriteHead cap])) = [head] /\
    first_fields (len kvs) head = map (fun kv => Some (lower_kv kv)) kvs.
Proof.
  intros Ho Ha Hp Hi Hs Hc Hcr.
  pose proof Hp as Hp'. rewrite <- run_prep_headers in Hp'.
  rewrite (head_of_prep f (header_preps kvs) f' Hp') in Hc.
  pose proof (c16_script_wire ops f (header_preps kvs) f' cap Ho Hp' Hi Hs) as H. cbv zeta in H.
  destruct (H Hc) as (H1 & _). rewrite header_ops_preps in H1.
  eexists. split; [exact H1|].
  rewrite prep_kvs_headers, Ha. cbn [app].
  apply first_fields_head; [exact Hcr|].
  apply prepare_headers_inv in Hp. apply Hp.
Qed.

(* ------------------------------------------------------------------ part 5: no de-duplication *)

Definition header_eqb (a b : header) : bool := beq_bytes (fst a) (fst b) && beq_bytes (snd a) (snd b).

(** How often the field [h] (same name, same value) occurs in a list of fields. *)
Definition count_header (h : header) (l : list header) : N := len (filter (header_eqb h) l).

Lemma header_eqb_refl h : header_eqb h h = true.
Proof. unfold header_eqb. rewrite !beq_bytes_refl. reflexivity. Qed.

Lemma header_eqb_eq a b : header_eqb a b = true -> a = b.
Proof.
  unfold header_eqb. intros H. apply andb_prop in H. destruct H as [H1 H2].
  apply beq_bytes_eq in H1. apply beq_bytes_eq in H2. destruct a, b. cbn [fst snd] in *. subst. reflexivity.
Qed.

Lemma count_app h l1 l2 : count_header h (l1 ++ l2) = count_header h l1 + count_header h l2.
Proof. unfold count_header. rewrite filter_app, len_app. reflexivity. Qed.

Lemma count_single h : count_header h [h] = 1.
Proof. unfold count_header. cbn [filter]. rewrite header_eqb_refl. reflexivity. Qed.

Lemma count_in h l : In h l -> 1 <= count_header h l.
Proof.
  unfold count_header. induction l as [|x l IH]; intros H; [contradiction|].
  cbn [filter]. destruct H as [->|H].
  - rewrite header_eqb_refl, len_cons. lia.
  - destruct (header_eqb h x); [rewrite len_cons; specialize (IH H); lia|apply IH; exact H].
Qed.

Lemma count_suppressed h a :
  mem_bytes (fst h) (am_unset a) = true -> count_header h (am_inherited a) = 0.
Proof.
  intros Hm. unfold count_header, am_inherited.
  induction (rq_headers (am_request a)) as [|x l IH]; [reflexivity|].
  cbn [filter]. destruct (negb (mem_bytes (fst x) (am_unset a))) eqn:E; [|exact IH].
  cbn [filter]. destruct (header_eqb h x) eqn:E2; [|exact IH].
  apply header_eqb_eq in E2. subst x. rewrite Hm in E. discriminate.
Qed.

Lemma c16_same_as_original_lemma f h :
  valid_kv h = true -> lower (fst h) = fst h -> len (am_added (req_of f)) < MAX_EXTRA_HEADERS ->
  exists f', prepare_header f (fst h) (snd h) = Ok f' /\
    am_added (req_of f') = am_added (req_of f) ++ [h] /\
    am_inherited (req_of f') = am_inherited (req_of f) /\
    count_header h (am_headers (req_of f')) = count_header h (am_headers (req_of f)) + 1 /\
    (In h (rq_headers (am_request (req_of f))) -> mem_bytes (fst h) (am_unset (req_of f)) = false ->
     2 <= count_header h (am_headers (req_of f'))) /\
    (mem_bytes (fst h) (am_unset (req_of f)) = true ->
     count_header h (am_inherited (req_of f')) = 0 /\ 1 <= count_header h (am_added (req_of f'))).
Proof.
  intros Hv Hlow Hl.
  assert (Hh : lower_kv (fst h, snd h) = h).
  { unfold lower_kv. cbn [fst snd]. rewrite Hlow. destruct h; reflexivity. }
  assert (Hv' : valid_kv (fst h, snd h) = true) by (destruct h; exact Hv).
  exists (add_headers f [lower_kv (fst h, snd h)]).
  split; [apply prepare_header_ok; assumption|]. rewrite Hh.
  rewrite req_of_add_headers.
  assert (Hc : count_header h (am_headers (with_added (req_of f) [h])) =
               count_header h (am_headers (req_of f)) + 1).
  { rewrite am_headers_with_added, am_headers_split, !count_app, count_single. lia. }
  split; [reflexivity|]. split; [reflexivity|]. split; [exact Hc|]. split.
  - intros Hin Hm. rewrite Hc, am_headers_split, count_app.
    assert (Hi : In h (am_inherited (req_of f))).
    { unfold am_inherited. apply filter_In. split; [exact Hin|]. rewrite Hm. reflexivity. }
    apply count_in in Hi. lia.
  - intros Hm. split.
    + rewrite am_inherited_with_added. apply count_suppressed. exact Hm.
    + unfold with_added. cbn [am_added]. rewrite count_app, count_single. lia.
Qed.

(* ------------------------------------------------------------------ the statement with plain [header] calls *)

Lemma c16_wire_exact_lemma ops f kvs f' cap :
  s_obj (run_ops s_init ops) = ObFlow TPrepare f ->
  prepare_headers f kvs = Ok f' -> call_invalid (i_call f') = false -> sendable (i_call f') ->
  let head :=
    prelude_line (req_of f) ++
    concat (map field_line (am_added (req_of f) ++ map lower_kv kvs)) ++
    concat (map field_line (host_added (req_of f') ++ framing_added (req_of f') (c_writer (i_call f)))) ++
    concat (map field_line (am_inherited (req_of f))) ++ CRLF in
  len head <= cap ->
  let tail_ops := header_ops kvs ++ [OProceed; OWriteHead cap] in
  heads (run_obs (run_ops s_init ops) tail_ops) = [head] /\
  exists g, s_obj (run_ops s_init (ops ++ tail_ops)) = ObFlow TSendRequest g /\
            send_request_can_proceed g = Ok true.
Proof.
  intros Ho Hp Hi Hs. cbv zeta.
  pose proof Hp as Hp'. rewrite <- run_prep_headers in Hp'.
  pose proof (c16_script_wire ops f (header_preps kvs) f' cap Ho Hp' Hi Hs) as H. cbv zeta in H.
  rewrite prep_kvs_headers, header_ops_preps in H.
  assert (Hw : c_writer (i_call f') = c_writer (i_call f)).
  { apply prepare_headers_inv in Hp. destruct Hp as (-> & _). reflexivity. }
  rewrite Hw in H. exact H.
Qed.

Lemma c16_despite_keeps_request_lemma f :
  (forall f', send_body_despite_method f = Ok f' -> req_of f' = req_of f) /\
  (fresh_flow f -> exists f', send_body_despite_method f = Ok f' /\ fresh_flow f').
Proof.
  split; [intros f'; apply despite_req|].
  intros Hf. destruct (despite_ok f Hf) as (f' & E). exists f'. split; [exact E|].
  eapply despite_fresh; eassumption.
Qed.
