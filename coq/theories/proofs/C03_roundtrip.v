(** C03 x C07: what the chunked body writer emits is (a prefix of) a valid coding in the sense of the
    decoder's specification (proofs/C07_spec.v), so the model decoder reads back exactly the consumed
    input, on every read schedule. *)
From Coq Require Import Lia ZArith ZifyN ZifyBool.
From Hoot Require Import Base Chunk Body Request Call.
From Hoot.proofs Require Import BytesLemmas C18_hex C18_proofs C19_proofs.
From Hoot.proofs Require Import C07_spec C07_sizeline C07_sim C07_proofs.
From Hoot.proofs Require Import C03_proofs.
Open Scope N_scope.
Ltac Zify.zify_post_hook ::= Z.div_mod_to_equations.
Opaque fit hexlen.

(** ** The writer's size line is a valid size line *)

Lemma hex_digit_val_digit d : d < 16 -> hex_digit_val (hex_digit d) = d.
Proof.
  intros H. unfold hex_digit_val, hex_digit.
  destruct (N.ltb_spec d 10).
  - destruct (N.leb_spec (48 + d) 57); lia.
  - destruct (N.leb_spec (87 + d) 57); [lia|]. destruct (N.leb_spec (87 + d) 70); lia.
Qed.

Lemma hex_value_snoc a b : hex_value (a ++ [b]) = hex_value a * 16 + hex_digit_val b.
Proof. unfold hex_value. rewrite fold_left_app. reflexivity. Qed.

Lemma hex_value_hex_of n : hex_value (hex_of n) = n.
Proof.
  induction n as [n IH] using (well_founded_induction N.lt_wf_0).
  destruct (N.lt_ge_cases n 16) as [Hs|Hb].
  - rewrite hex_of_small by exact Hs. unfold hex_value. cbn [fold_left]. unfold hex_acc.
    rewrite hex_digit_val_digit by exact Hs. lia.
  - rewrite hex_of_big by exact Hb. rewrite hex_value_snoc, IH by lia.
    rewrite hex_digit_val_digit by lia. lia.
Qed.

Lemma is_hex_of_range b : (48 <= b <= 57) \/ (97 <= b <= 102) -> is_hex b = true.
Proof.
  intros H. unfold is_hex.
  destruct (N.leb_spec 48 b); destruct (N.leb_spec b 57); destruct (N.leb_spec 65 b);
    destruct (N.leb_spec b 70); destruct (N.leb_spec 97 b); destruct (N.leb_spec b 102);
    cbn [andb orb]; try reflexivity; lia.
Qed.

Lemma hex_of_is_hex n : forallb is_hex (hex_of n) = true.
Proof.
  apply forallb_forall. intros b Hb. apply is_hex_of_range.
  pose proof (hex_of_digits n) as F. rewrite Forall_forall in F. apply F. exact Hb.
Qed.

Lemma hex_of_cr_free n : cr_free (hex_of n).
Proof.
  unfold cr_free. eapply Forall_impl; [|apply hex_of_digits]. cbv beta. intros b H. lia.
Qed.

Lemma hex_of_nonnil n : hex_of n <> [].
Proof. destruct (hex_of_head n) as (d & rest & _ & E). rewrite E. discriminate. Qed.

Lemma hex_of_size_line n : n < U64_LIMIT -> size_line (hex_of n) n.
Proof.
  intros Hn. rewrite <- (app_nil_r (hex_of n)). change (@nil N) with (@nil N ++ @nil N).
  apply size_line_intro.
  - apply hex_of_nonnil.
  - apply hex_of_is_hex.
  - reflexivity.
  - left. reflexivity.
  - apply hex_value_hex_of.
  - exact Hn.
Qed.

(** ** The coding emitted for a list of chunk datas *)

Definition to_chunk (d : bytes) : chunk := {| ck_line := hex_of (len d); ck_data := d |}.
Definition coding_of (cs : list bytes) : coding :=
  {| cd_chunks := map to_chunk cs; cd_last := [48]; cd_trailers := [] |}.

Lemma enc_coding_of cs : enc (coding_of cs) = enc_chunks cs ++ TERM.
Proof.
  unfold enc, coding_of. cbn [cd_chunks cd_last cd_trailers]. rewrite map_map. reflexivity.
Qed.

Lemma payload_coding_of cs : payload (coding_of cs) = concat cs.
Proof.
  unfold payload, coding_of. cbn [cd_chunks]. rewrite map_map. cbn [to_chunk ck_data].
  rewrite map_id. reflexivity.
Qed.

Lemma valid_coding_of cs : chunks_ok cs -> valid (coding_of cs) /\ line_limit_F17 (coding_of cs).
Proof.
  intros Hok. unfold valid, line_limit_F17, coding_of. cbn [cd_chunks cd_last cd_trailers].
  assert (Hlast : size_line [48] 0).
  { change [48] with ([48] ++ @nil N ++ @nil N). apply size_line_intro;
      [discriminate|reflexivity|reflexivity|left; reflexivity|reflexivity|reflexivity]. }
  assert (Hcr : cr_free [48]) by (apply cr_free_b; reflexivity).
  split; [split; [|split; [exact Hcr|split; [exact Hlast|constructor]]]|split].
  - apply Forall_forall. intros ck Hin. apply in_map_iff in Hin. destruct Hin as (d & <- & Hd).
    unfold chunks_ok in Hok. rewrite Forall_forall in Hok. destruct (Hok d Hd) as [Hne Hle].
    unfold valid_chunk, to_chunk. cbn [ck_line ck_data].
    split; [apply hex_of_cr_free|]. unfold DEFAULT_CHUNK_SIZE in Hle.
    split; [apply hex_of_size_line; unfold U64_LIMIT; lia|].
    destruct d; [congruence|]. rewrite len_cons. lia.
  - apply Forall_forall. intros ck Hin. apply in_map_iff in Hin. destruct Hin as (d & <- & Hd).
    unfold chunks_ok in Hok. rewrite Forall_forall in Hok. destruct (Hok d Hd) as [Hne Hle].
    unfold to_chunk. cbn [ck_line]. unfold DEFAULT_CHUNK_SIZE in Hle.
    change (len (hex_of (len d))) with (hexlen (len d)). unfold SANITY_CHECK.
    hexlen_destruct (len d); lia.
  - unfold SANITY_CHECK. cbn [len]. lia.
Qed.

(** ** Decoder runs over a strict prefix of a coding that ends at a chunk boundary or anywhere else:
       never an error, output a prefix of the payload, never reported ended *)

Definition PInv (c : coding) (m : N) (t : ctrace) : Prop :=
  exists D R ds,
    enc c = D ++ R /\ len D = t_consumed t /\ t_consumed t <= m /\
    payload c = C07_spec.t_out t ++ concat ds /\ rel (t_st t) R ds.

Lemma drop_take_comm {A} c m (l : list A) : c <= m -> drop c (take m l) = take (m - c) (drop c l).
Proof. intros H. rewrite take_drop_comm. replace (c + (m - c)) with m by lia. reflexivity. Qed.

Lemma pinv_step c m t o :
  m < len (enc c) -> PInv c m t -> exists t', cstep (take m (enc c)) t o = Ok t' /\ PInv c m t'.
Proof.
  intros Hm (D & R & ds & Henc & HD & Hle & Hpay & Hrel). destruct o as [[k cap] stop].
  unfold cstep. rewrite drop_take_comm by exact Hle. rewrite take_take.
  rewrite Henc, <- HD, drop_app_exact.
  replace (take (N.min k (m - len D)) R) with (take (N.min k (m - len D)) (R ++ []))
    by (rewrite app_nil_r; reflexivity).
  destruct (step_safe (t_st t) R ds [] (N.min k (m - len D)) cap stop Hrel)
    as (st' & C & R' & out & ds' & Heq & HR & HC & Hcat & _ & Hrel' & _).
  rewrite Heq. cbn [bind]. eexists. split; [reflexivity|].
  exists (D ++ C), R', ds'. cbn [t_st t_consumed C07_spec.t_out].
  split; [rewrite Henc, HR; apply app_assoc|]. split; [rewrite len_app, HD; reflexivity|].
  split; [lia|]. split; [rewrite Hpay, Hcat; apply app_assoc|exact Hrel'].
Qed.

Lemma pinv_run c m : m < len (enc c) -> forall sched t,
  PInv c m t -> exists t', crun (take m (enc c)) t sched = Ok t' /\ PInv c m t'.
Proof.
  intros Hm. induction sched as [|o s IH]; intros t Hinv; cbn [crun]; [eauto|].
  destruct (pinv_step c m t o Hm Hinv) as (t1 & Heq & Hinv1). rewrite Heq. cbn [bind].
  apply IH. exact Hinv1.
Qed.

Lemma pinv_start c m : valid c -> line_limit_F17 c -> PInv c m cstart.
Proof.
  intros Hv Hl. exists [], (enc c), (map ck_data (cd_chunks c)).
  cbn [cstart t_consumed C07_spec.t_out t_st app len].
  split; [reflexivity|]. split; [reflexivity|]. split; [lia|]. split; [reflexivity|].
  apply rel_start; assumption.
Qed.

Lemma prefix_run c m sched :
  valid c -> line_limit_F17 c -> m < len (enc c) ->
  exists t, crun (take m (enc c)) cstart sched = Ok t /\
    t_consumed t <= m /\
    (exists P', payload c = C07_spec.t_out t ++ P') /\
    dech_is_ended (t_st t) = false.
Proof.
  intros Hv Hl Hm.
  destruct (pinv_run c m Hm sched cstart (pinv_start c m Hv Hl))
    as (t & Heq & D & R & ds & Henc & HD & Hle & Hpay & Hrel).
  exists t. split; [exact Heq|]. split; [exact Hle|]. split; [eauto|].
  destruct (dech_is_ended (t_st t)) eqn:E; [|reflexivity].
  apply (rel_ended_iff _ _ _ Hrel) in E. subst R. rewrite app_nil_r in Henc. rewrite Henc in Hm. lia.
Qed.

(** ** Round trip for every history of body writes *)

Definition visible (n : N) (o : N * N * bool) : Prop := let '(k, cap, _) := o in n <= k /\ 1 <= cap.

(** Finished body: the emitted bytes, followed by anything, decode on every schedule without error;
    the decoder never reads past them, delivers a prefix of the consumed input, and reports the end
    exactly when it has consumed them all, having then delivered exactly the consumed input. *)
Lemma roundtrip_finished c ops rest sched :
  chunked_body c false ->
  let t := trun (start c) ops in
  w_ended (c_writer (t_call t)) = true ->
  exists d, crun (t_out t ++ rest) cstart sched = Ok d /\
    t_consumed d <= len (t_out t) /\
    (exists P', t_in t = C07_spec.t_out d ++ P') /\
    (dech_is_ended (t_st d) = true <-> t_consumed d = len (t_out t)) /\
    (dech_is_ended (t_st d) = true -> C07_spec.t_out d = t_in t).
Proof.
  intros Hc t He. destruct (shape c ops Hc) as (cs & _ & Hok & Hin & Hout & _).
  fold t in Hin, Hout. rewrite He in Hout.
  destruct (valid_coding_of cs Hok) as [Hv Hl].
  destruct (run_safe (coding_of cs) rest sched Hv Hl) as (d & Hrun & H1 & H2 & H3 & H4 & _).
  rewrite enc_coding_of, payload_coding_of, <- Hout, Hin in *.
  exists d. auto.
Qed.

(** ... and enough reads that see everything and offer room for a byte do reach the end. *)
Lemma roundtrip_reaches_end c ops rest sched :
  chunked_body c false ->
  let t := trun (start c) ops in
  w_ended (c_writer (t_call t)) = true ->
  Forall (visible (len (t_out t))) sched -> len (t_out t) <= len sched ->
  exists d, crun (t_out t ++ rest) cstart sched = Ok d /\
    dech_is_ended (t_st d) = true /\ t_consumed d = len (t_out t) /\ C07_spec.t_out d = t_in t.
Proof.
  intros Hc t He Hvis Hn. destruct (shape c ops Hc) as (cs & _ & Hok & Hin & Hout & _).
  fold t in Hin, Hout. rewrite He in Hout.
  destruct (valid_coding_of cs Hok) as [Hv Hl].
  destruct (run_reaches_end (coding_of cs) rest sched Hv Hl) as (d & Hrun & H1 & H2 & H3).
  - unfold all_visible. rewrite enc_coding_of, <- Hout. exact Hvis.
  - rewrite enc_coding_of, <- Hout. exact Hn.
  - rewrite enc_coding_of, payload_coding_of, <- Hout, Hin in *. exists d. auto.
Qed.

(** Unfinished body: the emitted bytes alone decode on every schedule without error to a prefix of
    the consumed input, and the decoder never reports the end. *)
Lemma roundtrip_unfinished c ops sched :
  chunked_body c false ->
  let t := trun (start c) ops in
  w_ended (c_writer (t_call t)) = false ->
  exists d, crun (t_out t) cstart sched = Ok d /\
    t_consumed d <= len (t_out t) /\
    (exists P', t_in t = C07_spec.t_out d ++ P') /\
    dech_is_ended (t_st d) = false.
Proof.
  intros Hc t He. destruct (shape c ops Hc) as (cs & _ & Hok & Hin & Hout & _).
  fold t in Hin, Hout. rewrite He in Hout. rewrite app_nil_r in Hout.
  destruct (valid_coding_of cs Hok) as [Hv Hl].
  destruct (prefix_run (coding_of cs) (len (enc_chunks cs)) sched Hv Hl) as (d & Hrun & H1 & H2 & H3).
  - rewrite enc_coding_of, len_app. unfold TERM, TERMINATOR. cbn [len]. lia.
  - rewrite enc_coding_of, take_app_exact, payload_coding_of, <- Hout, Hin in *. exists d. auto.
Qed.
