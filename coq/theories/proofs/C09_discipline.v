(** C09 (part 5): the re-presentation discipline of [try_read_100] is enforced by the script itself.

    [C09_proofs.in_quantifier] demands [~ misuse_100 f (window s)] also for the TRACKED operation
    [OTry100], whose window is stream[consumed..arrived].  Here that side condition is discharged:
    the script state carries the invariant [DInv] -- once the flow in Await100 has been refused, no
    prefix of the unconsumed stream parses as a complete 100 head -- which is established by the
    refusal itself (a refusing window keeps refusing however it is extended: C11 [c11_never_assert],
    C12 [c12_try100_after_refusal]) and is kept by every operation, because arrivals only append and
    a refusal consumes nothing.  What remains are side conditions on the two operations that can
    present bytes unrelated to the stream: [ORawTry100] and [OSetStream] ([in_quantifier2]). *)
From Coq Require Import Lia ZArith.
From Hoot Require Import Base Chunk Body Httparse Parser Url Request Call Flow Script.
From Hoot.proofs Require Import BytesLemmas Reasons C09_inv C09_calls C09_flow C09_proofs.
From Hoot.proofs Require C11_proofs C12_flow.
Open Scope N_scope.

Notation parses_100 := C12_flow.parses_100.
Notation refusal_window := C12_flow.refusal_window.

(** No prefix of the unconsumed part of the stream parses as a complete 100 head. *)
Definition no_100_ahead (consumed : N) (stream : bytes) : Prop :=
  forall k, ~ parses_100 (take k (drop consumed stream)).

(** The discipline invariant of the script state. *)
Definition DInv (s : sstate) : Prop :=
  forall f, s_obj s = ObFlow TAwait100 f -> i_should_send_body f = false ->
            no_100_ahead (s_consumed s) (s_stream s).

Lemma misuse_iff f w : misuse_100 f w <-> i_should_send_body f = false /\ parses_100 w.
Proof. unfold misuse_100, C12_flow.parses_100. tauto. Qed.

(** The tracked window never meets the assertion. *)
Theorem tracked_never_misuse s f :
  DInv s -> s_obj s = ObFlow TAwait100 f -> ~ misuse_100 f (window s).
Proof.
  intros HD Ho Hm. apply misuse_iff in Hm. destruct Hm as [Hs Hp].
  exact (HD f Ho Hs _ Hp).
Qed.

(* ------------------------------------------------------------------ windows *)

Lemma parses_100_ext p y : parses_100 p -> parses_100 (p ++ y).
Proof.
  intros (used & r & E & E100). exists used, r. split; [|exact E100].
  rewrite C11_proofs.try_parse_response_final; [exact E|]. rewrite E. discriminate.
Qed.

Lemma refusal_no_prefix_100 w k : refusal_window w -> ~ parses_100 (take k w).
Proof.
  intros Hw Hp. apply (C12_flow.refusal_not_100 w Hw).
  rewrite <- (take_drop k w). apply parses_100_ext. exact Hp.
Qed.

(** A refusal on a window of the stream blocks every window of it, shorter or longer. *)
Lemma refusal_blocks consumed stream n :
  refusal_window (take n (drop consumed stream)) -> no_100_ahead consumed stream.
Proof.
  intros Hw k. set (X := drop consumed stream) in *.
  destruct (N.le_ge_cases k n) as [Hle|Hge].
  - replace (take k X) with (take k (take n X)).
    + apply refusal_no_prefix_100. exact Hw.
    + rewrite take_take. f_equal. lia.
  - rewrite <- (take_drop n (take k X)). rewrite take_take. replace (N.min n k) with n by lia.
    apply C12_flow.refusal_not_100. apply C12_flow.refusal_window_app. exact Hw.
Qed.

(** With [should_send_body = false] and no 100 in the window, [try_read_100] consumes nothing. *)
Lemma try100_refused_zero f w n :
  NoDup (i_reasons f) -> i_should_send_body f = false -> ~ parses_100 w ->
  snd (try_read_100 f w) = Ok n -> n = 0.
Proof.
  intros Hnd Hs Hp. unfold try_read_100.
  destruct (refuse_total f Hnd) as (rs & _ & Href).
  destruct (try_parse_response 0 w) as [[[used r]|]|e|p] eqn:E.
  - destruct (N.eqb_spec (rs_status r) 100) as [E100|E100].
    + exfalso. apply Hp. exists used, r. split; [exact E|exact E100].
    + rewrite Href. cbn [snd]. intros H; inversion H; reflexivity.
  - cbn [snd]. intros H; inversion H; reflexivity.
  - destruct e; try (cbn [snd]; discriminate).
    rewrite Href. cbn [snd]. intros H; inversion H; reflexivity.
  - cbn [snd]. discriminate.
Qed.

Lemma try100_keeps_refused f w :
  NoDup (i_reasons f) -> i_should_send_body f = false ->
  i_should_send_body (fst (try_read_100 f w)) = false.
Proof.
  intros Hnd Hs. unfold try_read_100. destruct (refuse_total f Hnd) as (rs & _ & Href).
  destruct (try_parse_response 0 w) as [[[used r]|]|e|p].
  - destruct (rs_status r =? 100).
    + rewrite Hs. exact Hs.
    + rewrite Href. reflexivity.
  - exact Hs.
  - destruct e; try exact Hs. rewrite Href. reflexivity.
  - exact Hs.
Qed.

(* ------------------------------------------------------------------ the weaker side conditions *)

(** As [C09_proofs.in_quantifier], but nothing is demanded of the tracked [OTry100].  The raw
    operation keeps its condition, and must not break the discipline either: a refusal it provokes
    with bytes of its own choosing has to be consistent with the stream (otherwise a later tracked
    call could be shown a 100 that the refused flow asserts against, [raw_then_tracked_panics]); the
    same for replacing the stream while a refused flow is still in Await100. *)
Definition in_quantifier2 (s : sstate) (o : op) : Prop :=
  match o, s_obj s with
  | ONew r, _ => abs_uri (rq_uri r)
  | OCallWithout r, _ => abs_uri (rq_uri r)
  | OCallWith r, _ => abs_uri (rq_uri r)
  | OHeader _ _, ObFlow TPrepare f => len (am_added (c_req (i_call f))) < HEADER_BUDGET
  | ORawTry100 b, ObFlow TAwait100 f =>
      ~ misuse_100 f b /\
      (i_should_send_body f = true -> refusal_window b -> no_100_ahead (s_consumed s) (s_stream s))
  | OSetStream b, ObFlow TAwait100 f => i_should_send_body f = false -> no_100_ahead 0 b
  | _, _ => True
  end.

Lemma inq2_inq s o : DInv s -> in_quantifier2 s o -> in_quantifier s o.
Proof.
  intros HD H. unfold in_quantifier2, in_quantifier in *.
  destruct o; try exact H; try exact I;
    destruct (s_obj s) as [|t f|hd c] eqn:Ho; try exact H; try exact I;
    destruct t; try exact H; try exact I.
  - apply (tracked_never_misuse s f HD Ho).
  - apply H.
Qed.

(* ------------------------------------------------------------------ DInv through [Script.step] *)

Lemma DInv_not_await s' : (forall f', s_obj s' <> ObFlow TAwait100 f') -> DInv s'.
Proof. intros H f Ho. exfalso. exact (H f Ho). Qed.

Lemma DInv_same s s' :
  DInv s -> s_obj s' = s_obj s -> s_consumed s' = s_consumed s -> s_stream s' = s_stream s -> DInv s'.
Proof. intros HD E1 E2 E3 f Ho Hs. rewrite E2, E3. apply (HD f); [congruence|exact Hs]. Qed.

Lemma DInv_should s' :
  (forall f', s_obj s' = ObFlow TAwait100 f' -> i_should_send_body f' = true) -> DInv s'.
Proof. intros H f Ho Hs. rewrite (H f Ho) in Hs. discriminate. Qed.

Lemma DInv_with_flow s t f : t <> TAwait100 -> DInv (with_flow s t f).
Proof. intros Ht. apply DInv_not_await. intros f' E. cbn in E. inversion E. congruence. Qed.

Lemma DInv_upd {A} s t (r : res A) getf k : t <> TAwait100 -> DInv s -> DInv (fst (upd s t r getf k)).
Proof.
  intros Ht HD. unfold upd. destruct r as [a|e|p]; cbn [fst]; try exact HD.
  apply DInv_with_flow. exact Ht.
Qed.

Lemma DInv_track s t f (b : bool) n : t <> TAwait100 -> DInv (if b then add_consumed (with_flow s t f) n else with_flow s t f).
Proof.
  intros Ht. apply DInv_not_await. intros f' E. destruct b; cbn in E; inversion E; congruence.
Qed.

Lemma DInv_track_sent s t f (b : bool) n : t <> TAwait100 -> DInv (if b then add_sent (with_flow s t f) n else with_flow s t f).
Proof.
  intros Ht. apply DInv_not_await. intros f' E. destruct b; cbn in E; inversion E; congruence.
Qed.

Lemma send_request_proceed_await f f' :
  send_request_proceed f = Ok (Some (TAwait100, f')) -> i_should_send_body f' = true.
Proof.
  unfold send_request_proceed. intros H.
  destruct (send_request_can_proceed f) as [a|e|p]; cbn [bind] in H; try discriminate.
  destruct (negb a); [discriminate|].
  destruct (i_should_send_body f) eqn:Es.
  - destruct (i_await_100 f); [inversion H; subst; exact Es|].
    destruct (analyze_request (i_call f)); cbn [bind] in H; discriminate.
  - destruct (i_holder f); try discriminate.
    destruct (into_receive (i_call f)); discriminate.
Qed.

Lemma do_proceed_dinv s t f : DInv s -> s_obj s = ObFlow t f -> DInv (fst (do_proceed s t f)).
Proof.
  intros HD Ho.
  assert (Hopt : forall r, (forall f', r = Ok (Some (TAwait100, f')) -> i_should_send_body f' = true) ->
            DInv (fst (match r with
                       | Ok (Some (t', f')) => (with_flow s t' f', [w "state"; tag_name t'])
                       | Ok None => (s, [w "stay"])
                       | Err e => (with_obj s ObNone, obs_err e)
                       | Panic _ => (s, obs_panic)
                       end))).
  { intros r Hk. destruct r as [[[t' f']|]|e|p]; cbn [fst]; try exact HD.
    - apply DInv_should. intros f0 E. cbn in E. inversion E; subst. apply Hk. reflexivity.
    - apply DInv_not_await. cbn. discriminate. }
  unfold do_proceed. cbv zeta beta. destruct t.
  - cbn [fst]. apply DInv_with_flow. discriminate.
  - apply Hopt. intros f' E. exact (send_request_proceed_await f f' E).
  - apply Hopt. intros f' E. destruct (await_100_proceed f) as [[t1 f1]|e|p] eqn:Ea; cbn [bind] in E; try discriminate.
    inversion E; subst. exfalso. unfold await_100_proceed in Ea.
    destruct (i_should_send_body f).
    + destruct (analyze_request (i_call f)); cbn [bind] in Ea; discriminate.
    + destruct (i_holder f); discriminate.
  - apply Hopt. intros f' E. exfalso. unfold send_body_proceed in E.
    destruct (send_body_can_proceed f) as [a|e|p]; cbn [bind] in E; try discriminate.
    destruct (negb a); [discriminate|]. destruct (into_receive (i_call f)); discriminate.
  - apply Hopt. intros f' E. exfalso. unfold recv_response_proceed in E.
    destruct (recv_response_can_proceed f) as [a|e|p]; cbn [bind] in E; try discriminate.
    destruct (negb a); [discriminate|]. destruct (need_response_body (i_call f)).
    + match type of E with (bind ?X _ = _) => destruct X end; cbn [bind] in E; discriminate.
    + destruct (is_redirect _); discriminate.
  - apply Hopt. intros f' E. exfalso. unfold recv_body_proceed in E.
    destruct (recv_body_can_proceed f) as [a|e|p]; cbn [bind] in E; try discriminate.
    destruct (negb a); [discriminate|]. destruct (is_redirect f); discriminate.
  - cbn [fst]. apply DInv_with_flow. discriminate.
  - cbn [fst]. exact HD.
Qed.

Lemma do_premature_dinv s t f : DInv s -> DInv (fst (do_premature s t f)).
Proof.
  intros HD. unfold do_premature. destruct t; cbn [fst]; try exact HD;
    (apply DInv_not_await; cbn; discriminate).
Qed.

(** The step that matters. *)
Lemma do_try100_dinv s f win track :
  NoDup (i_reasons f) -> DInv s -> s_obj s = ObFlow TAwait100 f -> ~ misuse_100 f win ->
  (i_should_send_body f = true -> refusal_window win -> no_100_ahead (s_consumed s) (s_stream s)) ->
  DInv (fst (do_try100 s f win track)).
Proof.
  intros Hnd HD Ho Hm Hraw. unfold do_try100.
  destruct (try_read_100 f win) as [f' r] eqn:E.
  assert (Hcases : i_should_send_body f' = false ->
            no_100_ahead (s_consumed s) (s_stream s) /\ forall n, r = Ok n -> n = 0).
  { intros Hs'. destruct (i_should_send_body f) eqn:Es.
    - destruct (C12_flow.try100_cleared_only_by_refusal f win f' r E Es Hs') as [Hw Hr].
      split; [exact (Hraw eq_refl Hw)|]. intros n Hn. rewrite Hr in Hn. inversion Hn; reflexivity.
    - split; [exact (HD f Ho Es)|]. intros n Hn.
      apply (try100_refused_zero f win n Hnd Es); [|rewrite E; exact Hn].
      intros Hp. apply Hm. apply misuse_iff. split; assumption. }
  assert (Hgoal : forall s', s_obj s' = ObFlow TAwait100 f' -> s_stream s' = s_stream s ->
            (s_consumed s' = s_consumed s \/ exists n, r = Ok n /\ s_consumed s' = s_consumed s + n) ->
            DInv s').
  { intros s' Ho' Est Ec f0 Ho0 Hs0. rewrite Ho' in Ho0. inversion Ho0; subst f0.
    destruct (Hcases Hs0) as [Hno Hz]. rewrite Est.
    destruct Ec as [-> |(n & Hn & ->)]; [exact Hno|].
    rewrite (Hz n Hn), N.add_0_r. exact Hno. }
  destruct r as [n|e|p]; [destruct track|..]; cbn [fst]; apply Hgoal; try reflexivity; auto.
  right. exists n. split; reflexivity.
Qed.

(** The arms of [step] for the single call past the request: the object stays a call or is gone. *)
Ltac call_arms HD :=
  unfold do_call_into_receive;
  repeat match goal with
  | |- context [match into_receive ?c with _ => _ end] => destruct (into_receive c)
  | |- context [match c_reader ?c with _ => _ end] => destruct (c_reader c) as [[| | |]|]
  | |- context [match call_try_response ?c ?b with _ => _ end] => destruct (call_try_response c b) as [[? ?]|?|?]
  | |- context [match call_read ?c ?b ?cap with _ => _ end] => destruct (call_read c b cap) as [[[? ?] ?]|?|?]
  end; cbn [fst];
  first [exact HD | apply DInv_not_await; cbn; discriminate].

Theorem dinv_step s o : SInv s -> DInv s -> in_quantifier2 s o -> DInv (fst (step s o)).
Proof.
  intros HS HD HQ. pose proof HS as [Hobj _]. unfold in_quantifier2 in HQ.
  destruct o; unfold step.
  - (* ONew *)
    assert (Hg : DInv (fst match flow_new r with
                 | Ok f => ({| s_obj := ObFlow TPrepare f; s_next := None; s_stream := s_stream s;
                               s_arrived := s_arrived s; s_consumed := s_consumed s;
                               s_body := s_body s; s_sent := 0 |}, [w "ok"])
                 | Err e => (s, obs_err e)
                 | Panic _ => (s, obs_panic)
                 end)).
    { destruct (flow_new r); cbn [fst]; try exact HD. apply DInv_not_await. cbn. discriminate. }
    destruct (s_obj s); exact Hg.
  - assert (Hg : DInv (fst (with_obj s (ObCall HWithoutBody (call_new r new_none)), [w "ok"])))
      by (apply DInv_not_await; cbn; discriminate).
    destruct (s_obj s); exact Hg.
  - assert (Hg : DInv (fst (with_obj s (ObCall HWithBody (call_new r new_chunked)), [w "ok"])))
      by (apply DInv_not_await; cbn; discriminate).
    destruct (s_obj s); exact Hg.
  - (* OHeader *)
    destruct (s_obj s) as [|t f|hd c] eqn:Ho; [| destruct t | destruct hd]; cbn [fst]; try exact HD.
    apply DInv_upd; [discriminate|exact HD].
  - destruct (s_obj s) as [|t f|hd c] eqn:Ho; [| destruct t | destruct hd]; cbn [fst]; try exact HD.
    apply DInv_upd; [discriminate|exact HD].
  - (* OProceed *)
    destruct (s_obj s) as [|t f|hd c] eqn:Ho; [exact HD| |destruct hd; call_arms HD].
    apply do_proceed_dinv; assumption.
  - destruct (s_obj s) as [|t f|hd c] eqn:Ho; [exact HD| |exact HD].
    apply do_premature_dinv; assumption.
  - (* OWriteHead *)
    destruct (s_obj s) as [|t f|hd c] eqn:Ho; [| destruct t | destruct hd]; cbn [fst]; try exact HD.
    + apply DInv_upd; [discriminate|exact HD].
    + destruct (call_write_nobody c cap) as [[c' out]|e|p]; cbn [fst]; try exact HD;
        (apply DInv_not_await; cbn; discriminate).
  - (* OWriteBody / OWriteSum / OWriteFrom *)
    assert (Hg : forall i tr sm, DInv (fst (do_write_body s i cap tr sm))).
    { intros i tr sm. unfold do_write_body.
      destruct (s_obj s) as [|t f|hd c] eqn:Ho; [exact HD| |].
      - destruct t; try exact HD.
        destruct (send_body_write f i cap) as [[[f' u] o]|e|p]; cbn [fst]; try exact HD.
        apply DInv_track_sent. discriminate.
      - destruct hd; try exact HD.
        destruct (call_write_body c i cap) as [[[c' u] o]|e|p]; cbn [fst]; try exact HD.
        + apply DInv_not_await. intros f' E. destruct tr; cbn in E; discriminate.
        + apply DInv_not_await. cbn. discriminate. }
    destruct (s_obj s); apply Hg.
  - assert (Hg : forall i tr sm, DInv (fst (do_write_body s i cap tr sm))).
    { intros i tr sm. unfold do_write_body.
      destruct (s_obj s) as [|t f|hd c] eqn:Ho; [exact HD| |].
      - destruct t; try exact HD.
        destruct (send_body_write f i cap) as [[[f' u] o]|e|p]; cbn [fst]; try exact HD.
        apply DInv_track_sent. discriminate.
      - destruct hd; try exact HD.
        destruct (call_write_body c i cap) as [[[c' u] o]|e|p]; cbn [fst]; try exact HD.
        + apply DInv_not_await. intros f' E. destruct tr; cbn in E; discriminate.
        + apply DInv_not_await. cbn. discriminate. }
    destruct (s_obj s); apply Hg.
  - assert (Hg : forall i tr sm, DInv (fst (do_write_body s i cap tr sm))).
    { intros i tr sm. unfold do_write_body.
      destruct (s_obj s) as [|t f|hd c] eqn:Ho; [exact HD| |].
      - destruct t; try exact HD.
        destruct (send_body_write f i cap) as [[[f' u] o]|e|p]; cbn [fst]; try exact HD.
        apply DInv_track_sent. discriminate.
      - destruct hd; try exact HD.
        destruct (call_write_body c i cap) as [[[c' u] o]|e|p]; cbn [fst]; try exact HD.
        + apply DInv_not_await. intros f' E. destruct tr; cbn in E; discriminate.
        + apply DInv_not_await. cbn. discriminate. }
    destruct (s_obj s); apply Hg.
  - (* OSetBody *)
    assert (Hg : DInv (fst ({| s_obj := s_obj s; s_next := s_next s; s_stream := s_stream s;
                               s_arrived := s_arrived s; s_consumed := s_consumed s; s_body := b;
                               s_sent := 0 |}, [w "ok"])))
      by (apply (DInv_same s); [exact HD|reflexivity|reflexivity|reflexivity]).
    destruct (s_obj s); exact Hg.
  - (* ODirect *)
    destruct (s_obj s) as [|t f|hd c] eqn:Ho; [| destruct t | destruct hd]; cbn [fst]; try exact HD.
    apply DInv_upd; [discriminate|exact HD].
  - (* OSetStream *)
    assert (Hg : DInv (fst ({| s_obj := s_obj s; s_next := s_next s; s_stream := b; s_arrived := 0;
                               s_consumed := 0; s_body := s_body s; s_sent := s_sent s |}, [w "ok"]))).
    { intros f Ho Hs. cbn [fst s_obj s_consumed s_stream] in *. rewrite Ho in HQ. exact (HQ Hs). }
    destruct (s_obj s); exact Hg.
  - (* OArrive *)
    assert (Hg : DInv (fst ({| s_obj := s_obj s; s_next := s_next s; s_stream := s_stream s;
                               s_arrived := N.min (len (s_stream s)) (s_arrived s + k);
                               s_consumed := s_consumed s; s_body := s_body s; s_sent := s_sent s |}, [w "ok"])))
      by (apply (DInv_same s); [exact HD|reflexivity|reflexivity|reflexivity]).
    destruct (s_obj s); exact Hg.
  - (* OTry100: the window is a window of the stream *)
    destruct (s_obj s) as [|t f|hd c] eqn:Ho; [| destruct t | destruct hd]; cbn [fst]; try exact HD.
    cbn [ObjInv] in Hobj. apply do_try100_dinv; [exact (inv_nodup _ _ Hobj)|exact HD|exact Ho| |].
    + apply (tracked_never_misuse s f HD Ho).
    + intros _ Hw. exact (refusal_blocks _ _ _ Hw).
  - (* ORawTry100 *)
    destruct (s_obj s) as [|t f|hd c] eqn:Ho; [| destruct t | destruct hd]; cbn [fst]; try exact HD.
    cbn [ObjInv] in Hobj. destruct HQ as [Hm Hraw].
    apply do_try100_dinv; [exact (inv_nodup _ _ Hobj)|exact HD|exact Ho|exact Hm|exact Hraw].
  - (* OTryResponse *)
    destruct (s_obj s) as [|t f|hd c] eqn:Ho; [| destruct t | destruct hd]; cbn [fst]; try exact HD.
    unfold do_try_response. destruct (recv_try_response f (window s)) as [[[f' u] g]|e|p]; cbn [fst]; try exact HD.
    apply (DInv_track s TRecvResponse f' true). discriminate.
  - destruct (s_obj s) as [|t f|hd c] eqn:Ho; [| destruct t | destruct hd]; cbn [fst]; try exact HD.
    + unfold do_try_response. destruct (recv_try_response f w) as [[[f' u] g]|e|p]; cbn [fst]; try exact HD.
      apply DInv_with_flow. discriminate.
    + call_arms HD.
  - (* ORead *)
    destruct (s_obj s) as [|t f|hd c] eqn:Ho; [| destruct t | destruct hd]; cbn [fst]; try exact HD.
    unfold do_read. destruct (recv_body_read f (window s) cap) as [[[f' i] o]|e|p]; cbn [fst]; try exact HD.
    + apply (DInv_track s TRecvBody f' true). discriminate.
    + apply DInv_with_flow. discriminate.
  - destruct (s_obj s) as [|t f|hd c] eqn:Ho; [| destruct t | destruct hd]; cbn [fst]; try exact HD.
    + unfold do_read. destruct (recv_body_read f w cap) as [[[f' i] o]|e|p]; cbn [fst]; try exact HD.
      * apply DInv_with_flow. discriminate.
      * apply DInv_with_flow. discriminate.
    + call_arms HD.
  - (* OStop *)
    destruct (s_obj s) as [|t f|hd c] eqn:Ho; [| destruct t | destruct hd]; cbn [fst]; try exact HD.
    + apply DInv_upd; [discriminate|exact HD].
    + call_arms HD.
  - (* OAsNewFlow *)
    destruct (s_obj s) as [|t f|hd c] eqn:Ho; [| destruct t | destruct hd]; cbn [fst]; try exact HD.
    destruct (as_new_flow f p) as [[f' nxt]|e|pn]; cbn [fst]; try exact HD.
    apply DInv_not_await. cbn. discriminate.
  - (* OFollow *)
    assert (Hg : DInv (fst match s_next s with
                 | Some n => ({| s_obj := ObFlow TPrepare n; s_next := None; s_stream := s_stream s;
                                 s_arrived := s_arrived s; s_consumed := s_consumed s;
                                 s_body := s_body s; s_sent := 0 |}, [w "ok"])
                 | None => (s, obs_np)
                 end)).
    { destruct (s_next s); cbn [fst]; [|exact HD]. apply DInv_not_await. cbn. discriminate. }
    destruct (s_obj s); exact Hg.
  - destruct (s_obj s) as [|t f|hd c] eqn:Ho; [| destruct t | destruct hd]; cbn [fst]; exact HD.
  - destruct (s_obj s) as [|t f|hd c] eqn:Ho; [| destruct t | destruct hd]; cbn [fst]; exact HD.
  - destruct (s_obj s) as [|t f|hd c] eqn:Ho; [| destruct t | destruct hd]; cbn [fst]; exact HD.
  - destruct (s_obj s) as [|t f|hd c] eqn:Ho; [| destruct t | destruct hd]; cbn [fst]; exact HD.
  - destruct (s_obj s) as [|t f|hd c] eqn:Ho; [| destruct t | destruct hd]; cbn [fst]; exact HD.
  - destruct (s_obj s) as [|t f|hd c] eqn:Ho; [| destruct t | destruct hd]; cbn [fst]; exact HD.
  - destruct (s_obj s) as [|t f|hd c] eqn:Ho; [| destruct t | destruct hd]; cbn [fst]; exact HD.
  - destruct (s_obj s) as [|t f|hd c] eqn:Ho; [| destruct t | destruct hd]; cbn [fst]; exact HD.
  - destruct (s_obj s) as [|t f|hd c] eqn:Ho; [| destruct t | destruct hd]; cbn [fst]; exact HD.
  - destruct (s_obj s) as [|t f|hd c] eqn:Ho; [| destruct t | destruct hd]; cbn [fst]; exact HD.
  - destruct (s_obj s) as [|t f|hd c] eqn:Ho; [| destruct t | destruct hd]; cbn [fst]; exact HD.
  - destruct (s_obj s) as [|t f|hd c] eqn:Ho; [| destruct t | destruct hd]; cbn [fst]; exact HD.
  - destruct (s_obj s) as [|t f|hd c] eqn:Ho; [| destruct t | destruct hd]; cbn [fst]; exact HD.
  - destruct (s_obj s) as [|t f|hd c] eqn:Ho; [| destruct t | destruct hd]; cbn [fst]; exact HD.
  - destruct (s_obj s) as [|t f|hd c] eqn:Ho; [| destruct t | destruct hd]; cbn [fst]; exact HD.
  - destruct (s_obj s) as [|t f|hd c] eqn:Ho; [| destruct t | destruct hd]; cbn [fst]; exact HD.
  - destruct (s_obj s) as [|t f|hd c] eqn:Ho; [| destruct t | destruct hd]; cbn [fst]; exact HD.
  - destruct (s_obj s) as [|t f|hd c] eqn:Ho; [| destruct t | destruct hd]; cbn [fst]; exact HD.
Qed.

(* ------------------------------------------------------------------ one step, histories *)

Theorem step_good2 s o :
  SInv s -> DInv s -> ~ Known s o -> in_quantifier2 s o ->
  Good (step s o) /\ DInv (fst (step s o)).
Proof.
  intros HS HD HK HQ. split.
  - apply step_good; [exact HS|exact HK|exact (inq2_inq s o HD HQ)].
  - apply dinv_step; assumption.
Qed.

Fixpoint admissible2 (s : sstate) (ops : list op) : Prop :=
  match ops with
  | [] => True
  | o :: t => ~ Known s o /\ in_quantifier2 s o /\ admissible2 (fst (step s o)) t
  end.

Lemma dinv_init : DInv s_init.
Proof. intros f Ho. cbn in Ho. discriminate. Qed.

(** The weaker conditions imply the ones the C09 history theorems were stated with. *)
Theorem admissible2_admissible : forall ops s,
  SInv s -> DInv s -> admissible2 s ops -> admissible s ops.
Proof.
  induction ops as [|o t IH]; intros s HS HD Ha; [exact I|].
  destruct Ha as (HK & HQ & Ht). destruct (step_good2 s o HS HD HK HQ) as [[_ HS'] HD'].
  split; [exact HK|]. split; [exact (inq2_inq s o HD HQ)|]. exact (IH _ HS' HD' Ht).
Qed.

Theorem history_good2 : forall ops s,
  SInv s -> DInv s -> admissible2 s ops ->
  Forall (fun o => o <> obs_panic) (obs_run s ops) /\ SInv (run_ops s ops) /\ DInv (run_ops s ops).
Proof.
  induction ops as [|o t IH]; intros s HS HD Ha.
  - split; [constructor|split; assumption].
  - destruct Ha as (HK & HQ & Ht). destruct (step_good2 s o HS HD HK HQ) as [[Hno HS'] HD'].
    destruct (IH _ HS' HD' Ht) as (Hf & Hfin & Hdf). rewrite run_ops_cons.
    split; [constructor; assumption|split; assumption].
Qed.

(** After every such history the tracked window is safe to present. *)
Theorem tracked_window_safe ops f :
  admissible2 s_init ops -> s_obj (run_ops s_init ops) = ObFlow TAwait100 f ->
  ~ misuse_100 f (window (run_ops s_init ops)).
Proof.
  intros Ha Ho. destruct (history_good2 ops s_init sinv_init dinv_init Ha) as (_ & _ & HD).
  exact (tracked_never_misuse _ f HD Ho).
Qed.

(* ------------------------------------------------------------------ a (conservative) checker *)

Definition refusal_window_b (w : bytes) : bool :=
  match try_parse_response 0 w with
  | Ok (Some (_, r)) => negb (rs_status r =? 100)
  | Err HttpParseTooManyHeaders => true
  | _ => false
  end.

Lemma refusal_window_b_false w : refusal_window_b w = false -> ~ refusal_window w.
Proof.
  unfold refusal_window_b, C12_flow.refusal_window.
  destruct (try_parse_response 0 w) as [[[u r]|]|e|p]; try (intros _ H; exact H).
  - destruct (N.eqb_spec (rs_status r) 100); [intros _ H; contradiction|discriminate].
  - destruct e; try (intros _ H; exact H). discriminate.
Qed.

(** Sufficient, not necessary: a raw window is accepted if it does not provoke a first refusal, a
    new stream if the flow in Await100 has not been refused. *)
Definition inq2_b (s : sstate) (o : op) : bool :=
  match o, s_obj s with
  | ONew r, _ => abs_uri_b (rq_uri r)
  | OCallWithout r, _ => abs_uri_b (rq_uri r)
  | OCallWith r, _ => abs_uri_b (rq_uri r)
  | OHeader _ _, ObFlow TPrepare f => len (am_added (c_req (i_call f))) <? HEADER_BUDGET
  | ORawTry100 b, ObFlow TAwait100 f =>
      negb (misuse_100_b f b) && (negb (i_should_send_body f) || negb (refusal_window_b b))
  | OSetStream b, ObFlow TAwait100 f => i_should_send_body f
  | _, _ => true
  end.

Fixpoint admissible2_b (s : sstate) (ops : list op) : bool :=
  match ops with
  | [] => true
  | o :: t => negb (known_b s o) && inq2_b s o && admissible2_b (fst (step s o)) t
  end.

Lemma inq2_b_sound s o : inq2_b s o = true -> in_quantifier2 s o.
Proof.
  unfold inq2_b, in_quantifier2. intros H.
  destruct o; try exact I;
    try (destruct (s_obj s); apply abs_uri_b_sound; exact H);
    destruct (s_obj s) as [|t f|hd c]; try exact I; destruct t; try exact I.
  - apply N.ltb_lt. exact H.
  - intros Hs. rewrite Hs in H. discriminate.
  - apply andb_prop in H. destruct H as [H1 H2]. split.
    + apply misuse_100_b_sound. destruct (misuse_100_b f w); [discriminate|reflexivity].
    + intros Hs Hw. exfalso. rewrite Hs in H2. cbn [negb orb] in H2.
      apply (refusal_window_b_false w); [|exact Hw].
      destruct (refusal_window_b w); [discriminate|reflexivity].
Qed.

Lemma admissible2_b_sound : forall ops s, admissible2_b s ops = true -> admissible2 s ops.
Proof.
  induction ops as [|o t IH]; intros s H; [exact I|].
  cbn [admissible2_b] in H. apply andb_prop in H. destruct H as [H H3].
  apply andb_prop in H. destruct H as [H1 H2].
  split; [apply known_b_sound; destruct (known_b s o); [discriminate|reflexivity]|].
  split; [apply inq2_b_sound; exact H2|apply IH; exact H3].
Qed.
