(** C05 / C20: concrete heads for the non-vacuity examples, with their well-formedness proofs. *)
From Coq Require Import Lia ZArith.
From Hoot Require Import Base Chunk Body Httparse Parser Url Request Call.
From Hoot.proofs Require Import BytesLemmas C05_spec C05_proofs.
Open Scope N_scope.

(** HTTP/1.1 200 OK / Set-Cookie: a=1 / X-Empty:<SP><HTAB> / Set-Cookie:<SP><SP>b<0xC8><SP>c<HTAB>
    -- a repeated name, an empty value, obs-text, inner and surrounding white space. *)
Definition demo_head : resp_head :=
  {| rh_version := 1; rh_status := 200; rh_reason := Some (s2b "OK");
     rh_fields :=
       [ {| f_name := s2b "Set-Cookie"; f_ows1 := [32]; f_value := s2b "a=1"; f_ows2 := [] |};
         {| f_name := s2b "X-Empty"; f_ows1 := []; f_value := []; f_ows2 := [32; 9] |};
         {| f_name := s2b "Set-Cookie"; f_ows1 := [32; 32]; f_value := [98; 200; 32; 99]; f_ows2 := [9] |} ] |}.

(** HTTP/1.0 302 (no reason phrase) / Location: /x / Server: y *)
Definition demo_redirect : resp_head :=
  {| rh_version := 0; rh_status := 302; rh_reason := None;
     rh_fields :=
       [ {| f_name := s2b "Location"; f_ows1 := [32]; f_value := s2b "/x"; f_ows2 := [] |};
         {| f_name := s2b "Server"; f_ows1 := [32]; f_value := s2b "y"; f_ows2 := [] |} ] |}.

(** OPTIONS /a?b=c HTTP/1.1 / Host: h / Accept:<SP>*/*<SP> *)
Definition demo_request : req_head :=
  {| qh_method := s2b "OPTIONS"; qh_target := s2b "/a?b=c"; qh_version := 1;
     qh_fields :=
       [ {| f_name := s2b "Host"; f_ows1 := [32]; f_value := s2b "h"; f_ows2 := [] |};
         {| f_name := s2b "Accept"; f_ows1 := [32]; f_value := s2b "*/*"; f_ows2 := [32] |} ] |}.

Definition demo_call : call :=
  {| c_req := am_new placeholder; c_analyzed := true; c_phase := PRecvResponse;
     c_writer := new_none; c_reader := None; c_skip := false; c_stop := false |}.

(** A head with [n] fields "a: b". *)
Definition many_fields (n : nat) : resp_head :=
  {| rh_version := 1; rh_status := 200; rh_reason := Some (s2b "OK");
     rh_fields := repeat {| f_name := [97]; f_ows1 := [32]; f_value := [98]; f_ows2 := [] |} n |}.

Ltac wf_field_tac :=
  unfold wf_field; cbn [f_name f_ows1 f_value f_ows2];
  repeat split; try discriminate; vm_compute; reflexivity.

Lemma demo_head_wf : wf_resp_head demo_head.
Proof.
  unfold wf_resp_head, demo_head. cbn [rh_version rh_status rh_reason rh_fields].
  split; [right; reflexivity|]. split; [lia|]. split; [reflexivity|].
  repeat constructor; wf_field_tac.
Qed.

Lemma demo_redirect_wf : wf_resp_head demo_redirect.
Proof.
  unfold wf_resp_head, demo_redirect. cbn [rh_version rh_status rh_reason rh_fields].
  split; [left; reflexivity|]. split; [lia|]. split; [exact I|].
  repeat constructor; wf_field_tac.
Qed.

Lemma demo_request_wf : wf_req_head demo_request.
Proof.
  unfold wf_req_head, demo_request. cbn [qh_method qh_target qh_version qh_fields].
  split; [discriminate|]. split; [reflexivity|]. split; [discriminate|]. split; [reflexivity|].
  split; [right; reflexivity|].
  repeat constructor; wf_field_tac.
Qed.

Lemma many_fields_wf n : wf_resp_head (many_fields n).
Proof.
  unfold wf_resp_head, many_fields. cbn [rh_version rh_status rh_reason rh_fields].
  split; [right; reflexivity|]. split; [lia|]. split; [reflexivity|].
  apply Forall_forall. intros f Hf. apply repeat_spec in Hf. subst f. wf_field_tac.
Qed.

(** The known finding on a concrete head: [demo_redirect] is 41 bytes; its first 33 bytes end inside
    the Server line.  The caller gets a "complete" response of 33 bytes with the Server field lost
    and a synthetic connection: close. *)
Lemma known_refuted :
  exists c h p x,
    wf_resp_head h /\ (List.length (rh_fields h) <= LIMIT)%nat /\
    render_response_head h = p ++ x /\ x <> [] /\ KnownClass h p /\
    call_try_response c p =
      Ok (set_reader c (Some RNoBody),
          Some (len p, {| rs_version := 0; rs_status := 302;
                          rs_headers := [ (s2b "location", [s2b "/x"]); (s2b "connection", [s2b "close"]) ] |})).
Proof.
  exists demo_call, demo_redirect,
         (take 33 (render_response_head demo_redirect)), (drop 33 (render_response_head demo_redirect)).
  split; [exact demo_redirect_wf|]. split; [unfold LIMIT, demo_redirect; cbn [rh_fields List.length]; lia|].
  split; [vm_compute; reflexivity|]. split; [vm_compute; discriminate|].
  split; [split; vm_compute; reflexivity|]. vm_compute. reflexivity.
Qed.
