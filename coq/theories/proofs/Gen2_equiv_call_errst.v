(** What a FAILED Call<RecvResponse>::try_response leaves behind (the function translated in error-state mode,
    Gen2.gen_call_try_response_errst: the value of state.reader at every point where the function returns an error): the reader as it
    was.  The model's script semantics keep the call unchanged on an error of [call_try_response]; this is that assumption, proved
    about the code: an error (a parser error, HeadersWith100, a Content-Length that is not text, a framing error) comes before the
    reader is recorded. *)
From Coq Require Import NArith Bool List String.
From Hoot Require Import Base Chunk Body Httparse Parser Request Call Flow GenLib Gen Gen2.
Open Scope N_scope.

Theorem gen_call_try_response_errst_unchanged reader m input parsed partial reader' :
  gen_call_try_response_errst reader m input parsed partial = Some reader' -> reader' = reader.
Proof.
  unfold gen_call_try_response_errst. cbv zeta.
  repeat match goal with
         | |- context [match ?x with _ => _ end] => destruct x
         | |- context [if ?x then _ else _] => destruct x
         end;
    intros H; try discriminate H; injection H as <-; reflexivity.
Qed.

(** Non-vacuity: an error path exists (headers with a 100), and it reports the untouched reader. *)
Example gen_call_try_response_errst_example :
  gen_call_try_response_errst None GET [] (Ok (Some (10, {| rs_version := 1; rs_status := 100; rs_headers := [(s2b "x", [s2b "y"])] |}))) (Ok None)
  = Some None.
Proof. reflexivity. Qed.
