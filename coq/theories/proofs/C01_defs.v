(** C01 (part 1): the exchange, the canonical flow record at every position of the exchange, the
    instrumented run (ghost accumulators), the side conditions on schedules and the simulation
    invariant [Sim].  Definitions and a few basic facts only. *)
From Coq Require Import Lia ZArith List.
From Hoot Require Import Base Chunk Body Httparse Parser Url Request Call Flow Script.
From Hoot.proofs Require Import BytesLemmas Reasons C17_proofs C02_proofs C03_proofs C05_spec C20_proofs
                                C05_proofs C07_spec C11_proofs.
Open Scope N_scope.

(* ------------------------------------------------------------------ the exchange *)

(** Everything that is fixed before any I/O slicing is chosen: the request, whether
    [send_body_despite_method] is called, the request body payload, and the server stream
    [h100 ++ H ++ wire ++ rest] ([x_coding] is only meaningful for a chunked response body). *)
Record exch := {
  x_pre : bytes;            (* server bytes of earlier exchanges on this connection, all consumed *)
  x_req : request;
  x_despite : bool;
  x_body : bytes;
  x_h100 : bytes;
  x_head : resp_head;
  x_coding : coding;
  x_wire : bytes;
  x_rest : bytes
}.

Definition x_need (x : exch) : bool := need_request_body (rq_method (x_req x)).
Definition x_due (x : exch) : bool := x_need x || x_despite x.
Definition x_aw0 (x : exch) : bool := headers_has (rq_headers (x_req x)) (s2b "expect") (s2b "100-continue").
Definition x_h10 (x : exch) : bool := match rq_version (x_req x) with V10 => true | _ => false end.
Definition x_ccl (x : exch) : bool := headers_has (rq_headers (x_req x)) (s2b "connection") (s2b "close").
Definition x_rs0 (x : exch) : list reason :=
  (if x_h10 x then [Http10] else []) ++ (if x_ccl x then [ClientConnectionClose] else []).

(** The flow right after [ONew r] (and [ODespite]). *)
Definition x_c0 (x : exch) : call :=
  {| c_req := am_new (x_req x); c_analyzed := false; c_phase := PLine;
     c_writer := if x_due x then new_chunked else new_none;
     c_reader := None; c_skip := x_despite x && negb (x_need x); c_stop := false |}.
Definition x_hold0 (x : exch) : holder := if x_due x then HWithBody else HWithoutBody.
Definition x_f0 (x : exch) : inner :=
  {| i_call := x_c0 x; i_holder := x_hold0 x; i_reasons := x_rs0 x;
     i_should_send_body := x_due x; i_await_100 := x_aw0 x; i_status := None; i_location := None |}.

(** What analysis makes of it (C17): request, body writer, the lines of the head. *)
Definition x_ca (x : exch) : call := analysed_call (x_c0 x).
Definition x_a (x : exch) : amended := c_req (x_ca x).
Definition x_wm (x : exch) : writer := c_writer (x_ca x).
Definition x_lines (x : exch) : list bytes := head_lines (x_a x).
Definition x_reqhead (x : exch) : bytes := C02_proofs.render_request_head (x_a x).

(** The canonical call / flow records: everything that never changes is fixed by [x]. *)
Definition cl (x : exch) (p : phase) (w : writer) (rd : option reader) (stop : bool) : call :=
  {| c_req := x_a x; c_analyzed := true; c_phase := p; c_writer := w; c_reader := rd;
     c_skip := c_skip (x_c0 x); c_stop := stop |}.
Definition mk (x : exch) (p : phase) (w : writer) (rd : option reader) (stop : bool) (hold : holder)
              (rs : list reason) (aw : bool) (st : option N) (loc : option bytes) : inner :=
  {| i_call := cl x p w rd stop; i_holder := hold; i_reasons := rs;
     i_should_send_body := x_due x; i_await_100 := aw; i_status := st; i_location := loc |}.

(** The server side. *)
Definition x_H (x : exch) : bytes := render_response_head (x_head x).
Definition x_rsp (x : exch) : response := response_of (x_head x).
Definition x_stream (x : exch) : bytes := x_pre x ++ x_h100 x ++ x_H x ++ x_wire x ++ x_rest x.
Definition x_off (x : exch) : N := len (x_pre x).
Definition x_status (x : exch) : N := rh_status (x_head x).

(** The body framing C06 assigns to (method, head). *)
Definition x_framing (x : exch) : res reader :=
  let r := x_rsp x in
  let m := rq_method (x_req x) in
  if match hm_get (rs_headers r) (s2b "content-length") with Some v => negb (is_text v) | None => false end
  then Err BadContentLengthHeader
  else for_response (rs_version r =? 0) (method_eqb m HEAD) (method_eqb m CONNECT) (rs_status r)
                    (lookup_text (rs_headers r) (s2b "content-length"))
                    (lookup_text (rs_headers r) (s2b "transfer-encoding")).
Definition x_rd0 (x : exch) : reader := match x_framing x with Ok r => r | _ => RNoBody end.
Definition x_payload (x : exch) : bytes :=
  match x_rd0 x with RChunked _ => payload (x_coding x) | _ => x_wire x end.

Definition x_scl (x : exch) : bool :=
  headers_has (hm_iter (rs_headers (x_rsp x))) (s2b "connection") (s2b "close").
Definition x_cdl (x : exch) : bool := reader_is_close (x_rd0 x).
Definition x_rs1 (x : exch) : list reason :=
  if x_scl x then reasons_with (x_rs0 x) ServerConnectionClose else x_rs0 x.
Definition x_rs2 (x : exch) : list reason :=
  if x_cdl x then reasons_with (x_rs1 x) CloseDelimitedBody else x_rs1 x.
Definition x_loc (x : exch) : option bytes := last_opt (hm_get_all (rs_headers (x_rsp x)) (s2b "location")).
Definition x_redirect (x : exch) : bool := is_redirection (x_status x) && negb (x_status x =? 304).
Definition x_awfin (x : exch) : bool := x_aw0 x && match x_h100 x with [] => true | _ => false end.
Definition aw_at (x : exch) (c100 : bool) : bool := x_aw0 x && negb c100.
Definition x_base (x : exch) : N := x_off x + len (x_h100 x) + len (x_H x).

(** Well-formed exchanges (the quantifier of the property). *)
Definition bare100 (b : bytes) : Prop :=
  exists h1, wf_resp_head h1 /\ rh_status h1 = 100 /\ bare h1 /\ b = render_response_head h1.

Definition wire_ok (x : exch) : Prop :=
  match x_rd0 x with
  | RNoBody => x_wire x = []
  | RLength n => len (x_wire x) = n
  | RChunked _ => x_wire x = enc (x_coding x) /\ valid (x_coding x) /\ line_limit_F17 (x_coding x)
  | RClose => x_rest x = []
  end.

Definition WfX (x : exch) : Prop :=
  (* the request is one analysis accepts *)
  u_auth (rq_uri (x_req x)) <> [] /\
  valid_header_value (uri_host (rq_uri (x_req x))) = true /\
  call_invalid (x_c0 x) = false /\
  (* the payload fits the framing of the request *)
  (x_due x = false -> x_body x = []) /\
  (forall n, w_mode (x_wm x) = SSized n -> len (x_body x) = n) /\
  (* interim response: none, or a bare 100 which the request asked for *)
  (x_h100 x = [] \/ (x_aw0 x = true /\ bare100 (x_h100 x))) /\
  (* final response head *)
  wf_resp_head (x_head x) /\ rh_status (x_head x) <> 100 /\ (List.length (rh_fields (x_head x)) <= 128)%nat /\
  x_framing x = Ok (x_rd0 x) /\
  wire_ok x.

(* ------------------------------------------------------------------ positions *)

(** Where the exchange stands.  [c100]: the interim 100 has been consumed. *)
Inductive pos :=
| PPrep
| PHead0
| PHeadA (p : phase)
| PAwait (c100 : bool)
| PSend (c100 : bool) (w : writer)
| PResp (c100 : bool) (w : writer)
| PGot (w : writer)
| PRecv (w : writer) (rd : reader) (stop : bool)
| PTerm (t : tag) (w : writer) (rd : reader) (stop : bool).

Definition flow_of (x : exch) (p : pos) : tag * inner :=
  match p with
  | PPrep => (TPrepare, x_f0 x)
  | PHead0 => (TSendRequest, x_f0 x)
  | PHeadA ph => (TSendRequest, mk x ph (x_wm x) None false (x_hold0 x) (x_rs0 x) (x_aw0 x) None None)
  | PAwait c => (TAwait100, mk x PBody (x_wm x) None false HWithBody (x_rs0 x) (aw_at x c) None None)
  | PSend c w => (TSendBody, mk x PBody w None false HWithBody (x_rs0 x) (aw_at x c) None None)
  | PResp c w => (TRecvResponse, mk x PRecvResponse w None false HRecvResponse (x_rs0 x) (aw_at x c) None None)
  | PGot w => (TRecvResponse, mk x PRecvResponse w (Some (x_rd0 x)) false HRecvResponse (x_rs1 x) (x_awfin x)
                                 (Some (x_status x)) (x_loc x))
  | PRecv w rd stop => (TRecvBody, mk x PRecvBody w (Some rd) stop HRecvBody (x_rs2 x) (x_awfin x)
                                      (Some (x_status x)) (x_loc x))
  | PTerm t w rd stop => (t, mk x PRecvBody w (Some rd) stop HRecvBody (x_rs2 x) (x_awfin x)
                                (Some (x_status x)) (x_loc x))
  end.

(* ------------------------------------------------------------------ the instrumented run *)

(** Ghost accumulators: the bytes / values the caller got back so far. *)
Record acc := {
  a_head : bytes;            (* concatenation of the outputs of write_head *)
  a_body : bytes;            (* concatenation of the outputs of the body writes *)
  a_resp : list response;    (* every response handed back by try_response *)
  a_rbody : bytes;           (* concatenation of the outputs of read *)
  a_term : option tag        (* the first of Redirect / Cleanup that [proceed] reported *)
}.

Definition acc0 : acc := {| a_head := []; a_body := []; a_resp := []; a_rbody := []; a_term := None |}.

Definition term_of (o : obj) : option tag :=
  match o with
  | ObFlow TRedirect _ => Some TRedirect
  | ObFlow TCleanup _ => Some TCleanup
  | _ => None
  end.

Definition astep (s : sstate) (a : acc) (o : op) : acc :=
  match o, s_obj s with
  | OWriteHead cap, ObFlow TSendRequest f =>
      match send_request_write f cap with
      | Ok (_, out) => {| a_head := a_head a ++ out; a_body := a_body a; a_resp := a_resp a;
                          a_rbody := a_rbody a; a_term := a_term a |}
      | _ => a
      end
  | OWriteFrom t cap, ObFlow TSendBody f =>
      match send_body_write f (take t (drop (s_sent s) (s_body s))) cap with
      | Ok (_, _, out) => {| a_head := a_head a; a_body := a_body a ++ out; a_resp := a_resp a;
                             a_rbody := a_rbody a; a_term := a_term a |}
      | _ => a
      end
  | OTryResponse, ObFlow TRecvResponse f =>
      match recv_try_response f (window s) with
      | Ok (_, _, Some r) => {| a_head := a_head a; a_body := a_body a; a_resp := a_resp a ++ [r];
                                a_rbody := a_rbody a; a_term := a_term a |}
      | _ => a
      end
  | ORead cap, ObFlow TRecvBody f =>
      match recv_body_read f (window s) cap with
      | Ok (_, _, out) => {| a_head := a_head a; a_body := a_body a; a_resp := a_resp a;
                             a_rbody := a_rbody a ++ out; a_term := a_term a |}
      | _ => a
      end
  | OProceed, _ =>
      {| a_head := a_head a; a_body := a_body a; a_resp := a_resp a; a_rbody := a_rbody a;
         a_term := match a_term a with
                   | Some t => Some t
                   | None => term_of (s_obj (fst (step s OProceed)))
                   end |}
  | _, _ => a
  end.

Fixpoint irun (s : sstate) (a : acc) (ops : list op) : sstate * acc :=
  match ops with
  | [] => (s, a)
  | o :: t => irun (fst (step s o)) (astep s a o) t
  end.

Lemma irun_state : forall ops s a, fst (irun s a ops) = run_ops s ops.
Proof. induction ops as [|o t IH]; intros s a; [reflexivity|]. cbn [irun]. rewrite IH. reflexivity. Qed.

Lemma irun_app : forall p q s a, irun s a (p ++ q) = irun (fst (irun s a p)) (snd (irun s a p)) q.
Proof. induction p as [|o t IH]; intros q s a; [reflexivity|]. cbn [irun app]. apply IH. Qed.

(* ------------------------------------------------------------------ schedules *)

(** The caller actions of one exchange. *)
Definition is_query (o : op) : bool :=
  match o with
  | OQCanProceed | OQKeepAwait | OQIsChunked | OQMaxInput _ | OQBoundary | OQBodyMode
  | OQMustClose | OQCloseReason | OQStatus | OQMethod | OQUri | OQVersion | OQIsFinished
  | OQHeaders => true
  | _ => false
  end.

Definition sched_op (o : op) : bool :=
  match o with
  | OProceed | OWriteHead _ | OWriteFrom _ _ | OArrive _ | OTry100 | OTryResponse | ORead _ | OStop _ => true
  | _ => is_query o
  end.

Definition recv_or_later (s : sstate) : Prop :=
  match s_obj s with
  | ObFlow TRecvResponse _ | ObFlow TRecvBody _ | ObFlow TRedirect _ | ObFlow TCleanup _ => True
  | _ => False
  end.

(** The caller stops calling [try_response] once a response has been handed back. *)
Definition head_pending (s : sstate) : Prop :=
  match s_obj s with
  | ObFlow TRecvResponse f => recv_response_can_proceed f = Ok false
  | _ => True
  end.

(** Finding F10 (owned by C05): the window ends inside the final head, in C05's [KnownClass]. *)
Definition F10 (x : exch) (s : sstate) : Prop :=
  exists y, y <> [] /\ x_H x = window s ++ y /\ KnownClass (x_head x) (window s).

(** Dynamic side conditions, on (state, operation):
    - causality: before the request is complete only bytes of the interim 100 may arrive;
    - a body write with an empty input (which ends a chunked body) only when the payload is used up;
    - [try_response] only while no response has been handed back, and not on a window in F10. *)
Definition allowed (x : exch) (s : sstate) (o : op) : Prop :=
  sched_op o = true /\
  match o with
  | OArrive k => recv_or_later s \/ N.min (len (s_stream s)) (s_arrived s + k) <= x_off x + len (x_h100 x)
  | OWriteFrom t _ => 1 <= t \/ s_sent s = len (s_body s)
  | OTryResponse => head_pending s /\ ~ F10 x s
  | _ => True
  end.

Fixpoint allowed_run (x : exch) (s : sstate) (ops : list op) : Prop :=
  match ops with
  | [] => True
  | o :: t => allowed x s o /\ allowed_run x (fst (step s o)) t
  end.

(** The state right after [OSetStream stream; OSetBody b; ONew r; (ODespite)] (first exchange,
    [x_pre x = []]); for a later exchange: the state after [ONew r; (ODespite)] on a connection on
    which exactly the earlier messages [x_pre x] have been consumed. *)
Definition start (x : exch) : sstate :=
  {| s_obj := ObFlow TPrepare (x_f0 x); s_next := None; s_stream := x_stream x; s_arrived := x_off x;
     s_consumed := x_off x; s_body := x_body x; s_sent := 0 |}.

Definition prologue (x : exch) : list op :=
  [OSetStream (x_stream x); OSetBody (x_body x); ONew (x_req x)] ++ (if x_despite x then [ODespite] else []).

(* ------------------------------------------------------------------ the invariant *)

Definition Base (x : exch) (s : sstate) : Prop :=
  s_stream s = x_stream x /\ s_body s = x_body x /\ s_arrived s <= len (x_stream x).

Definition Early (x : exch) (s : sstate) : Prop := s_arrived s <= x_off x + len (x_h100 x).

Definition HeadDone (x : exch) (a : acc) : Prop := a_head a = x_reqhead x.
Definition BodyNone (s : sstate) (a : acc) : Prop := s_sent s = 0 /\ a_body a = [].

(** What a complete request body looks like on the wire. *)
Definition body_final (x : exch) (out : bytes) : Prop :=
  match w_mode (x_wm x) with
  | SNone => out = []
  | SSized _ => out = x_body x
  | SChunked => exists cs, chunks_ok cs /\ concat cs = x_body x /\ out = enc_chunks cs ++ TERM
  end.
Definition BodyDone (x : exch) (s : sstate) (a : acc) : Prop :=
  s_sent s = len (x_body x) /\ body_final x (a_body a).

Definition RespNone (x : exch) (s : sstate) (a : acc) (c100 : bool) : Prop :=
  a_resp a = [] /\ a_rbody a = [] /\ a_term a = None /\
  s_consumed s = x_off x + (if c100 then len (x_h100 x) else 0) /\
  (c100 = true -> x_h100 x <> []).

(** The body writer versus the payload position. *)
Definition WriterRel (x : exch) (w : writer) (sent : N) (out : bytes) : Prop :=
  sent <= len (x_body x) /\
  (w_ended w = true -> sent = len (x_body x)) /\
  match w_mode (x_wm x) with
  | SNone => False
  | SSized _ => w_mode w = SSized (len (x_body x) - sent) /\ out = take sent (x_body x)
  | SChunked =>
      w_mode w = SChunked /\
      exists cs, chunks_ok cs /\ concat cs = take sent (x_body x) /\
                 out = enc_chunks cs ++ (if w_ended w then TERM else [])
  end.

(** The body reader versus the position in the response body: [i] wire bytes consumed. *)
Definition RdRel (x : exch) (rd : reader) (i : N) (out : bytes) : Prop :=
  match rd with
  | RNoBody => x_rd0 x = RNoBody /\ i = 0 /\ out = []
  | RLength lft => exists n, x_rd0 x = RLength n /\ i + lft = n /\ out = take i (x_wire x)
  | RChunked st =>
      x_rd0 x = RChunked DSize /\
      exists C R ds, x_wire x = C ++ R /\ i = len C /\ rel st R ds /\
                     payload (x_coding x) = out ++ concat ds
  | RClose => x_rd0 x = RClose /\ i <= len (x_wire x) /\ out = take i (x_wire x)
  end.

Definition Received (x : exch) (s : sstate) (a : acc) (rd : reader) : Prop :=
  a_resp a = [x_rsp x] /\
  exists i, s_consumed s = x_base x + i /\ RdRel x rd i (a_rbody a).

Definition pos_ok (x : exch) (p : pos) (s : sstate) (a : acc) : Prop :=
  match p with
  | PPrep | PHead0 => a_head a = [] /\ BodyNone s a /\ RespNone x s a false /\ Early x s
  | PHeadA ph =>
      wf_phase (len (am_headers (x_a x))) ph /\
      a_head a = concat (take (k_of (len (x_lines x)) ph) (x_lines x)) /\
      BodyNone s a /\ RespNone x s a false /\ Early x s
  | PAwait c =>
      HeadDone x a /\ BodyNone s a /\ RespNone x s a c /\ Early x s /\ x_due x = true /\ x_aw0 x = true
  | PSend c w =>
      HeadDone x a /\ WriterRel x w (s_sent s) (a_body a) /\ RespNone x s a c /\ Early x s /\ x_due x = true
  | PResp c w => HeadDone x a /\ BodyDone x s a /\ RespNone x s a c
  | PGot w =>
      HeadDone x a /\ BodyDone x s a /\ a_resp a = [x_rsp x] /\ a_rbody a = [] /\ a_term a = None /\
      s_consumed s = x_base x
  | PRecv w rd stop =>
      HeadDone x a /\ BodyDone x s a /\ Received x s a rd /\ a_term a = None
  | PTerm t w rd stop =>
      HeadDone x a /\ BodyDone x s a /\ Received x s a rd /\
      (reader_is_ended rd = true \/ rd = RClose) /\
      a_term a = Some (if x_redirect x then TRedirect else TCleanup) /\
      ((t = TRedirect /\ x_redirect x = true) \/ t = TCleanup)
  end.

Definition Sim (x : exch) (s : sstate) (a : acc) : Prop :=
  exists p, s_obj s = ObFlow (fst (flow_of x p)) (snd (flow_of x p)) /\ Base x s /\ pos_ok x p s a.

(** A complete exchange: a final state has been reached, and for a close-delimited body (whose end
    only the connection's EOF tells) the caller has read the stream to its end. *)
Definition complete (x : exch) (s : sstate) : Prop :=
  match s_obj s with
  | ObFlow TRedirect _ | ObFlow TCleanup _ => True
  | _ => False
  end /\
  (x_rd0 x = RClose -> s_consumed s = len (x_stream x)).

(** The outcome that no schedule can change. *)
Record outcome := {
  o_head : bytes; o_sent : N; o_payload : bytes; o_resp : list response; o_rbody : bytes;
  o_term : option tag; o_must_close : bool; o_close_reason : option bytes; o_consumed : N
}.

Definition outcome_of (s : sstate) (a : acc) : outcome :=
  {| o_head := a_head a; o_sent := s_sent s; o_payload := take (s_sent s) (s_body s); o_resp := a_resp a;
     o_rbody := a_rbody a; o_term := a_term a;
     o_must_close := match s_obj s with ObFlow _ f => must_close f | _ => false end;
     o_close_reason := match s_obj s with ObFlow _ f => close_reason f | _ => None end;
     o_consumed := s_consumed s |}.
