(** Part of Gen_equiv_frag (see there), the fragments C08 exports; split so that a change of one fragment disturbs only the property it belongs to. *)
From Coq Require Import NArith ZArith Bool List Lia ZifyBool ZifyN.
From Hoot Require Import Base Chunk Body Url Request Call Gen.
Open Scope N_scope.

Ltac frag := intros; cbv beta delta [gen_sized_write_n gen_chunk_to_write gen_read_limit_n gen_read_unlimit_n gen_chunk_read_n
                                      gen_size_len_end gen_write_overshoot gen_write_after_finish gen_direct_overshoot];
             repeat match goal with |- context [if ?c then _ else _] => destruct c eqn:? end; try reflexivity; lia.

Lemma gen_read_limit_n_spec s d l : gen_read_limit_n s d l = N.min (N.min s d) l.             Proof. frag. Qed.

Lemma gen_read_unlimit_n_spec s d : gen_read_unlimit_n s d = N.min s d.                       Proof. frag. Qed.

Lemma reader_read_length_gen lft src room stop :
  reader_read (RLength lft) src room stop =
  Ok (RLength (lft - gen_read_limit_n (len src) room lft), gen_read_limit_n (len src) room lft,
      take (gen_read_limit_n (len src) room lft) src).
Proof. unfold reader_read. rewrite ?gen_read_limit_n_spec. reflexivity. Qed.

Lemma reader_read_close_gen src room stop :
  reader_read RClose src room stop =
  Ok (RClose, gen_read_unlimit_n (len src) room, take (gen_read_unlimit_n (len src) room) src).
Proof. unfold reader_read. rewrite ?gen_read_unlimit_n_spec. reflexivity. Qed.

Lemma gen_read_left_usize_spec l : l < 18446744073709551616 -> gen_read_left_usize l = l.
Proof. intros H. unfold gen_read_left_usize. repeat (try lia; match goal with |- context [if ?c then _ else _] => destruct c eqn:? end); lia. Qed.
