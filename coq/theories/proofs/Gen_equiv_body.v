(** (integer arithmetic of src/body.rs) The functions translated from the Rust sources by tools/rs2coq.py (theories/Gen.v, regenerated on every run)
    equal the corresponding functions of the hand-written model, for ALL arguments.  These equalities are what ties
    the model to the code by proof rather than by sampling for the decision tables of src/ext.rs and the integer
    arithmetic of src/body.rs; the property files that depend on them re-export them. *)
From Coq Require Import NArith ZArith Bool List Lia ZifyBool ZifyN.
Ltac Zify.zify_post_hook ::= Z.div_mod_to_equations.
From Hoot Require Import Base Body Url Request Call Flow Gen.
Open Scope N_scope.

(** Robust against arithmetic rewrites of the Rust function: after unfolding both sides and splitting the
    conditionals, the equality is linear arithmetic with division and remainder by a constant. *)
Lemma gen_calculate_max_input_eq n : gen_calculate_max_input n = calculate_max_input n.
Proof.
  first
    [ reflexivity
    | unfold gen_calculate_max_input, calculate_max_input, DEFAULT_CHUNK_SIZE, DEFAULT_CHUNK_OVERHEAD; cbv zeta;
      repeat match goal with
             | |- context [if ?c then _ else _] => destruct c eqn:?
             end;
      lia ].
Qed.

(** [max_chunk_fit]: both loops (the translated one, 20 iterations of fuel, and the model's) are unrolled completely and the
    equality is decided by linear arithmetic on each combination of exit points, contradictory combinations being pruned as soon as
    they arise.  Nothing here depends on the shape of the Rust loop (its variables, whether the result is computed inside or after
    the loop, a closed form without any loop): an equivalent rewrite is accepted (seconds when the conditions coincide syntactically,
    a few minutes otherwise), a rewrite that differs for some (available, max_chunk) is refused. *)
Ltac split_if := match goal with |- context [if ?c then _ else _] => destruct c eqn:? end.
Ltac solve_leaf := repeat (try lia; split_if); try reflexivity; lia.

Lemma gen_max_chunk_fit_eq a m : gen_max_chunk_fit a m = max_chunk_fit a m.
Proof.
  cbv beta iota zeta delta -[N.add N.sub N.mul N.leb N.ltb N.eqb N.min N.max N.div N.modulo N.pow andb orb negb].
  solve_leaf.
Qed.
