(** (integer arithmetic of src/body.rs) The functions translated from the Rust sources by tools/rs2coq.py (theories/Gen.v, regenerated on every run)
    equal the corresponding functions of the hand-written model, for ALL arguments.  These equalities are what ties
    the model to the code by proof rather than by sampling for the decision tables of src/ext.rs and the integer
    arithmetic of src/body.rs; the property files that depend on them re-export them. *)
From Coq Require Import NArith ZArith Bool List Lia ZifyBool ZifyN.
Ltac Zify.zify_post_hook ::= Z.div_mod_to_equations.
From Hoot Require Import Base Body Url Request Call Flow Gen.
Open Scope N_scope.

(** Robust against arithmetic rewrites of the Rust function: after unfolding both sides and splitting the
    conditionals, the equality is linear arithmetic with division and remainder by a constant. *)
Lemma gen_calculate_max_input_eq n : gen_calculate_max_input n = calculate_max_input n.
Proof.
  first
    [ reflexivity
    | unfold gen_calculate_max_input, calculate_max_input, DEFAULT_CHUNK_SIZE, DEFAULT_CHUNK_OVERHEAD; cbv zeta;
      repeat match goal with
             | |- context [if ?c then _ else _] => destruct c eqn:?
             end;
      lia ].
Qed.

Lemma gen_fit_loop_eq f a m b d l :
  fst (fst (gen_max_chunk_fit_loop1 f a m b d l)) = fit_loop f a m b d l.
Proof.
  revert b d l. induction f as [|f IH]; intros b d l; cbn [gen_max_chunk_fit_loop1 fit_loop]; [reflexivity|].
  change CHUNK_LINE_OVERHEAD with 4.
  destruct (N.leb l m && N.leb (N.add (N.add l d) 4) a) eqn:E.
  - apply IH.
  - reflexivity.
Qed.

Lemma gen_max_chunk_fit_eq a m : gen_max_chunk_fit a m = max_chunk_fit a m.
Proof.
  unfold gen_max_chunk_fit, max_chunk_fit. rewrite <- gen_fit_loop_eq.
  destruct (gen_max_chunk_fit_loop1 20 a m 0 1 1) as [[b d] l]. reflexivity.
Qed.
