(** C13, additions after review 3:
    - the Authorization theorems ignoring case ([auth_iff_ci], under the convention of Request.v that
      the names of the original request are lower case, as [http::HeaderName] always is);
    - "stale framing": what the property text covers (Content-Length) and what it does not
      (an inherited Transfer-Encoding is NOT suppressed): [inherited_te_survives];
    - the analysis only ever appends Host / framing headers computed from the CURRENT flow
      ([faext], used by C13_added.v for "nothing the caller added at an earlier hop survives"). *)
From Coq Require Import Lia ZArith List.
From Hoot Require Import Base Chunk Body Httparse Parser Url Request Call Flow Script.
From Hoot.proofs Require Import AfterErr BytesLemmas C17_proofs C02_proofs C02_analysis
                                C13_proofs C13_script C13_examples.
Open Scope N_scope.

(* ------------------------------------------------------------------ Authorization, ignoring case *)

Definition lower_names (r : request) : Prop := Forall (fun h => lower (fst h) = fst h) (rq_headers r).

(** An inherited header whose name is "authorization" in any letter case. *)
Lemma hop_auth_ci orig p t h :
  lower_names orig -> lower (fst h) = s2b "authorization" ->
  (In h (hop_inherited orig p t) <-> In h (rq_headers orig) /\ keep_auth p (rq_uri orig) t = true).
Proof.
  intros Hl Hn. rewrite hop_inherited_in. split.
  - intros [Hin Hm]. split; [exact Hin|].
    unfold lower_names in Hl. rewrite Forall_forall in Hl. rewrite <- (Hl _ Hin), Hn in Hm.
    rewrite mem_unset_auth in Hm. apply negb_false_iff in Hm. exact Hm.
  - intros [Hin Hk]. split; [exact Hin|].
    unfold lower_names in Hl. rewrite Forall_forall in Hl. rewrite <- (Hl _ Hin), Hn.
    rewrite mem_unset_auth, Hk. reflexivity.
Qed.

Lemma auth_iff_ci orig hops p t f h :
  lower_names orig -> chain orig (hops ++ [(p, t)]) f -> lower (fst h) = s2b "authorization" ->
  (In h (am_inherited (req_of f)) <->
   In h (rq_headers orig) /\ p = SameHost /\ uri_host (rq_uri orig) = uri_host t /\
   (u_scheme (rq_uri orig) = u_scheme t \/ u_scheme t = s2b "https")).
Proof.
  intros Hl Hc Hn. destruct (chain_hop_inherited _ _ _ _ _ Hc) as (-> & _ & _).
  rewrite (hop_auth_ci _ _ _ _ Hl Hn), keep_auth_iff. reflexivity.
Qed.

Lemma never_ci orig hops t f h :
  lower_names orig -> chain orig (hops ++ [(Never, t)]) f -> lower (fst h) = s2b "authorization" ->
  ~ In h (am_inherited (req_of f)).
Proof.
  intros Hl Hc Hn Hin. apply (auth_iff_ci _ _ _ _ _ _ Hl Hc Hn) in Hin.
  destruct Hin as (_ & Hp & _). discriminate.
Qed.

(** The convention is needed IN THE MODEL: a request record with a capitalised name (which an
    [http::Request] cannot hold) would pass the exact-name filter.  So the ci statements are about
    requests as the http crate represents them. *)
Definition ex_capital : request :=
  {| rq_method := GET; rq_version := V11;
     rq_uri := {| u_scheme := s2b "http"; u_auth := s2b "a.test"; u_pq := s2b "/" |};
     rq_headers := [(s2b "Authorization", s2b "secret")] |}.

Lemma ci_convention_needed :
  ~ lower_names ex_capital /\
  hop_inherited ex_capital Never {| u_scheme := s2b "http"; u_auth := s2b "b.test"; u_pq := s2b "/" |}
    = [(s2b "Authorization", s2b "secret")].
Proof.
  split; [|vm_compute; reflexivity].
  intros H. unfold lower_names in H. inversion H as [|x l Hx _]. vm_compute in Hx. discriminate.
Qed.

(* ------------------------------------------------------------------ stale framing *)

(** The property text names Cookie, Content-Length and Authorization.  Its title says "stale
    framing"; of the two framing headers only Content-Length is suppressed.  An inherited
    Transfer-Encoding is NOT: it is effective at every hop, whatever the policy and the target.
    OBSERVATION (not a violation of the statement as written): a POST with an explicit
    "transfer-encoding: chunked" that is redirected with 303 becomes a GET that still carries the
    field -- and the analysis of the new request then refuses it (MethodForbidsBody), see
    [te_script] below; with 307/308 the POST is not followed at all (C15). *)
Lemma inherited_te_survives orig hops p t f v :
  chain orig (hops ++ [(p, t)]) f ->
  (In (s2b "transfer-encoding", v) (am_inherited (req_of f)) <->
   In (s2b "transfer-encoding", v) (rq_headers orig)) /\
  (In (s2b "transfer-encoding", v) (rq_headers orig) ->
   In (s2b "transfer-encoding", v) (am_headers (req_of f))).
Proof.
  intros Hc.
  assert (E : In (s2b "transfer-encoding", v) (am_inherited (req_of f)) <->
              In (s2b "transfer-encoding", v) (rq_headers orig)).
  { apply (c13_other_lemma _ _ _ _ _ _ Hc); cbn [fst]; discriminate. }
  split; [exact E|]. intros Hin. rewrite am_headers_split. apply in_or_app. right. apply E. exact Hin.
Qed.

(** The suppression list, exactly: nothing but these (at most) three names is ever suppressed. *)
Lemma suppressed_names p u t k :
  mem_bytes k (unset_list p u t) = true ->
  k = s2b "authorization" \/ k = s2b "cookie" \/ k = s2b "content-length".
Proof.
  intros H.
  destruct (list_eq_dec N.eq_dec k (s2b "authorization")) as [E1|E1]; [auto|].
  destruct (list_eq_dec N.eq_dec k (s2b "cookie")) as [E2|E2]; [auto|].
  destruct (list_eq_dec N.eq_dec k (s2b "content-length")) as [E3|E3]; [auto|].
  rewrite (mem_unset_other _ _ _ _ E1 E2 E3) in H. discriminate.
Qed.

(* ------------------------------------------------------------------ what the analysis appends *)

(** A header the analysis of a request may append: Host naming the host of the request's effective
    URI, or one framing header. *)
Definition analysis_header (a : amended) (h : header) : Prop :=
  h = (s2b "host", uri_host (am_eff_uri a)) \/
  h = (s2b "transfer-encoding", s2b "chunked") \/
  exists n, h = (s2b "content-length", dec_of n).

(** [aext a a']: [a'] is [a], or [a] after analysis: Host / framing appended to the added headers. *)
Definition aext (a a' : amended) : Prop :=
  exists l, a' = with_added a l /\ Forall (analysis_header a) l.

Lemma aext_refl a : aext a a.
Proof. exists []. split; [rewrite with_added_nil; reflexivity|constructor]. Qed.

Lemma aext_eq a a' : a' = a -> aext a a'.
Proof. intros ->. apply aext_refl. Qed.

Lemma host_added_analysis a : Forall (analysis_header a) (host_added a).
Proof.
  unfold host_added. destruct (hosts a); [|constructor].
  destruct (u_auth (am_eff_uri a)); [constructor|].
  apply Forall_cons; [left; reflexivity|constructor].
Qed.

Lemma framing_added_analysis a w : Forall (analysis_header a) (framing_added a w).
Proof.
  unfold framing_added. destruct (framing_present a); [constructor|].
  unfold framing_header. destruct (w_mode w).
  - constructor.
  - apply Forall_cons; [|constructor]. right. right. eexists. reflexivity.
  - apply Forall_cons; [|constructor]. right. left. reflexivity.
Qed.

Lemma analyze_request_aext c c1 : analyze_request c = Ok c1 -> aext (c_req c) (c_req c1).
Proof.
  intros H. destruct (analyze_request_ok_cases c c1 H) as [[_ ->]|[_ ->]].
  - apply aext_refl.
  - unfold analysed_call. cbn [c_req]. eexists. split; [reflexivity|].
    apply Forall_app. split; [apply host_added_analysis|apply framing_added_analysis].
Qed.

Lemma call_write_nobody_aext c cap c' out :
  call_write_nobody c cap = Ok (c', out) -> aext (c_req c) (c_req c').
Proof.
  unfold call_write_nobody. intros H.
  destruct (analyze_request c) as [c1| |] eqn:E; cbn [bind] in H; try discriminate.
  destruct (try_write_prelude _ _ _) as [r| |]; cbn [bind] in H; try discriminate.
  inversion H; subst. cbn [set_phase c_req]. apply analyze_request_aext. exact E.
Qed.

Lemma call_write_body_aext c input cap c' n out :
  call_write_body c input cap = Ok (c', n, out) -> aext (c_req c) (c_req c').
Proof.
  unfold call_write_body. intros H.
  destruct (analyze_request c) as [c1| |] eqn:E; cbn [bind] in H; try discriminate.
  apply analyze_request_aext in E.
  destruct (is_prelude (c_phase c1)).
  - destruct (try_write_prelude _ _ _) as [r| |]; cbn [bind] in H; try discriminate.
    inversion H; subst. exact E.
  - destruct (is_body (c_phase c1)).
    + destruct (_ && _); [discriminate|].
      destruct (match left_to_send (c_writer c1) with Some l => l <? len input | None => false end);
        [discriminate|].
      destruct (writer_write _ _ _) as [[[w' used] o]| |]; cbn [bind] in H; try discriminate.
      inversion H; subst. exact E.
    + inversion H; subst. exact E.
Qed.

(** Flow level: every operation other than [header()] leaves the request as it is or appends what
    the analysis computes. *)
Definition faext (f f' : inner) : Prop := aext (req_of f) (req_of f').

Lemma faext_refl f : faext f f.
Proof. apply aext_refl. Qed.
Lemma despite_faext f f' : send_body_despite_method f = Ok f' -> faext f f'.
Proof.
  unfold send_body_despite_method, faext, req_of. destruct (i_holder f).
  - destruct (into_send_body (i_call f)) as [c| |] eqn:E; cbn [bind]; try discriminate.
    intros H. inversion H; subst. cbn. apply aext_eq. apply into_send_body_req. exact E.
  - intros H. inversion H. apply aext_refl.
  - intros H. inversion H. apply aext_refl.
  - intros H. inversion H. apply aext_refl.
Qed.

Lemma send_request_write_faext f cap f' out : send_request_write f cap = Ok (f', out) -> faext f f'.
Proof.
  unfold send_request_write, faext, req_of. destruct (i_holder f); try discriminate.
  - destruct (call_write_nobody (i_call f) cap) as [[c o]| |] eqn:E; cbn [bind]; try discriminate.
    intros H. inversion H; subst. cbn. eapply call_write_nobody_aext. exact E.
  - destruct (is_body _); [intros H; inversion H; apply aext_refl|].
    destruct (call_write_body (i_call f) [] cap) as [[[c n] o]| |] eqn:E; cbn [bind]; try discriminate.
    intros H. inversion H; subst. cbn. eapply call_write_body_aext. exact E.
Qed.

Lemma send_request_proceed_faext f t f' : send_request_proceed f = Ok (Some (t, f')) -> faext f f'.
Proof.
  unfold send_request_proceed, faext, req_of.
  destruct (send_request_can_proceed f) as [ok| |]; cbn [bind]; try discriminate.
  destruct (negb ok); [discriminate|].
  destruct (i_should_send_body f).
  - destruct (i_await_100 f); [intros H; inversion H; apply aext_refl|].
    destruct (analyze_request (i_call f)) as [c| |] eqn:E; cbn [bind]; try discriminate.
    intros H. inversion H; subst. cbn. apply analyze_request_aext. exact E.
  - destruct (i_holder f); try discriminate.
    destruct (into_receive (i_call f)) as [c| |] eqn:E; try discriminate.
    intros H. inversion H; subst. cbn. apply aext_eq. apply into_receive_req. exact E.
Qed.



Lemma try_read_100_faext f input : faext f (fst (try_read_100 f input)).
Proof.
  unfold try_read_100, faext.
  assert (Hr : forall X : inner * res N,
             match refuse f with
             | Ok f' => (f', Ok 0) | Err e => (f, Err e) | Panic s => (f, Panic s) end = X ->
             aext (req_of f) (req_of (fst X))).
  { intros X <-. destruct (refuse f) as [f'| |] eqn:E; cbn [fst]; try apply aext_refl.
    apply aext_eq. apply refuse_req. exact E. }
  destruct (try_parse_response 0 input) as [[[used r]|]|e|s]; cbn [fst]; try apply aext_refl.
  - destruct (rs_status r =? 100).
    + destruct (i_should_send_body f); apply aext_refl.
    + apply Hr. reflexivity.
  - destruct e; try apply aext_refl. apply Hr. reflexivity.
Qed.

Lemma await_100_proceed_faext f t f' : await_100_proceed f = Ok (t, f') -> faext f f'.
Proof.
  unfold await_100_proceed, faext, req_of. destruct (i_should_send_body f).
  - destruct (analyze_request (i_call f)) as [c| |] eqn:E; cbn [bind]; try discriminate.
    intros H. inversion H; subst. cbn. apply analyze_request_aext. exact E.
  - destruct (i_holder f); try discriminate. intros H. inversion H. apply aext_refl.
Qed.



Lemma send_body_write_faext f input cap f' n out :
  send_body_write f input cap = Ok (f', n, out) -> faext f f'.
Proof.
  unfold send_body_write, faext, req_of.
  destruct (as_with_body f) as [c| |] eqn:Ec; cbn [bind]; try discriminate.
  apply as_with_body_call in Ec. subst c.
  destruct (call_write_body (i_call f) input cap) as [[[c' u] o]| |] eqn:E; cbn [bind]; try discriminate.
  intros H. inversion H; subst. cbn. eapply call_write_body_aext. exact E.
Qed.

Lemma send_body_direct_faext f amount f' : send_body_direct f amount = Ok f' -> faext f f'.
Proof.
  unfold send_body_direct, faext, req_of.
  destruct (as_with_body f) as [c| |] eqn:Ec; cbn [bind]; try discriminate.
  apply as_with_body_call in Ec. subst c.
  destruct (call_direct_write (i_call f) amount) as [c'| |] eqn:E; cbn [bind]; try discriminate.
  intros H. inversion H; subst. cbn. apply aext_eq. eapply call_direct_write_req. exact E.
Qed.

Lemma send_body_proceed_faext f t f' : send_body_proceed f = Ok (Some (t, f')) -> faext f f'.
Proof.
  unfold send_body_proceed, faext, req_of.
  destruct (send_body_can_proceed f) as [ok| |]; cbn [bind]; try discriminate.
  destruct (negb ok); [discriminate|].
  destruct (into_receive (i_call f)) as [c| |] eqn:E; try discriminate.
  intros H. inversion H; subst. cbn. apply aext_eq. apply into_receive_req. exact E.
Qed.

Lemma recv_try_response_faext f input f' used got :
  recv_try_response f input = Ok (f', used, got) -> faext f f'.
Proof.
  unfold recv_try_response, faext, req_of.
  destruct (as_recv_response f) as [c| |] eqn:Ec; cbn [bind]; try discriminate.
  assert (c = i_call f) as ->.
  { unfold as_recv_response in Ec. destruct (i_holder f); try discriminate. inversion Ec. reflexivity. }
  destruct (call_try_response (i_call f) input) as [[c' g]| |] eqn:E; cbn [bind]; try discriminate.
  apply call_try_response_req in E.
  destruct g as [[u rsp]|].
  - destruct (_ && _).
    + intros H. inversion H; subst. cbn. apply aext_eq. exact E.
    + match goal with |- (do rs <- ?X; _) = _ -> _ => destruct X as [rs| |] end; cbn [bind];
        try discriminate.
      intros H. inversion H; subst. cbn. apply aext_eq. exact E.
  - intros H. inversion H; subst. cbn. apply aext_eq. exact E.
Qed.

Lemma recv_response_proceed_faext f t f' : recv_response_proceed f = Ok (Some (t, f')) -> faext f f'.
Proof.
  unfold recv_response_proceed, faext, req_of.
  destruct (recv_response_can_proceed f) as [ok| |]; cbn [bind]; try discriminate.
  destruct (negb ok); [discriminate|].
  destruct (need_response_body (i_call f)).
  - match goal with |- (do rs <- ?X; _) = _ -> _ => destruct X as [rs| |] end; cbn [bind];
      try discriminate.
    intros H. inversion H; subst. cbn. apply aext_refl.
  - intros H. inversion H; subst. cbn. apply aext_refl.
Qed.



Lemma recv_body_read_faext f input cap f' i o : recv_body_read f input cap = Ok (f', i, o) -> faext f f'.
Proof.
  unfold recv_body_read, faext, req_of.
  destruct (as_recv_body f) as [c| |] eqn:Ec; cbn [bind]; try discriminate.
  apply as_recv_body_call in Ec. subst c.
  destruct (call_read (i_call f) input cap) as [[[c' i'] o']| |] eqn:E; cbn [bind]; try discriminate.
  intros H. inversion H; subst. cbn. apply aext_eq. eapply call_read_req. exact E.
Qed.

Lemma recv_body_stop_faext f b f' : recv_body_stop f b = Ok f' -> faext f f'.
Proof.
  unfold recv_body_stop, faext, req_of.
  destruct (as_recv_body f) as [c| |] eqn:Ec; cbn [bind]; try discriminate.
  apply as_recv_body_call in Ec. subst c.
  intros H. inversion H; subst. cbn. apply aext_refl.
Qed.

Lemma recv_body_proceed_faext f t f' : recv_body_proceed f = Ok (Some (t, f')) -> faext f f'.
Proof.
  unfold recv_body_proceed.
  destruct (recv_body_can_proceed f) as [ok| |]; cbn [bind]; try discriminate.
  destruct (negb ok); [discriminate|]. intros H. inversion H; subst. apply faext_refl.
Qed.

(** A failed body read leaves the flow as [recv_body_after_err] (the chunked decoder keeps the state
    it reached, proofs/AfterErr.v): the request is not touched. *)
Lemma recv_body_after_err_faext f input cap : faext f (recv_body_after_err f input cap).
Proof. unfold faext, req_of. apply aext_eq. apply recv_body_after_err_req. Qed.
