(** C14, additions after review 3 (top finding 1): the relative-base case.

    A request in origin form ("GET /x" with an explicit Host field, no scheme and no authority in the
    URI) is accepted by the analysis (C17).  When such a request is answered by a followed 3xx,
    [AmendedRequest::new_uri_from_location] cannot parse the effective URI as a URL.  That used to be
    an [expect] (a panic reachable from accepted input: finding F19); the code now reports
    [Error::BadLocationHeader], and so does the model ([as_new_flow], Flow.v, the branch on
    [u_scheme (am_eff_uri prev)]).  Consequences proved here:

    - [relative_base_error]: with a scheme-less current URI every Location gives an error, no flow;
    - [as_new_flow_no_panic_strong]: the third conjunct of [redirect_ready] (absolute current URI)
      is not needed for "never a panic";
    - [as_new_flow_outcomes_all]: the complete case analysis without that conjunct;
    - concrete histories of Script operations that reach the error branches. *)
From Coq Require Import Lia ZArith List.
From Hoot Require Import Base Chunk Body Httparse Parser Url Request Call Flow Script.
From Hoot.proofs Require Import BytesLemmas C17_proofs C02_proofs C02_analysis C14_proofs.
Open Scope N_scope.

(** What is left of [redirect_ready]: a status was recorded (true in the Redirect state,
    [redirect_has_status]) and the request has not been taken by an earlier [as_new_flow] (F18). *)
Definition redirect_state (f : inner) : Prop :=
  i_status f <> None /\ am_req (c_req (i_call f)) <> None.

Lemma redirect_ready_state f : redirect_ready f -> redirect_state f.
Proof. intros (A & B & _). split; assumption. Qed.

Lemma redirect_ready_split f :
  redirect_ready f <-> redirect_state f /\ u_scheme (cur_uri f) <> [].
Proof. unfold redirect_ready, redirect_state. tauto. Qed.

(** Scheme-less current URI: whatever the Location, an error; never a flow, never a panic. *)
Lemma relative_base_error f p :
  i_status f <> None -> u_scheme (cur_uri f) = [] ->
  as_new_flow f p = match i_location f with
                    | None => Err NoLocationHeader
                    | Some _ => Err BadLocationHeader
                    end.
Proof.
  intros Hs Hu. unfold as_new_flow. fold (cur_uri f).
  destruct (i_location f) as [loc|]; [|reflexivity].
  destruct (is_text loc); cbn [negb]; [|reflexivity].
  destruct (i_status f); [|congruence].
  rewrite Hu. reflexivity.
Qed.

Lemma relative_base_error_loc f p loc :
  i_location f = Some loc -> i_status f <> None -> u_scheme (cur_uri f) = [] ->
  as_new_flow f p = Err BadLocationHeader.
Proof. intros Hl Hs Hu. rewrite (relative_base_error f p Hs Hu), Hl. reflexivity. Qed.

(** Complete case analysis in the Redirect state, for every Location value and every current URI. *)
Lemma as_new_flow_outcomes_all f p :
  redirect_state f ->
  (i_location f = None /\ as_new_flow f p = Err NoLocationHeader) \/
  (exists loc, i_location f = Some loc /\
     ((is_text loc = false \/ u_scheme (cur_uri f) = [] \/ resolve (cur_uri f) loc = None) /\
      as_new_flow f p = Err BadLocationHeader
      \/ is_text loc = true /\ u_scheme (cur_uri f) <> [] /\
         exists target, resolve (cur_uri f) loc = Some target /\
           (as_new_flow f p = Ok (f, None) \/
            exists f' next, as_new_flow f p = Ok (f', Some next) /\ cur_uri next = target))).
Proof.
  intros (Hs & Hq).
  destruct (u_scheme (cur_uri f)) as [|s0 s1] eqn:Hu.
  - rewrite (relative_base_error f p Hs Hu).
    destruct (i_location f) as [loc|]; [|left; split; reflexivity].
    right. exists loc. split; [reflexivity|]. left. split; [right; left; reflexivity|reflexivity].
  - assert (Hr : redirect_ready f).
    { split; [exact Hs|]. split; [exact Hq|]. rewrite Hu. discriminate. }
    destruct (as_new_flow_outcomes f p Hr) as [H|(loc & Hl & H)]; [left; exact H|].
    right. exists loc. split; [exact Hl|].
    destruct H as [([H|H] & He)|(Ht & target & Hres & H)].
    + left. split; [left; exact H|exact He].
    + left. split; [right; right; exact H|exact He].
    + right. split; [exact Ht|]. split; [discriminate|]. exists target. split; [exact Hres|exact H].
Qed.

Lemma as_new_flow_no_panic_strong f p site : redirect_state f -> as_new_flow f p <> Panic site.
Proof.
  intros Hr.
  destruct (as_new_flow_outcomes_all f p Hr)
    as [[_ H]|(loc & _ & [[_ H]|(_ & _ & t & _ & [H|(f' & n & H & _)])])];
    rewrite H; discriminate.
Qed.

(** Both remaining conjuncts are needed: exact description of the panics of [as_new_flow]. *)
Lemma as_new_flow_panic_cases f p site :
  as_new_flow f p = Panic site ->
  (i_status f = None /\ site = "flow.rs: status.unwrap() in as_new_flow"%string) \/
  (am_req (c_req (i_call f)) = None /\ u_scheme (cur_uri f) <> [] /\
   site = "amended.rs: body.unwrap() in take_request"%string).
Proof.
  intros H0. pose proof H0 as H. unfold as_new_flow in H. fold (cur_uri f) in H.
  destruct (i_location f) as [loc|]; [|discriminate].
  destruct (negb (is_text loc)); [discriminate|].
  destruct (i_status f) as [status|] eqn:Es; [|inversion H; auto].
  destruct (u_scheme (cur_uri f)) as [|s0 s1]; [discriminate|].
  destruct (resolve (cur_uri f) loc) as [target|]; [|discriminate].
  match type of H with
  | match ?X with Some nm => _ | None => Ok (f, None) end = _ => destruct X as [nm|]
  end; [|discriminate].
  destruct (am_req (c_req (i_call f))) as [orig|] eqn:Er.
  - exfalso. apply (as_new_flow_no_panic_strong f p site); [|exact H0].
    split; congruence.
  - inversion H. right. split; [reflexivity|]. split; [discriminate|reflexivity].
Qed.

(* ------------------------------------------------------------------ histories of Script operations *)

(** One exchange driven through [Script.step] up to the Redirect state: create the flow, write the
    head, read a 302 without body carrying the given Location fields, proceed. *)
Definition to_redirect (r : request) (locs : list bytes) : list op :=
  let rsp := redirect_response (s2b "302") locs in
  [ONew r; OProceed; OWriteHead 4096; OProceed; OSetStream rsp; OArrive (len rsp); OTryResponse; OProceed].

Definition redirect_flow_of (r : request) (locs : list bytes) : inner :=
  match s_obj (run_ops s_init (to_redirect r locs)) with ObFlow TRedirect f => f | _ => dummy_flow end.

(** What [as_new_flow] reports to the script (the harness replays the same line against the crate). *)
Definition redirect_obs (r : request) (locs : list bytes) (p : auth_policy) : list tok :=
  snd (step (run_ops s_init (to_redirect r locs)) (OAsNewFlow p)).

(** The head the script wrote (third operation). *)
Definition head_obs (r : request) : list tok :=
  snd (step (run_ops s_init [ONew r; OProceed]) (OWriteHead 4096)).

(** An origin-form request: no scheme, no authority; Host given by the caller. *)
Definition rel_req : request :=
  {| rq_method := GET; rq_version := V11;
     rq_uri := {| u_scheme := []; u_auth := []; u_pq := s2b "/x" |};
     rq_headers := [(s2b "host", s2b "a.test")] |}.

(** The review's scenario (F19), now an error: the request is accepted, its head is written, the
    302 is read, the flow is in Redirect with a status and its request -- and a scheme-less URI;
    following the redirect reports BadLocationHeader for every kind of Location, with either policy. *)
Lemma relative_base_script :
  let f := redirect_flow_of rel_req [s2b "http://b.test/y"] in
  call_invalid (i_call (start_flow rel_req)) = false /\
  head_obs rel_req = [w "ok"; TN 33; TH (s2b "GET /x HTTP/1.1" ++ CRLF ++ s2b "host: a.test" ++ CRLF ++ CRLF)] /\
  s_obj (run_ops s_init (to_redirect rel_req [s2b "http://b.test/y"])) = ObFlow TRedirect f /\
  redirect_state f /\ u_scheme (cur_uri f) = [] /\ ~ redirect_ready f /\
  i_location f = Some (s2b "http://b.test/y") /\
  as_new_flow f Never = Err BadLocationHeader /\ as_new_flow f SameHost = Err BadLocationHeader /\
  redirect_obs rel_req [s2b "http://b.test/y"] Never = obs_err BadLocationHeader /\
  redirect_obs rel_req [s2b "/y"] SameHost = obs_err BadLocationHeader /\
  redirect_obs rel_req [s2b "../y?q#f"] Never = obs_err BadLocationHeader /\
  redirect_obs rel_req [s2b ""] Never = obs_err BadLocationHeader /\
  redirect_obs rel_req [] Never = obs_err NoLocationHeader.
Proof.
  cbv zeta.
  split; [vm_compute; reflexivity|]. split; [vm_compute; reflexivity|].
  split; [vm_compute; reflexivity|].
  split; [split; vm_compute; discriminate|].
  split; [vm_compute; reflexivity|].
  split; [intros (_ & _ & H); apply H; vm_compute; reflexivity|].
  repeat split; vm_compute; reflexivity.
Qed.

(** The error branches of [as_new_flow_outcomes] with an absolute request, reached by the script:
    a Location with an empty authority, one with a port beyond 65535, one that is not text
    (a byte >= 0x80, which the response parser accepts in a field value), and no Location at all;
    and for comparison a resolvable one. *)
Definition abs_req : request := get_request "http" "a.test" "/x/y" [].

Lemma error_branches_script :
  let f1 := redirect_flow_of abs_req [s2b "//"] in
  let f2 := redirect_flow_of abs_req [s2b "http://h:99999/"] in
  let f3 := redirect_flow_of abs_req [s2b "/caf" ++ [195; 169]] in
  let f4 := redirect_flow_of abs_req [] in
  (redirect_ready f1 /\ i_location f1 = Some (s2b "//") /\ is_text (s2b "//") = true /\
   resolve (cur_uri f1) (s2b "//") = None /\
   redirect_obs abs_req [s2b "//"] Never = obs_err BadLocationHeader) /\
  (redirect_ready f2 /\ i_location f2 = Some (s2b "http://h:99999/") /\
   resolve (cur_uri f2) (s2b "http://h:99999/") = None /\
   redirect_obs abs_req [s2b "http://h:99999/"] SameHost = obs_err BadLocationHeader) /\
  (redirect_ready f3 /\ i_location f3 = Some (s2b "/caf" ++ [195; 169]) /\
   is_text (s2b "/caf" ++ [195; 169]) = false /\
   redirect_obs abs_req [s2b "/caf" ++ [195; 169]] Never = obs_err BadLocationHeader) /\
  (redirect_ready f4 /\ i_location f4 = None /\
   redirect_obs abs_req [] Never = obs_err NoLocationHeader) /\
  redirect_obs abs_req [s2b "//"; s2b "z"] Never = [w "some"].
Proof.
  cbv zeta.
  assert (R : forall f, i_status f <> None -> am_req (c_req (i_call f)) <> None ->
                        u_scheme (cur_uri f) <> [] -> redirect_ready f)
    by (intros f A B C; split; [exact A|split; [exact B|exact C]]).
  repeat split; try (apply R; vm_compute; discriminate); vm_compute; reflexivity.
Qed.
